#!/bin/bash
# Robustness smoke test: every check, cut short by a small budget, must end with exit 0 and exhaustive:false
# (never a harness error or a violation because a family was not reached).
# usage: tools/capped_smoke.sh [budget, default 40s] [ids...]
cd /verif
b=${1:-40s}; shift
ids=${*:-$(jq -r '.checks[].property_id' MANIFEST.json | sort -u)}
for id in $ids; do
  VERIF_EVIDENCE_DIR=/verif/.build/smoke_evidence VERIF_REPLAY_DIR=/verif/.build/smoke_replays ./check $id thorough -budget $b > /tmp/smoke_$id.out 2>&1; rc=$?
  echo "SMOKE $id rc=$rc $(tail -1 /tmp/smoke_$id.out | cut -c1-120)"
done
rm -rf /verif/.build/smoke_evidence /verif/.build/smoke_replays
