#!/bin/bash
# usage: tools/try_seed.sh Cxx [other check ids...]
# Verifies a seeded change produced in /tmp/wt_Cxx/SEED (patch.diff + demo test) on a private copy of /repo:
#  1. patch applies and builds; 2. tests of touched packages pass with the patch; 3. demo fails with the patch and
#  passes without; 4. runs ./check <ids> quick against the patched copy (VERIF_REPO) and reports VIOLATION lines.
set -u
id=$1; shift
checks=("$id" "$@")
wt=/tmp/wt_$id
T=/tmp/seedtry_$id
export GOFLAGS=-mod=mod GOPROXY=off GOSUMDB=off GOTOOLCHAIN=local GOCACHE=/verif/.cache/go-build
rm -rf "$T"; cp -r /repo "$T"; rm -rf "$T/.git/worktrees"; (cd "$T" && git clean -fdXq)
cd "$T" || exit 2
git apply "$wt/SEED/patch.diff" || { echo "RESULT $id: patch does not apply"; exit 1; }
go build ./... || { echo "RESULT $id: build fails"; exit 1; }
pkgs=$(git diff --name-only | grep '\.go$' | xargs -n1 dirname | sort -u | sed 's#^#./#')
echo "touched packages: $pkgs"
if go test -vet=off -count=1 $pkgs > /tmp/seedtry_$id.tests 2>&1; then echo "existing tests: PASS"; else echo "existing tests: FAIL"; tail -20 /tmp/seedtry_$id.tests; fi
# demo files
demos=$(cd "$wt" && git status --porcelain | grep '^??' | awk '{print $2}' | grep -v '^SEED/' )
echo "demo files: $demos"
for d in $demos; do mkdir -p "$(dirname "$T/$d")"; cp -r "$wt/$d" "$T/$d"; done
dpk=$(for d in $demos; do dirname "$d"; done | sort -u | sed 's#^#./#')
if go test -vet=off -count=1 -run 'Seed|seed|Demo|demo' $dpk > /tmp/seedtry_$id.demo_with 2>&1; then echo "demo WITH change: PASS (unexpected)"; else echo "demo WITH change: FAIL (expected)"; fi
git stash -q -- $(git diff --name-only) 2>/dev/null || git checkout -q -- $(git diff --name-only)
if go test -vet=off -count=1 -run 'Seed|seed|Demo|demo' $dpk > /tmp/seedtry_$id.demo_without 2>&1; then echo "demo WITHOUT change: PASS (expected)"; else echo "demo WITHOUT change: FAIL (unexpected)"; tail -15 /tmp/seedtry_$id.demo_without; fi
git stash pop -q 2>/dev/null || git apply "$wt/SEED/patch.diff"
for d in $demos; do rm -rf "$T/$d"; done
cd /verif
for c in "${checks[@]}"; do
  s=$(date +%s)
  VERIF_REPO=$T ./check $c quick > /tmp/seedtry_${id}_$c.out 2>&1; rc=$?
  e=$(date +%s)
  echo "check $c quick on seeded $id: rc=$rc wall=$((e-s))s violations=$(grep -c '^VIOLATION' /tmp/seedtry_${id}_$c.out)"
  grep -A1 '^VIOLATION' /tmp/seedtry_${id}_$c.out | grep signature | head -4
done
rm -rf "$T"
