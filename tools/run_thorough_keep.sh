#!/bin/bash
# runs the named thorough checks sequentially, logs to /tmp/thorough_<id>.out, keeps a copy of each thorough evidence
# file in /verif/evidence_thorough/ (evidence/<id>.json is rewritten by the next quick run)
cd /verif
for id in "$@"; do
  s=$(date +%s)
  ./check $id thorough > /tmp/thorough_$id.out 2>&1; rc=$?
  e=$(date +%s)
  echo "$id rc=$rc wall=$((e-s))s $(tail -1 /tmp/thorough_$id.out)" >> /tmp/thorough_summary.txt
  [ "$(jq -r .tier evidence/$id.json)" = thorough ] && cp evidence/$id.json evidence_thorough/$id.json
done
