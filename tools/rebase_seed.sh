#!/bin/bash
# usage: tools/rebase_seed.sh <seed dir name>   — re-expresses seeded/<name>/patch.diff on the current /repo tree when a later
# fix: commit touched its context (git apply --3way on a private copy); the patch as produced is kept next to it.
set -u
name=$1; D=/verif/seeded/$name; T=/tmp/rebase_$name
export GOFLAGS=-mod=mod GOPROXY=off GOSUMDB=off GOTOOLCHAIN=local GOCACHE=/verif/.cache/go-build
rm -rf $T; cp -r /repo $T; rm -rf $T/.git/worktrees; cd $T && git reset -q --hard && git clean -fdXq
if git apply --check $D/patch.diff 2>/dev/null; then echo "$name: applies as is"; rm -rf $T; exit 0; fi
if git apply --3way $D/patch.diff 2>/tmp/rebase_$name.err && ! git diff --name-only --diff-filter=U | grep -q .; then
  go build ./... || { echo "$name: 3-way result does not build"; exit 1; }
  git diff HEAD > /tmp/rebase_$name.diff
  ls $D/patch_as_produced* >/dev/null 2>&1 || cp $D/patch.diff $D/patch_as_produced_before_fix.diff.txt
  cp /tmp/rebase_$name.diff $D/patch.diff
  python3 - "$D" <<'PY'
import json, sys, subprocess
d = sys.argv[1]
h = subprocess.run(['git', '-C', '/repo', 'log', '--format=%h', '-1'], capture_output=True, text=True).stdout.strip()
m = json.load(open(d + '/meta.json'))
m['rebased'] = (m.get('rebased', '') + ' ' if m.get('rebased') else '') + f"patch.diff re-expressed (git apply --3way, same change) on the tree at {h} after a later fix touched its context; the patch as produced is kept next to it"
json.dump(m, open(d + '/meta.json', 'w'), indent=1)
PY
  echo "$name: rebased"
else
  echo "$name: 3-way merge failed (conflict) — rebase by hand"; cat /tmp/rebase_$name.err | head -5
fi
rm -rf $T
