#!/usr/bin/env python3
"""usage: seed_setup.py <round> <Cxx>...   — creates a scratch git worktree /tmp/wt<round>_<Cxx> of /repo (HEAD) holding
SEED/PROPERTY.txt (the text of the property only) and SEED/TASK.md (tools/seed_prompt.txt + the one-line ideas of the
earlier rounds to avoid). Nothing from /verif other than the property text is given to the seeding sub-agent."""
import json, os, subprocess, sys, glob
rnd = sys.argv[1]
props = {json.loads(l)['id']: json.loads(l) for l in open('/verif/properties.jsonl')}
prompt = open('/verif/tools/seed_prompt.txt').read()
for pid in sys.argv[2:]:
    wt = f'/tmp/wt{rnd}_{pid}'
    subprocess.run(['git', '-C', '/repo', 'worktree', 'remove', '--force', wt], capture_output=True)
    subprocess.run(['rm', '-rf', wt])
    subprocess.run(['git', '-C', '/repo', 'worktree', 'add', '--detach', wt, 'HEAD'], check=True, capture_output=True)
    os.makedirs(wt + '/SEED', exist_ok=True)
    p = props[pid]
    a = p.get('anchors', {})
    txt = f"{p['id']}: {p['title']}\n\nStatement: {p['statement']}\n\nQuantified over: {p['quantifier']['text']}\n\nWhy example tests cannot settle it: {p.get('why_tests_cant','')}\n\nAnchored in files: {', '.join(a.get('files', []))}\nMechanisms: " + '; '.join(f"{m['name']} ({m['where']})" for m in a.get('mechanism', [])) + "\nState: " + '; '.join(f"{m['name']} ({m['where']})" for m in a.get('state', [])) + "\n"
    open(wt + '/SEED/PROPERTY.txt', 'w').write(txt)
    avoid = []
    for d in sorted(glob.glob(f'/verif/seeded/{pid}*')):
        m = json.load(open(d + '/meta.json'))
        avoid.append('- ' + m.get('needs_to_manifest', '').split(':')[0][:160])
    t = prompt.replace('{WT}', wt)
    t += "\n\nNever use `git stash` (the stash is shared between worktrees): to test without your change use `git diff -- . ':!SEED' > SEED/x.diff; git apply -R SEED/x.diff; ...; git apply SEED/x.diff`.\n"
    if avoid:
        t += "\nEarlier testers already used the following ideas — pick a DIFFERENT mechanism, code site and manifestation condition (another clause of the property, another component among the anchored files, another kind of trigger):\n" + '\n'.join(avoid) + '\n'
    open(wt + '/SEED/TASK.md', 'w').write(t)
    print(wt)
