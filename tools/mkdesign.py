#!/usr/bin/env python3
"""Regenerates the generated blocks of /verif/DESIGN.md (between <!-- GEN:name --> and <!-- /GEN:name -->)
from the committed artefacts: tools/manifest_src.json, evidence/*.json, evidence_thorough/*.json,
known_findings.jsonl, seeded/*/meta.json, benign/results.json.  Text outside the markers is hand-written."""
import json, glob, os, re, subprocess, collections

V = '/verif'


def n(x):
    return f"{x:,}"


def cov_summary(e):
    c = e['coverage']
    parts = []
    if 'evaluations' in c:
        parts.append(f"{n(c['evaluations'])} evaluations / {n(c.get('distinct_nontrivial', 0))} non-trivial")
    if 'states' in c:
        parts.append(f"{n(c['states'])} states / {n(c['transitions'])} transitions / {n(c.get('traces_validated_against_impl', 0))} real executions")
    parts.append(f"{c.get('distinct_outcomes', 0)} distinct outcomes")
    if not c.get('exhaustive', True):
        parts.append("budget hit: exhaustive=false")
    return '; '.join(parts)


def checks_table():
    src = json.load(open(f'{V}/tools/manifest_src.json'))
    rows = ["| id | level | quick run (committed evidence) | quick wall | thorough run (evidence_thorough/) | thorough wall |",
            "|----|-------|---------------------------------|-----------|------------------------------------|---------------|"]
    for ch in sorted(src['checks'], key=lambda c: c['property_id']):
        pid = ch['property_id']
        q = t = None
        p = f'{V}/evidence/{pid}.json'
        if os.path.exists(p):
            e = json.load(open(p))
            if e['tier'] == 'quick':
                q = e
        p = f'{V}/evidence_thorough/{pid}.json'
        if os.path.exists(p):
            t = json.load(open(p))
        rows.append(f"| {pid} | {ch['category']} | {cov_summary(q) if q else '-'} | {str(round(q['wall_s']))+' s' if q else '-'} | {cov_summary(t) if t else '-'} | {str(round(t['wall_s']))+' s' if t else '-'} |")
    return '\n'.join(rows)


def findings():
    fixed, known = [], collections.OrderedDict()
    for line in open(f'{V}/known_findings.jsonl'):
        line = line.strip()
        if not line or line.startswith('#'):
            continue
        d = json.loads(line)
        if d['status'] == 'fixed':
            what = re.sub(r'^fixed: property=\S+ \S+ ', '', d['what'])
            key = (d['property'], d['commit'], what)
            if key not in fixed:
                fixed.append(key)
        else:
            known.setdefault((d['property'], d['what']), []).append(d['signature'])
    return fixed, known


def fixed_list():
    fixed, _ = findings()
    log = subprocess.run(['git', '-C', '/repo', 'log', '--format=%h %s'], capture_output=True, text=True).stdout
    hashes = {l.split()[0]: l for l in log.splitlines()}
    out = []
    for prop, commit, what in sorted(fixed, key=lambda k: k[0]):
        mark = '' if any(h.startswith(commit) or commit.startswith(h) for h in hashes) else ' (commit not found in /repo log!)'
        out.append(f"* **{prop}** `{commit}`{mark} — {what}")
    ncommits = len([l for l in log.splitlines() if l.split(' ', 1)[1].startswith('fix:')])
    return f"{ncommits} `fix:` commits in /repo; {len(fixed)} (property, commit) entries:\n\n" + '\n'.join(out)


def known_list():
    _, known = findings()
    out = []
    for (prop, what), sigs in sorted(known.items(), key=lambda kv: kv[0][0]):
        out.append(f"* **{prop}** ({len(sigs)} signature{'s' if len(sigs) > 1 else ''}) — {what}")
    return '\n'.join(out)


def seeded_table(round_):
    rows = ["| seeded change | what it needs to manifest | caught by | note |", "|---|---|---|---|"]
    for d in sorted(glob.glob(f'{V}/seeded/C*')):
        name = os.path.basename(d)
        m_ = re.search(r'-r(\d+)$', name)
        if (int(m_.group(1)) if m_ else 1) != round_:
            continue
        mp = f'{d}/meta.json'
        if not os.path.exists(mp):
            continue
        m = json.load(open(mp))
        note = 'caught as built' if m.get('caught_as_built') else (m.get('strengthening') or m.get('note') or '')
        need = m.get('needs_to_manifest', '').replace('|', '\\|').replace('\n', ' ')
        rows.append(f"| {name} | {need} | {', '.join(m.get('caught_by', [])) or 'NOT CAUGHT'} | {note.replace('|', chr(92)+'|')} |")
    return '\n'.join(rows)


def benign_table():
    p = f'{V}/benign/results.json'
    if not os.path.exists(p):
        return '(no results recorded)'
    res = json.load(open(p))
    rows = ["| behaviour-preserving change | checks run against it | result |", "|---|---|---|"]
    for name, d in sorted(res.items()):
        rows.append(f"| {name}: {d['what']} | {', '.join(d['checks'])} | {d['result']} |")
    return '\n'.join(rows)


GEN = {'checks': checks_table, 'fixed': fixed_list, 'known': known_list,
       'seeded1': lambda: seeded_table(1), 'seeded2': lambda: seeded_table(2), 'seeded3': lambda: seeded_table(3), 'seeded4': lambda: seeded_table(4), 'seeded5': lambda: seeded_table(5), 'seeded6': lambda: seeded_table(6), 'seeded7': lambda: seeded_table(7), 'seeded8': lambda: seeded_table(8), 'seeded9': lambda: seeded_table(9), 'seeded10': lambda: seeded_table(10), 'benign': benign_table}

s = open(f'{V}/DESIGN.md').read()
for name, fn in GEN.items():
    pat = re.compile(r'(<!-- GEN:%s -->\n).*?(\n<!-- /GEN:%s -->)' % (name, name), re.S)
    if not pat.search(s):
        print('marker missing:', name)
        continue
    body = fn()
    s = pat.sub(lambda m: m.group(1) + body + m.group(2), s)
open(f'{V}/DESIGN.md', 'w').write(s)
print('DESIGN.md regenerated')
