#!/bin/bash
# usage: tools/seed_collect.sh <round> <Cxx> "<needs_to_manifest>"
# Copies the deliverables of a seeding sub-agent from its scratch worktree /tmp/wt<round>_<Cxx> into
# /verif/seeded/<Cxx>-r<round>/, verifies them on a private copy of /repo (patch applies and builds; tests of the touched
# packages pass with the change; the demonstration fails with the change and passes without it), writes meta.json and
# removes the worktree. Prints VERIFIED or NOT-VERIFIED.
set -u
export GOFLAGS=-mod=mod GOPROXY=off GOSUMDB=off GOTOOLCHAIN=local GOCACHE=/verif/.cache/go-build
R=$1; P=$2; NEED=${3:-}
WT=/tmp/wt${R}_$P; D=/verif/seeded/$P-r$R; T=/tmp/seedverify_$P
[ -d $WT/SEED ] || { echo "no $WT/SEED"; exit 2; }
mkdir -p $D
cp $WT/SEED/patch.diff $D/patch.diff || exit 2
[ -f $WT/SEED/NOTES.md ] && cp $WT/SEED/NOTES.md $D/NOTES.md
# demonstration files = untracked go files in the worktree outside SEED
demos=$(cd $WT && git ls-files --others --exclude-standard | grep -v '^SEED/' | grep '\.go$')
rm -f $D/demo__*
for f in $demos; do cp $WT/$f $D/demo__$(echo $f | sed 's#/#__#g').txt; done
rm -rf $T; cp -r /repo $T; rm -rf $T/.git/worktrees; (cd $T && git clean -fdXq)
cd $T
ok=1; log=""
git apply $D/patch.diff && go build ./... || { echo "NOT-VERIFIED $P: patch does not apply/build"; rm -rf $T; exit 1; }
pkgs=$(grep '^+++ b/' $D/patch.diff | sed 's#^+++ b/##' | xargs -n1 dirname | sort -u | sed 's#^#./#')
if grep '^+++ b/' $D/patch.diff | grep -q '_test.go'; then echo "NOT-VERIFIED $P: patch touches test files"; ok=0; fi
if go test -vet=off -count=1 $pkgs > /tmp/seedverify_$P.tests 2>&1; then
  log="existing tests of $pkgs pass with the change"
else
  # load-sensitive tests (SendFile compression in the root package) fail sporadically on a busy machine: re-run exactly
  # the failed tests, alone, up to 3 times; they count as passing when they pass alone
  failed=$(grep -E '^--- FAIL: ' /tmp/seedverify_$P.tests | sed 's/^--- FAIL: \([^ ]*\).*/\1/' | cut -d/ -f1 | sort -u | paste -sd'|')
  pass=0
  for attempt in 1 2 3; do
    if [ -n "$failed" ] && go test -vet=off -count=1 -run "^($failed)\$" $pkgs > /tmp/seedverify_$P.tests2 2>&1; then pass=1; break; fi
  done
  if [ $pass = 1 ]; then log="existing tests of $pkgs pass with the change ($failed failed once in the full run under load and passed when re-run alone)"
  else ok=0; log="existing tests FAIL with the change: $failed"; fi
fi
demolog=""
for f in $demos; do cp $WT/$f $T/$f; done
dpk=$(for f in $demos; do echo ./$(dirname $f); done | sort -u)
names=$(cat $(for f in $demos; do echo $T/$f; done) 2>/dev/null | grep -oE '^func (Test[A-Za-z0-9_]+)' | sed 's/func //' | paste -sd'|')
if [ -n "$names" ]; then
  if go test -vet=off -count=1 -run "^($names)\$" $dpk > /tmp/seedverify_$P.demo1 2>&1; then ok=0; demolog="demo PASSES with the change (should fail)"; else demolog="demo fails with the change"; fi
  git apply -R $D/patch.diff
  if go test -vet=off -count=1 -run "^($names)\$" $dpk > /tmp/seedverify_$P.demo2 2>&1; then demolog="$demolog; passes without it"; else ok=0; demolog="$demolog; demo FAILS without the change too"; fi
else
  ok=0; demolog="no Go test demonstration found"
fi
cd /verif
python3 - "$D" "$P" "$R" "$NEED" "$log" "$demolog" "$ok" $demos <<'PY'
import json, sys
d, p, r, need, log, demolog, ok = sys.argv[1:8]
demos = sys.argv[8:]
meta = {"property": p, "round": int(r),
        "produced_by": "fresh sub-agent given only the property text, a scratch git worktree of /repo and the one-line ideas of the earlier rounds' changes to avoid (nothing from /verif)",
        "needs_to_manifest": need,
        "demonstration": [{"file": "demo__" + f.replace('/', '__') + ".txt", "belongs_at": f} for f in demos],
        "verified_by_me": ["patch applies to a private copy of /repo and builds", log, demolog] if ok == '1' else ["NOT VERIFIED", log, demolog],
        "caught_by": [], "caught_as_built": None, "first_signatures": [], "strengthening": ""}
json.dump(meta, open(d + '/meta.json', 'w'), indent=1)
PY
rm -rf $T
if [ $ok = 1 ]; then echo "VERIFIED $P-r$R: $log; $demolog"; git -C /repo worktree remove --force $WT 2>/dev/null; rm -rf $WT; else echo "NOT-VERIFIED $P-r$R: $log; $demolog (worktree kept)"; fi
