#!/bin/bash
# Free-running -race pass (assumption validation, not a deciding step): prints RACE-NOTE lines, always exits 0.
export GOFLAGS=-mod=mod GOPROXY=off GOSUMDB=off GOTOOLCHAIN=local GOCACHE=/verif/.cache/go-build
cd /verif/mc || exit 0
out=$(go test -race -count=1 -vet=off ./racepass/ 2>&1)
echo "$out" | tail -5
n=$(echo "$out" | grep -c "WARNING: DATA RACE")
echo "RACE-NOTE: free-running -race pass over limiter/cache/idempotency/client bodies: $n data race report(s)"
echo "$out" | grep -A12 "WARNING: DATA RACE" | head -60
exit 0
