#!/usr/bin/env python3
"""usage: note_strengthening.py <Cxx> <seed-dir-name> '<manifest sentence>' '<strengthening note>' — appends the sentence to the
check's text in manifest_src.json and records caught_by/strengthening in the seed's meta.json"""
import json, sys
pid, seed, sentence, note = sys.argv[1:5]
p = '/verif/tools/manifest_src.json'
m = json.load(open(p))
for ch in m['checks']:
    if ch['property_id'] == pid and sentence and sentence not in ch['text']:
        ch['text'] += ' ' + sentence
json.dump(m, open(p, 'w'), indent=1)
p = f'/verif/seeded/{seed}/meta.json'
d = json.load(open(p))
if pid not in d.get('caught_by', []):
    d.setdefault('caught_by', []).append(pid)
d['strengthening'] = note
json.dump(d, open(p, 'w'), indent=1)
