#!/bin/bash
# runs every thorough check sequentially, logs to /tmp/thorough_<id>.out
cd /verif
for id in "$@"; do
  s=$(date +%s)
  ./check $id thorough > /tmp/thorough_$id.out 2>&1; rc=$?
  e=$(date +%s)
  echo "$id rc=$rc wall=$((e-s))s $(tail -1 /tmp/thorough_$id.out)" >> /tmp/thorough_summary.txt
done
