#!/usr/bin/env python3
"""Regenerates /verif/MANIFEST.json from tools/manifest_src.json and validates it."""
import json, sys, os
V = os.path.dirname(os.path.dirname(os.path.abspath(__file__)))
src = json.load(open(os.path.join(V, 'tools', 'manifest_src.json')))
props = [json.loads(l)['id'] for l in open(os.path.join(V, 'properties.jsonl'))]
checks = []
claimed = set()
for c in src['checks']:
    pid = c['property_id']
    claimed.add(pid)
    checks.append({
        'property_id': pid,
        'quick_cmd': c.get('quick_cmd', f'./check {pid} quick'),
        'thorough_cmd': c.get('thorough_cmd', f'./check {pid} thorough'),
        'evidence_file': f'/verif/evidence/{pid}.json',
        'replay_cmd_template': c.get('replay_cmd_template', f'./check {pid} quick -replay {{path}}'),
        'engine': c['engine'],
        'level_claimed': {'category': c['category'], 'text': c['text'], 'design_ref': c.get('design_ref', f'DESIGN.md section 2, {pid}')},
        'level_note': c['level_note'],
        'technique': c['technique'],
    })
na = []
for p in props:
    if p not in claimed:
        na.append({'property_id': p, 'reason': src.get('not_applicable', {}).get(p, 'no check is registered for this property yet (harness under construction); nothing is claimed')})
m = {
    'version': 1,
    'setup_cmd': src['setup_cmd'],
    'hooks': src['hooks'],
    'engines': src['engines'],
    'checks': checks,
    'notes': src['notes'],
    'not_applicable': na,
}
json.dump(m, open(os.path.join(V, 'MANIFEST.json'), 'w'), indent=1)
try:
    import jsonschema
    jsonschema.validate(m, json.load(open('/root/.vp/MANIFEST.schema.json')))
    print('MANIFEST.json valid;', len(checks), 'checks,', len(na), 'not_applicable')
except ImportError:
    print('jsonschema not available; wrote MANIFEST.json unvalidated')
