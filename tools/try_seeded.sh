#!/bin/bash
# usage: tools/try_seeded.sh <seed dir name under /verif/seeded, e.g. C09-r2> <check id> [check id...]
# Applies /verif/seeded/<name>/patch.diff to a private copy of /repo and runs the named quick checks against it.
# A check that catches the change exits 1 with VIOLATION lines.
set -u
name=$1; shift
T=/tmp/seeded_$name
export GOFLAGS=-mod=mod GOPROXY=off GOSUMDB=off GOTOOLCHAIN=local GOCACHE=/verif/.cache/go-build
rm -rf "$T"; cp -r /repo "$T"; rm -rf "$T/.git/worktrees"; (cd "$T" && git clean -fdXq)
(cd "$T" && git apply /verif/seeded/$name/patch.diff && go build ./...) || { echo "SEEDED $name: patch does not apply/build"; rm -rf "$T"; exit 2; }
cd /verif
for c in "$@"; do
  s=$(date +%s)
  VERIF_REPO=$T ./check $c quick > /tmp/seeded_${name}_$c.out 2>&1; rc=$?
  e=$(date +%s)
  echo "SEEDED $name check $c: rc=$rc wall=$((e-s))s violations=$(grep -c '^VIOLATION' /tmp/seeded_${name}_$c.out) $(tail -1 /tmp/seeded_${name}_$c.out)"
  grep -A1 '^VIOLATION' /tmp/seeded_${name}_$c.out | grep signature | head -4
  python3 - "$name" "$c" "$rc" /tmp/seeded_${name}_$c.out <<'PY'
import json, sys, re
name, c, rc, out = sys.argv[1:5]
p = f'/verif/seeded/{name}/meta.json'
try:
    m = json.load(open(p))
except Exception:
    sys.exit(0)
sigs = re.findall(r'^  signature: (.+)$', open(out, errors='replace').read(), re.M)[:4]
if m.get('caught_as_built') is None:            # first trial of this seed decides "as built"
    m['caught_as_built'] = (rc == '1')
    m['first_signatures'] = sigs if rc == '1' else []
if rc == '1' and c not in m.setdefault('caught_by', []):
    m['caught_by'].append(c)
if rc == '1' and not m.get('first_signatures'):
    m['first_signatures'] = sigs
json.dump(m, open(p, 'w'), indent=1)
PY
done
rm -rf "$T" /verif/.build/mod__tmp_seeded_$name
