#!/bin/bash
# Zero-false-alarm trials: applies each behaviour-preserving (or property-allowed) change in /verif/benign to a private
# copy of /repo and runs the named checks; every check must exit 0.
# usage: tools/try_benign.sh            (all)   |   tools/try_benign.sh name check...
set -u
declare -A MAP=(
 [router_single_bucket]="C01 C02 C03 C04 C08"
 [cors_vary_always]="C19"
 [cache_faster_clock]="C14"
 [limiter_header_order]="C13"
 [idempotency_extra_copy]="C17"
 [proxy_check_order]="C10"
 [encryptcookie_blank_with_empty_string]="C20"
 [client_cancel_always_waits]="C18"
)
export GOFLAGS=-mod=mod GOPROXY=off GOSUMDB=off GOTOOLCHAIN=local GOCACHE=/verif/.cache/go-build
names=("${!MAP[@]}")
[ $# -gt 0 ] && names=("$1")
for n in "${names[@]}"; do
  T=/tmp/benigntry_$n
  rm -rf "$T"; cp -r /repo "$T"; rm -rf "$T/.git/worktrees"
  (cd "$T" && git apply /verif/benign/$n.diff && go build ./...) || { echo "BENIGN $n: does not apply/build"; continue; }
  checks=${MAP[$n]}
  [ $# -gt 1 ] && checks="${*:2}"
  for c in $checks; do
    (cd /verif && VERIF_REPO=$T ./check $c quick > /tmp/benigntry_${n}_$c.out 2>&1); rc=$?
    echo "BENIGN $n check $c: rc=$rc $(tail -1 /tmp/benigntry_${n}_$c.out)"
  done
  rm -rf "$T"
done
rm -rf /verif/.build/mod__tmp_benigntry_*
