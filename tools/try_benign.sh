#!/bin/bash
# Zero-false-alarm trials: applies each behaviour-preserving (or property-allowed) change in /verif/benign (index.json:
# what it is, which checks to run) to a private copy of /repo and runs the named checks; every check must exit 0.
# Results are written to /verif/benign/results.json (read by tools/mkdesign.py).
# usage: tools/try_benign.sh            (all)   |   tools/try_benign.sh name [check...]
set -u
export GOFLAGS=-mod=mod GOPROXY=off GOSUMDB=off GOTOOLCHAIN=local GOCACHE=/verif/.cache/go-build
IDX=/verif/benign/index.json
RES=/verif/benign/results.json
[ -f $RES ] || echo '{}' > $RES
names=$(jq -r 'keys[]' $IDX)
[ $# -gt 0 ] && names="$1"
for n in $names; do
  T=/tmp/benigntry_$n
  rm -rf "$T"; cp -r /repo "$T"; rm -rf "$T/.git/worktrees"; (cd "$T" && git clean -fdXq)
  (cd "$T" && git apply /verif/benign/$n.diff && go build ./...) || { echo "BENIGN $n: does not apply/build"; rm -rf "$T"; continue; }
  checks=$(jq -r --arg n "$n" '.[$n].checks[]' $IDX)
  [ $# -gt 1 ] && checks="${*:2}"
  result=""
  for c in $checks; do
    (cd /verif && VERIF_REPO=$T ./check $c quick > /tmp/benigntry_${n}_$c.out 2>&1); rc=$?
    nv=$(grep -c '^VIOLATION' /tmp/benigntry_${n}_$c.out)
    echo "BENIGN $n check $c: rc=$rc violation_lines=$nv $(tail -1 /tmp/benigntry_${n}_$c.out)"
    result="$result$c rc=$rc; "
  done
  jq --arg n "$n" --arg r "$result" --slurpfile idx $IDX '.[$n] = {what: $idx[0][$n].what, checks: $idx[0][$n].checks, result: $r}' $RES > $RES.tmp && mv $RES.tmp $RES
  rm -rf "$T"
done
rm -rf /verif/.build/mod__tmp_benigntry_*
