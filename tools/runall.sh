#!/bin/bash
# runs every registered quick (or $1=thorough) check once and prints exit code and wall time
tier=${1:-quick}
cd /verif
for id in $(jq -r '.checks[].property_id' MANIFEST.json | sort); do
  s=$(date +%s)
  ./check $id $tier > /tmp/runall_$id.out 2>&1; rc=$?
  e=$(date +%s)
  echo "$id rc=$rc wall=$((e-s))s $(tail -1 /tmp/runall_$id.out)"
done
