// Package fx drives fiber without a network: handler-level calls on a fake
// connection (peer address, TLS flag) and wire-level ServeConn on an in-memory conn.
package fx

import (
	"bytes"
	"crypto/tls"
	"errors"
	"io"
	"net"
	"sync"
	"time"

	fiberlog "github.com/gofiber/fiber/v3/log"
	"github.com/valyala/fasthttp"
)

func init() { fiberlog.SetOutput(io.Discard) }

// Addr is a fake peer/local address pair that may claim to be TLS.
type fakeConn struct {
	laddr, raddr net.Addr
}

func (c *fakeConn) Read([]byte) (int, error)         { return 0, io.EOF }
func (c *fakeConn) Write(p []byte) (int, error)      { return len(p), nil }
func (c *fakeConn) Close() error                     { return nil }
func (c *fakeConn) LocalAddr() net.Addr              { return c.laddr }
func (c *fakeConn) RemoteAddr() net.Addr             { return c.raddr }
func (c *fakeConn) SetDeadline(time.Time) error      { return nil }
func (c *fakeConn) SetReadDeadline(time.Time) error  { return nil }
func (c *fakeConn) SetWriteDeadline(time.Time) error { return nil }

type fakeTLSConn struct{ fakeConn }

func (c *fakeTLSConn) Handshake() error                   { return nil }
func (c *fakeTLSConn) ConnectionState() tls.ConnectionState { return tls.ConnectionState{} }

var zeroAddr = &net.TCPAddr{IP: net.IPv4zero}

// Call runs handler h on req as if it arrived from peer (nil = 0.0.0.0) over TLS or not.
// The returned ctx holds the response.
func Call(h fasthttp.RequestHandler, req *fasthttp.Request, peer net.Addr, isTLS bool) *fasthttp.RequestCtx {
	fctx := &fasthttp.RequestCtx{}
	CallInto(fctx, h, req, peer, isTLS)
	return fctx
}

// CallInto is Call with a caller-provided (reusable) RequestCtx.
func CallInto(fctx *fasthttp.RequestCtx, h fasthttp.RequestHandler, req *fasthttp.Request, peer net.Addr, isTLS bool) {
	if peer == nil {
		peer = zeroAddr
	}
	var c net.Conn
	if isTLS {
		c = &fakeTLSConn{fakeConn{laddr: zeroAddr, raddr: peer}}
	} else {
		c = &fakeConn{laddr: zeroAddr, raddr: peer}
	}
	fctx.Request.Reset()
	fctx.Response.Reset()
	fctx.Init2(c, nil, false)
	req.CopyTo(&fctx.Request)
	h(fctx)
}

// Req builds a request.
func Req(method, uri string, headers ...string) *fasthttp.Request {
	r := &fasthttp.Request{}
	r.Header.SetMethod(method)
	r.SetRequestURI(uri)
	for i := 0; i+1 < len(headers); i += 2 {
		r.Header.Add(headers[i], headers[i+1])
	}
	return r
}

// TCP returns a TCP address for an IP literal.
func TCP(ip string, port int) net.Addr {
	return &net.TCPAddr{IP: net.ParseIP(ip), Port: port}
}

// ---------------------------------------------------------------------------
// wire level

// WireConn is an in-memory net.Conn: reads come from a preloaded buffer, writes are collected.
type WireConn struct {
	mu     sync.Mutex
	in     *bytes.Reader
	out    bytes.Buffer
	raddr  net.Addr
	closed bool
	// ChunkSize > 0 makes Read return at most that many bytes per call.
	ChunkSize int
}

// NewWireConn preloads the bytes a client sends on one connection.
func NewWireConn(input []byte, peer net.Addr) *WireConn {
	if peer == nil {
		peer = &net.TCPAddr{IP: net.IPv4(127, 0, 0, 1), Port: 40000}
	}
	return &WireConn{in: bytes.NewReader(input), raddr: peer}
}

func (c *WireConn) Read(p []byte) (int, error) {
	if c.closed {
		return 0, errors.New("closed")
	}
	if c.ChunkSize > 0 && len(p) > c.ChunkSize {
		p = p[:c.ChunkSize]
	}
	return c.in.Read(p)
}

func (c *WireConn) Write(p []byte) (int, error) {
	c.mu.Lock()
	defer c.mu.Unlock()
	return c.out.Write(p)
}
func (c *WireConn) Close() error                     { c.closed = true; return nil }
func (c *WireConn) LocalAddr() net.Addr              { return &net.TCPAddr{IP: net.IPv4(127, 0, 0, 1), Port: 80} }
func (c *WireConn) RemoteAddr() net.Addr             { return c.raddr }
func (c *WireConn) SetDeadline(time.Time) error      { return nil }
func (c *WireConn) SetReadDeadline(time.Time) error  { return nil }
func (c *WireConn) SetWriteDeadline(time.Time) error { return nil }

// Output returns everything the server wrote.
func (c *WireConn) Output() []byte {
	c.mu.Lock()
	defer c.mu.Unlock()
	return append([]byte(nil), c.out.Bytes()...)
}

// Serve feeds input to srv on one in-memory connection and returns the bytes written back.
func Serve(srv *fasthttp.Server, input []byte) ([]byte, error) {
	c := NewWireConn(input, nil)
	err := srv.ServeConn(c)
	return c.Output(), err
}
