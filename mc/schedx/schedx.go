// Package schedx glues the explorer (xplore) to the cooperative scheduler (verifrt) and
// runs schedule scenarios over worker processes: exploration, in-process replay gate,
// statistics for the evidence file.
package schedx

import (
	"encoding/json"
	"fmt"
	"os"
	"sort"
	"strconv"
	"strings"

	"github.com/gofiber/fiber/v3/verifrt"

	"verifmc/core"
	"verifmc/xplore"
)

// Exec is one execution's context handed to a scenario.
type Exec struct {
	X    *xplore.X
	Keys []string // state key before each choice point ("" = none), aligned with X.Points
	Res  verifrt.Result
	// StateKey lets the scenario mix harness state (counters, model state) into pruning keys.
	StateKey func() string
	noPrune  bool
}

// Chooser returns the callback handed to verifrt.Run.
func (e *Exec) Chooser() verifrt.Chooser {
	return func(kind string, n int, costly bool, label string) int {
		k := xplore.Sched
		if kind == "env" {
			k = xplore.Env
		}
		e.Keys = append(e.Keys, strconv.FormatUint(verifrt.StateHash(), 16))
		return e.X.Choose(k, n, costly, label)
	}
}

// Choose is for the scenario's own choice points (faults, inputs, environment answers).
// Inside a scheduled execution the state hash is recorded so that pruning stays aligned.
func (e *Exec) Choose(kind xplore.Kind, n int, costly bool, label string) int {
	if verifrt.Active() != nil {
		e.Keys = append(e.Keys, strconv.FormatUint(verifrt.StateHash(), 16)+"|"+label)
	} else {
		e.Keys = append(e.Keys, "")
	}
	return e.X.Choose(kind, n, costly, label)
}

// Viol is a violation found in one execution.
type Viol struct {
	Sig      string
	What     string
	Observed any
	Expected any
}

// Outcome is what a scenario reports for one execution.
type Outcome struct {
	Class      string // coarse class of the observable outcome (distinct-outcome counting)
	Violations []Viol
	Detail     any // included in replay files and samples
	// Interesting marks executions in which the mechanism under test was actually exercised.
	Interesting bool
}

// Scenario is a closed driver explored exhaustively within Bounds.
type Scenario struct {
	Name   string
	Bounds xplore.Bounds // quick
	Deep   xplore.Bounds // thorough
	// Prune enables happens-before state pruning (needed for unbounded sched budgets).
	PruneQuick, PruneDeep bool
	Run                   func(e *Exec) *Outcome
	// Params is recorded in replay files.
	Params any
	// Whole makes one worker explore the whole scenario (better happens-before pruning than
	// sharding its subtrees over all workers); scenarios are dealt round-robin.
	Whole bool
	// MaxExec caps the executions of this scenario per worker (0 = none); hitting it is reported.
	MaxExec int64
}

// Totals is filled by RunAll.
type Totals struct {
	Executions, Points, Pruned int64
}

// replay file format
type replayFile struct {
	Property string `json:"property"`
	Scenario string `json:"scenario"`
	Tier     string `json:"tier"`
	Choices  []int  `json:"choices"`
}

// RunAll explores every scenario (sharded over worker processes when r is the parent) and
// records counters/outcomes/violations into r.
func RunAll(r *core.Run, scenarios []Scenario, workers int) {
	if r.Replay != "" {
		replay(r, scenarios)
		return
	}
	if !r.IsWorker() && workers > 1 {
		crashed := r.SpawnWorkers(workers, []string{"GOMAXPROCS=2"})
		for _, c := range crashed {
			r.Violate("worker-crashed", "a worker process died (fatal runtime error or kill) — see stderr", c, nil, nil)
		}
		return
	}
	shard, nsh := 0, 1
	if r.IsWorker() {
		shard, nsh = r.Worker, r.NWorkers
	}
	wholeIdx := 0
	for _, sc := range scenarios {
		sc := sc
		shard, nsh := shard, nsh
		if sc.Whole && nsh > 1 {
			mine := wholeIdx%nsh == shard
			wholeIdx++
			if !mine {
				continue
			}
			shard, nsh = 0, 1
		}
		bounds, prune := sc.Bounds, sc.PruneQuick
		if !r.Quick() {
			bounds, prune = sc.Deep, sc.PruneDeep
		}
		var cur *Exec
		var curOut *Outcome
		states := map[string]struct{}{}
		ex := &xplore.Explorer{Bounds: bounds, Shard: shard, NShards: nsh}
		ex.Stop = func() bool {
			if r.Expired() {
				r.Cap("wall-clock budget reached in scenario " + sc.Name)
				return true
			}
			if sc.MaxExec > 0 && ex.Stats.Executions >= sc.MaxExec {
				r.Cap(fmt.Sprintf("execution cap %d reached in scenario %s", sc.MaxExec, sc.Name))
				return true
			}
			return false
		}
		ex.Run = func(x *xplore.X) {
			cur = &Exec{X: x, noPrune: !prune}
			curOut = sc.Run(cur)
		}
		if prune {
			ex.Prune = func(x *xplore.X) []string { return cur.Keys }
		}
		ex.Visit = func(x *xplore.X) bool {
			e, o := cur, curOut
			if e.Res.Stuck != "" {
				core.Fatal("scenario %s: %s (choices %v)", sc.Name, e.Res.Stuck, x.Choices())
			}
			if x.Diverged != "" {
				core.Fatal("scenario %s: replay diverged — nondeterminism not owned: %s (choices %v)", sc.Name, x.Diverged, x.Choices())
			}
			r.Add("executions", 1)
			r.Add("exec:"+sc.Name, 1)
			if o.Interesting {
				r.Add("interesting:"+sc.Name, 1)
			}
			for _, k := range e.Keys {
				if k != "" {
					states[k] = struct{}{}
				}
			}
			r.Outcome(sc.Name + ": " + o.Class)
			if x.Spent(xplore.Sched) > 0 || x.Spent(xplore.Env) > 0 || x.Spent(xplore.Fault) > 0 {
				r.Sample(map[string]any{"scenario": sc.Name, "choices": x.Choices(), "outcome": o.Class})
			}
			for _, v := range o.Violations {
				// replay gate: the same choices must reproduce the same violation signature twice more
				for k := 0; k < 2; k++ {
					var e2 *Exec
					var o2 *Outcome
					xplore.Replay(func(x2 *xplore.X) { e2 = &Exec{X: x2, noPrune: true}; o2 = sc.Run(e2) }, x.Choices())
					found := false
					for _, v2 := range o2.Violations {
						if v2.Sig == v.Sig {
							found = true
						}
					}
					if !found {
						core.Fatal("scenario %s: violation %q not reproduced on replay of %v — harness nondeterminism", sc.Name, v.Sig, x.Choices())
					}
				}
				sig := sc.Name + ": " + v.Sig
				cs := map[string]any{"scenario": sc.Name, "params": sc.Params, "choices": x.Choices(), "labels": labels(x), "detail": o.Detail,
					"replay": replayFile{Property: r.Prop, Scenario: sc.Name, Tier: r.Tier, Choices: x.Choices()}}
				r.Violate(sig, v.What, cs, v.Observed, v.Expected)
			}
			return true
		}
		ex.Explore()
		r.Add("points", ex.Stats.Points)
		r.Add("pruned", ex.Stats.Pruned)
		r.Add("states", int64(len(states)))
		r.Add("maxpoints:"+sc.Name, 0)
		if int64(ex.Stats.MaxPoints) > r.P.Counters["max_points_per_execution"] {
			r.P.Counters["max_points_per_execution"] = int64(ex.Stats.MaxPoints)
		}
	}
}

func labels(x *xplore.X) []string {
	var out []string
	for _, p := range x.Points {
		if p.Chosen != 0 {
			out = append(out, fmt.Sprintf("%s:%s->%d/%d", p.Kind, p.Label, p.Chosen, p.N))
		}
	}
	return out
}

func replay(r *core.Run, scenarios []Scenario) {
	b, err := os.ReadFile(r.Replay)
	if err != nil {
		core.Fatal("replay: %v", err)
	}
	var doc struct {
		Case struct {
			Replay replayFile `json:"replay"`
		} `json:"case"`
	}
	if err := json.Unmarshal(b, &doc); err != nil {
		core.Fatal("replay: %v", err)
	}
	rf := doc.Case.Replay
	for _, sc := range scenarios {
		if sc.Name != rf.Scenario {
			continue
		}
		var e *Exec
		var o *Outcome
		x := xplore.Replay(func(x *xplore.X) { e = &Exec{X: x, noPrune: true}; o = sc.Run(e) }, rf.Choices)
		fmt.Printf("replayed scenario %s with %d choices: class=%s deadlock=%v panics=%v diverged=%q\n", sc.Name, len(rf.Choices), o.Class, e.Res.Deadlock, e.Res.Panics, x.Diverged)
		d, _ := json.MarshalIndent(o.Detail, "", " ")
		fmt.Println(string(d))
		for _, v := range o.Violations {
			fmt.Printf("VIOLATION property=%s replay=%s\n  signature: %s: %s\n", r.Prop, r.Replay, sc.Name, v.Sig)
		}
		if len(o.Violations) > 0 {
			os.Exit(1)
		}
		os.Exit(0)
	}
	core.Fatal("replay: scenario %q not found", rf.Scenario)
}

// Coverage builds the model_checking coverage keys from the merged counters.
func Coverage(r *core.Run, scenarios []Scenario, extra map[string]any) map[string]any {
	per := map[string]int64{}
	intr := map[string]int64{}
	for k, v := range r.P.Counters {
		if strings.HasPrefix(k, "exec:") {
			per[strings.TrimPrefix(k, "exec:")] = v
		}
		if strings.HasPrefix(k, "interesting:") {
			intr[strings.TrimPrefix(k, "interesting:")] = v
		}
	}
	names := make([]string, 0, len(scenarios))
	bounds := map[string]any{}
	for _, s := range scenarios {
		names = append(names, s.Name)
		b := s.Bounds
		if !r.Quick() {
			b = s.Deep
		}
		bounds[s.Name] = map[string]int{"preemptions": b[xplore.Sched], "env_deviations": b[xplore.Env], "faults": b[xplore.Fault]}
	}
	sort.Strings(names)
	cov := map[string]any{
		"states":                        r.P.Counters["states"],
		"transitions":                   r.P.Counters["points"],
		"traces_validated_against_impl": r.P.Counters["executions"],
		"executions_per_scenario":       per,
		"interesting_per_scenario":      intr,
		"bounds":                        bounds,
		"scenarios":                     names,
		"pruned_subtrees":               r.P.Counters["pruned"],
	}
	for k, v := range extra {
		cov[k] = v
	}
	return cov
}
