// Package racepass is the free-running data-race pass: the same request bodies the schedule
// harnesses explore (limiter, cache, idempotency, client hand-off), run on real goroutines with
// the real sync package and the race detector. The cooperative scheduler's hand-offs are
// happens-before edges that blind the detector, so this pass validates the assumption that
// nothing unsynchronised happens between scheduling points. It decides no property.
package racepass

import (
	"context"
	"fmt"
	"strconv"
	"sync"
	"testing"
	"time"

	"github.com/gofiber/fiber/v3"
	"github.com/gofiber/fiber/v3/client"
	"github.com/gofiber/fiber/v3/middleware/cache"
	"github.com/gofiber/fiber/v3/middleware/idempotency"
	"github.com/gofiber/fiber/v3/middleware/limiter"
	"github.com/valyala/fasthttp"

	"verifmc/fx"
)

const rounds = 300

type mapStorage struct {
	mu sync.Mutex
	m  map[string][]byte
}

func (s *mapStorage) Get(k string) ([]byte, error) {
	s.mu.Lock()
	defer s.mu.Unlock()
	return append([]byte(nil), s.m[k]...), nil
}
func (s *mapStorage) Set(k string, v []byte, _ time.Duration) error {
	s.mu.Lock()
	defer s.mu.Unlock()
	s.m[k] = append([]byte(nil), v...)
	return nil
}
func (s *mapStorage) Delete(k string) error { s.mu.Lock(); defer s.mu.Unlock(); delete(s.m, k); return nil }
func (s *mapStorage) Reset() error          { s.mu.Lock(); defer s.mu.Unlock(); s.m = map[string][]byte{}; return nil }
func (s *mapStorage) Close() error          { return nil }

func hammer(t *testing.T, h fasthttp.RequestHandler, reqs []*fasthttp.Request) {
	t.Helper()
	for r := 0; r < rounds; r++ {
		var wg sync.WaitGroup
		for _, rq := range reqs {
			rq := rq
			wg.Add(1)
			go func() {
				defer wg.Done()
				var fctx fasthttp.RequestCtx
				fx.CallInto(&fctx, h, rq, nil, false)
			}()
		}
		wg.Wait()
	}
}

func TestLimiterRace(t *testing.T) {
	for _, sliding := range []bool{false, true} {
		for _, ext := range []bool{false, true} {
			cfg := limiter.Config{Max: 2, Expiration: time.Minute, SkipFailedRequests: true, KeyGenerator: func(c fiber.Ctx) string { return string([]byte(c.Get("X-Key"))) }}
			if sliding {
				cfg.LimiterMiddleware = limiter.SlidingWindow{}
			}
			if ext {
				cfg.Storage = &mapStorage{m: map[string][]byte{}}
			}
			app := fiber.New()
			app.Use(limiter.New(cfg))
			app.Get("/", func(c fiber.Ctx) error { st, _ := strconv.Atoi(c.Get("X-Status")); return c.SendStatus(st) })
			hammer(t, app.Handler(), []*fasthttp.Request{
				fx.Req("GET", "http://x/", "X-Key", "a", "X-Status", "200"), fx.Req("GET", "http://x/", "X-Key", "a", "X-Status", "500"),
				fx.Req("GET", "http://x/", "X-Key", "b", "X-Status", "200"), fx.Req("GET", "http://x/", "X-Key", "a", "X-Status", "200")})
		}
	}
}

func TestCacheRace(t *testing.T) {
	for _, ext := range []bool{false, true} {
		cfg := cache.Config{Expiration: time.Second, MaxBytes: 6, StoreResponseHeaders: true, CacheInvalidator: func(c fiber.Ctx) bool { return c.Get("X-Inv") != "" }}
		if ext {
			cfg.Storage = &mapStorage{m: map[string][]byte{}}
		}
		app := fiber.New()
		app.Use(cache.New(cfg))
		n := 0
		var mu sync.Mutex
		app.Get("/*", func(c fiber.Ctx) error { mu.Lock(); n++; v := n; mu.Unlock(); return c.SendString(fmt.Sprint(v % 10)) })
		hammer(t, app.Handler(), []*fasthttp.Request{fx.Req("GET", "http://x/a"), fx.Req("GET", "http://x/a"), fx.Req("GET", "http://x/b"),
			fx.Req("GET", "http://x/a", "X-Inv", "1"), fx.Req("GET", "http://x/a", "Cache-Control", "no-cache")})
	}
}

func TestIdempotencyRace(t *testing.T) {
	for _, ext := range []bool{false, true} {
		cfg := idempotency.Config{}
		if ext {
			cfg.Storage = &mapStorage{m: map[string][]byte{}}
		}
		app := fiber.New()
		app.Use(idempotency.New(cfg))
		app.Post("/", func(c fiber.Ctx) error { return c.SendString("done") })
		for r := 0; r < rounds; r++ {
			key := fmt.Sprintf("%036d", r)
			var wg sync.WaitGroup
			for i := 0; i < 3; i++ {
				wg.Add(1)
				go func() {
					defer wg.Done()
					var fctx fasthttp.RequestCtx
					fx.CallInto(&fctx, app.Handler(), fx.Req("POST", "http://x/", "X-Idempotency-Key", key), nil, false)
				}()
			}
			wg.Wait()
		}
	}
}

type slowRT struct{}

func (slowRT) RoundTrip(_ *fasthttp.HostClient, req *fasthttp.Request, resp *fasthttp.Response) (bool, error) {
	time.Sleep(time.Duration(len(req.Header.Peek("X-Id"))%3) * 50 * time.Microsecond)
	resp.Reset()
	resp.SetBodyString("echo(" + string(req.Header.Peek("X-Id")) + ")")
	return false, nil
}

func TestClientHandoffRace(t *testing.T) {
	cl := client.NewWithClient(&fasthttp.Client{Transport: slowRT{}})
	for r := 0; r < rounds; r++ {
		var wg sync.WaitGroup
		for i := 0; i < 3; i++ {
			i := i
			wg.Add(1)
			go func() {
				defer wg.Done()
				ctx, cancel := context.WithCancel(context.Background())
				if i == 0 {
					go func() { time.Sleep(40 * time.Microsecond); cancel() }()
				}
				id := fmt.Sprintf("r%d", i)
				resp, err := cl.R().SetContext(ctx).SetHeader("X-Id", id).Get("http://srv.test/")
				cancel()
				if err == nil {
					if string(resp.Body()) != "echo("+id+")" {
						t.Errorf("RESPONSE-NOT-OWN %s got %q", id, resp.Body())
					}
					resp.Close()
				}
			}()
		}
		wg.Wait()
	}
}
