// Package xplore is the stateless choice-sequence explorer (engine E1): depth-first
// enumeration of all choice sequences of a deterministic harness by prefix replay, with
// per-kind deviation bounds (preemptions, environment deviations, injected faults).
package xplore

import (
	"fmt"
)

// Kind classifies a choice point; each kind has its own deviation budget.
type Kind int

const (
	Input Kind = iota // fully enumerated, never costs anything
	Sched             // thread to run next; alternatives cost 1 when the running thread is still enabled
	Env               // environment answer (map order, pool behaviour, select choice); non-default costs 1
	Fault             // injected error; non-default costs 1
	nKinds
)

func (k Kind) String() string { return [...]string{"input", "sched", "env", "fault"}[k] }

// Point is one recorded choice of an execution.
type Point struct {
	Kind   Kind
	N      int  // number of alternatives
	Chosen int  // alternative taken
	Costly bool // alternatives other than 0 consume one unit of the kind's budget
	Label  string
}

// X is one execution's view of the explorer.
type X struct {
	prefix []Point
	Points []Point
	// Diverged is set when a replayed prefix met a different arity/kind than recorded.
	Diverged string
}

// Choose returns the alternative to take at this point (0 = default).
func (x *X) Choose(kind Kind, n int, costly bool, label string) int {
	if n <= 0 {
		panic("xplore: Choose with n<=0")
	}
	i := len(x.Points)
	c := 0
	if i < len(x.prefix) {
		p := x.prefix[i]
		if p.N == -1 { // replay of a bare choice list: any arity is accepted, the choice must exist
			if p.Chosen < n {
				c = p.Chosen
			} else if x.Diverged == "" {
				x.Diverged = fmt.Sprintf("point %d: replayed choice %d but only %d alternatives (label=%q)", i, p.Chosen, n, label)
			}
		} else if p.N != n || p.Kind != kind {
			if x.Diverged == "" {
				x.Diverged = fmt.Sprintf("point %d: recorded kind=%v n=%d label=%q, replay kind=%v n=%d label=%q", i, p.Kind, p.N, p.Label, kind, n, label)
			}
			if p.Chosen < n {
				c = p.Chosen
			}
		} else {
			c = p.Chosen
		}
	}
	x.Points = append(x.Points, Point{Kind: kind, N: n, Chosen: c, Costly: costly, Label: label})
	return c
}

// Choices returns the chosen alternatives (a replayable schedule).
func (x *X) Choices() []int {
	out := make([]int, len(x.Points))
	for i, p := range x.Points {
		out[i] = p.Chosen
	}
	return out
}

// Spent returns the number of budget units of kind k consumed by this execution.
func (x *X) Spent(k Kind) int {
	n := 0
	for _, p := range x.Points {
		if p.Kind == k && p.Costly && p.Chosen != 0 {
			n++
		}
	}
	return n
}

// Bounds holds the budget per kind; a negative value means unbounded.
type Bounds [nKinds]int

// Stats summarises an exploration.
type Stats struct {
	Executions   int64
	Points       int64 // total choice points met (transitions)
	MaxPoints    int
	Pruned       int64 // subtrees cut by the visited-state cache
	Diverged     int64
	StoppedEarly bool
}

// Explorer runs a harness over all choice sequences within the bounds.
type Explorer struct {
	Bounds Bounds
	// Run executes the harness once; it must be deterministic given x's choices.
	Run func(x *X)
	// Visit is called after every complete execution (oracle). Returning false stops the exploration.
	Visit func(x *X) bool
	// Shard/NShards: the first-level subtrees are dealt round-robin to shards (0 <= Shard < NShards).
	Shard, NShards int
	// Stop is polled between executions (deadline).
	Stop func() bool
	// Prune, when set, is asked after each execution for a list of state keys, one per point
	// (key of the state *before* that point, "" = none); a subtree whose (key, remaining budget)
	// was already expanded is skipped. Sound only if equal keys imply equal futures.
	Prune func(x *X) []string
	seen  map[string]struct{}
	Stats Stats
	top   int64
}

func (e *Explorer) exec(prefix []Point) *X {
	x := &X{prefix: prefix}
	e.Run(x)
	e.Stats.Executions++
	e.Stats.Points += int64(len(x.Points))
	if len(x.Points) > e.Stats.MaxPoints {
		e.Stats.MaxPoints = len(x.Points)
	}
	if x.Diverged != "" {
		e.Stats.Diverged++
	}
	return x
}

// Explore enumerates everything within the bounds.
func (e *Explorer) Explore() {
	if e.NShards <= 0 {
		e.NShards = 1
	}
	if e.Prune != nil {
		e.seen = map[string]struct{}{}
	}
	e.explore(nil, 0)
}

func (e *Explorer) explore(prefix []Point, depth int) bool {
	if e.Stop != nil && e.Stop() {
		e.Stats.StoppedEarly = true
		return false
	}
	mine := true
	if depth == 0 && e.NShards > 1 && e.Shard != 0 {
		mine = false // the root execution itself belongs to shard 0
	}
	x := e.exec(prefix)
	if mine || depth > 0 {
		if e.Visit != nil && !e.Visit(x) {
			e.Stats.StoppedEarly = true
			return false
		}
	}
	if x.Diverged != "" {
		return true // never branch from an execution whose replay diverged; Visit reports it
	}
	var keys []string
	if e.Prune != nil {
		keys = e.Prune(x)
	}
	var spent [nKinds]int
	for i := 0; i < len(prefix); i++ {
		p := x.Points[i]
		if p.Costly && p.Chosen != 0 {
			spent[p.Kind]++
		}
	}
	for i := len(prefix); i < len(x.Points); i++ {
		p := x.Points[i]
		if keys != nil && i < len(keys) && keys[i] != "" {
			// the state before point i: if it was expanded before with at least this budget
			// left, everything reachable from here has been explored already.
			k := fmt.Sprintf("%s|%v", keys[i], budgetLeft(e.Bounds, spent))
			if _, ok := e.seen[k]; ok {
				e.Stats.Pruned++
				break
			}
			e.seen[k] = struct{}{}
		}
		if p.N > 1 {
			cost := 0
			if p.Costly {
				cost = 1
			}
			b := e.Bounds[p.Kind]
			if b < 0 || spent[p.Kind]+cost <= b {
				for alt := 1; alt < p.N; alt++ {
					if depth == 0 && e.NShards > 1 {
						t := e.top
						e.top++
						if int(t%int64(e.NShards)) != e.Shard {
							continue
						}
					}
					np := make([]Point, i+1)
					copy(np, x.Points[:i])
					np[i] = Point{Kind: p.Kind, N: p.N, Chosen: alt, Costly: p.Costly, Label: p.Label}
					if !e.explore(np, depth+1) {
						return false
					}
				}
			}
		}
		if p.Costly && p.Chosen != 0 {
			spent[p.Kind]++
		}
	}
	return true
}

func budgetLeft(b Bounds, spent [nKinds]int) [nKinds]int {
	var out [nKinds]int
	for k := range b {
		if b[k] < 0 {
			out[k] = -1
		} else {
			out[k] = b[k] - spent[k]
		}
	}
	return out
}

// Replay runs the harness once on a bare list of choices (arities are not known in advance).
func Replay(run func(x *X), choices []int) *X {
	x := &X{prefix: make([]Point, len(choices))}
	for i, c := range choices {
		x.prefix[i] = Point{N: -1, Chosen: c}
	}
	run(x)
	return x
}
