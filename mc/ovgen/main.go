// ovgen (engine E4) generates a `go build -overlay` file from /repo's current working tree:
// mechanical, local rewrites of selected files plus the virtual package verifrt.
//
// spec lines (paths relative to the repository root; '#' comments):
//
//	verifrt                              add the virtual package github.com/gofiber/fiber/v3/verifrt
//	swap <file> <pkg>...                 import swap: sync -> vsync, sync/atomic -> vatomic, time -> vtime
//	gostmt <file>                        go f(x)  ->  verifrt.Go(func(){ f(x) })  (arguments evaluated first)
//	dropgo <file> <callee-text>          delete `go <callee-text>(...)` statements (background janitors)
//	daemongo <file> <callee-text>        like gostmt for that callee but as a daemon thread
//	chan <file>                          channel sends/receives/select -> scheduler-aware forms
//	maprange <file> <func> <expr-text>   for k, v := range <expr>  ->  owned iteration order
//	addfile <relpath> <template>         add a new file (template path relative to /verif/overlay)
//	utilsclock                           replace gofiber/utils time.go by the settable clock
package main

import (
	"bufio"
	"bytes"
	"encoding/json"
	"flag"
	"fmt"
	"go/ast"
	"go/format"
	"go/parser"
	"go/printer"
	"go/token"
	"os"
	"path/filepath"
	"regexp"
	"strconv"
	"strings"
)

const rtPath = "github.com/gofiber/fiber/v3/verifrt"

var swapMap = map[string][2]string{
	"sync":        {rtPath + "/vsync", "sync"},
	"sync/atomic": {rtPath + "/vatomic", "atomic"},
	"time":        {rtPath + "/vtime", "time"},
}

type fileJob struct {
	rel    string
	fset   *token.FileSet
	f      *ast.File
	needRT bool
	log    []string
}

func die(format string, a ...any) {
	fmt.Fprintf(os.Stderr, "ovgen: "+format+"\n", a...)
	os.Exit(1)
}

func main() {
	spec := flag.String("spec", "", "spec file")
	repo := flag.String("repo", "/repo", "repository root")
	out := flag.String("out", "", "output directory")
	verif := flag.String("verif", "/verif", "verif root")
	_ = flag.String("mutant", "", "unused")
	flag.Parse()
	if *spec == "" || *out == "" {
		die("need -spec and -out")
	}
	if err := os.RemoveAll(*out); err != nil {
		die("%v", err)
	}
	if err := os.MkdirAll(*out, 0o755); err != nil {
		die("%v", err)
	}
	replace := map[string]string{}
	jobs := map[string]*fileJob{}
	get := func(rel string) *fileJob {
		if j, ok := jobs[rel]; ok {
			return j
		}
		fset := token.NewFileSet()
		f, err := parser.ParseFile(fset, filepath.Join(*repo, rel), nil, parser.ParseComments)
		if err != nil {
			die("parse %s: %v", rel, err)
		}
		j := &fileJob{rel: rel, fset: fset, f: f}
		jobs[rel] = j
		return j
	}
	sf, err := os.Open(*spec)
	if err != nil {
		die("%v", err)
	}
	sc := bufio.NewScanner(sf)
	var report []string
	for sc.Scan() {
		line := strings.TrimSpace(sc.Text())
		if line == "" || strings.HasPrefix(line, "#") {
			continue
		}
		fs := strings.Fields(line)
		switch fs[0] {
		case "verifrt":
			root := filepath.Join(*verif, "overlay", "verifrt")
			_ = filepath.Walk(root, func(p string, info os.FileInfo, err error) error {
				if err == nil && !info.IsDir() && strings.HasSuffix(p, ".go") {
					rel, _ := filepath.Rel(root, p)
					replace[filepath.Join(*repo, "verifrt", rel)] = p
				}
				return nil
			})
		case "swap":
			j := get(fs[1])
			n := j.swap(fs[2:])
			report = append(report, fmt.Sprintf("swap %s %v: %d imports", fs[1], fs[2:], n))
			if n != len(fs[2:]) {
				die("swap %s: expected %d imports swapped, got %d", fs[1], len(fs[2:]), n)
			}
		case "swapdir":
			// lenient form for whole package directories: every non-test Go file of the directory gets those of the
			// listed imports it has swapped (none is fine). It keeps the shims in place when a change to the tree
			// introduces synchronisation (a pool, a mutex, an atomic) into a file that had none.
			ents, err := os.ReadDir(filepath.Join(*repo, fs[1]))
			if err != nil {
				die("swapdir %s: %v", fs[1], err)
			}
			total := 0
			for _, ent := range ents {
				name := ent.Name()
				if ent.IsDir() || !strings.HasSuffix(name, ".go") || strings.HasSuffix(name, "_test.go") {
					continue
				}
				rel := filepath.Join(fs[1], name)
				if _, overlaid := replace[filepath.Join(*repo, rel)]; overlaid {
					continue
				}
				src, err := os.ReadFile(filepath.Join(*repo, rel))
				if err != nil {
					die("swapdir %s: %v", rel, err)
				}
				has := false
				for _, p := range fs[2:] {
					if bytes.Contains(src, []byte(strconv.Quote(p))) {
						has = true
					}
				}
				if !has {
					continue
				}
				total += get(rel).swap(fs[2:])
			}
			report = append(report, fmt.Sprintf("swapdir %s %v: %d imports", fs[1], fs[2:], total))
		case "gostmt":
			j := get(fs[1])
			n := j.goStmts("", false, false)
			report = append(report, fmt.Sprintf("gostmt %s: %d", fs[1], n))
			if n == 0 {
				die("gostmt %s: no go statement found", fs[1])
			}
		case "dropgo":
			j := get(fs[1])
			n := j.goStmts(fs[2], true, false)
			report = append(report, fmt.Sprintf("dropgo %s %s: %d", fs[1], fs[2], n))
			if n == 0 {
				die("dropgo %s %s: not found", fs[1], fs[2])
			}
		case "daemongo":
			j := get(fs[1])
			n := j.goStmts(fs[2], false, true)
			report = append(report, fmt.Sprintf("daemongo %s %s: %d", fs[1], fs[2], n))
			if n == 0 {
				die("daemongo %s %s: not found", fs[1], fs[2])
			}
		case "chan":
			j := get(fs[1])
			n := j.chans()
			report = append(report, fmt.Sprintf("chan %s: %d rewrites", fs[1], n))
			if n == 0 {
				die("chan %s: nothing rewritten", fs[1])
			}
		case "maprange":
			j := get(fs[1])
			n := j.mapRange(fs[2], strings.Join(fs[3:], " "))
			report = append(report, fmt.Sprintf("maprange %s %s %s: %d", fs[1], fs[2], strings.Join(fs[3:], " "), n))
			if n == 0 {
				// not fatal: a tree in which this loop was refactored away (e.g. iterating sorted keys) still has to be
				// checkable; the iteration order of whatever replaced it is then simply not an explorer choice
				fmt.Fprintf(os.Stderr, "OVERLAY-NOTE: maprange %s func %s expr %q: no such range statement in this tree; map iteration orders there are not enumerated\n", fs[1], fs[2], strings.Join(fs[3:], " "))
			}
		case "addfile":
			replace[filepath.Join(*repo, fs[1])] = filepath.Join(*verif, "overlay", fs[2])
		case "utilsclock":
			ver := utilsVersion(*repo)
			modcache := os.Getenv("GOMODCACHE")
			if modcache == "" {
				gp := os.Getenv("GOPATH")
				if gp == "" {
					gp = filepath.Join(os.Getenv("HOME"), "go")
				}
				modcache = filepath.Join(gp, "pkg", "mod")
			}
			target := filepath.Join(modcache, "github.com", "gofiber", "utils", "v2@"+ver, "time.go")
			if _, err := os.Stat(target); err != nil {
				die("utilsclock: %v", err)
			}
			replace[target] = filepath.Join(*verif, "overlay", "utils_time.go")
		default:
			die("unknown directive %q", fs[0])
		}
	}
	for rel, j := range jobs {
		if j.needRT {
			j.addImport(rtPath, "")
		}
		var buf bytes.Buffer
		cfg := printer.Config{Mode: printer.UseSpaces | printer.TabIndent, Tabwidth: 8}
		if err := cfg.Fprint(&buf, j.fset, j.f); err != nil {
			die("print %s: %v", rel, err)
		}
		src, err := format.Source(buf.Bytes())
		if err != nil {
			_ = os.WriteFile(filepath.Join(*out, "BROKEN_"+strings.ReplaceAll(rel, "/", "__")), buf.Bytes(), 0o644)
			die("format %s: %v", rel, err)
		}
		dst := filepath.Join(*out, "src", rel)
		_ = os.MkdirAll(filepath.Dir(dst), 0o755)
		if err := os.WriteFile(dst, src, 0o644); err != nil {
			die("%v", err)
		}
		replace[filepath.Join(*repo, rel)] = dst
	}
	b, _ := json.MarshalIndent(map[string]any{"Replace": replace}, "", " ")
	if err := os.WriteFile(filepath.Join(*out, "overlay.json"), b, 0o644); err != nil {
		die("%v", err)
	}
	_ = os.WriteFile(filepath.Join(*out, "report.txt"), []byte(strings.Join(report, "\n")+"\n"), 0o644)
}

func utilsVersion(repo string) string {
	b, err := os.ReadFile(filepath.Join(repo, "go.mod"))
	if err != nil {
		die("%v", err)
	}
	m := regexp.MustCompile(`github.com/gofiber/utils/v2 (v[^\s]+)`).FindSubmatch(b)
	if m == nil {
		die("utils version not found in go.mod")
	}
	return string(m[1])
}

func (j *fileJob) addImport(path, name string) {
	for _, im := range j.f.Imports {
		if p, _ := strconv.Unquote(im.Path.Value); p == path {
			return
		}
	}
	spec := &ast.ImportSpec{Path: &ast.BasicLit{Kind: token.STRING, Value: strconv.Quote(path)}}
	if name != "" {
		spec.Name = ast.NewIdent(name)
	}
	for _, d := range j.f.Decls {
		if gd, ok := d.(*ast.GenDecl); ok && gd.Tok == token.IMPORT {
			gd.Specs = append(gd.Specs, spec)
			if !gd.Lparen.IsValid() {
				gd.Lparen = gd.Pos()
				gd.Rparen = gd.End()
			}
			j.f.Imports = append(j.f.Imports, spec)
			return
		}
	}
	gd := &ast.GenDecl{Tok: token.IMPORT, Specs: []ast.Spec{spec}}
	j.f.Decls = append([]ast.Decl{gd}, j.f.Decls...)
	j.f.Imports = append(j.f.Imports, spec)
}

func (j *fileJob) swap(pkgs []string) int {
	n := 0
	for _, im := range j.f.Imports {
		p, _ := strconv.Unquote(im.Path.Value)
		for _, want := range pkgs {
			if p == want {
				to, ok := swapMap[want]
				if !ok {
					die("swap: unsupported package %s", want)
				}
				if im.Name != nil && im.Name.Name != to[1] {
					die("swap %s: import %s is renamed to %s", j.rel, p, im.Name.Name)
				}
				im.Path.Value = strconv.Quote(to[0])
				im.Name = ast.NewIdent(to[1])
				n++
			}
		}
	}
	return n
}

func exprText(fset *token.FileSet, e ast.Expr) string {
	var b bytes.Buffer
	_ = printer.Fprint(&b, fset, e)
	return b.String()
}

func rtCall(fn string, args ...ast.Expr) *ast.CallExpr {
	return &ast.CallExpr{Fun: &ast.SelectorExpr{X: ast.NewIdent("verifrt"), Sel: ast.NewIdent(fn)}, Args: args}
}

// rewriteStmtLists applies fn to every statement list of the file; fn returns the new list.
func (j *fileJob) rewriteStmtLists(fn func(list []ast.Stmt) []ast.Stmt) {
	ast.Inspect(j.f, func(n ast.Node) bool {
		switch b := n.(type) {
		case *ast.BlockStmt:
			b.List = fn(b.List)
		case *ast.CaseClause:
			b.Body = fn(b.Body)
		case *ast.CommClause:
			b.Body = fn(b.Body)
		}
		return true
	})
}

func (j *fileJob) goStmts(callee string, drop, daemon bool) int {
	n := 0
	tmp := 0
	j.rewriteStmtLists(func(list []ast.Stmt) []ast.Stmt {
		var out []ast.Stmt
		for _, st := range list {
			g, ok := st.(*ast.GoStmt)
			if !ok {
				out = append(out, st)
				continue
			}
			if callee != "" && exprText(j.fset, g.Call.Fun) != callee {
				out = append(out, st)
				continue
			}
			n++
			if drop {
				continue
			}
			j.needRT = true
			// evaluate arguments before the spawn, as the go statement does
			call := &ast.CallExpr{Fun: g.Call.Fun, Ellipsis: g.Call.Ellipsis}
			for _, a := range g.Call.Args {
				if lit, ok := a.(*ast.BasicLit); ok {
					call.Args = append(call.Args, lit)
					continue
				}
				name := fmt.Sprintf("verifArg%d", tmp)
				tmp++
				out = append(out, &ast.AssignStmt{Lhs: []ast.Expr{ast.NewIdent(name)}, Tok: token.DEFINE, Rhs: []ast.Expr{a}})
				call.Args = append(call.Args, ast.NewIdent(name))
			}
			body := &ast.FuncLit{Type: &ast.FuncType{Params: &ast.FieldList{}}, Body: &ast.BlockStmt{List: []ast.Stmt{&ast.ExprStmt{X: call}}}}
			fn := "Go"
			if daemon {
				fn = "GoDaemon"
			}
			out = append(out, &ast.ExprStmt{X: rtCall(fn, body)})
		}
		return out
	})
	return n
}

func isRecv(e ast.Expr) (ast.Expr, bool) {
	if p, ok := e.(*ast.ParenExpr); ok {
		return isRecv(p.X)
	}
	if u, ok := e.(*ast.UnaryExpr); ok && u.Op == token.ARROW {
		return u.X, true
	}
	return nil, false
}

func (j *fileJob) chans() int {
	n := 0
	noAwait := map[ast.Stmt]bool{}
	// 1. select statements whose cases are all receives, no default -> switch verifrt.SelectRecv(...)
	var rewriteSelect func(list []ast.Stmt) []ast.Stmt
	rewriteSelect = func(list []ast.Stmt) []ast.Stmt {
		for i, st := range list {
			lbl, isLbl := st.(*ast.LabeledStmt)
			target := st
			if isLbl {
				target = lbl.Stmt
			}
			sel, ok := target.(*ast.SelectStmt)
			if !ok {
				continue
			}
			var chans []ast.Expr
			okAll := true
			for _, c := range sel.Body.List {
				cc := c.(*ast.CommClause)
				if cc.Comm == nil {
					okAll = false
					break
				}
				switch s := cc.Comm.(type) {
				case *ast.ExprStmt:
					ch, r := isRecv(s.X)
					if !r {
						okAll = false
					}
					chans = append(chans, ch)
				case *ast.AssignStmt:
					if len(s.Rhs) != 1 {
						okAll = false
						break
					}
					ch, r := isRecv(s.Rhs[0])
					if !r {
						okAll = false
					}
					chans = append(chans, ch)
				default:
					okAll = false
				}
			}
			if !okAll {
				die("chan %s: unsupported select at %s", j.rel, j.fset.Position(sel.Pos()))
			}
			sw := &ast.SwitchStmt{Tag: rtCall("SelectRecv", chans...), Body: &ast.BlockStmt{}}
			for k, c := range sel.Body.List {
				cc := c.(*ast.CommClause)
				body := append([]ast.Stmt{cc.Comm}, cc.Body...)
				noAwait[cc.Comm] = true // select chose and receives atomically: no extra point
				// a bare `<-ch` receive statement stays; `v := <-ch` stays: the receive is now non-blocking
				sw.Body.List = append(sw.Body.List, &ast.CaseClause{List: []ast.Expr{&ast.BasicLit{Kind: token.INT, Value: strconv.Itoa(k)}}, Body: body})
			}
			sw.Body.List = append(sw.Body.List, &ast.CaseClause{Body: []ast.Stmt{&ast.ExprStmt{X: &ast.CallExpr{Fun: ast.NewIdent("panic"), Args: []ast.Expr{&ast.BasicLit{Kind: token.STRING, Value: `"verifrt: unreachable select case"`}}}}}})
			j.needRT = true
			n++
			if isLbl {
				lbl.Stmt = sw
			} else {
				list[i] = sw
			}
		}
		return list
	}
	j.rewriteStmtLists(rewriteSelect)
	// 2. plain sends and receives at statement level
	j.rewriteStmtLists(func(list []ast.Stmt) []ast.Stmt {
		var out []ast.Stmt
		for _, st := range list {
			if noAwait[st] {
				out = append(out, st)
				continue
			}
			switch s := st.(type) {
			case *ast.RangeStmt:
				// `for range ticker.C { body }` (a janitor loop): each iteration first parks until the (virtual) tick is
				// due. Only the selector form X.C without iteration variables is rewritten (no type information here).
				if sel, ok := s.X.(*ast.SelectorExpr); ok && sel.Sel.Name == "C" && s.Key == nil && s.Value == nil {
					recv := &ast.ExprStmt{X: &ast.UnaryExpr{Op: token.ARROW, X: s.X}}
					noAwait[recv] = true
					body := append([]ast.Stmt{&ast.ExprStmt{X: rtCall("AwaitRecv", s.X)}, recv}, s.Body.List...)
					out = append(out, &ast.ForStmt{Body: &ast.BlockStmt{List: body}})
					j.needRT = true
					n++
					continue
				}
			case *ast.SendStmt:
				out = append(out, &ast.ExprStmt{X: rtCall("AwaitSend", s.Chan)})
				j.needRT = true
				n++
			case *ast.ExprStmt:
				if ch, ok := isRecv(s.X); ok {
					out = append(out, &ast.ExprStmt{X: rtCall("AwaitRecv", ch)})
					j.needRT = true
					n++
				}
			case *ast.AssignStmt:
				if len(s.Rhs) == 1 {
					if ch, ok := isRecv(s.Rhs[0]); ok {
						out = append(out, &ast.ExprStmt{X: rtCall("AwaitRecv", ch)})
						j.needRT = true
						n++
					}
				}
			}
			out = append(out, st)
		}
		return out
	})
	return n
}

func (j *fileJob) mapRange(funcName, expr string) int {
	n := 0
	tmp := 0
	for _, d := range j.f.Decls {
		fd, ok := d.(*ast.FuncDecl)
		if !ok || fd.Name.Name != funcName || fd.Body == nil {
			continue
		}
		ast.Inspect(fd.Body, func(nd ast.Node) bool {
			rs, ok := nd.(*ast.RangeStmt)
			if !ok || exprText(j.fset, rs.X) != expr {
				return true
			}
			if rs.Tok != token.DEFINE && rs.Key != nil {
				die("maprange %s: only := ranges supported", j.rel)
			}
			keyName := ""
			if id, ok := rs.Key.(*ast.Ident); ok && id.Name != "_" {
				keyName = id.Name
			}
			if keyName == "" {
				keyName = fmt.Sprintf("verifKey%d", tmp)
				tmp++
			}
			var pre []ast.Stmt
			if rs.Value != nil {
				if id, ok := rs.Value.(*ast.Ident); !ok || id.Name != "_" {
					pre = append(pre, &ast.AssignStmt{Lhs: []ast.Expr{rs.Value}, Tok: token.DEFINE,
						Rhs: []ast.Expr{&ast.IndexExpr{X: rs.X, Index: ast.NewIdent(keyName)}}})
				}
			}
			m := rs.X
			rs.Key = ast.NewIdent("_")
			rs.Value = ast.NewIdent(keyName)
			rs.Tok = token.DEFINE
			rs.X = rtCall("MapOrder", m)
			rs.Body.List = append(pre, rs.Body.List...)
			j.needRT = true
			n++
			return true
		})
	}
	return n
}
