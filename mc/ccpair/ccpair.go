// Package ccpair is a small generic schedule harness: two requests in flight on ONE instance of
// the code under test, all interleavings within a preemption bound at whatever scheduling points
// the instance exposes (shimmed sync operations, yielding callbacks / storages / handlers), with a
// differential oracle — every request must receive exactly the response it receives when it is
// served alone on an identically prepared instance. It applies wherever the property says that a
// request's outcome does not depend on other requests in flight (isolation).
package ccpair

import (
	"fmt"
	"os"

	"github.com/gofiber/fiber/v3/verifrt"
	"github.com/valyala/fasthttp"

	"verifmc/core"
	"verifmc/xplore"
)

// Req is one request kind.
type Req struct {
	Name string
	// Make builds the request (called inside the execution, after warm-up).
	Make func() *fasthttp.Request
}

// Scenario is one prepared instance with its request kinds.
type Scenario struct {
	Name string
	// Build returns a fresh, identically prepared instance (warm-up included). It is called once per
	// execution and once per solo run; it must be deterministic.
	Build func() fasthttp.RequestHandler
	Reqs  []Req
	// Observe renders what is compared (default: status line, all headers sorted by fasthttp, body).
	Observe func(resp *fasthttp.Response) string
	// All ordered pairs of distinct kinds are run, plus each kind with itself when Self. Unordered runs only the
	// pairs (i, j) with i <= j: the two threads are symmetric except for which one is spawned (and scheduled by
	// default) first, which the preemption budget makes up for.
	Self      bool
	Unordered bool
	// Skip leaves a pair of kinds out (e.g. two requests on the same session, whose outcome legitimately depends on
	// their order).
	Skip func(a, b string) bool
}

func defaultObserve(resp *fasthttp.Response) string {
	return fmt.Sprintf("%d\n%s\n%s", resp.StatusCode(), resp.Header.String(), resp.Body())
}

func call(h fasthttp.RequestHandler, rq *fasthttp.Request, obs func(*fasthttp.Response) string) (out string) {
	defer func() {
		if v := recover(); v != nil {
			out = fmt.Sprintf("PANIC %v", v)
		}
	}()
	var fctx fasthttp.RequestCtx
	fctx.Init(rq, nil, nil)
	h(&fctx)
	return obs(&fctx.Response)
}

// Run explores every scenario and records violations/outcomes into r (prefix = signature prefix).
func Run(r *core.Run, prefix string, scenarios []Scenario, bound int) {
	for _, sc := range scenarios {
		obs := sc.Observe
		if obs == nil {
			obs = defaultObserve
		}
		solo := map[string]string{}
		for _, q := range sc.Reqs {
			// solo run: same scheduler machinery (one thread), so that virtual time etc. behave alike
			var got string
			q := q
			built := false
			sres := verifrt.Run(func(string, int, bool, string) int { return 0 }, verifrt.Options{MaxSteps: 20000}, func() {
				h := sc.Build()
				built = true
				verifrt.GoNamed("solo", false, func() { got = call(h, q.Make(), obs) })
				verifrt.Join()
			})
			if !built || got == "" {
				// the preparation itself failed: nothing would be compared (both runs would be empty alike)
				core.Fatal("%s concurrent part, scenario %s: the scenario could not be built or served alone (request %s): panics=%v blocked=%v", prefix, sc.Name, q.Name, sres.Panics, sres.Blocked)
			}
			solo[q.Name] = got
			if os.Getenv("CCPAIR_DEBUG") != "" {
				fmt.Fprintf(os.Stderr, "CCPAIR solo %s %s: %s\n", sc.Name, q.Name, got)
			}
		}
		for i, qa := range sc.Reqs {
			for j, qb := range sc.Reqs {
				if i == j && !sc.Self || sc.Unordered && j < i || sc.Skip != nil && sc.Skip(qa.Name, qb.Name) {
					continue
				}
				if !r.Quick() && r.Expired() {
					// thorough tier: the run's budget is used up: the remaining pairs are not explored and the run is reported as
					// capped (the quick tier's schedule parts are sized to finish and always run to the end)
					r.Cap(fmt.Sprintf("%s part: budget reached before scenario %s, pair %s|%s", prefix, sc.Name, qa.Name, qb.Name))
					return
				}
				qa, qb := qa, qb
				var got [2]string
				var res verifrt.Result
				ex := &xplore.Explorer{Bounds: xplore.Bounds{0, bound, 1, 0}}
				ex.Run = func(x *xplore.X) {
					got = [2]string{}
					res = verifrt.Run(func(kind string, n int, costly bool, label string) int {
						k := xplore.Sched
						if kind == "env" {
							k = xplore.Env
						}
						return x.Choose(k, n, costly, label)
					}, verifrt.Options{MaxSteps: 20000}, func() {
						h := sc.Build()
						verifrt.GoNamed("A", false, func() { got[0] = call(h, qa.Make(), obs) })
						verifrt.GoNamed("B", false, func() { got[1] = call(h, qb.Make(), obs) })
						verifrt.Join()
					})
				}
				ex.Visit = func(x *xplore.X) bool {
					r.Add("cc_executions", 1)
					r.Add("cc_points", int64(len(x.Points)))
					if x.Diverged != "" || res.Stuck != "" {
						core.Fatal("%s concurrent part, scenario %s: %s %s", prefix, sc.Name, x.Diverged, res.Stuck)
					}
					cs := map[string]any{"scenario": sc.Name, "requests": []string{qa.Name, qb.Name}, "choices": x.Choices()}
					if res.Deadlock || res.Horizon {
						r.Violate(fmt.Sprintf("%s deadlock scenario=%s", prefix, sc.Name), "two concurrent requests block forever", cs, res.Blocked, nil)
					}
					names := [2]string{qa.Name, qb.Name}
					for k := 0; k < 2; k++ {
						if got[k] != solo[names[k]] {
							kind := "response-depends-on-other-request"
							if len(got[k]) > 5 && got[k][:5] == "PANIC" {
								kind = "panic"
							}
							r.Violate(fmt.Sprintf("%s %s scenario=%s victim=%s", prefix, kind, sc.Name, names[k]),
								"under some interleaving a request received a response different from the one it receives when served alone on an identically prepared instance", cs, got[k], solo[names[k]])
						}
					}
					if os.Getenv("CCPAIR_DEBUG") == "2" {
						fmt.Fprintf(os.Stderr, "CCPAIR pair %s %s|%s choices=%v blocked=%v\n", sc.Name, qa.Name, qb.Name, x.Choices(), res.Blocked)
					}
					r.Outcome(fmt.Sprintf("%s %s same-as-solo=%v", prefix, sc.Name, got[0] == solo[qa.Name] && got[1] == solo[qb.Name]))
					return true
				}
				ex.Explore()
			}
		}
	}
}
