// C14 — cache is transparent, fresh, bounded and survives concurrency.
// Harness A: all operation histories up to a depth against a reference cache model (virtual clock).
// Harness B: all interleavings of concurrent requests (+ a sequential probe phase) under the scheduler.
package main

import (
	"fmt"
	"os"
	"sort"
	"strconv"
	"strings"
	"time"

	"github.com/gofiber/fiber/v3"
	"github.com/gofiber/fiber/v3/middleware/cache"
	"github.com/gofiber/fiber/v3/verifrt"
	"github.com/gofiber/utils/v2"
	"github.com/valyala/fasthttp"

	"verifmc/core"
	"verifmc/fx"
	"verifmc/schedx"
	"verifmc/xplore"
)

const E = 10 // default expiration, seconds

// ---- injected storage -------------------------------------------------------------

type ttlEntry struct {
	val []byte
	exp uint32
}
type ttlStorage struct {
	data  map[string]ttlEntry
	yield bool
	lazy  bool // a storage that does not expire entries by itself (TTL is advisory)
	// keep: the storage keeps the very slice it is given and hands out its internal slice (no defensive copies),
	// as fiber's own in-memory storages do; a cache that passes it a slice aliasing a request/response buffer is corrupted.
	keep bool
	// dropEmpty: Set with an empty key or value is a no-op ("Ain't Nobody Got Time For That" in fiber's memory storages)
	dropEmpty bool
}

func (s *ttlStorage) y(op string) {
	if s.yield {
		verifrt.YieldOn(op, s)
	}
}
func (s *ttlStorage) Get(key string) ([]byte, error) {
	s.y("storage.get")
	e, ok := s.data[key]
	if !ok || (!s.lazy && e.exp != 0 && e.exp <= utils.Timestamp()) {
		return nil, nil
	}
	if s.keep {
		return e.val, nil
	}
	return append([]byte(nil), e.val...), nil
}
func (s *ttlStorage) Set(key string, val []byte, ttl time.Duration) error {
	s.y("storage.set")
	if s.dropEmpty && (len(key) == 0 || len(val) == 0) {
		return nil
	}
	var exp uint32
	if ttl > 0 {
		exp = uint32(ttl.Seconds()) + utils.Timestamp()
	}
	if s.keep {
		s.data[key] = ttlEntry{val, exp}
		return nil
	}
	s.data[key] = ttlEntry{append([]byte(nil), val...), exp}
	return nil
}
func (s *ttlStorage) Delete(key string) error { s.y("storage.del"); delete(s.data, key); return nil }
func (s *ttlStorage) Reset() error            { s.data = map[string]ttlEntry{}; return nil }
func (s *ttlStorage) Close() error            { return nil }

// bodyBytes sums the live "_body" entries (what the cache holds).
func (s *ttlStorage) bodyBytes() int {
	n := 0
	for k, e := range s.data {
		if strings.HasSuffix(k, "_body") && (s.lazy || e.exp == 0 || e.exp > utils.Timestamp()) {
			n += len(e.val)
		}
	}
	return n
}

// ---- origin -----------------------------------------------------------------------

// origin state: a version counter per path; every origin response is unique and self-describing
type origin struct {
	version map[string]int
	runs    int
	log     map[string]originResp // "path#version" -> response
	served  map[string]bool       // request ids (X-Req) the origin ran for
	bornAt  map[string]int64      // "path#version" -> virtual second of production
}

type originResp struct {
	Status int
	Body   string
	CT     string
	Enc    string
	XV     string // X-Version header (stored only with StoreResponseHeaders)
	M      string // method of the request the origin answered
}

// body sizes: /a /d /f /e /z 2 bytes, /b 3, /c 4, /m 6 (= MaxBytes of the standard configurations), /o 7 (> MaxBytes);
// every second response of /z has an EMPTY body; /s answers 200 once and 500 from then on; /g answers 2 bytes once and 7 bytes
// (> MaxBytes) from then on — keys whose refresh is not storable although an entry exists.
var bodyPad = map[string]string{"/a": "", "/b": "b", "/c": "cc", "/e": "", "/d": "", "/f": "", "/z": "", "/m": "mmmm", "/o": "ooooo", "/s": "", "/g": ""}

func (o *origin) handler(c fiber.Ctx) error {
	p := utils.CopyString(c.Path())
	verifrt.YieldOn("origin.enter", o)
	o.version[p]++
	o.runs++
	v := o.version[p]
	r := originResp{Status: 200, Body: fmt.Sprintf("%d", v%10) + p[1:] + bodyPad[p], CT: "text/v" + strconv.Itoa(v), Enc: "", XV: p + "#" + strconv.Itoa(v), M: utils.CopyString(c.Method())}
	// two different encodings of the same length, so that a cache that keeps a slice of the (recycled) response
	// header buffer instead of a copy is seen to change: /a, /c ... "identity" on even versions, /b "x-ident2" on odd ones
	if p == "/b" {
		if v%2 == 1 {
			r.Enc = "x-ident2"
		}
	} else if v%2 == 0 {
		r.Enc = "identity"
	}
	if p == "/e" {
		r.Status = 500
	}
	if p == "/c" && v%2 == 0 {
		r.Status = 404 // cacheable status other than 200
	}
	if p == "/z" && v%2 == 0 {
		r.Body = "" // an empty body superseding a non-empty one (and vice versa)
	}
	if p == "/s" && v >= 2 {
		r.Status = 500
	}
	if p == "/g" && v >= 2 {
		r.Body += "ggggg"
	}
	o.log[r.XV] = r
	if o.served == nil {
		o.served, o.bornAt = map[string]bool{}, map[string]int64{}
	}
	if id := c.Get("X-Req"); id != "" {
		o.served[utils.CopyString(id)] = true
	}
	o.bornAt[r.XV] = verifrt.Now().Unix()
	verifrt.YieldOn("origin.work", o)
	c.Set("X-Version", r.XV)
	c.Set("X-Origin-Run", strconv.Itoa(o.runs))
	if r.Enc != "" {
		c.Set("Content-Encoding", r.Enc)
	}
	c.Status(r.Status)
	c.Response().Header.SetContentType(r.CT)
	return c.SendString(r.Body)
}

// ---- configuration ----------------------------------------------------------------

type ccfg struct {
	Storage  string // memory | injected | injected-lazy | injected-fiberlike
	MaxBytes uint
	Headers  bool
	Gen      bool   // ExpirationGenerator: /b expires after 2E
	Methods  string `json:",omitempty"` // "" = default (GET, HEAD); otherwise comma separated Config.Methods
	Life     string `json:",omitempty"` // "" | name of a per-key lifetime table served by the ExpirationGenerator
}

// lifeTabs: per-key lifetimes (seconds) of the ExpirationGenerator; keys not listed live E seconds.
// "spread": different lifetimes so that the expiry heap is reordered by stores; /f lives SHORTER than the default.
var lifeTabs = map[string]map[string]int{
	"spread": {"/a": E, "/b": 2 * E, "/c": E, "/d": 3 * E, "/f": 1},
}

func expFor(c ccfg, path string) int {
	if c.Life != "" {
		if v, ok := lifeTabs[c.Life][path]; ok {
			return v
		}
		return E
	}
	if c.Gen && path == "/b" {
		return 2 * E
	}
	return E
}

// cachedMethods is the set of methods the configuration caches.
func cachedMethods(c ccfg) map[string]bool {
	if c.Methods == "" {
		return map[string]bool{"GET": true, "HEAD": true}
	}
	m := map[string]bool{}
	for _, x := range strings.Split(c.Methods, ",") {
		m[x] = true
	}
	return m
}

func cfgTag(c ccfg) string {
	tag := fmt.Sprintf("storage=%s maxbytes=%d headers=%v gen=%v", c.Storage, c.MaxBytes, c.Headers, c.Gen)
	if c.Methods != "" {
		tag += " methods=" + c.Methods
	}
	if c.Life != "" {
		tag += " lifetimes=" + c.Life
	}
	return tag
}

func build(c ccfg, o *origin, st *ttlStorage) fasthttp.RequestHandler {
	cfg := cache.Config{Expiration: E * time.Second, MaxBytes: c.MaxBytes, StoreResponseHeaders: c.Headers,
		CacheInvalidator: func(c fiber.Ctx) bool { return c.Get("X-Invalidate") != "" }}
	if strings.HasPrefix(c.Storage, "injected") {
		st.lazy = c.Storage == "injected-lazy"
		st.keep = c.Storage != "injected"
		st.dropEmpty = c.Storage == "injected-fiberlike"
		cfg.Storage = st
	}
	if c.Methods != "" {
		cfg.Methods = strings.Split(c.Methods, ",")
	}
	if c.Life != "" {
		cc := c
		cfg.ExpirationGenerator = func(c fiber.Ctx, _ *cache.Config) time.Duration {
			return time.Duration(expFor(cc, c.Path())) * time.Second
		}
	} else if c.Gen {
		cfg.ExpirationGenerator = func(c fiber.Ctx, _ *cache.Config) time.Duration {
			if c.Path() == "/b" {
				return 2 * E * time.Second
			}
			return E * time.Second
		}
	}
	app := fiber.New()
	app.Use(cache.New(cfg))
	app.All("/*", o.handler)
	return app.Handler()
}

type resp struct {
	Status int
	Body   string
	CT     string
	Enc    string
	XV     string
	XCache string
	Run    string
}

// call issues a request; fctx may be shared by sequential requests so that response buffers
// are recycled as on a keep-alive connection (a cache that aliases them gets corrupted).
func call(fctx *fasthttp.RequestCtx, h fasthttp.RequestHandler, method, path string, hdr ...string) resp {
	req := fx.Req(method, "http://x.test"+path, hdr...)
	if fctx == nil {
		fctx = &fasthttp.RequestCtx{}
	}
	fx.CallInto(fctx, h, req, nil, false)
	r := &fctx.Response
	return resp{Status: r.StatusCode(), Body: string(r.Body()), CT: string(r.Header.ContentType()), Enc: string(r.Header.Peek("Content-Encoding")),
		XV: string(r.Header.Peek("X-Version")), XCache: string(r.Header.Peek("X-Cache")), Run: string(r.Header.Peek("X-Origin-Run"))}
}

func setClock() { utils.VerifSetTimestamp(uint32(verifrt.Now().Unix())) }

func advance(sec int) {
	verifrt.Advance(time.Duration(sec) * time.Second)
	setClock()
	verifrt.Quiesce() // let the middleware's clock goroutine observe the new time
}

var cacheable = map[int]bool{200: true, 203: true, 204: true, 206: true, 300: true, 301: true, 404: true, 405: true, 410: true, 414: true, 418: true, 501: true}

func firstLine(s string) string {
	if i := strings.IndexByte(s, '\n'); i >= 0 {
		s = s[:i]
	}
	if len(s) > 100 {
		s = s[:100]
	}
	return s
}

func main() {
	r := core.Start("C14")
	depth := 5
	if !r.Quick() {
		depth = 6
	}
	scenarios := schedScenarios()
	if dbg := os.Getenv("C14_DEBUG"); dbg != "" {
		debugHistory(dbg)
		return
	}
	if !r.IsWorker() {
		crashed := r.SpawnWorkers(16, []string{"GOMAXPROCS=2"})
		for _, c := range crashed {
			r.Violate("worker-crashed", "a worker process died (fatal runtime error or kill)", c, nil, nil)
		}
		cov := schedx.Coverage(r, scenarios, map[string]any{
			"history_depth":       depth,
			"history_alphabet":    opNames(),
			"history_configs":     len(allCfgs()),
			"history_families":    familySummary(r),
			"unspecified_skipped": r.P.Counters["unspecified_skipped"],
			"histories":           r.P.Counters["histories"],
			"history_transitions": r.P.Counters["transitions"],
			"hits_judged":         r.P.Counters["hits"],
			"rule":                "Harness A, family base: every sequence of exactly `history_depth` operations over the alphabet (GET of 3 keys with body sizes 2/3/4 whose origin returns a unique self-describing version each time — status 200/404, content type per version, Content-Encoding absent / identity / x-ident2 —, GET no-cache, GET no-store, POST, a key whose origin answers 500, GET with the invalidator header, clock ticks 1 s / E / E+1) x 24 configurations {memory, injected TTL storage that copies, injected storage that ignores TTLs and keeps the slices it is given} x MaxBytes {0,6} x StoreResponseHeaders x ExpirationGenerator. Further families (history_families; each: every configuration x every prefix x every word of `depth` letters, then the probe sweep): directives (Cache-Control lists with the directive after/before another one, both directives, another directive only; upper-case and second-header-line spellings run but counted unspecified), methods (GET/HEAD/POST of one path, Config.Methods default / GET,POST / POST,HEAD), shapes (origin bodies of size 0, = MaxBytes, > MaxBytes; adds an injected storage with the semantics of fiber's own in-memory storages: keeps slices, ignores empty values), heap (every ordered fill of 3 out of 5 keys of 2/3/4/2/2 bytes under MaxBytes 8 with per-key lifetimes E/2E/E/3E/1 s, then every word over the keys, 3 invalidations and 2 ticks). Each history runs on a fresh app and ONE RequestCtx inside the scheduler (so the middleware's clock goroutine is a managed thread and the virtual clock is owned); after every step: a response not produced by the origin (a hit) must equal — status, body, content type, encoding, stored header — the origin response the reference model holds for that METHOD and key, which must be unexpired, not invalidated, and the request must not be no-cache/no-store; non-cacheable statuses, unconfigured methods and bodies larger than MaxBytes are never served from cache; injected-storage body bytes <= MaxBytes; in the final sweep over all keys the body sizes of the HITS (a lower bound of the bytes held, for every storage incl. the memory store) sum to <= MaxBytes. Harness B: all interleavings of the concurrent scenarios within the stated bounds followed by a sequential probe phase on the same instance; a hit must equal one origin response of the same path AND method.",
		})
		cov["transitions"] = r.P.Counters["points"] + r.P.Counters["transitions"]
		cov["traces_validated_against_impl"] = r.P.Counters["executions"] + r.P.Counters["histories"]
		r.Finish(core.Evidence{Level: "model_checking", Exhaustive: true, Coverage: cov,
			Assumptions: []string{"virtual clock: time.Now in cache.go through the vtime shim, utils.Timestamp through the overlay clock, both set from the scheduler's clock", "the middleware's 300 ms clock goroutine runs as a managed thread and is given the chance to run after every tick before the next request (freshness is judged against the middleware's own coarse clock)",
				"sequential consistency; scheduling points at sync/atomic/pool operations, injected storage calls and origin-handler seams", "a miss is never a violation (the statement does not promise hits)"}})
	}
	enumerateHistories(r, r.Quick())
	schedx.RunAll(r, scenarios, 0)
	r.FinishWorker()
}

// familySummary lists, per family of harness A, its alphabet, bounds and the number of histories run.
func familySummary(r *core.Run) []map[string]any {
	var out []map[string]any
	for _, f := range families(r.Quick()) {
		pre := len(f.Prefixes)
		if pre == 0 {
			pre = 1
		}
		out = append(out, map[string]any{"family": f.Name, "alphabet": namesOf(f.Alphabet), "depth": f.Depth, "prefixes": pre, "configs": len(f.Cfgs),
			"sweep": namesOf(f.Sweep), "histories": r.P.Counters["histories:"+f.Name]})
	}
	return out
}

func sortedKeys[V any](m map[string]V) []string {
	var ks []string
	for k := range m {
		ks = append(ks, k)
	}
	sort.Strings(ks)
	return ks
}

var _ = xplore.Sched
