package main

import (
	"fmt"
	"sort"
	"strings"

	"github.com/gofiber/fiber/v3/verifrt"
	"github.com/valyala/fasthttp"

	"verifmc/schedx"
	"verifmc/xplore"
)

type sop struct {
	ID   string
	Op   string // name of a hop
	Tick int
}

type sparams struct {
	Cfg    ccfg
	Warm   []sop // sequential warm-up
	Racers []sop // concurrent phase
	Probe  []sop // sequential probe phase on the same instance
}

type sobs struct {
	ID   string
	Op   string
	R    resp
	Ran  bool
	Time int64
}

func hopByName(n string) hop {
	for _, hs := range [][]hop{hops, methLetters} {
		for _, h := range hs {
			if h.Name == n {
				return h
			}
		}
	}
	panic("no op " + n)
}

func runSched(p sparams) func(e *schedx.Exec) *schedx.Outcome {
	return func(e *schedx.Exec) *schedx.Outcome {
		var obs []sobs
		o := &origin{version: map[string]int{}, log: map[string]originResp{}}
		born := map[string]int64{} // XV -> virtual second the origin produced it
		ranFor := map[string]bool{}
		st := &ttlStorage{data: map[string]ttlEntry{}, yield: true}
		overBytes := ""
		res := verifrt.Run(e.Chooser(), verifrt.Options{MaxSteps: 20000, StateKey: func() string { return fmt.Sprint(o.version, o.runs) }}, func() {
			setClock()
			h := build(p.Cfg, o, st)
			verifrt.Quiesce()
			var shared fasthttp.RequestCtx
			fctxFor := func(id string) *fasthttp.RequestCtx {
				if strings.HasPrefix(id, "r") {
					return nil // racers: own connection each
				}
				return &shared
			}
			do := func(s sop) {
				if s.Tick > 0 {
					advance(s.Tick)
					return
				}
				hp := hopByName(s.Op)
				before := map[string]int{}
				for k, v := range o.version {
					before[k] = v
				}
				ts := verifrt.Now().Unix()
				r := callID(fctxFor(s.ID), h, hp, s.ID, o, ranFor, born)
				obs = append(obs, sobs{ID: s.ID, Op: s.Op, R: r, Ran: ranFor[s.ID], Time: ts})
			}
			checkBytes := func(when string) {
				if strings.HasPrefix(p.Cfg.Storage, "injected") && p.Cfg.MaxBytes > 0 && overBytes == "" {
					if b := st.bodyBytes(); b > int(p.Cfg.MaxBytes) {
						overBytes = fmt.Sprintf("%d bytes held %s", b, when)
					}
				}
			}
			for _, s := range p.Warm {
				do(s)
			}
			for _, s := range p.Racers {
				s := s
				verifrt.GoNamed(s.ID, false, func() { do(s) })
			}
			verifrt.Join()
			checkBytes("after the concurrent phase")
			for _, s := range p.Probe {
				do(s)
				checkBytes("after probe " + s.ID)
			}
		})
		e.Res = res
		out := &schedx.Outcome{Detail: map[string]any{"observations": obs, "origin_log": o.log, "deadlock": res.Deadlock, "blocked": res.Blocked, "panics": res.Panics, "panic_stack": res.PanicStack}}
		viol := func(sig, what string, ob, x any) {
			out.Violations = append(out.Violations, schedx.Viol{Sig: sig, What: what, Observed: ob, Expected: x})
		}
		if len(res.Panics) > 0 {
			viol("panic "+stripThread(firstLine(res.Panics[0])), "the middleware panicked", res.Panics, nil)
		}
		if res.Deadlock {
			viol("deadlock", "requests blocked forever", res.Blocked, nil)
		}
		if res.Horizon {
			viol("horizon", "step horizon exceeded", nil, nil)
		}
		if overBytes != "" {
			viol("bytes-over-maxbytes", "the bodies held in the storage exceed MaxBytes", overBytes, p.Cfg.MaxBytes)
		}
		hits := 0
		for _, ob := range obs {
			if ob.Ran || ob.R.Status == 0 {
				continue
			}
			hits++
			hp := hopByName(ob.Op)
			if len(hp.Hdr) > 0 {
				viol("served-to-"+hp.Name, "a no-cache / no-store / invalidating request was answered from the cache", ob, "origin runs")
				continue
			}
			// the hit must be ONE origin response of this path, in all stored aspects
			found := ""
			for xv, w := range o.log {
				if !strings.HasPrefix(xv, hp.Path+"#") || w.M != hp.Method {
					continue // "for the same method and key"
				}
				if w.Status == ob.R.Status && w.Body == ob.R.Body && w.CT == ob.R.CT && w.Enc == ob.R.Enc && (!p.Cfg.Headers || w.XV == ob.R.XV) {
					found = xv
				}
			}
			if found == "" {
				viol("hit-mixes-or-invents-response", "a response served from the cache equals no single origin response for its key (status/body/content type/encoding/stored header)", ob, o.log)
				continue
			}
			if ob.Time >= born[found]+int64(expFor(p.Cfg, hp.Path)) {
				viol("served-after-expiry", "a cached response was served after its expiration", ob, born[found])
			}
			if !cacheable[ob.R.Status] {
				viol("served-non-cacheable-status", "a non-cacheable status was served from the cache", ob, nil)
			}
		}
		var cls []string
		for _, ob := range obs {
			k := "origin"
			if !ob.Ran {
				k = "hit"
			}
			cls = append(cls, ob.ID+":"+k)
		}
		sort.Strings(cls)
		out.Class = strings.Join(cls, ",") + fmt.Sprintf(" panic=%v deadlock=%v", len(res.Panics) > 0, res.Deadlock)
		out.Interesting = e.X.Spent(xplore.Sched) > 0
		return out
	}
}

func stripThread(s string) string {
	if i := strings.Index(s, ": "); i >= 0 {
		return s[i+2:]
	}
	return s
}

func callID(fctx *fasthttp.RequestCtx, h fasthttp.RequestHandler, hp hop, id string, o *origin, ranFor map[string]bool, born map[string]int64) resp {
	before := o.runs
	_ = before
	hdr := append([]string{"X-Req", id}, hp.Hdr...)
	known := map[string]bool{}
	for xv := range o.log {
		known[xv] = true
	}
	r := call(fctx, h, hp.Method, hp.Path, hdr...)
	// attribute: the origin handler stamps the request id it served
	if o.served[id] {
		ranFor[id] = true
	}
	for xv := range o.log {
		if !known[xv] {
			if _, ok := born[xv]; !ok {
				born[xv] = o.bornAt[xv]
			}
		}
	}
	return r
}

func schedScenarios() []schedx.Scenario {
	var out []schedx.Scenario
	add := func(name string, p sparams, q, d xplore.Bounds, pruneDeep bool) {
		out = append(out, schedx.Scenario{Name: name, Params: p, Bounds: q, Deep: d, PruneDeep: pruneDeep, Run: runSched(p)})
	}
	b2, b3 := xplore.Bounds{0, 2, 0, 0}, xplore.Bounds{0, 3, 0, 0}
	probe := []sop{{ID: "p1", Op: "get-b"}, {ID: "p2", Op: "get-c"}, {ID: "p3", Op: "get-a"}, {Tick: E + 1}, {ID: "p4", Op: "get-a"}, {ID: "p5", Op: "get-b"}, {ID: "p6", Op: "get-c"}, {ID: "p7", Op: "get-a"}}
	for _, st := range []string{"memory", "injected", "injected-lazy"} {
		mb := ccfg{Storage: st, MaxBytes: 6, Headers: true}
		add("expired-same-key-"+st, sparams{Cfg: mb, Warm: []sop{{ID: "w1", Op: "get-a"}, {Tick: E + 1}}, Racers: []sop{{ID: "r1", Op: "get-a"}, {ID: "r2", Op: "get-a"}}, Probe: probe}, b2, b3, false)
		add("both-miss-same-key-"+st, sparams{Cfg: mb, Racers: []sop{{ID: "r1", Op: "get-a"}, {ID: "r2", Op: "get-a"}}, Probe: probe}, b2, b3, false)
		add("three-keys-over-maxbytes-"+st, sparams{Cfg: mb, Racers: []sop{{ID: "r1", Op: "get-a"}, {ID: "r2", Op: "get-b"}, {ID: "r3", Op: "get-c"}}, Probe: probe}, b2, b2, false)
		nb := ccfg{Storage: st, MaxBytes: 0, Headers: true}
		add("hit-vs-nocache-refresh-"+st, sparams{Cfg: nb, Warm: []sop{{ID: "w1", Op: "get-a"}}, Racers: []sop{{ID: "r1", Op: "get-a"}, {ID: "r2", Op: "nocache-a"}}, Probe: []sop{{ID: "p1", Op: "get-a"}}}, b2, b3, false)
		add("hit-vs-evicting-store-"+st, sparams{Cfg: mb, Warm: []sop{{ID: "w1", Op: "get-a"}, {ID: "w2", Op: "get-b"}}, Racers: []sop{{ID: "r1", Op: "get-a"}, {ID: "r2", Op: "get-c"}}, Probe: probe}, b2, b3, false)
		add("head-vs-get-same-path-"+st, sparams{Cfg: mb, Racers: []sop{{ID: "r1", Op: "get-a"}, {ID: "r2", Op: "head-a"}}, Probe: append([]sop{{ID: "p0", Op: "head-a"}}, probe...)}, b2, b3, false)
		add("hit-vs-invalidate-"+st, sparams{Cfg: mb, Warm: []sop{{ID: "w1", Op: "get-a"}}, Racers: []sop{{ID: "r1", Op: "get-a"}, {ID: "r2", Op: "inval-a"}}, Probe: probe}, b2, b3, false)
	}
	return out
}
