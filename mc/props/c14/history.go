package main

import (
	"fmt"

	"github.com/valyala/fasthttp"
	"os"
	"runtime/pprof"
	"strings"
	"time"

	"github.com/gofiber/fiber/v3/verifrt"

	"verifmc/core"
)

// hop is one letter of a history: a request (with the meaning the statement gives it) or a clock tick.
type hop struct {
	Name   string
	Method string
	Path   string
	Hdr    []string
	Tick   int
	// what the request is, in the words of the statement
	NoCache bool // a no-cache request: never answered from the cache
	NoStore bool // a no-store request: bypasses the cache entirely
	Inval   bool // the CacheInvalidator fires
	// Unspec: the request spells no-cache in a way the statement and the middleware's documentation are silent
	// about (directive in upper case, directive on a second Cache-Control line). The model treats it as a plain
	// request (both readings store the origin's answer alike); a hit is judged as a plain hit and counted unspecified.
	Unspec bool
	// Class qualifies violation signatures of letters that are not the canonical spelling (empty for the base letters).
	Class string
	Sweep bool // part of the final probe sweep
}

func get(name, path string) hop { return hop{Name: name, Method: "GET", Path: path} }
func nocache(name, path, cc, class string) hop {
	return hop{Name: name, Method: "GET", Path: path, Hdr: []string{"Cache-Control", cc}, NoCache: true, Class: class}
}
func nostore(name, path, cc, class string) hop {
	return hop{Name: name, Method: "GET", Path: path, Hdr: []string{"Cache-Control", cc}, NoStore: true, Class: class}
}
func inval(name, method, path string) hop {
	return hop{Name: name, Method: method, Path: path, Hdr: []string{"X-Invalidate", "1"}, Inval: true}
}

var hops = []hop{
	get("get-a", "/a"),
	get("get-b", "/b"),
	get("get-c", "/c"),
	nocache("nocache-a", "/a", "no-cache", ""),
	nostore("nostore-a", "/a", "no-store", ""),
	{Name: "post-a", Method: "POST", Path: "/a"},
	get("get-e500", "/e"),
	inval("inval-a", "GET", "/a"),
	{Name: "tick1", Tick: 1},
	{Name: "tickE", Tick: E},
	{Name: "tickE+1", Tick: E + 1},
}

// letters of the added families
var (
	tickE1 = hop{Name: "tickE+1", Tick: E + 1}
	tickE  = hop{Name: "tickE", Tick: E}
	tick1  = hop{Name: "tick1", Tick: 1}

	// family "directives": a no-cache / no-store request is a request whose Cache-Control LIST contains the directive
	dirLetters = []hop{
		get("get-a", "/a"),
		inval("inval-a", "GET", "/a"),
		tickE1,
		nocache("nocache-a:after-other", "/a", "max-age=0, no-cache", "directive-after-another"),
		nocache("nocache-a:before-other", "/a", "no-cache, max-age=0", "directive-before-another"),
		nocache("nocache-a:after-other-nospace", "/a", "max-stale=5,no-cache", "directive-after-another"),
		nostore("nostore-a:after-other", "/a", "max-age=0, no-store", "directive-after-another"),
		nostore("nostore-a:before-other", "/a", "no-store, max-age=0", "directive-before-another"),
		nostore("nostore-a:with-nocache", "/a", "no-cache, no-store", "directive-after-another"),
		{Name: "plain-a:other-directive", Method: "GET", Path: "/a", Hdr: []string{"Cache-Control", "max-age=60"}},
		{Name: "nocache-a:upper-case", Method: "GET", Path: "/a", Hdr: []string{"Cache-Control", "No-Cache"}, Unspec: true},
		{Name: "nocache-a:second-line", Method: "GET", Path: "/a", Hdr: []string{"Cache-Control", "max-age=0", "Cache-Control", "no-cache"}, Unspec: true},
	}

	// family "methods": the same path under several methods x Config.Methods
	methLetters = []hop{
		get("get-a", "/a"),
		{Name: "head-a", Method: "HEAD", Path: "/a"},
		{Name: "post-a", Method: "POST", Path: "/a"},
		get("get-b", "/b"),
		{Name: "head-b", Method: "HEAD", Path: "/b"},
		inval("inval-a", "GET", "/a"),
		inval("inval-head-a", "HEAD", "/a"),
		tickE1,
	}

	// family "shapes": origin answers of size 0 / = MaxBytes / > MaxBytes next to ordinary ones, and keys whose later answers
	// are not storable (status 500, body > MaxBytes) while an entry exists — refreshed by invalidation or no-cache
	shapeLetters = []hop{
		get("get-a", "/a"),
		get("get-z", "/z"),
		nocache("nocache-z", "/z", "no-cache", ""),
		get("get-m", "/m"),
		get("get-o", "/o"),
		get("get-s", "/s"),
		inval("inval-s", "GET", "/s"),
		nocache("nocache-s", "/s", "no-cache", ""),
		get("get-g", "/g"),
		inval("inval-g", "GET", "/g"),
		tickE1,
	}

	// family "heap": five keys (2,3,4,2,2 bytes) with different lifetimes under MaxBytes 8
	heapKeys    = []hop{get("get-a", "/a"), get("get-b", "/b"), get("get-c", "/c"), get("get-d", "/d"), get("get-f", "/f")}
	heapLetters = append(append([]hop{}, heapKeys...), inval("inval-a", "GET", "/a"), inval("inval-b", "GET", "/b"), inval("inval-d", "GET", "/d"), tickE, tick1)
)

func opNames() []string { return namesOf(hops) }

func allCfgs() []ccfg {
	var out []ccfg
	for _, st := range []string{"memory", "injected", "injected-lazy"} {
		for _, mb := range []uint{0, 6} {
			for _, hd := range []bool{false, true} {
				for _, g := range []bool{false, true} {
					out = append(out, ccfg{Storage: st, MaxBytes: mb, Headers: hd, Gen: g})
				}
			}
		}
	}
	return out
}

// family is one exhaustively enumerated set of histories: every configuration x every prefix x every word of
// exactly Depth letters over Alphabet, followed by the probe sweep.
type family struct {
	Name     string
	Cfgs     []ccfg
	Prefixes [][]hop // nil = the empty prefix only
	Alphabet []hop
	Depth    int
	Sweep    []hop // plain requests appended to every history (flagged Sweep)
	MinReqs  int   // histories with fewer requests in the word are skipped (prefixes of others)
}

func sweepOf(hs []hop) []hop {
	var out []hop
	for _, h := range hs {
		h.Name = "sweep-" + h.Name
		h.Sweep = true
		out = append(out, h)
	}
	return out
}

func families(quick bool) []family {
	depth := 5
	if !quick {
		depth = 6
	}
	extra := 0
	if !quick {
		extra = 1
	}
	// the small families come first so that a wall-clock cap (thorough tier) can only cut the base family short
	var fs []family

	// directives: all 24 standard configurations
	fs = append(fs, family{Name: "directives", Cfgs: allCfgs(), Alphabet: dirLetters, Depth: 3 + extra, MinReqs: 2})

	// methods
	var mc []ccfg
	for _, st := range []string{"memory", "injected", "injected-lazy"} {
		for _, mb := range []uint{0, 6} {
			for _, hd := range []bool{false, true} {
				for _, ms := range []string{"", "GET,POST", "POST,HEAD"} {
					mc = append(mc, ccfg{Storage: st, MaxBytes: mb, Headers: hd, Methods: ms})
				}
			}
		}
	}
	fs = append(fs, family{Name: "methods", Cfgs: mc, Alphabet: methLetters, Depth: 4 + extra, MinReqs: 2})

	// shapes (adds the storage with the semantics of fiber's own in-memory storages)
	var sc []ccfg
	for _, st := range []string{"memory", "injected", "injected-lazy", "injected-fiberlike"} {
		for _, mb := range []uint{0, 6} {
			for _, hd := range []bool{false, true} {
				sc = append(sc, ccfg{Storage: st, MaxBytes: mb, Headers: hd})
			}
		}
	}
	shapeSweep := sweepOf([]hop{get("get-a", "/a"), get("get-z", "/z"), get("get-m", "/m"), get("get-o", "/o"), get("get-s", "/s"), get("get-g", "/g")})
	fs = append(fs, family{Name: "shapes", Cfgs: sc, Alphabet: shapeLetters, Depth: 4 + extra, MinReqs: 2, Sweep: shapeSweep})

	// heap: every ordered choice of 3 distinct keys fills the heap, then every word over keys/invalidations/ticks
	var hc []ccfg
	for _, st := range []string{"memory", "injected", "injected-lazy", "injected-fiberlike"} {
		hc = append(hc, ccfg{Storage: st, MaxBytes: 8, Life: "spread"})
	}
	var pre [][]hop
	for i := range heapKeys {
		for j := range heapKeys {
			for k := range heapKeys {
				if i != j && j != k && i != k {
					pre = append(pre, []hop{heapKeys[i], heapKeys[j], heapKeys[k]})
				}
			}
		}
	}
	fs = append(fs, family{Name: "heap", Cfgs: hc, Prefixes: pre, Alphabet: heapLetters, Depth: 3 + extra, MinReqs: 1, Sweep: sweepOf(heapKeys)})
	fs = append(fs, family{Name: "base", Cfgs: allCfgs(), Alphabet: hops, Depth: depth, MinReqs: 2})
	return fs
}

type mentry struct {
	XV  string
	Exp int64
}

type step struct {
	Op  string
	R   resp
	Hit bool
}

// runHistory executes one history on a fresh app inside the scheduler with the default schedule.
func runHistory(fam string, c ccfg, ops []hop, l *core.Local) {
	model := map[string]mentry{}
	var trace []step
	tag := cfgTag(c)
	methods := cachedMethods(c)
	res := verifrt.Run(func(kind string, n int, costly bool, label string) int { return 0 }, verifrt.Options{MaxSteps: 20000}, func() {
		setClock()
		o := &origin{version: map[string]int{}, log: map[string]originResp{}}
		st := &ttlStorage{data: map[string]ttlEntry{}}
		h := build(c, o, st)
		var shared fasthttp.RequestCtx
		verifrt.Quiesce()
		sweepHitBytes := 0
		for i, op := range ops {
			if op.Tick > 0 {
				advance(op.Tick)
				trace = append(trace, step{Op: op.Name})
				continue
			}
			ts := verifrt.Now().Unix()
			before := o.runs
			r := call(&shared, h, op.Method, op.Path, op.Hdr...)
			ran := o.runs != before
			trace = append(trace, step{Op: op.Name, R: r, Hit: !ran})
			l.Add("transitions", 1)
			key := op.Path + "_" + op.Method
			cs := func() any {
				return map[string]any{"family": fam, "config": c, "ops": namesOf(ops[:i+1]), "trace": trace, "model": model}
			}
			kind := opKind(op)
			q := "" // qualifier of the violation signature for letters outside the base alphabet
			if op.Class != "" {
				q = "spelling=" + op.Class + " "
			}
			if !ran {
				l.Add("hits", 1)
				m, ok := model[key]
				switch {
				case op.NoStore:
					l.Violate("served-to-no-store "+q+tag, "a no-store request was answered from the cache", cs(), r, "origin runs")
				case op.NoCache:
					l.Violate("served-to-no-cache "+q+tag, "a no-cache request was answered from the cache", cs(), r, "origin runs")
				case op.Inval:
					l.Violate("served-invalidated "+tag, "an invalidating request was answered from the cache", cs(), r, "origin runs")
				case !methods[op.Method]:
					l.Violate("served-unconfigured-method "+tag, "a response to an unconfigured method was served from the cache", cs(), r, "origin runs")
				case !ok:
					l.Violate("served-never-stored op="+kind+" "+tag, "a response was served from the cache although nothing storable was produced for this method and key", cs(), r, "origin runs")
				case ts >= m.Exp:
					l.Violate("served-after-expiry "+tag, "a cached response was served after its expiration", cs(), r, "origin runs")
				default:
					want := o.log[m.XV]
					if r.Status != want.Status || r.Body != want.Body || r.CT != want.CT || r.Enc != want.Enc || (c.Headers && r.XV != want.XV) {
						field := "status"
						switch {
						case r.Body != want.Body:
							field = "body"
						case r.CT != want.CT:
							field = "content-type"
						case r.Enc != want.Enc:
							field = "encoding"
						case r.Status == want.Status:
							field = "stored-header"
						}
						l.Violate("hit-differs-from-origin field="+field+" "+tag, "the cached response differs from what the origin last produced for this method and key", cs(), r, want)
					}
				}
				if op.Unspec {
					l.Add("unspecified_skipped", 1)
					l.Outcome("hit-unspecified " + kind)
				} else {
					l.Outcome("hit " + kind)
				}
				if op.Sweep {
					sweepHitBytes += len(r.Body)
				}
			} else {
				// origin ran: update the model with what may have been stored
				fits := c.MaxBytes == 0 || uint(len(r.Body)) <= c.MaxBytes
				if !op.NoStore && methods[op.Method] && cacheable[r.Status] && fits {
					model[key] = mentry{XV: r.XV, Exp: ts + int64(expFor(c, op.Path))}
				}
				// A refresh that is not storable leaves the model's entry alone: an unexpired, un-invalidated older response
				// may still be served (after a no-cache request whose answer was a 500, say); an expired one is judged by Exp.
				if op.Inval {
					// an invalidated entry must be gone even if the refresh was not storable
					if _, ok := model[key]; ok && !(cacheable[r.Status] && fits) {
						delete(model, key)
					}
				}
				l.Outcome("origin " + kind + " xcache=" + r.XCache)
			}
			if strings.HasPrefix(c.Storage, "injected") && c.MaxBytes > 0 {
				if b := st.bodyBytes(); b > int(c.MaxBytes) {
					l.Violate("bytes-over-maxbytes "+tag, "the bodies held in the storage exceed MaxBytes", cs(), b, c.MaxBytes)
				}
			}
			// Every hit of the final sweep is an entry that was held when the sweep began (a sweep request that
			// misses can only add its own key, which is not counted): the sizes of the hits are a lower bound of the
			// bytes held, whatever the storage.
			if op.Sweep && c.MaxBytes > 0 && sweepHitBytes > int(c.MaxBytes) {
				l.Violate("bytes-over-maxbytes seen-by=probe-sweep "+tag, "the bodies of the entries served from the cache by a sweep over all keys sum to more than MaxBytes", cs(), sweepHitBytes, c.MaxBytes)
				sweepHitBytes = 0
			}
		}
	})
	if len(res.Panics) > 0 {
		l.Violate("panic "+firstLine(res.Panics[0])+" "+tag, "the middleware panicked in a sequential history", map[string]any{"family": fam, "config": c, "ops": namesOf(ops), "trace": trace}, res.Panics, nil)
		l.Outcome("panic")
	}
	if res.Deadlock || res.Horizon || res.Stuck != "" {
		l.Violate("history-stuck "+tag, "sequential history did not complete", fmt.Sprint(namesOf(ops)), res.Blocked, nil)
	}
	l.Add("histories", 1)
	l.Add("histories:"+fam, 1)
	l.Sample(fmt.Sprint(fam, ": ", tag, " ", strings.Join(namesOf(ops), ",")))
}

func namesOf(ops []hop) []string {
	var s []string
	for _, o := range ops {
		s = append(s, o.Name)
	}
	return s
}

func opKind(o hop) string { return o.Name }

func enumerateHistories(r *core.Run, quick bool) {
	l := core.NewLocal()
	idx := 0
	for _, f := range families(quick) {
		if only := os.Getenv("C14_ONLY_FAMILY"); only != "" && !strings.Contains(","+only+",", ","+f.Name+",") {
			continue
		}
		n := len(f.Alphabet)
		total := 1
		for i := 0; i < f.Depth; i++ {
			total *= n
		}
		pres := f.Prefixes
		if pres == nil {
			pres = [][]hop{nil}
		}
		word := make([]hop, f.Depth)
	cfgs:
		for ci, c := range f.Cfgs {
			for _, pre := range pres {
				for h := 0; h < total; h++ {
					idx++
					if !r.Shard(idx) {
						continue
					}
					x := h
					reqs := 0
					for i := 0; i < f.Depth; i++ {
						word[i] = f.Alphabet[x%n]
						x /= n
						if word[i].Tick == 0 {
							reqs++
						}
					}
					if reqs < f.MinReqs || (len(f.Sweep) == 0 && word[f.Depth-1].Tick > 0) {
						continue // prefixes of other histories
					}
					ops := make([]hop, 0, len(pre)+f.Depth+len(f.Sweep))
					ops = append(append(append(ops, pre...), word...), f.Sweep...)
					runHistory(f.Name, c, ops, l)
				}
			}
			if r.Expired() {
				r.Cap(fmt.Sprintf("wall-clock budget reached in harness A, family %s at config %d/%d", f.Name, ci, len(f.Cfgs)))
				break cfgs
			}
		}
	}
	r.Merge(l.P)
}

func debugHistory(spec string) {
	// C14_DEBUG="storage,maxbytes,headers,gen[,methods(+ separated)[,lifetimes]]:op,op,op"  (letters of any family; sweep-<letter> for a sweep request)
	parts := strings.SplitN(spec, ":", 2)
	f := strings.Split(parts[0], ",")
	c := ccfg{Storage: f[0], Headers: f[2] == "true", Gen: f[3] == "true"}
	fmt.Sscan(f[1], &c.MaxBytes)
	if len(f) > 4 {
		c.Methods = strings.ReplaceAll(f[4], "+", ",")
	}
	if len(f) > 5 {
		c.Life = f[5]
	}
	all := append(append(append(append(append([]hop{}, hops...), dirLetters...), methLetters...), shapeLetters...), heapLetters...)
	all = append(all, sweepOf(append(append([]hop{}, heapKeys...), get("get-z", "/z"), get("get-m", "/m"), get("get-o", "/o"), get("get-s", "/s"), get("get-g", "/g")))...)
	var ops []hop
	for _, name := range strings.Split(parts[1], ",") {
		for _, o := range all {
			if o.Name == name {
				ops = append(ops, o)
				break
			}
		}
	}
	l := core.NewLocal()
	if os.Getenv("C14_PROF") != "" {
		f, _ := os.Create("/tmp/c14.prof")
		_ = pprof.StartCPUProfile(f)
		t0 := time.Now()
		for i := 0; i < 3000; i++ {
			runHistory("debug", c, ops, l)
		}
		pprof.StopCPUProfile()
		fmt.Println("per history:", time.Since(t0)/3000)
	}
	runHistory("debug", c, ops, l)
	for k, v := range l.P.Violations {
		fmt.Println(k, "\n  ", core.Key(v.Case), "\n   observed", core.Key(v.Observed), "expected", core.Key(v.Expected))
	}
	fmt.Println("outcomes", l.P.Outcomes)
}
