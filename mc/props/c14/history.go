package main

import (
	"fmt"

	"github.com/valyala/fasthttp"
	"os"
	"runtime/pprof"
	"strings"
	"time"

	"github.com/gofiber/fiber/v3/verifrt"

	"verifmc/core"
)

type hop struct {
	Name   string
	Method string
	Path   string
	Hdr    []string
	Tick   int
}

var hops = []hop{
	{Name: "get-a", Method: "GET", Path: "/a"},
	{Name: "get-b", Method: "GET", Path: "/b"},
	{Name: "get-c", Method: "GET", Path: "/c"},
	{Name: "nocache-a", Method: "GET", Path: "/a", Hdr: []string{"Cache-Control", "no-cache"}},
	{Name: "nostore-a", Method: "GET", Path: "/a", Hdr: []string{"Cache-Control", "no-store"}},
	{Name: "post-a", Method: "POST", Path: "/a"},
	{Name: "get-e500", Method: "GET", Path: "/e"},
	{Name: "inval-a", Method: "GET", Path: "/a", Hdr: []string{"X-Invalidate", "1"}},
	{Name: "tick1", Tick: 1},
	{Name: "tickE", Tick: E},
	{Name: "tickE+1", Tick: E + 1},
}

func opNames() []string {
	var s []string
	for _, o := range hops {
		s = append(s, o.Name)
	}
	return s
}

func allCfgs() []ccfg {
	var out []ccfg
	for _, st := range []string{"memory", "injected", "injected-lazy"} {
		for _, mb := range []uint{0, 6} {
			for _, hd := range []bool{false, true} {
				for _, g := range []bool{false, true} {
					out = append(out, ccfg{st, mb, hd, g})
				}
			}
		}
	}
	return out
}

type mentry struct {
	XV  string
	Exp int64
}

type step struct {
	Op  string
	R   resp
	Hit bool
}

// runHistory executes one history on a fresh app inside the scheduler with the default schedule.
func runHistory(c ccfg, ops []hop, l *core.Local) {
	model := map[string]mentry{}
	var trace []step
	tag := fmt.Sprintf("storage=%s maxbytes=%d headers=%v gen=%v", c.Storage, c.MaxBytes, c.Headers, c.Gen)
	res := verifrt.Run(func(kind string, n int, costly bool, label string) int { return 0 }, verifrt.Options{MaxSteps: 20000}, func() {
		setClock()
		o := &origin{version: map[string]int{}, log: map[string]originResp{}}
		st := &ttlStorage{data: map[string]ttlEntry{}}
		h := build(c, o, st)
		var shared fasthttp.RequestCtx
		verifrt.Quiesce()
		for i, op := range ops {
			if op.Tick > 0 {
				advance(op.Tick)
				trace = append(trace, step{Op: op.Name})
				continue
			}
			ts := verifrt.Now().Unix()
			before := o.runs
			r := call(&shared, h, op.Method, op.Path, op.Hdr...)
			ran := o.runs != before
			trace = append(trace, step{Op: op.Name, R: r, Hit: !ran})
			l.Add("transitions", 1)
			key := op.Path + "_" + op.Method
			noStore := len(op.Hdr) > 0 && op.Hdr[1] == "no-store"
			noCache := len(op.Hdr) > 0 && op.Hdr[1] == "no-cache"
			inval := len(op.Hdr) > 0 && op.Hdr[0] == "X-Invalidate"
			cs := func() any {
				var names []string
				for _, x := range ops[:i+1] {
					names = append(names, x.Name)
				}
				return map[string]any{"config": c, "ops": names, "trace": trace, "model": model}
			}
			kind := opKind(op)
			if !ran {
				l.Add("hits", 1)
				m, ok := model[key]
				switch {
				case noStore:
					l.Violate("served-to-no-store "+tag, "a no-store request was answered from the cache", cs(), r, "origin runs")
				case noCache:
					l.Violate("served-to-no-cache "+tag, "a no-cache request was answered from the cache", cs(), r, "origin runs")
				case inval:
					l.Violate("served-invalidated "+tag, "an invalidating request was answered from the cache", cs(), r, "origin runs")
				case op.Method != "GET" && op.Method != "HEAD":
					l.Violate("served-unconfigured-method "+tag, "a response to an unconfigured method was served from the cache", cs(), r, "origin runs")
				case !ok:
					l.Violate("served-never-stored op="+kind+" "+tag, "a response was served from the cache although nothing storable was produced for this key", cs(), r, "origin runs")
				case ts >= m.Exp:
					l.Violate("served-after-expiry "+tag, "a cached response was served after its expiration", cs(), r, "origin runs")
				default:
					want := o.log[m.XV]
					if r.Status != want.Status || r.Body != want.Body || r.CT != want.CT || r.Enc != want.Enc || (c.Headers && r.XV != want.XV) {
						field := "status"
						switch {
						case r.Body != want.Body:
							field = "body"
						case r.CT != want.CT:
							field = "content-type"
						case r.Enc != want.Enc:
							field = "encoding"
						case r.Status == want.Status:
							field = "stored-header"
						}
						l.Violate("hit-differs-from-origin field="+field+" "+tag, "the cached response differs from what the origin last produced for this key", cs(), r, want)
					}
				}
				l.Outcome("hit " + kind)
			} else {
				// origin ran: update the model with what may have been stored
				if !noStore && (op.Method == "GET" || op.Method == "HEAD") && cacheable[r.Status] {
					model[key] = mentry{XV: r.XV, Exp: ts + int64(expFor(c, op.Path))}
				} else if !noStore && (op.Method == "GET" || op.Method == "HEAD") {
					delete(model, key) // the previous entry (if any) was looked up and must not resurface... it may: not judged
				}
				if inval {
					// an invalidated entry must be gone even if the refresh was not storable
					if _, ok := model[key]; ok && !cacheable[r.Status] {
						delete(model, key)
					}
				}
				l.Outcome("origin " + kind + " xcache=" + r.XCache)
			}
			if strings.HasPrefix(c.Storage, "injected") && c.MaxBytes > 0 {
				if b := st.bodyBytes(); b > int(c.MaxBytes) {
					l.Violate("bytes-over-maxbytes "+tag, "the bodies held in the storage exceed MaxBytes", cs(), b, c.MaxBytes)
				}
			}
		}
	})
	if len(res.Panics) > 0 {
		var names []string
		for _, x := range ops {
			names = append(names, x.Name)
		}
		l.Violate("panic "+firstLine(res.Panics[0])+" "+tag, "the middleware panicked in a sequential history", map[string]any{"config": c, "ops": names, "trace": trace}, res.Panics, nil)
		l.Outcome("panic")
	}
	if res.Deadlock || res.Horizon || res.Stuck != "" {
		l.Violate("history-stuck "+tag, "sequential history did not complete", fmt.Sprint(ops), res.Blocked, nil)
	}
	l.Add("histories", 1)
	l.Sample(fmt.Sprint(tag, " ", strings.Join(namesOf(ops), ",")))
}

func namesOf(ops []hop) []string {
	var s []string
	for _, o := range ops {
		s = append(s, o.Name)
	}
	return s
}

func opKind(o hop) string { return o.Name }

func enumerateHistories(r *core.Run, depth int) {
	l := core.NewLocal()
	cfgs := allCfgs()
	n := len(hops)
	total := 1
	for i := 0; i < depth; i++ {
		total *= n
	}
	ops := make([]hop, depth)
	idx := 0
	for ci, c := range cfgs {
		for h := 0; h < total; h++ {
			idx++
			if !r.Shard(idx) {
				continue
			}
			x := h
			reqs := 0
			for i := 0; i < depth; i++ {
				ops[i] = hops[x%n]
				x /= n
				if ops[i].Tick == 0 {
					reqs++
				}
			}
			if reqs < 2 || ops[depth-1].Tick > 0 {
				continue // prefixes of other histories
			}
			runHistory(c, ops, l)
		}
		if r.Expired() {
			r.Cap(fmt.Sprintf("wall-clock budget reached in harness A at config %d/%d", ci, len(cfgs)))
			break
		}
	}
	r.Merge(l.P)
}

func debugHistory(spec string) {
	// C14_DEBUG="storage,maxbytes,headers,gen:op,op,op"
	parts := strings.SplitN(spec, ":", 2)
	f := strings.Split(parts[0], ",")
	c := ccfg{Storage: f[0], Headers: f[2] == "true", Gen: f[3] == "true"}
	fmt.Sscan(f[1], &c.MaxBytes)
	var ops []hop
	for _, name := range strings.Split(parts[1], ",") {
		for _, o := range hops {
			if o.Name == name {
				ops = append(ops, o)
			}
		}
	}
	l := core.NewLocal()
	if os.Getenv("C14_PROF") != "" {
		f, _ := os.Create("/tmp/c14.prof")
		_ = pprof.StartCPUProfile(f)
		t0 := time.Now()
		for i := 0; i < 3000; i++ {
			runHistory(c, ops, l)
		}
		pprof.StopCPUProfile()
		fmt.Println("per history:", time.Since(t0)/3000)
	}
	runHistory(c, ops, l)
	for k, v := range l.P.Violations {
		fmt.Println(k, "\n  ", core.Key(v.Case), "\n   observed", core.Key(v.Observed), "expected", core.Key(v.Expected))
	}
	fmt.Println("outcomes", l.P.Outcomes)
}
