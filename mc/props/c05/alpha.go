package main

import (
	"bytes"
	"fmt"
	"os"
	"strings"

	"verifmc/core"
)

// letter is one request kind of the history alphabet (or a probe).
type letter struct {
	Name string
	Raw  []byte // the bytes a client writes for this request
	Note string
	App  bool     // exercises a response helper whose state lives in the application (not in a pooled object)
	Conn connAttr // what the request inherits from its connection (zero value: plain connection from 127.0.0.1:40000)
}

func req(method, target string, hdrs []string, body string) []byte {
	var b bytes.Buffer
	fmt.Fprintf(&b, "%s %s HTTP/1.1\r\n", method, target)
	hasHost := false
	for i := 0; i+1 < len(hdrs); i += 2 {
		if hdrs[i] == "Host" {
			hasHost = true
		}
	}
	if !hasHost {
		b.WriteString("Host: app.example\r\n")
	}
	for i := 0; i+1 < len(hdrs); i += 2 {
		fmt.Fprintf(&b, "%s: %s\r\n", hdrs[i], hdrs[i+1])
	}
	if body != "" || method == "POST" || method == "PUT" {
		fmt.Fprintf(&b, "Content-Length: %d\r\n", len(body))
	}
	b.WriteString("\r\n")
	b.WriteString(body)
	return b.Bytes()
}

// --- a minimal msgpack writer for crafted flash cookies (fix types only) -----

func mpStr(s string) string {
	if len(s) > 31 {
		panic("fixstr only")
	}
	return string([]byte{0xa0 | byte(len(s))}) + s
}

type mpField struct {
	K string
	V string // already encoded value
}

func mpMap(fs ...mpField) string {
	s := string([]byte{0x80 | byte(len(fs))})
	for _, f := range fs {
		s += mpStr(f.K) + f.V
	}
	return s
}

func mpArr(elems ...string) string {
	return string([]byte{0x90 | byte(len(elems))}) + strings.Join(elems, "")
}

func mpMsg(key, value string, level byte, old bool) string {
	b := "\xc2"
	if old {
		b = "\xc3"
	}
	return mpMap(mpField{"key", mpStr(key)}, mpField{"value", mpStr(value)},
		mpField{"level", string([]byte{level})}, mpField{"isOldInput", b})
}

func flashReq(target, cookie string) []byte {
	return req("GET", target, []string{"Cookie", "fiber_flash=" + cookie}, "")
}

// cookieOf extracts the fiber_flash value of a Set-Cookie header from raw response bytes.
func cookieOf(resp []byte) string {
	const p = "Set-Cookie: fiber_flash="
	i := bytes.Index(resp, []byte(p))
	if i < 0 {
		core.Fatal("redirect response carries no flash cookie: %q", resp)
	}
	rest := resp[i+len(p):]
	j := bytes.Index(rest, []byte("; path="))
	if j < 0 {
		core.Fatal("cannot delimit flash cookie: %q", resp)
	}
	return string(rest[:j])
}

var (
	historyAlphabet []*letter
	probes          []*letter
	// the first coreHist letters / coreProbes probes form the history x probe product (every depth);
	// the letters up to mainHist / mainProbes are the wide family (wide.go: histories of at most one
	// request); the letters after them belong to the derived-value family (derived.go), which
	// enumerates its own pairs
	coreHist, coreProbes int
	mainHist, mainProbes int
)

func buildAlphabets() {
	setupFiles()
	// the cookies the server itself issues for the two redirect letters (taken from a real run)
	redir1 := req("GET", "/redir1?name=bob", nil, "")
	redir2 := req("GET", "/redir2", nil, "")
	c1 := cookieOf(runRaw(0, redir1))
	c2 := cookieOf(runRaw(0, redir2))

	full3 := mpArr(mpMsg("ck1", "cval1", 0x41, false), mpMsg("ck2", "cval2", 0x42, false), mpMsg("name", "coldinput", 0x43, true))
	keyOnly := mpArr(mpMap(mpField{"key", mpStr("zk1")}), mpMap(mpField{"key", mpStr("zk2")}))
	trunc := "\x92" + mpMsg("tk1", "tval1", 0x44, false) + "\x84" + mpStr("key") + mpStr("tk2") + "\xa5val"

	historyAlphabet = []*letter{
		{Name: "param1", Raw: req("GET", "/h1/alpha", []string{"Host", "one.example", "X-Name", "hdr-alice", "X-Age", "31"}, ""), Note: "arity-1 route, other Host, BaseURL()"},
		{Name: "param2", Raw: req("GET", "/h2/alpha/beta?name=qalice&age=33&tags=t1&tags=t2", nil, ""), Note: "arity-2 route, query, response header"},
		{Name: "param3", Raw: req("GET", "/h3/alpha/beta/gamma", nil, ""), Note: "arity-3 route, status 201"},
		{Name: "wild", Raw: req("GET", "/hw/x/y/z", nil, ""), Note: "wildcard route"},
		{Name: "redir-input", Raw: redir1, Note: "301 redirect with 2 flash messages + old input"},
		{Name: "redir-flash", Raw: redir2, Note: "303 redirect with 2 flash messages"},
		{Name: "follow-input", Raw: flashReq("/land", c1), Note: "follow-up with the cookie issued by redir-input (contains NUL: fasthttp answers 400)"},
		{Name: "follow-flash", Raw: flashReq("/land", c2), Note: "follow-up with the cookie issued by redir-flash"},
		{Name: "ck-full3", Raw: flashReq("/land", full3), Note: "client-built cookie: 2 flash messages + 1 old input, all fields"},
		{Name: "ck-2empty", Raw: flashReq("/land", "\x92\x80\x80"), Note: "array of 2 empty maps"},
		{Name: "ck-keyonly", Raw: flashReq("/land", keyOnly), Note: "2 maps with only `key`"},
		{Name: "ck-trunc", Raw: flashReq("/land", trunc), Note: "array of 2, second element truncated"},
		{Name: "ck-arr16", Raw: flashReq("/land", "\xdc\x21\x21\x80\x80"), Note: "array16 header announcing 8481 elements, body of 2"},
		// (ck-arr16-nul / ck-arr32-nul — refused by fasthttp with 400 before fiber sees the cookie, exactly like
		// follow-input — are letters of the wide family: histories of one request only, see wide.go)
		{Name: "viewbind", Raw: req("GET", "/vb", nil, ""), Note: "ViewBind + Render"},
		{Name: "locals", Raw: req("GET", "/loc", nil, ""), Note: "Locals (string and typed key)"},
		{Name: "bind-json", Raw: req("POST", "/bind/json", []string{"Content-Type", "application/json"}, `{"name":"jalice","age":7,"tags":["x","y"],"city":"jtown"}`), Note: "JSON body bound with auto handling"},
		{Name: "bind-form", Raw: req("POST", "/bind/form", []string{"Content-Type", "application/x-www-form-urlencoded"}, "name=fbob&age=9&tags=p&tags=q&city=ftown"), Note: "form body bound"},
		{Name: "ov-method", Raw: req("POST", "/ovm", nil, ""), Note: "Method override + RestartRouting"},
		{Name: "ov-path", Raw: req("GET", "/ovp", nil, ""), Note: "Path override + RestartRouting"},
		{Name: "malformed", Raw: []byte("GET /h1/mal\r\nHost: app.example\r\nX-Name: malformed\r\n\r\n"), Note: "no HTTP version: server error handler, connection closed"},
		{Name: "m405", Raw: req("DELETE", "/h1/alpha", nil, ""), Note: "405"},
		{Name: "m404", Raw: req("GET", "/missing/alpha", nil, ""), Note: "404"},
		{Name: "m501", Raw: req("FOO", "/h1/alpha", nil, ""), Note: "unknown method: 501 before routing"},
		{Name: "render-layout", Raw: req("GET", "/vl", nil, ""), Note: "Render with an explicit layout (through the application's views engine)", App: true},
	}

	probes = []*letter{
		{Name: "p1", Raw: req("GET", "/p1/v1", nil, "")},
		{Name: "p2", Raw: req("GET", "/p2/v1/v2", nil, "")},
		{Name: "p3", Raw: req("GET", "/p3/v1/v2/v3", nil, "")},
		{Name: "wild", Raw: req("GET", "/w/some/tail", nil, "")},
		{Name: "opt-absent", Raw: req("GET", "/opt", nil, "")},
		{Name: "render", Raw: req("GET", "/render", nil, "")},
		{Name: "bind-json-empty", Raw: req("POST", "/pbind", []string{"Content-Type", "application/json"}, "{}")},
		{Name: "bind-form-empty", Raw: req("POST", "/pbind", []string{"Content-Type", "application/x-www-form-urlencoded"}, "")},
		{Name: "redirect", Raw: req("GET", "/predir", nil, "")},
		{Name: "p404", Raw: req("GET", "/nothing/here", nil, "")},
		{Name: "p405", Raw: req("POST", "/p1/v1", nil, "")},
		{Name: "flash-2empty", Raw: flashReq("/p1/v1", "\x92\x80\x80")},
		{Name: "flash-3empty", Raw: flashReq("/p1/v1", "\x93\x80\x80\x80")},
		{Name: "malformed", Raw: []byte("GET /p1/v1\r\nHost: app.example\r\n\r\n")},
	}

	// helpers with application-level state: every member of the family is a history letter and a probe.
	// The request carries a Range and an Accept-Encoding header so that each field shows in the
	// response; fasthttp does not compress a response to a Range request, so the Compress member
	// (and a second probe of the base member) are asked without Range.
	for _, v := range sendFileFamily {
		hdrs := []string{"Range", "bytes=4-11", "Accept-Encoding", "gzip"}
		if v.Name == "sf-compress" {
			hdrs = hdrs[2:]
		}
		raw := req("GET", "/sf/"+v.Name, hdrs, "")
		historyAlphabet = append(historyAlphabet, &letter{Name: v.Name, Raw: raw, Note: "SendFile: " + v.Note, App: true})
		probes = append(probes, &letter{Name: v.Name, Raw: raw, Note: "SendFile: " + v.Note, App: true})
		if v.Name == "sf-plain" {
			probes = append(probes, &letter{Name: "sf-plain-gz", Raw: req("GET", "/sf/"+v.Name, hdrs[2:], ""), Note: "SendFile: " + v.Note + ", request without Range", App: true})
		}
	}
	coreHist, coreProbes = len(historyAlphabet), len(probes)
	if os.Getenv("C05_NO_WIDE") == "" { // development aid: cost of the product alone
		historyAlphabet = append(historyAlphabet, wideLetters()...)
		probes = append(probes, wideProbeLetters()...)
	}
	mainHist, mainProbes = len(historyAlphabet), len(probes)
	buildDerived()
}
