package main

import (
	"context"
	"fmt"
	"io"
	"mime"
	"os"
	"path/filepath"
	"sort"
	"strings"
	"syscall"
	"time"

	"github.com/gofiber/fiber/v3"

	"verifmc/core"
)

// ---------------------------------------------------------------------------
// configurations

// The first mainCfgs configurations are used by the whole history x probe product; "proxy"
// (TrustProxy with loopback peers trusted, ProxyHeader X-Forwarded-For, IP validation) only by
// the derived-value family (derived.go), where the peer address and the forwarding headers are inputs.
var cfgNames = []string{"default", "customctx", "immutable", "proxy"}

const mainCfgs = 3

// customCtx is the documented way to build a custom context (embed DefaultCtx, override a method).
type customCtx struct {
	fiber.DefaultCtx
}

// Params is overridden the way docs/api/app.md shows it.
func (c *customCtx) Params(key string, defaultValue ...string) string {
	return "prefix_" + c.DefaultCtx.Params(key, defaultValue...)
}

// tinyViews is an in-memory template engine: it prints the template name and the
// sorted binding map. Whatever reaches the engine is visible in the output.
type tinyViews struct{}

func (tinyViews) Load() error { return nil }

func (tinyViews) Render(w io.Writer, name string, binding any, layouts ...string) error {
	m, _ := binding.(fiber.Map)
	keys := make([]string, 0, len(m))
	for k := range m {
		keys = append(keys, k)
	}
	sort.Strings(keys)
	fmt.Fprintf(w, "<%s>", name)
	if strings.HasPrefix(name, "fail") {
		// a template that cannot be rendered: the engine fails after it has written something
		return fmt.Errorf("tinyViews: template %q cannot be rendered", name)
	}
	if len(layouts) > 0 {
		fmt.Fprintf(w, "layouts=%q;", layouts)
	}
	for _, k := range keys {
		fmt.Fprintf(w, "%s=%v;", k, m[k])
	}
	return nil
}

// ---------------------------------------------------------------------------
// response helpers that keep state in the APPLICATION (not in the pooled context)
//
// ctx.SendFile memoises one file handler (and the Cache-Control value that goes with it)
// per distinct SendFile configuration in app.sendfiles. The family below is one base
// configuration plus every configuration that differs from it in exactly ONE field; each
// member is served by a route of its own, and every route is both a history letter and a
// probe. The request of every member carries a Range and an Accept-Encoding header, so
// that each field is visible in the response (206 / gzip / Content-Disposition /
// Cache-Control / file found through the fs.FS): if the application-level cache confuses
// two members, the probe's response depends on which member was served first.

type sfVariant struct {
	Name string
	File func() string // file argument of SendFile
	Cfg  func() fiber.SendFile
	Note string
}

// CacheDuration < 0 (fasthttp SkipCache): no file cache and no cache-cleaner goroutine per
// application instance — hundreds of thousands of applications are built in one process.
func sfBase() fiber.SendFile { return fiber.SendFile{CacheDuration: -1} }

// no file extension: fasthttp then detects the content type from the data instead of asking
// package mime, whose table is loaded from the host's mime database (environment dependent,
// and ~1 MB of live heap that every pool flush would have to scan)
func docFile() string { return filepath.Join(filesDir, "docfile") }

var sendFileFamily = []sfVariant{
	{Name: "sf-plain", File: docFile, Cfg: sfBase, Note: "base configuration"},
	{Name: "sf-maxage60", File: docFile, Cfg: func() fiber.SendFile { c := sfBase(); c.MaxAge = 60; return c }, Note: "base + MaxAge 60"},
	{Name: "sf-maxage3600", File: docFile, Cfg: func() fiber.SendFile { c := sfBase(); c.MaxAge = 3600; return c }, Note: "base + MaxAge 3600"},
	{Name: "sf-download", File: docFile, Cfg: func() fiber.SendFile { c := sfBase(); c.Download = true; return c }, Note: "base + Download"},
	{Name: "sf-byterange", File: docFile, Cfg: func() fiber.SendFile { c := sfBase(); c.ByteRange = true; return c }, Note: "base + ByteRange"},
	{Name: "sf-compress", File: docFile, Cfg: func() fiber.SendFile { c := sfBase(); c.Compress = true; return c }, Note: "base + Compress"},
	{Name: "sf-fs", File: func() string { return "docfile" }, Cfg: func() fiber.SendFile { c := sfBase(); c.FS = os.DirFS(filesDir); return c }, Note: "base + FS (same file through an fs.FS)"},
	{Name: "sf-missing", File: func() string { return "/nonexistent-verif-c05/missing.txt" }, Cfg: sfBase, Note: "base configuration, file does not exist (error path, shares the cached handler of sf-plain)"},
}

// filesDir is a private directory of this process (Compress writes docfile.fiber.gz next
// to the file; worker processes must not race on it).
var filesDir string

// pinMimeTable makes package mime initialise itself from its built-in table only.
// fasthttp's file handler asks mime.TypeByExtension for every file it opens; the first call
// loads the host's shared mime database (thousands of small objects in sync.Maps that stay
// live for good and that every pool flush — two full collections per trace — would have to
// mark again: measured 2x the cost of a flush). With the descriptor limit at zero for the
// duration of that first call the database files cannot be opened; the served file has no
// extension anyway, so no response depends on the table.
func pinMimeTable() {
	var old syscall.Rlimit
	if err := syscall.Getrlimit(syscall.RLIMIT_NOFILE, &old); err != nil {
		return
	}
	zero := old
	zero.Cur = 0
	if err := syscall.Setrlimit(syscall.RLIMIT_NOFILE, &zero); err != nil {
		return
	}
	_ = mime.TypeByExtension(".txt")
	if err := syscall.Setrlimit(syscall.RLIMIT_NOFILE, &old); err != nil {
		core.Fatal("cannot restore the descriptor limit: %v", err)
	}
}

func setupFiles() {
	if filesDir != "" {
		return
	}
	pinMimeTable()
	d, err := os.MkdirTemp("", "verif_c05_")
	if err != nil {
		core.Fatal("cannot create the file directory: %v", err)
	}
	filesDir = d
	content := strings.Repeat("fiber verification sample line 0123456789\n", 16)
	if err := os.WriteFile(docFile(), []byte(content), 0o644); err != nil {
		core.Fatal("cannot write %s: %v", docFile(), err)
	}
	// Last-Modified is part of the response: fixed modification time
	mt := time.Unix(1700000000, 0)
	if err := os.Chtimes(docFile(), mt, mt); err != nil {
		core.Fatal("chtimes: %v", err)
	}
}

func cleanupFiles() {
	if filesDir != "" {
		_ = os.RemoveAll(filesDir)
	}
}

// ---------------------------------------------------------------------------
// per-run recorder (one run = one fresh app driven by one goroutine)

type obsMap map[string]string

type runState struct {
	cur     int              // global index of the request being served (-1 before the first)
	obs     map[int][]obsMap // observation vectors recorded while request i was current
	ctxPtr  map[int]string   // identity of the fiber ctx that served request i (reuse counter only, never compared)
	fctxPtr map[int]string   // identity of the fasthttp ctx
}

func newRunState() *runState {
	return &runState{cur: -1, obs: map[int][]obsMap{}, ctxPtr: map[int]string{}, fctxPtr: map[int]string{}}
}

type bound struct {
	Name string   `json:"name" form:"name" query:"name" uri:"a" header:"X-Name" cookie:"name"`
	Age  int      `json:"age" form:"age" query:"age" uri:"b" header:"X-Age" cookie:"age"`
	Tags []string `json:"tags" form:"tags" query:"tags" header:"X-Tags"`
	City string   `json:"city" form:"city" query:"city" uri:"c" header:"X-City" cookie:"city"`
}

type ctxKey struct{}

var paramNames = []string{"a", "b", "c", "id", "*", "+"}

func errStr(err error) string {
	if err == nil {
		return "<nil>"
	}
	return err.Error()
}

// mark notes which pooled objects serve the current request (reuse statistics only).
func (st *runState) mark(c fiber.Ctx) {
	st.ctxPtr[st.cur] = fmt.Sprintf("%p", c)
	st.fctxPtr[st.cur] = fmt.Sprintf("%p", c.RequestCtx())
}

// observe records everything a handler can see through the context. All strings are
// rendered into fresh memory (fmt) before the handler returns.
func (st *runState) observe(c fiber.Ctx, where string, herr error) {
	idx := st.cur
	st.mark(c)
	o := obsMap{}
	o["where"] = where
	if herr != nil {
		o["error"] = herr.Error()
	}
	// response state at handler entry: headers / status of an earlier response must not be there
	{
		rh := c.GetRespHeaders()
		keys := make([]string, 0, len(rh))
		for k := range rh {
			keys = append(keys, k)
		}
		sort.Strings(keys)
		var sb strings.Builder
		for _, k := range keys {
			fmt.Fprintf(&sb, "%s=%q;", k, rh[k])
		}
		o["resp.headers-at-entry"] = sb.String()
		o["resp.status-at-entry"] = fmt.Sprint(c.Response().StatusCode())
		o["resp.body-at-entry"] = fmt.Sprintf("%q", c.Response().Body())
	}
	// route parameters
	for _, n := range paramNames {
		o["params."+n] = fmt.Sprintf("%q", c.Params(n))
	}
	rt := c.Route()
	o["route.path"] = fmt.Sprintf("%q", rt.Path)
	o["route.params"] = fmt.Sprintf("%q", rt.Params)
	o["route.method"] = fmt.Sprintf("%q", rt.Method)
	// locals
	{
		var ls []string
		c.RequestCtx().VisitUserValuesAll(func(k, v any) {
			if b, ok := k.([]byte); ok {
				k = string(b)
			}
			ls = append(ls, fmt.Sprintf("%T:%v=%v", k, k, v))
		})
		sort.Strings(ls)
		o["locals"] = strings.Join(ls, ";")
		o["locals.session"] = fmt.Sprintf("%v", c.Locals("session"))
		o["locals.typed"] = fmt.Sprintf("%v", c.Locals(ctxKey{}))
	}
	// the user context (after the locals: Context() itself stores the default context as a user value)
	{
		uc := c.Context()
		o["uctx.context"] = fmt.Sprintf("background=%v value=%v", uc == context.Background(), uc.Value(userCtxKey{}))
	}
	// the Req() / Res() views of the same context
	{
		rq, rs := c.Req(), c.Res()
		o["api.req"] = fmt.Sprintf("path=%q a=%q x-name=%q route=%q", rq.Path(), rq.Params("a"), rq.Get("X-Name"), rq.Route().Path)
		o["api.res"] = fmt.Sprintf("x-history=%q x-res=%q x-mw=%q", rs.Get("X-History"), rs.Get("X-Res"), rs.Get("X-Mw"))
	}
	// flash messages and old input
	{
		rd := c.Redirect()
		o["flash.messages"] = fmt.Sprintf("%q", rd.Messages())
		o["flash.oldinputs"] = fmt.Sprintf("%q", rd.OldInputs())
		o["flash.message(k1)"] = fmt.Sprintf("%q", rd.Message("k1"))
		o["flash.oldinput(name)"] = fmt.Sprintf("%q", rd.OldInput("name"))
	}
	// request-derived values
	o["req.baseurl"] = fmt.Sprintf("%q", c.BaseURL())
	o["req.method"] = fmt.Sprintf("%q", c.Method())
	o["req.path"] = fmt.Sprintf("%q", c.Path())
	o["req.originalurl"] = fmt.Sprintf("%q", c.OriginalURL())
	o["req.host"] = fmt.Sprintf("%q", c.Host())
	o["req.ip"] = fmt.Sprintf("%q", c.IP())
	o["req.query(name)"] = fmt.Sprintf("%q", c.Query("name"))
	o["req.cookie(flash)"] = fmt.Sprintf("%q", c.Cookies(fiber.FlashCookieName))
	o["req.body"] = fmt.Sprintf("%q", c.Body())
	// every value the context DERIVES from several request inputs (see derived.go): a cache or a
	// partial validation of any of them shows here
	o["req.scheme"] = fmt.Sprintf("%q", c.Scheme())
	o["req.secure"] = fmt.Sprint(c.Secure())
	o["req.protocol"] = fmt.Sprintf("%q", c.Protocol())
	o["req.hostname"] = fmt.Sprintf("%q", c.Hostname())
	o["req.port"] = fmt.Sprintf("%q", c.Port())
	o["req.subdomains"] = fmt.Sprintf("%q", c.Subdomains())
	o["req.subdomains(1)"] = fmt.Sprintf("%q", c.Subdomains(1))
	o["req.ips"] = fmt.Sprintf("%q", c.IPs())
	o["req.proxytrusted"] = fmt.Sprint(c.IsProxyTrusted())
	o["req.fromlocal"] = fmt.Sprint(c.IsFromLocal())
	o["req.xhr"] = fmt.Sprint(c.XHR())
	o["req.is"] = fmt.Sprintf("json=%v html=%v form=%v txt=%v", c.Is("json"), c.Is("html"), c.Is("form"), c.Is("txt"))
	o["req.get(content-type)"] = fmt.Sprintf("%q", c.Get(fiber.HeaderContentType))
	o["req.accepts"] = fmt.Sprintf("%q", c.Accepts("application/json", "html", "text/plain"))
	o["req.acceptscharsets"] = fmt.Sprintf("%q", c.AcceptsCharsets("iso-8859-1", "utf-8"))
	o["req.acceptsencodings"] = fmt.Sprintf("%q", c.AcceptsEncodings("br", "gzip"))
	o["req.acceptslanguages"] = fmt.Sprintf("%q", c.AcceptsLanguages("en", "fr"))
	{
		rg, err := c.Range(16)
		o["req.range(16)"] = fmt.Sprintf("%+v err=%s", rg, errStr(err))
	}
	o["req.fresh"] = fmt.Sprintf("fresh=%v stale=%v", c.Fresh(), c.Stale())
	{
		qs := c.Queries()
		keys := make([]string, 0, len(qs))
		for k, v := range qs {
			keys = append(keys, k+"="+v)
		}
		sort.Strings(keys)
		o["req.queries"] = fmt.Sprintf("%q", keys)
	}
	o["req.query(age)"] = fmt.Sprintf("%q/%d", c.Query("age"), fiber.Query[int](c, "age"))
	o["req.cookie(name)"] = fmt.Sprintf("%q", c.Cookies("name"))
	o["req.bodyraw"] = fmt.Sprintf("%q", c.BodyRaw())
	o["req.formvalue(name)"] = fmt.Sprintf("%q", c.FormValue("name"))
	{
		mf, err := c.MultipartForm()
		var vals []string
		if mf != nil {
			for k, v := range mf.Value {
				vals = append(vals, fmt.Sprintf("%s=%q", k, v))
			}
			sort.Strings(vals)
		}
		o["req.multipart"] = fmt.Sprintf("%q err=%s", vals, errStr(err))
	}
	{
		qh := c.GetReqHeaders()
		keys := make([]string, 0, len(qh))
		for k := range qh {
			keys = append(keys, k)
		}
		sort.Strings(keys)
		var sb strings.Builder
		for _, k := range keys {
			fmt.Fprintf(&sb, "%s=%q;", k, qh[k])
		}
		o["req.headers"] = sb.String()
	}
	// binding into zero values
	{
		var q bound
		err := c.Bind().Query(&q)
		o["bind.query"] = fmt.Sprintf("%+v err=%s", q, errStr(err))
		var u bound
		err = c.Bind().URI(&u)
		o["bind.uri"] = fmt.Sprintf("%+v err=%s", u, errStr(err))
		var h bound
		err = c.Bind().Header(&h)
		o["bind.header"] = fmt.Sprintf("%+v err=%s", h, errStr(err))
		var ck bound
		err = c.Bind().Cookie(&ck)
		o["bind.cookie"] = fmt.Sprintf("%+v err=%s", ck, errStr(err))
		var b bound
		err = c.Bind().Body(&b)
		o["bind.body"] = fmt.Sprintf("%+v err=%s", b, errStr(err))
		o["bind.status-after"] = fmt.Sprint(c.Response().StatusCode())
		var fm map[string]string = map[string]string{}
		err = c.Bind().Form(fm)
		fk := make([]string, 0, len(fm))
		for k, v := range fm {
			fk = append(fk, k+"="+v)
		}
		sort.Strings(fk)
		o["bind.form-map"] = fmt.Sprintf("%q err=%s", fk, errStr(err))
	}
	// a Render with an empty bind map shows leftover view binds (and locals: PassLocalsToViews)
	{
		err := c.Render("obs", fiber.Map{})
		o["render"] = fmt.Sprintf("%q err=%s", c.Response().Body(), errStr(err))
		c.Response().ResetBody()
		// ... and one without a bind map at all (the context supplies the map); not from the error handler: a
		// successful render there would tidy up after the failed facility call whose leftovers are being looked for
		if where != "errorhandler" {
			err = c.Render("obs", nil)
			o["render.nil-bind"] = fmt.Sprintf("%q err=%s", c.Response().Body(), errStr(err))
			c.Response().ResetBody()
		}
	}
	st.obs[idx] = append(st.obs[idx], o)
}

// ---------------------------------------------------------------------------
// the application under test

func buildApp(cfg int, st *runState) *fiber.App {
	conf := fiber.Config{
		DisableDefaultDate: true,
		Views:              tinyViews{},
		PassLocalsToViews:  true,
		Immutable:          cfg == 2,
	}
	if cfg == 3 {
		conf.TrustProxy = true
		conf.TrustProxyConfig = fiber.TrustProxyConfig{Loopback: true}
		conf.ProxyHeader = fiber.HeaderXForwardedFor
		conf.EnableIPValidation = true
	}
	conf.ErrorHandler = func(c fiber.Ctx, err error) error {
		st.observe(c, "errorhandler", err)
		return fiber.DefaultErrorHandler(c, err)
	}
	app := fiber.New(conf)
	if cfg == 1 {
		app.NewCtxFunc(func(a *fiber.App) fiber.CustomCtx {
			return &customCtx{DefaultCtx: *fiber.NewDefaultCtx(a)}
		})
	}

	// --- route-shape family (shape.go): a small application of its own per shape ---------------
	if shapeIdx >= 0 {
		registerShape(app, st, &shapes[shapeIdx])
		app.Handler()
		return app
	}

	// --- probe routes: observe, then answer ---------------------------------
	probe := func(name string) fiber.Handler {
		return func(c fiber.Ctx) error {
			st.observe(c, "handler:"+name, nil)
			return c.SendString("probe:" + name)
		}
	}
	app.Get("/p1/:a", probe("p1")).Name("named-p1") // the name is used by Redirect().Route / GetRouteURL of the wide family
	app.Get("/p2/:a/:b", probe("p2"))
	app.Get("/p3/:a/:b/:c", probe("p3"))
	app.Get("/w/*", probe("w"))
	app.Get("/opt/:a?/:b?", probe("opt"))
	// derived-value family (derived.go): every member is a history letter and a probe
	app.Get("/dv/:a", probe("dv"))
	app.Post("/dv/:a", probe("dv-post"))
	app.Get("/dw/:b", probe("dw"))
	app.Get("/render", func(c fiber.Ctx) error {
		st.observe(c, "handler:render", nil)
		return c.Render("page", fiber.Map{})
	})
	app.Post("/pbind", func(c fiber.Ctx) error {
		st.observe(c, "handler:pbind", nil)
		var b bound
		if err := c.Bind().Body(&b); err != nil {
			return c.Status(422).SendString("bind error: " + err.Error())
		}
		return c.JSON(b)
	})
	app.Get("/predir", func(c fiber.Ctx) error {
		st.observe(c, "handler:predir", nil)
		return c.Redirect().To("/land")
	})

	// --- history routes: ordinary handlers using the pooled facilities -------
	app.Get("/h1/:id", func(c fiber.Ctx) error {
		st.mark(c)
		return c.SendString("h1 " + c.Params("id") + " at " + c.BaseURL())
	})
	app.Get("/h2/:id/:b", func(c fiber.Ctx) error {
		st.mark(c)
		c.Set("X-History", "h2")
		var q bound
		if err := c.Bind().Query(&q); err != nil {
			return err
		}
		return c.SendString("h2 " + c.Params("id") + " " + c.Params("b") + " " + q.Name)
	})
	app.Get("/h3/:a/:b/:c", func(c fiber.Ctx) error {
		st.mark(c)
		return c.Status(201).SendString("h3 " + c.Params("a") + c.Params("b") + c.Params("c"))
	})
	app.Get("/hw/*", func(c fiber.Ctx) error {
		st.mark(c)
		return c.SendString("hw " + c.Params("*"))
	})
	app.Get("/redir1", func(c fiber.Ctx) error {
		st.mark(c)
		return c.Redirect().Status(301).With("k1", "secret1", 65).With("k2", "secret2", 66).WithInput().To("/land")
	})
	app.Get("/redir2", func(c fiber.Ctx) error {
		st.mark(c)
		return c.Redirect().Status(303).With("k1", "secret1", 65).With("k2", "secret2", 66).To("/land")
	})
	app.Get("/land", func(c fiber.Ctx) error {
		st.mark(c)
		rd := c.Redirect()
		return c.SendString(fmt.Sprintf("land msgs=%d old=%d k1=%s", len(rd.Messages()), len(rd.OldInputs()), rd.Message("k1").Value))
	})
	app.Get("/vb", func(c fiber.Ctx) error {
		st.mark(c)
		_ = c.ViewBind(fiber.Map{"user": "alice", "role": "admin"})
		return c.Render("page", fiber.Map{"title": "T"})
	})
	app.Get("/loc", func(c fiber.Ctx) error {
		st.mark(c)
		c.Locals("session", "s3cr3t")
		c.Locals(ctxKey{}, 42)
		return c.SendString("loc " + fiber.Locals[string](c, "session"))
	})
	app.Post("/bind/json", func(c fiber.Ctx) error {
		st.mark(c)
		var b bound
		if err := c.Bind().WithAutoHandling().JSON(&b); err != nil {
			return err
		}
		return c.JSON(b)
	})
	app.Post("/bind/form", func(c fiber.Ctx) error {
		st.mark(c)
		var b bound
		if err := c.Bind().Body(&b); err != nil {
			return err
		}
		return c.JSON(b)
	})
	app.Post("/ovm", func(c fiber.Ctx) error {
		st.mark(c)
		c.Method("PUT")
		return c.RestartRouting()
	})
	app.Put("/ovm", func(c fiber.Ctx) error {
		st.mark(c)
		return c.SendString("ovm as " + c.Method())
	})
	app.Get("/ovp", func(c fiber.Ctx) error {
		st.mark(c)
		c.Path("/h2/ov1/ov2")
		return c.RestartRouting()
	})
	app.Get("/vl", func(c fiber.Ctx) error {
		st.mark(c)
		return c.Render("page", fiber.Map{"title": "L"}, "layouts/main")
	})

	// --- routes that are history letters AND probes: helpers with application-level state ---
	for _, v := range sendFileFamily {
		name, file, cfg := v.Name, v.File(), v.Cfg()
		app.Get("/sf/"+name, func(c fiber.Ctx) error {
			st.observe(c, "handler:"+name, nil)
			return c.SendFile(file, cfg)
		})
	}

	// --- wide family (wide.go): handler behaviours and observers used in histories of one request ---
	if wideApp {
		registerWide(app, st)
	}

	app.Handler() // startup processing (route tree) before Server() is used directly
	return app
}
