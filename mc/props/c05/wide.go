package main

// Wide family: handler BEHAVIOURS and observers that the depth-2 product cannot afford.
//
// The cost of the history x probe product grows with the square of the history alphabet, so that
// alphabet holds one letter per pooled facility. What a handler DOES with a facility has many more
// variants (a redirect with a status but no message, a message overwritten, old input taken from a
// form, a redirect to a named route or back to the referer, a Redirect object prepared and never
// sent; bindings that fail under auto handling, go through a custom binder, an XML decoder, into
// maps, from the response headers; state written by a middleware before and after c.Next(), routes
// with several handlers, handlers that return an error after writing state, c.Next() into nothing;
// method / path overrides without a restart; a user context; the Req()/Res() views; cookies with
// every attribute; every response builder; connections ended by the handler ...) — and so has what
// a later handler can LOOK at (a middleware before and after c.Next(), the second handler of a
// route, the error handler after the route handler, a redirect that carries one message / goes to
// a named route / back, sparse flash cookies of other shapes, bindings into maps, an empty
// wildcard).
//
// Nearly every leak needs ONE culprit request followed by the victim, so these variants are
// enumerated at depth 1 only: every history of one request drawn from (product letters + wide
// letters), same connection | new connection, followed by every probe of (product probes + wide
// probes), under every configuration, each trace after a pool flush. Oracle as everywhere.

import (
	"bytes"
	"context"
	"fmt"
	"sort"
	"strings"

	"github.com/gofiber/fiber/v3"
)

// verifBinder is a custom binder (docs/api/bind.md) for a private media type.
type verifBinder struct{}

func (verifBinder) Name() string        { return "verif" }
func (verifBinder) MIMETypes() []string { return []string{"application/x-verif"} }
func (verifBinder) Parse(c fiber.Ctx, out any) error {
	if b, ok := out.(*bound); ok {
		b.Name = "custom:" + string(c.Body())
		return nil
	}
	return fiber.ErrUnprocessableEntity
}

type userCtxKey struct{}

func sortedMap(m map[string][]string) string {
	keys := make([]string, 0, len(m))
	for k, v := range m {
		keys = append(keys, fmt.Sprintf("%s=%q", k, v))
	}
	sort.Strings(keys)
	return strings.Join(keys, ";")
}

// wideLetters / wideProbes are built by buildAlphabets (after the product letters, before the
// derived-value members).
func wideLetters() []*letter {
	const mp = "--XB\r\nContent-Disposition: form-data; name=\"name\"\r\n\r\nmpold\r\n--XB--\r\n"
	unknown := mpArr(mpMap(mpField{"zzz", mpStr("u1")}, mpField{"key", mpStr("uk1")}), mpMap(mpField{"value", mpStr("uv2")}))
	four := mpArr(mpMsg("g1", "gv1", 0x51, false), mpMsg("g2", "gv2", 0x52, true), mpMsg("g3", "gv3", 0x53, false), mpMsg("g4", "gv4", 0x54, true))
	return []*letter{
		// flash cookies the server refuses before fiber sees them, and other cookie shapes
		{Name: "ck-arr16-nul", Raw: flashReq("/land", "\xdc\x00\x02\x80\x80"), Note: "array16 header for 2 (NUL byte: 400)"},
		{Name: "ck-arr32-nul", Raw: flashReq("/land", "\xdd\x00\x00\x00\x02\x80\x80"), Note: "array32 header for 2 (NUL byte: 400)"},
		{Name: "ck-unknown-field", Raw: flashReq("/land", unknown), Note: "2 maps: unknown field + key / value only"},
		{Name: "ck-full4", Raw: flashReq("/land", four), Note: "4 complete messages, 2 of them old input"},
		{Name: "ck-empty-value", Raw: req("GET", "/land", []string{"Cookie", "fiber_flash="}, ""), Note: "flash cookie with an empty value"},
		{Name: "ck-name-in-other-header", Raw: req("GET", "/land", []string{"X-Note", "fiber_flash", "Cookie", "other=1"}, ""), Note: "cookie name only mentioned in another header"},
		// redirect behaviours
		{Name: "x-redir-status-only", Raw: req("GET", "/x/redir/status", nil, ""), Note: "Redirect().Status(307).To(): a status, no message"},
		{Name: "x-redir-override", Raw: req("GET", "/x/redir/override", nil, ""), Note: "With() of the same key twice + another key"},
		{Name: "x-redir-input-form", Raw: req("POST", "/x/redir/input?name=qold", []string{"Content-Type", "application/x-www-form-urlencoded"}, "name=fold&city=fcity"), Note: "WithInput() from a form body"},
		{Name: "x-redir-input-multipart", Raw: req("POST", "/x/redir/input", []string{"Content-Type", "multipart/form-data; boundary=XB"}, mp), Note: "WithInput() from a multipart body"},
		{Name: "x-redir-route", Raw: req("GET", "/x/redir/route", nil, ""), Note: "With() + Route(name, params, queries)"},
		{Name: "x-redir-back", Raw: req("GET", "/x/redir/back", []string{"Referer", "http://app.example/from/here"}, ""), Note: "With() + Back() to the Referer"},
		{Name: "x-redir-back-nofallback", Raw: req("GET", "/x/redir/back0", nil, ""), Note: "With() + Back() without Referer and fallback: error"},
		{Name: "x-redir-unsent", Raw: req("GET", "/x/redir/unsent", nil, ""), Note: "Redirect().Status(308).With() prepared, never sent"},
		// binding behaviours
		{Name: "x-bind-auto-fail", Raw: req("POST", "/x/bind/auto", []string{"Content-Type", "application/json"}, `{"name":"jfail","age":"notanumber"}`), Note: "WithAutoHandling + a body that does not bind: 400"},
		{Name: "x-bind-noauto-fail", Raw: req("POST", "/x/bind/noauto", []string{"Content-Type", "application/json"}, `{"name":`), Note: "WithoutAutoHandling + malformed JSON, handler answers 422"},
		{Name: "x-bind-xml", Raw: req("POST", "/x/bind/body", []string{"Content-Type", "application/xml"}, `<bound><Name>xalice</Name><Age>12</Age><Tags>xt</Tags><City>xtown</City></bound>`), Note: "XML body"},
		{Name: "x-bind-custom", Raw: req("POST", "/x/bind/body", []string{"Content-Type", "application/x-verif"}, "cpayload"), Note: "custom binder by media type"},
		{Name: "x-bind-custom-name", Raw: req("POST", "/x/bind/custom", []string{"Content-Type", "text/plain"}, "npayload"), Note: "Bind().Custom(name)"},
		{Name: "x-bind-maps", Raw: req("GET", "/x/bind/maps?name=mq&tags=m1&tags=m2", []string{"X-Name", "mh", "Cookie", "name=mc; city=mcity"}, ""), Note: "query / header / cookie / response headers bound into maps"},
		// chains
		{Name: "x-mw-chain", Raw: req("GET", "/x/mw/chain/v1", nil, ""), Note: "middleware writes state before and after c.Next(); route with two handlers"},
		{Name: "x-mw-error", Raw: req("GET", "/x/mw/fail/v1", nil, ""), Note: "middleware + handler write state, handler returns an error (418)"},
		{Name: "x-next-nothing", Raw: req("GET", "/x/next", nil, ""), Note: "handler calls c.Next() with no route left: 404 from inside a matched route"},
		{Name: "x-method-noop", Raw: req("GET", "/x/method", nil, ""), Note: "Method override (invalid, then lower-case) without restart"},
		{Name: "x-path-norestart", Raw: req("GET", "/x/path", nil, ""), Note: "Path override to a long path without restart"},
		// other per-request facilities
		{Name: "x-usercontext", Raw: req("GET", "/x/uctx", nil, ""), Note: "SetContext(WithValue) + Context()"},
		{Name: "x-reqres", Raw: req("GET", "/x/reqres/rv?name=rq", []string{"X-Name", "rh"}, ""), Note: "everything through c.Req() / c.Res()"},
		{Name: "x-cookies", Raw: req("GET", "/x/cookies", []string{"Cookie", "a=1; b=2"}, ""), Note: "Cookie with every attribute + ClearCookie of all request cookies"},
		{Name: "x-builders", Raw: req("GET", "/x/builders", []string{"Accept", "application/json"}, ""), Note: "Append / Vary / Links / Type / Attachment / Location + Format"},
		{Name: "x-autoformat", Raw: req("GET", "/x/autoformat", []string{"Accept", "application/xml"}, ""), Note: "AutoFormat (xml)"},
		{Name: "x-jsonp", Raw: req("GET", "/x/jsonp", nil, ""), Note: "JSONP"},
		{Name: "x-write", Raw: req("GET", "/x/write", nil, ""), Note: "Status + Write / Writef / WriteString"},
		{Name: "x-sendstream", Raw: req("GET", "/x/stream", nil, ""), Note: "SendStream"},
		{Name: "x-routeurl", Raw: req("GET", "/x/routeurl", nil, ""), Note: "GetRouteURL + Render without bind map + two ViewBind calls"},
		// facility calls that FAIL after the handler wrote per-request state
		{Name: "x-render-fails", Raw: req("GET", "/x/fail/render", nil, ""), Note: "ViewBind + locals, then Render(name, nil) of a template the engine cannot render: 500"},
		{Name: "x-render-fails-bind", Raw: req("GET", "/x/fail/renderbind", nil, ""), Note: "ViewBind, then Render with an explicit bind map fails"},
		{Name: "x-json-fails", Raw: req("GET", "/x/fail/json", nil, ""), Note: "locals + ViewBind, then JSON of an unmarshallable value: error"},
		{Name: "x-end", Raw: req("GET", "/x/end", nil, ""), Note: "End(): response flushed and connection closed by the handler"},
		{Name: "x-drop", Raw: req("GET", "/x/drop", nil, ""), Note: "Drop(): connection closed without a response"},
	}
}

func wideProbeLetters() []*letter {
	keyOnly := mpArr(mpMap(mpField{"key", mpStr("pk1")}), mpMap(mpField{"key", mpStr("pk2")}))
	unknownOnly := mpArr(mpMap(mpField{"zzz", mpStr("pu")}), mpMap(mpField{"level", "\x21"}), mpMap(mpField{"isOldInput", "\xc3"}), mpMap())
	return []*letter{
		{Name: "xp-redir-with", Raw: req("GET", "/xp/redir/with", nil, "")},
		{Name: "xp-redir-route", Raw: req("GET", "/xp/redir/route", nil, "")},
		{Name: "xp-redir-back", Raw: req("GET", "/xp/redir/back", nil, "")},
		{Name: "xp-mw-chain", Raw: req("GET", "/xp/mw/v1", nil, "")},
		{Name: "xp-error-after-handler", Raw: req("GET", "/xp/fail/v1", nil, "")},
		{Name: "xp-wild-empty", Raw: req("GET", "/xp/w/", nil, "")},
		{Name: "xp-flash-keyonly", Raw: flashReq("/p1/v1", keyOnly)},
		{Name: "xp-flash-4sparse", Raw: flashReq("/p1/v1", unknownOnly)},
		{Name: "xp-bind-maps", Raw: req("GET", "/xp/bind/maps", nil, "")},
		{Name: "xp-bind-xml-empty", Raw: req("POST", "/pbind", []string{"Content-Type", "application/xml"}, "<bound></bound>")},
		{Name: "xp-bind-custom", Raw: req("POST", "/pbind", []string{"Content-Type", "application/x-verif"}, "")},
		{Name: "xp-routeurl", Raw: req("GET", "/xp/routeurl", nil, "")},
	}
}

// registerWide adds the routes of the wide letters and probes.
func registerWide(app *fiber.App, st *runState) {
	app.RegisterCustomBinder(verifBinder{})

	// --- history side ---------------------------------------------------------------------
	app.Get("/x/redir/status", func(c fiber.Ctx) error {
		st.mark(c)
		return c.Redirect().Status(307).To("/land")
	})
	app.Get("/x/redir/override", func(c fiber.Ctx) error {
		st.mark(c)
		return c.Redirect().With("k1", "first", 9).With("k3", "third", 8).With("k1", "second", 7).To("/land")
	})
	app.Post("/x/redir/input", func(c fiber.Ctx) error {
		st.mark(c)
		return c.Redirect().Status(303).WithInput().To("/land")
	})
	app.Get("/x/redir/route", func(c fiber.Ctx) error {
		st.mark(c)
		return c.Redirect().With("k1", "viaroute", 5).Route("named-p1", fiber.RedirectConfig{Params: fiber.Map{"a": "routed"}, Queries: map[string]string{"from": "history"}})
	})
	app.Get("/x/redir/back", func(c fiber.Ctx) error {
		st.mark(c)
		return c.Redirect().With("k2", "viaback", 4).Back("/fallback")
	})
	app.Get("/x/redir/back0", func(c fiber.Ctx) error {
		st.mark(c)
		return c.Redirect().With("k2", "nofallback", 3).Back()
	})
	app.Get("/x/redir/unsent", func(c fiber.Ctx) error {
		st.mark(c)
		c.Redirect().Status(308).With("k1", "unsent", 2)
		return c.SendString("no redirect after all")
	})
	app.Post("/x/bind/auto", func(c fiber.Ctx) error {
		st.mark(c)
		var b bound
		if err := c.Bind().WithAutoHandling().Body(&b); err != nil {
			return err
		}
		return c.JSON(b)
	})
	app.Post("/x/bind/noauto", func(c fiber.Ctx) error {
		st.mark(c)
		var b bound
		if err := c.Bind().WithoutAutoHandling().Body(&b); err != nil {
			return c.Status(422).SendString("refused: " + err.Error())
		}
		return c.JSON(b)
	})
	app.Post("/x/bind/body", func(c fiber.Ctx) error {
		st.mark(c)
		var b bound
		if err := c.Bind().Body(&b); err != nil {
			return err
		}
		return c.JSON(b)
	})
	app.Post("/x/bind/custom", func(c fiber.Ctx) error {
		st.mark(c)
		var b bound
		if err := c.Bind().Custom("verif", &b); err != nil {
			return err
		}
		return c.JSON(b)
	})
	app.Get("/x/bind/maps", func(c fiber.Ctx) error {
		st.mark(c)
		q, h, ck, rh := map[string][]string{}, map[string][]string{}, map[string][]string{}, map[string][]string{}
		c.Set("X-Bound", "rb")
		e1, e2, e3, e4 := c.Bind().Query(q), c.Bind().Header(h), c.Bind().Cookie(ck), c.Bind().RespHeader(rh)
		return c.SendString(fmt.Sprintf("q[%s] h[%s] ck[%s] rh[%s] %s %s %s %s", sortedMap(q), sortedMap(h), sortedMap(ck), sortedMap(rh), errStr(e1), errStr(e2), errStr(e3), errStr(e4)))
	})
	app.Use("/x/mw", func(c fiber.Ctx) error {
		st.mark(c)
		c.Locals("mw", "mw-secret")
		_ = c.ViewBind(fiber.Map{"mwbind": "mwv"})
		c.Set("X-Mw", "before")
		err := c.Next()
		c.Append("X-Mw", "after")
		return err
	})
	app.Get("/x/mw/chain/:a", func(c fiber.Ctx) error {
		c.Locals("h1", c.Params("a"))
		return c.Next()
	}, func(c fiber.Ctx) error {
		return c.Render("page", fiber.Map{"title": "chain"})
	})
	app.Get("/x/mw/fail/:a", func(c fiber.Ctx) error {
		c.Redirect().Status(301).With("k1", "abandoned", 6)
		_ = c.Bind().WithAutoHandling()
		c.Status(202).Set("X-Partial", "written")
		return fiber.NewError(fiber.StatusTeapot, "history handler failed for "+c.Params("a"))
	})
	app.Get("/x/next", func(c fiber.Ctx) error {
		st.mark(c)
		c.Locals("before-next", 1)
		return c.Next()
	})
	app.Get("/x/method", func(c fiber.Ctx) error {
		st.mark(c)
		a := c.Method("BOGUS")
		b := c.Method("delete")
		return c.SendString("method " + a + " " + b + " " + c.Method())
	})
	app.Get("/x/path", func(c fiber.Ctx) error {
		st.mark(c)
		p := c.Path("/a/much/longer/path/than/any/request/of/the/alphabet/has/" + strings.Repeat("segment/", 8))
		return c.SendString("path " + p)
	})
	app.Get("/x/uctx", func(c fiber.Ctx) error {
		st.mark(c)
		c.SetContext(context.WithValue(context.Background(), userCtxKey{}, "user-ctx-secret"))
		return c.SendString(fmt.Sprint("uctx ", c.Context().Value(userCtxKey{})))
	})
	app.Get("/x/reqres/:a", func(c fiber.Ctx) error {
		st.mark(c)
		rq, rs := c.Req(), c.Res()
		rs.Set("X-Res", "set-through-res")
		rs.Cookie(&fiber.Cookie{Name: "viares", Value: "1"})
		rs.Status(203)
		return rs.SendString(fmt.Sprintf("reqres %s %s %s %s %s %s", rq.Params("a"), rq.Path(), rq.Query("name"), rq.Get("X-Name"), rq.Host(), rq.Route().Path))
	})
	app.Get("/x/cookies", func(c fiber.Ctx) error {
		st.mark(c)
		c.Cookie(&fiber.Cookie{Name: "full", Value: "v", Path: "/p", Domain: "app.example", MaxAge: 60, Secure: true, HTTPOnly: true, SameSite: "Strict", Partitioned: true})
		c.ClearCookie()
		c.ClearCookie("named")
		return c.SendString("cookies")
	})
	app.Get("/x/builders", func(c fiber.Ctx) error {
		st.mark(c)
		c.Append("X-List", "one", "two")
		c.Append("X-List", "two", "three")
		c.Vary("Origin")
		c.Vary("Accept-Encoding")
		c.Links("http://app.example/next", "next")
		c.Type("png")
		c.Attachment("report.txt")
		c.Location("/elsewhere")
		return c.Format(
			fiber.ResFmt{MediaType: "text/plain", Handler: func(c fiber.Ctx) error { return c.SendString("plain") }},
			fiber.ResFmt{MediaType: "application/json", Handler: func(c fiber.Ctx) error { return c.JSON(fiber.Map{"fmt": "json"}) }},
		)
	})
	app.Get("/x/autoformat", func(c fiber.Ctx) error {
		st.mark(c)
		return c.AutoFormat(bound{Name: "auto", Age: 1})
	})
	app.Get("/x/jsonp", func(c fiber.Ctx) error {
		st.mark(c)
		return c.JSONP(fiber.Map{"k": "v"}, "cb")
	})
	app.Get("/x/write", func(c fiber.Ctx) error {
		st.mark(c)
		c.Status(206)
		_, _ = c.Write([]byte("w1 "))
		_, _ = c.Writef("w%d ", 2)
		_, _ = c.WriteString("w3")
		return nil
	})
	app.Get("/x/stream", func(c fiber.Ctx) error {
		st.mark(c)
		return c.SendStream(bytes.NewReader([]byte("streamed body")), 13)
	})
	app.Get("/x/routeurl", func(c fiber.Ctx) error {
		st.mark(c)
		u, err := c.GetRouteURL("named-p1", fiber.Map{"a": "url"})
		_ = c.ViewBind(fiber.Map{"user": "first", "url": u})
		_ = c.ViewBind(fiber.Map{"user": "second", "err": errStr(err)})
		return c.Render("page", nil)
	})
	app.Get("/x/fail/render", func(c fiber.Ctx) error {
		st.mark(c)
		c.Locals("session", "sess-of-failed-render")
		_ = c.ViewBind(fiber.Map{"user": "failed-render-user", "csrf": "failed-render-token"})
		return c.Render("fail-page", nil)
	})
	app.Get("/x/fail/renderbind", func(c fiber.Ctx) error {
		st.mark(c)
		_ = c.ViewBind(fiber.Map{"user": "failed-render-user2"})
		return c.Render("fail-page", fiber.Map{"title": "explicit"})
	})
	app.Get("/x/fail/json", func(c fiber.Ctx) error {
		st.mark(c)
		c.Locals("session", "sess-of-failed-json")
		_ = c.ViewBind(fiber.Map{"user": "failed-json-user"})
		return c.JSON(make(chan int))
	})
	app.Get("/x/end", func(c fiber.Ctx) error {
		st.mark(c)
		c.Locals("ended", true)
		_ = c.Status(200).SendString("ended by the handler")
		return c.End()
	})
	app.Get("/x/drop", func(c fiber.Ctx) error {
		st.mark(c)
		c.Locals("dropped", true)
		return c.Drop()
	})

	// --- probe side: observe, then answer through a pooled facility -------------------------------
	app.Get("/xp/redir/with", func(c fiber.Ctx) error {
		st.observe(c, "handler:xp-redir-with", nil)
		return c.Redirect().With("pk", "pv").To("/land")
	})
	app.Get("/xp/redir/route", func(c fiber.Ctx) error {
		st.observe(c, "handler:xp-redir-route", nil)
		return c.Redirect().Route("named-p1", fiber.RedirectConfig{Params: fiber.Map{"a": "probe"}, Queries: map[string]string{"q": "1"}})
	})
	app.Get("/xp/redir/back", func(c fiber.Ctx) error {
		st.observe(c, "handler:xp-redir-back", nil)
		return c.Redirect().Back("/fb")
	})
	app.Use("/xp/mw", func(c fiber.Ctx) error {
		st.observe(c, "middleware:before-next", nil)
		err := c.Next()
		st.observe(c, "middleware:after-next", err)
		return err
	})
	app.Get("/xp/mw/:a", func(c fiber.Ctx) error {
		st.observe(c, "handler:xp-mw-first", nil)
		return c.Next()
	}, func(c fiber.Ctx) error {
		st.observe(c, "handler:xp-mw-second", nil)
		return c.SendString("probe:xp-mw")
	})
	app.Get("/xp/fail/:a", func(c fiber.Ctx) error {
		st.observe(c, "handler:xp-fail", nil)
		return fiber.NewError(fiber.StatusConflict, "probe handler failed")
	})
	app.Get("/xp/w/*", func(c fiber.Ctx) error {
		st.observe(c, "handler:xp-w", nil)
		return c.SendString("probe:xp-w[" + c.Params("*") + "]")
	})
	app.Get("/xp/bind/maps", func(c fiber.Ctx) error {
		st.observe(c, "handler:xp-bind-maps", nil)
		q, h, ck, rh := map[string][]string{}, map[string][]string{}, map[string][]string{}, map[string][]string{}
		e1, e2, e3, e4 := c.Bind().Query(q), c.Bind().Header(h), c.Bind().Cookie(ck), c.Bind().RespHeader(rh)
		return c.SendString(fmt.Sprintf("q[%s] h[%s] ck[%s] rh[%s] %s %s %s %s", sortedMap(q), sortedMap(h), sortedMap(ck), sortedMap(rh), errStr(e1), errStr(e2), errStr(e3), errStr(e4)))
	})
	app.Get("/xp/routeurl", func(c fiber.Ctx) error {
		st.observe(c, "handler:xp-routeurl", nil)
		u, err := c.GetRouteURL("named-p1", fiber.Map{"a": "pu"})
		return c.SendString("probe:xp-routeurl " + u + " " + errStr(err))
	})
}
