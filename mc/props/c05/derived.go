package main

// Derived-value family: history letters that differ from the probe in exactly ONE input of a
// derived (possibly memoised or partially validated) accessor.
//
// Many things a handler reads from the context are not stored in the request but DERIVED from
// several of its inputs: BaseURL = scheme + host; Scheme from X-Forwarded-Proto / -Protocol /
// -Ssl / X-Url-Scheme, the TLS state of the connection and whether the peer is a trusted proxy;
// Host / Hostname / Subdomains from Host and X-Forwarded-Host; IP / IPs from the proxy header and
// the peer address; Path / OriginalURL / Query / Protocol from the request line; Is from the
// Content-Type; Accepts* from the Accept* headers; Range; Fresh / Stale from the conditional
// headers; cookies; the body and its decodings (Content-Encoding) and bindings (Content-Type).
// A pooled context that keeps such a value and validates it by only a SUBSET of its inputs (or
// not at all) answers a later request with the value of an earlier one — but only when the two
// requests agree on the inputs that ARE validated. Ordinary history letters (another route,
// another Host, other headers all at once) differ from the probe in many inputs and refresh
// every such cache.
//
// The family is built from a base request and a table of inputs with a few values each. Its
// members are all requests within distance 2 of the base inside one accessor group (quick) or
// over all inputs (thorough): base, base + one changed input, base + two changed inputs. Every
// member is served by a route whose handler records the full observation vector — so every
// member is a history letter that READS every derived accessor, and a probe. Enumerated are all
// ordered pairs (history member, probe member) that differ in exactly one input — the history
// has it and the probe does not, the probe has it and the history does not, or both carry it
// with different values — while agreeing on every other input (which are at their base value or
// changed, too), on the same keep-alive connection and on a new one, under every configuration,
// plus every member followed by itself. Oracle as everywhere in this check: the probe's
// observation vector and response bytes equal those of the same probe on a fresh application.

import (
	"bytes"
	"compress/gzip"
	"fmt"
	"os"
	"sort"
	"strings"

	"verifmc/core"
)

const (
	dvHeader = iota
	dvPath
	dvQuery
	dvProto
	dvTarget // "" = origin-form; otherwise the absolute-form prefix (scheme://authority)
	dvTLS    // "" | "on"
	dvPeer   // "" | ip:port
	dvBody
	dvMethod // "" = the family's method
)

type dvValue struct {
	Label string
	V     string
}

type dvInput struct {
	Name  string
	Kind  int
	Vals  []dvValue // Vals[0]: the value in the base request (V == "" for a header: absent)
	Reads string    // the accessors derived from it
}

type dvGroup struct {
	Name   string
	Inputs []string
}

type dvFamily struct {
	Name   string
	Method string
	Inputs []dvInput
	Groups []dvGroup
}

// dvMember is one request of the family: Asg[i] indexes Inputs[i].Vals.
type dvMember struct {
	Fam  *dvFamily
	Asg  []int
	Hist int // index into historyAlphabet
	Prb  int // index into probes
}

// dvEdge: history member H differs from the probe member in input In only.
// (No pointers in it, and the tables below are few large objects: every trace is preceded by two
// full collections, whose cost grows with the number of live objects.)
type dvEdge struct {
	H   int32 // index into dvMembers
	In  int16
	Dir uint8 // index into dvDirs
}

var dvDirs = []string{"history-has-it", "probe-has-it", "other-value"}

var (
	dvWide     bool // thorough: the ball of radius 2 over ALL inputs of a family, and the quiet-request variant
	dvFamilies []*dvFamily
	dvMembers  []dvMember
	dvEdges    []dvEdge // all edges, grouped by probe member
	dvEdgeOff  []int32  // edges of probe member i: dvEdges[dvEdgeOff[i]:dvEdgeOff[i+1]]
	dvQuietL   int      // history letter whose handler reads no derived accessor ("wild")
)

func absent() dvValue { return dvValue{Label: "absent"} }

func hv(vals ...string) []dvValue {
	out := []dvValue{absent()}
	for _, v := range vals {
		out = append(out, dvValue{Label: v, V: v})
	}
	return out
}

func gz(s string) string {
	var b bytes.Buffer
	w := gzip.NewWriter(&b)
	_, _ = w.Write([]byte(s))
	_ = w.Close()
	return b.String()
}

func dvDefine() []*dvFamily {
	const flash2 = "\x92\x80\x80"
	get := &dvFamily{Name: "dv-get", Method: "GET", Inputs: []dvInput{
		{Name: "Host", Kind: dvHeader, Reads: "Host Hostname Subdomains BaseURL",
			Vals: []dvValue{{"app.example", "app.example"}, {"other.example", "other.example"}, {"app.example:8080", "app.example:8080"}, {"a.b.app.example", "a.b.app.example"}}},
		{Name: "X-Forwarded-Host", Kind: dvHeader, Reads: "Host Hostname Subdomains BaseURL", Vals: hv("fwd.example", "app.example", "f1.example, f2.example")},
		{Name: "X-Forwarded-Proto", Kind: dvHeader, Reads: "Scheme Secure BaseURL", Vals: hv("https", "http", "https, http")},
		{Name: "X-Forwarded-Protocol", Kind: dvHeader, Reads: "Scheme Secure BaseURL", Vals: hv("https")},
		{Name: "X-Forwarded-Ssl", Kind: dvHeader, Reads: "Scheme Secure BaseURL", Vals: hv("on", "off")},
		{Name: "X-Url-Scheme", Kind: dvHeader, Reads: "Scheme Secure BaseURL", Vals: hv("https")},
		{Name: "tls", Kind: dvTLS, Reads: "Scheme Secure BaseURL", Vals: []dvValue{{"off", ""}, {"on", "on"}}},
		{Name: "peer", Kind: dvPeer, Reads: "IP Port IsFromLocal IsProxyTrusted (and with it Scheme Host IP under TrustProxy)",
			Vals: []dvValue{{"127.0.0.1:40000", ""}, {"127.0.0.1:40001", "127.0.0.1:40001"}, {"10.0.0.7:40000", "10.0.0.7:40000"}}},
		{Name: "target-form", Kind: dvTarget, Reads: "Host BaseURL OriginalURL Path", Vals: []dvValue{{"origin", ""}, {"absolute", "http://abs.example"}}},
		{Name: "X-Forwarded-For", Kind: dvHeader, Reads: "IPs IP(ProxyHeader)", Vals: hv("203.0.113.7", "203.0.113.7, 198.51.100.9", "not-an-ip, 198.51.100.9")},
		{Name: "path", Kind: dvPath, Reads: "Path OriginalURL Params Route Bind.URI",
			Vals: []dvValue{{"/dv/v1", "/dv/v1"}, {"/dv/v2", "/dv/v2"}, {"/dv/v1/", "/dv/v1/"}, {"/DV/v1", "/DV/v1"}, {"/dv/v%31", "/dv/v%31"}, {"/dw/v1", "/dw/v1"},
				{"/dv/v1/x (no route)", "/dv/v1/x"}, {"/dv (no route)", "/dv"}, {"/dw/v1/x (no route)", "/dw/v1/x"}}},
		// the method and the path together decide the dispatch: handler | 404 | 405 + Allow | 501 (what the
		// context keeps for it: methodInt, route, matched flag, detection path and its tree bucket)
		{Name: "method", Kind: dvMethod, Reads: "Method Route dispatch(404/405/501) Allow",
			Vals: []dvValue{{"GET", ""}, {"DELETE", "DELETE"}, {"OPTIONS", "OPTIONS"}, {"FOO (unknown)", "FOO"}}},
		{Name: "query", Kind: dvQuery, Reads: "Query Queries OriginalURL Bind.Query", Vals: hv("name=q1&age=3", "name=q2&age=3", "name=q1", "tags=t1&tags=t2&city=qc")},
		{Name: "proto", Kind: dvProto, Reads: "Protocol", Vals: []dvValue{{"HTTP/1.1", "HTTP/1.1"}, {"HTTP/1.0", "HTTP/1.0"}}},
		{Name: "Accept", Kind: dvHeader, Reads: "Accepts", Vals: hv("text/html", "application/json;q=0.9, text/plain", "*/*;q=0.1")},
		{Name: "Accept-Charset", Kind: dvHeader, Reads: "AcceptsCharsets", Vals: hv("utf-8", "iso-8859-1;q=0.5, utf-8")},
		{Name: "Accept-Encoding", Kind: dvHeader, Reads: "AcceptsEncodings", Vals: hv("gzip", "br;q=0.5, gzip")},
		{Name: "Accept-Language", Kind: dvHeader, Reads: "AcceptsLanguages", Vals: hv("fr", "en;q=0.8, fr")},
		{Name: "Range", Kind: dvHeader, Reads: "Range", Vals: hv("bytes=0-3", "bytes=4-11", "bytes=0-3,8-9", "items=0-3")},
		{Name: "If-None-Match", Kind: dvHeader, Reads: "Fresh Stale", Vals: hv("*", `"etag1"`)},
		{Name: "If-Modified-Since", Kind: dvHeader, Reads: "Fresh Stale", Vals: hv("Tue, 14 Nov 2023 22:13:20 GMT")},
		{Name: "Cache-Control", Kind: dvHeader, Reads: "Fresh Stale", Vals: hv("no-cache", "max-age=0")},
		{Name: "Cookie", Kind: dvHeader, Reads: "Cookies Bind.Cookie flash messages",
			Vals: []dvValue{absent(), {"name=c1; age=4", "name=c1; age=4"}, {"name=c2; age=4", "name=c2; age=4"}, {"name=c1", "name=c1"}, {"city+flash-2empty", "city=cc; fiber_flash=" + flash2}}},
		{Name: "X-Requested-With", Kind: dvHeader, Reads: "XHR", Vals: hv("XMLHttpRequest")},
		{Name: "X-Name", Kind: dvHeader, Reads: "Get GetReqHeaders Bind.Header", Vals: hv("hn1", "hn2")},
		{Name: "X-Age", Kind: dvHeader, Reads: "Get GetReqHeaders Bind.Header", Vals: hv("41")},
	}, Groups: []dvGroup{
		{"origin", []string{"Host", "X-Forwarded-Host", "X-Forwarded-Proto", "X-Forwarded-Protocol", "X-Forwarded-Ssl", "X-Url-Scheme", "tls", "peer", "target-form"}},
		{"client", []string{"X-Forwarded-For", "peer"}},
		{"url", []string{"path", "query", "proto", "target-form"}},
		{"dispatch", []string{"method", "path"}},
		{"negotiation", []string{"Accept", "Accept-Charset", "Accept-Encoding", "Accept-Language"}},
		{"conditional", []string{"Range", "If-None-Match", "If-Modified-Since", "Cache-Control"}},
		{"identity", []string{"Cookie", "X-Requested-With", "X-Name", "X-Age"}},
	}}

	const json1 = `{"name":"jb1","age":5,"tags":["x"],"city":"jc"}`
	// ONE field only: fasthttp parses a multipart body straight from the connection and Request.Body()
	// re-marshals the form by ranging over a map — with two fields the part order would be random
	const mp = "--XB\r\nContent-Disposition: form-data; name=\"name\"\r\n\r\nmp1\r\n--XB--\r\n"
	post := &dvFamily{Name: "dv-post", Method: "POST", Inputs: []dvInput{
		{Name: "Host", Kind: dvHeader, Reads: "Host", Vals: []dvValue{{"app.example", "app.example"}}},
		{Name: "path", Kind: dvPath, Reads: "Path", Vals: []dvValue{{"/dv/v1", "/dv/v1"}}},
		{Name: "proto", Kind: dvProto, Reads: "Protocol", Vals: []dvValue{{"HTTP/1.1", "HTTP/1.1"}}},
		{Name: "query", Kind: dvQuery, Reads: "Query Bind.Query", Vals: hv("name=q1&age=3", "name=q2")},
		{Name: "Content-Type", Kind: dvHeader, Reads: "Is Bind.Body Bind.Form FormValue MultipartForm",
			Vals: []dvValue{{"application/json", "application/json"}, {"application/x-www-form-urlencoded", "application/x-www-form-urlencoded"}, {"text/plain", "text/plain"},
				{"application/json; charset=utf-8", "application/json; charset=utf-8"}, {"multipart/form-data; boundary=XB", "multipart/form-data; boundary=XB"}, {"application/xml", "application/xml"}}},
		{Name: "Content-Encoding", Kind: dvHeader, Reads: "Body Bind.Body", Vals: hv("gzip", "deflate", "identity", "compress")},
		{Name: "body", Kind: dvBody, Reads: "Body BodyRaw Bind.Body Bind.Form FormValue MultipartForm",
			Vals: []dvValue{{"json1", json1}, {"json2", `{"name":"jb2","age":6}`}, {"form", "name=fb1&age=8&tags=p&city=fc"}, {"gzip(json1)", gz(json1)}, {"multipart", mp}, {"empty", ""}}},
	}, Groups: []dvGroup{
		{"content", []string{"Content-Type", "Content-Encoding", "body", "query"}},
	}}
	return []*dvFamily{get, post}
}

func (f *dvFamily) input(name string) int {
	for i := range f.Inputs {
		if f.Inputs[i].Name == name {
			return i
		}
	}
	core.Fatal("derived-value family %s has no input %q", f.Name, name)
	return -1
}

func dvKey(asg []int) string {
	b := make([]byte, len(asg))
	for i, v := range asg {
		b[i] = byte('0' + v)
	}
	return string(b)
}

// render writes the request of an assignment. Header order = input order.
func (f *dvFamily) render(asg []int) (name string, raw []byte, attr connAttr) {
	var path, query, proto, prefix, body string
	method := f.Method
	var hdrs, changed []string
	for i, in := range f.Inputs {
		v := in.Vals[asg[i]]
		if asg[i] != 0 {
			changed = append(changed, in.Name+"="+v.Label)
		}
		switch in.Kind {
		case dvHeader:
			if v.V != "" {
				hdrs = append(hdrs, in.Name, v.V)
			}
		case dvPath:
			path = v.V
		case dvQuery:
			query = v.V
		case dvProto:
			proto = v.V
		case dvTarget:
			prefix = v.V
		case dvTLS:
			attr.TLS = v.V != ""
		case dvPeer:
			attr.Peer = v.V
		case dvBody:
			body = v.V
		case dvMethod:
			if v.V != "" {
				method = v.V
			}
		}
	}
	var b bytes.Buffer
	target := prefix + path
	if query != "" {
		target += "?" + query
	}
	fmt.Fprintf(&b, "%s %s %s\r\n", method, target, proto)
	for i := 0; i+1 < len(hdrs); i += 2 {
		fmt.Fprintf(&b, "%s: %s\r\n", hdrs[i], hdrs[i+1])
	}
	if f.Method == "POST" {
		fmt.Fprintf(&b, "Content-Length: %d\r\n", len(body))
	}
	b.WriteString("\r\n")
	b.WriteString(body)
	return f.Name + "{" + strings.Join(changed, ",") + "}", b.Bytes(), attr
}

// buildDerived appends the members to historyAlphabet and probes (after the main product's
// letters) and computes, for every member as a probe, the members that differ in one input.
func buildDerived() {
	dvFamilies = dvDefine()
	dvMembers = nil
	if os.Getenv("C05_NO_DERIVED") != "" { // development aid: cost of the main product alone
		dvFamilies = nil
	}
	dvQuietL = -1
	for i, l := range historyAlphabet[:mainHist] {
		if l.Name == "wild" {
			dvQuietL = i
		}
	}
	if dvQuietL < 0 {
		core.Fatal("no quiet history letter")
	}
	index := map[string]int{} // family name + assignment -> member
	type pending struct {
		f   *dvFamily
		asg []int
	}
	var todo []pending
	for _, f := range dvFamilies {
		add := func(asg []int) {
			k := f.Name + dvKey(asg)
			if _, ok := index[k]; ok {
				return
			}
			index[k] = len(todo)
			todo = append(todo, pending{f, append([]int(nil), asg...)})
		}
		groups := f.Groups
		if dvWide {
			all := dvGroup{Name: "all"}
			for _, in := range f.Inputs {
				all.Inputs = append(all.Inputs, in.Name)
			}
			groups = []dvGroup{all}
		}
		base := make([]int, len(f.Inputs))
		add(base)
		for _, g := range groups {
			var idx []int
			for _, n := range g.Inputs {
				idx = append(idx, f.input(n))
			}
			for a, i := range idx {
				for vi := 1; vi < len(f.Inputs[i].Vals); vi++ {
					asg := append([]int(nil), base...)
					asg[i] = vi
					add(asg)
					for _, j := range idx[a+1:] {
						for vj := 1; vj < len(f.Inputs[j].Vals); vj++ {
							asg2 := append([]int(nil), asg...)
							asg2[j] = vj
							add(asg2)
						}
					}
				}
			}
		}
	}
	// the members' letters, names, request bytes and assignments live in four slabs
	var names strings.Builder
	var raws []byte
	var asgs []int
	type span struct{ n0, n1, r0, r1, a0, a1 int }
	spans := make([]span, len(todo))
	attrs := make([]connAttr, len(todo))
	for i, t := range todo {
		name, raw, attr := t.f.render(t.asg)
		spans[i] = span{names.Len(), names.Len() + len(name), len(raws), len(raws) + len(raw), len(asgs), len(asgs) + len(t.asg)}
		names.WriteString(name)
		raws = append(raws, raw...)
		asgs = append(asgs, t.asg...)
		attrs[i] = attr
	}
	allNames := names.String()
	const note = "derived-value family: the family's base request with the listed inputs changed"
	letters := make([]letter, len(todo))
	dvMembers = make([]dvMember, len(todo))
	for i, t := range todo {
		sp := spans[i]
		letters[i] = letter{Name: allNames[sp.n0:sp.n1], Raw: raws[sp.r0:sp.r1:sp.r1], Conn: attrs[i], Note: note}
		dvMembers[i] = dvMember{Fam: t.f, Asg: asgs[sp.a0:sp.a1:sp.a1], Hist: len(historyAlphabet), Prb: len(probes)}
		historyAlphabet = append(historyAlphabet, &letters[i])
		probes = append(probes, &letters[i])
	}
	dvEdges = nil
	dvEdgeOff = make([]int32, len(dvMembers)+1)
	for pi := range dvMembers {
		p := &dvMembers[pi]
		dvEdgeOff[pi] = int32(len(dvEdges))
		for i, in := range p.Fam.Inputs {
			for v := range in.Vals {
				if v == p.Asg[i] {
					continue
				}
				asg := append([]int(nil), p.Asg...)
				asg[i] = v
				h, ok := index[p.Fam.Name+dvKey(asg)]
				if !ok {
					continue
				}
				dir := uint8(2)
				if p.Asg[i] == 0 {
					dir = 0
				} else if v == 0 {
					dir = 1
				}
				dvEdges = append(dvEdges, dvEdge{H: int32(h), In: int16(i), Dir: dir})
			}
		}
	}
	dvEdgeOff[len(dvMembers)] = int32(len(dvEdges))
}

// dvLeaked names what differs: the accessor for request-derived values, the facility otherwise.
func dvLeaked(keys []string) string {
	set := map[string]bool{}
	for _, k := range keys {
		bare := k
		if i := strings.Index(k, ":"); i >= 0 && i < 3 {
			bare = k[i+1:]
		}
		if strings.HasPrefix(bare, "req.") {
			set[bare] = true
		} else {
			set[category(k)] = true
		}
	}
	var out []string
	for k := range set {
		out = append(out, k)
	}
	sort.Strings(out)
	return strings.Join(out, "+")
}

// checkDerived runs (history member[, quiet request], probe member) on a fresh application
// and compares the probe with its fresh-application observation. flush=false (every trace of a
// work item but the first): the process-global pools are as the previous trace — same probe,
// another history member, another application instance — left them; a difference found that way
// is re-examined after a flush, exactly as for the longest histories of the main product.
func (ck *checker) checkDerived(cfg int, p *dvMember, e *dvEdge, probeNew, quiet, flush bool) {
	l := ck.l
	h := p
	input, dir := "(none)", "same-request"
	if e != nil {
		h = &dvMembers[e.H]
		input, dir = p.Fam.Inputs[e.In].Name, dvDirs[e.Dir]
	}
	hist := []step{{L: h.Hist, New: true}}
	if quiet {
		hist = append(hist, step{L: dvQuietL, New: false})
	}
	reqs, nc, attrs := buildReqs(hist, p.Prb, probeNew)
	r := runTraceOpt(cfg, reqs, nc, attrs, flush)
	if !flush {
		l.Add("traces_without_global_pool_flush", 1)
	}
	l.Add("transitions", int64(len(reqs)))
	l.Add("traces", 1)
	l.Add("dv_traces", 1)
	l.Add("dv_traces_"+dir, 1)
	pi := len(hist)
	if r.PanicAt >= 0 && r.PanicAt < pi {
		l.Add("unspecified_skipped", 1)
		l.Outcome("history-request-panicked")
		return
	}
	if r.CtxReuse {
		l.Add("probe_served_by_reused_ctx", 1)
		l.Add("dv_probe_served_by_reused_ctx", 1)
	}
	if r.FctxReuse {
		l.Add("probe_served_by_reused_fasthttp_ctx", 1)
	}
	if r.Conns > 1 {
		l.Add("traces_with_several_connections", 1)
	}
	f := flat(r, pi)
	d := ck.diffBase(cfg, p.Prb, false, f)
	l.Outcome(fmt.Sprintf("derived family=%s pair=%s status=%s equal-to-fresh=%v", p.Fam.Name, dir, statusOf(r.Resp[pi]), len(d) == 0))
	if e != nil && cfg == int(e.In)%len(cfgNames) && !probeNew && bitsSet(h.Hist^p.Prb)%5 == 0 {
		l.Sample(map[string]any{"config": cfgNames[cfg], "trace": histStory(hist, p.Prb, probeNew), "differing_input": input, "direction": dir,
			"probe_status": statusOf(r.Resp[pi]), "equal_to_fresh": len(d) == 0, "probe_served_by_reused_ctx": r.CtxReuse})
	}
	if len(d) == 0 {
		return
	}
	// the same trace again after a flush: determinism / carry-over through a process-global pool
	if d2 := ck.violatesFresh(cfg, hist, p.Prb, probeNew); strings.Join(d, "|") != strings.Join(d2.Diff, "|") {
		if !flush {
			l.Violate(fmt.Sprintf("carry-over-through-process-global-pool leaked=%s seen-by=derived-value-family", dvLeaked(d)),
				"the probe differs from the fresh run only when the process-global pools still hold objects released by an earlier trace on ANOTHER application instance (after runtime.GC() x2 the difference changes or disappears)",
				map[string]any{"config": cfgNames[cfg], "trace": histStory(hist, p.Prb, probeNew), "difference_without_flush": d, "difference_after_flush": d2.Diff}, nil, nil)
			return
		}
		core.Fatal("non-deterministic execution: cfg=%s history=%s probe=%s first=%v second=%v", cfgNames[cfg], histNames(hist), probes[p.Prb].Name, d, d2.Diff)
	}
	connClass := "any"
	if h.letter().Conn == p.letter().Conn { // otherwise the probe needs a connection of its own anyway
		if v := ck.violates(cfg, hist, p.Prb, !probeNew); len(v.Diff) == 0 {
			connClass = "keep-alive-only"
			if probeNew {
				connClass = "new-connection-only"
			}
		}
	}
	via := ""
	if quiet {
		// does the difference need the request in between?
		if v := ck.violates(cfg, hist[:1], p.Prb, probeNew); len(v.Diff) == 0 {
			via = " only-with-a-request-in-between"
		}
	}
	sig := fmt.Sprintf("derived-value-follows-earlier-request leaked=%s differing-input=%s direction=%s conn=%s%s", dvLeaked(d), input, dir, connClass, via)
	obs, expd := map[string]string{}, map[string]string{}
	fresh := unpack(ck.base(cfg, p.Prb, false))
	for _, k := range d {
		obs[k], expd[k] = f[k], fresh[k]
	}
	hv, pv := "", ""
	if e != nil {
		hv, pv = p.Fam.Inputs[e.In].Vals[h.Asg[e.In]].Label, p.Fam.Inputs[e.In].Vals[p.Asg[e.In]].Label
	}
	l.Violate(sig,
		"a probe request observes (or answers with) a value derived from an EARLIER request: the earlier request differs from the probe in exactly one request input (all other inputs equal), and the probe's observation vector / response bytes differ from the same probe sent first to a fresh application",
		map[string]any{"config": cfgNames[cfg], "trace": histStory(hist, p.Prb, probeNew), "differing_input": input, "value_in_history_request": hv, "value_in_probe": pv,
			"accessors_derived_from_the_input": dvReads(p, e)},
		obs, expd)
}

func dvReads(p *dvMember, e *dvEdge) string {
	if e == nil {
		return ""
	}
	return p.Fam.Inputs[e.In].Reads
}

func (m *dvMember) letter() *letter { return probes[m.Prb] }

// workerDerived: the work items are (configuration, probe member); item numbers continue after
// the caller's. Returns false when the wall-clock budget ran out.
func workerDerived(r *core.Run, ck *checker) bool {
	item := 0
	for pi := range dvMembers { // member outermost: the expensive members spread over the workers
		for cfg := range cfgNames {
			p := &dvMembers[pi]
			item++
			if !r.Shard(item) {
				continue
			}
			if r.Expired() {
				return false
			}
			ck.l.Add("dv_probe_members_x_configs", 1)
			ck.checkDerived(cfg, p, nil, false, false, true)
			for k := dvEdgeOff[pi]; k < dvEdgeOff[pi+1]; k++ {
				e := &dvEdges[k]
				ck.l.Add("dv_pairs", 1)
				same := dvMembers[e.H].letter().Conn == p.letter().Conn
				for _, probeNew := range []bool{false, true} {
					if !probeNew && !same {
						continue // different connection attributes: the probe cannot share the connection
					}
					ck.checkDerived(cfg, p, e, probeNew, false, false)
					if dvWide {
						ck.checkDerived(cfg, p, e, probeNew, true, false)
					}
				}
			}
		}
	}
	return true
}

// dvBounds describes the family for the evidence file.
func dvBounds() map[string]any {
	out := map[string]any{}
	for _, f := range dvFamilies {
		var ins []string
		for _, in := range f.Inputs {
			if len(in.Vals) < 2 {
				continue
			}
			var vs []string
			for _, v := range in.Vals {
				vs = append(vs, v.Label)
			}
			ins = append(ins, fmt.Sprintf("%s {%s} -> %s", in.Name, strings.Join(vs, " | "), in.Reads))
		}
		var gs []string
		for _, g := range f.Groups {
			gs = append(gs, g.Name+": "+strings.Join(g.Inputs, ", "))
		}
		n := 0
		for i := range dvMembers {
			if dvMembers[i].Fam == f {
				n++
			}
		}
		_, baseRaw, _ := f.render(make([]int, len(f.Inputs)))
		out[f.Name] = map[string]any{"base_request": fmt.Sprintf("%q", baseRaw), "inputs (first value = base request)": ins, "groups": gs, "members": n}
	}
	out["members"] = "base request + every request with one or two inputs changed, both inputs from the same group (thorough: from all inputs of the family)"
	out["pairs"] = "every ordered (history member, probe member) differing in exactly one input: history-has-it / probe-has-it / other-value; plus every member after itself; probe on the same keep-alive connection | on a new connection (TLS and peer address belong to the connection: a pair differing in them uses two connections)"
	out["configs"] = cfgNames
	if dvWide {
		out["quiet_variant"] = "every pair also with a request in between whose handler reads none of the derived accessors (history letter `wild`)"
	}
	return out
}

// dvVisibility: for every single changed input, is it seen by a DERIVED observation (a key other
// than the raw header dump) on a fresh application? Run in the coordinator for the evidence;
// an input nobody derives anything from would make its pairs vacuous.
func dvVisibility() (visible int, blind []string) {
	for _, cfg := range []int{0, len(cfgNames) - 1} {
		baseObs := map[*dvFamily]map[string]string{}
		for mi := range dvMembers {
			m := &dvMembers[mi]
			changedAt := -1
			n := 0
			for i, v := range m.Asg {
				if v != 0 {
					changedAt = i
					n++
				}
			}
			if n > 1 {
				continue
			}
			pr := m.letter()
			wideApp = false
			r := runTraceOpt(cfg, [][]byte{pr.Raw}, []bool{true}, []connAttr{pr.Conn}, true)
			if r.PanicAt >= 0 {
				core.Fatal("member %s panics on a fresh app: %s", pr.Name, r.PanicMsg)
			}
			f := flat(r, 0)
			if n == 0 {
				baseObs[m.Fam] = f
				continue
			}
			var derived []string
			for _, k := range diffKeys(f, baseObs[m.Fam]) {
				if strings.HasSuffix(k, ":req.headers") || k == "response.raw" || strings.HasPrefix(k, "resphdr.") {
					continue
				}
				derived = append(derived, k)
			}
			if len(derived) > 0 {
				visible++
			} else {
				blind = append(blind, fmt.Sprintf("cfg=%s %s=%s", cfgNames[cfg], m.Fam.Inputs[changedAt].Name, m.Fam.Inputs[changedAt].Vals[m.Asg[changedAt]].Label))
			}
		}
	}
	return visible, blind
}

// dropDerived forgets the family's tables once its pairs are done: the main product that follows
// flushes the pools (two full collections) before most of its traces and must not pay for live
// objects it never uses. The fresh-application observations taken for the family are checked for
// drift first.
func (ck *checker) dropDerived() {
	for c := range ck.baseline {
		for p := mainProbes; p < len(ck.baseline[c]); p++ {
			old := ck.baseline[c][p]
			if old == "" {
				continue
			}
			ck.baseline[c][p] = ""
			if now := ck.base(c, p, false); now != old {
				core.Fatal("fresh-app observation drifted during the run: cfg=%s probe=%s keys=%v", cfgNames[c], probes[p].Name, diffKeys(unpack(now), unpack(old)))
			}
		}
		ck.baseline[c] = append([]string(nil), ck.baseline[c][:mainProbes]...)
		ck.baselineW[c] = append([]string(nil), ck.baselineW[c][:mainProbes]...)
	}
	for i := mainHist; i < len(historyAlphabet); i++ {
		historyAlphabet[i] = nil
	}
	for i := mainProbes; i < len(probes); i++ {
		probes[i] = nil
	}
	historyAlphabet, probes = historyAlphabet[:mainHist:mainHist], probes[:mainProbes:mainProbes]
	dvMembers, dvEdges, dvEdgeOff, dvFamilies = nil, nil, nil, nil
}
