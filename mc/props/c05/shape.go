package main

// Route-shape family: parameterised routes reached through every SHORTCUT of the matcher, with
// empty / minimal parameter values, after a request that filled the same parameter slots.
//
// The parameter slots of the pooled context (DefaultCtx.values) are never cleared between
// requests: the context relies on every successful match writing the slots of the matched route.
// Every path through the matcher that decides a match without looking at a parameter — the root
// route "/", the catch-all "/*" hit by exactly "/", a wildcard with an EMPTY remainder ("/api" on
// "/api/*"), optional parameters left out ("/u" on "/u/:id?"), middleware prefixes, a root
// middleware in front of a catch-all — is a place where a slot can keep the value that the previous
// occupant of the context left there. The routes of the main application (app.go) all hang below a
// constant prefix and have a fixed shape each; none of them is the catch-all itself, none starts at
// the root with a parameter.
//
// The family is a table of small applications ("shapes"): a filler route with three parameters
// (registered first; it fills slots 0-2 through ANOTHER route) followed by the one to three routes
// of the shape. Every shape lists request paths that give each of its parameters a non-empty value
// (Fill) and paths that reach it with empty / minimal values through the shortcuts (Min). Enumerated
// per shape and configuration: every history of one request (thorough: one or two) drawn from
// {filler} + Fill + Min, followed by every path of Fill + Min as the probe, on the same keep-alive
// connection and on a new one, each trace after a pool flush. Every route of a shape records the
// full observation vector plus Params of every parameter name used anywhere in the family and of
// the numbered wildcard keys (with and without default value), middlewares once more after
// c.Next(). Oracle as everywhere in this check: the probe's observation vector and response bytes
// equal those of the same probe sent first to a fresh application of the same shape.

import (
	"fmt"
	"os"
	"strings"

	"github.com/gofiber/fiber/v3"

	"verifmc/core"
)

type shapeRoute struct {
	Kind    string // "GET": endpoint | "USE": middleware that observes, calls c.Next() and observes again
	Pattern string
}

type shape struct {
	Name   string
	Routes []shapeRoute
	Fill   []string // request paths that give every parameter of the shape a non-empty value
	Min    []string // request paths with empty / minimal parameter values (one per shortcut of the matcher)
}

const (
	shapeFillerPattern = "/zfill/:x/:y/:z"
	shapeFillerPath    = "/zfill/F1secret/F2secret/F3secret"
)

func get(p string) shapeRoute { return shapeRoute{"GET", p} }
func use(p string) shapeRoute { return shapeRoute{"USE", p} }

var shapes = []shape{
	// the catch-all itself, in every spelling, alone and combined with the root route / root middleware
	{"catch-all", []shapeRoute{get("/*")}, []string{"/secret/tail", "/s"}, []string{"/", "//"}},
	{"catch-all-bare", []shapeRoute{get("*")}, []string{"/secret/tail"}, []string{"/", "/s"}},
	{"catch-all-trailing-slash", []shapeRoute{get("/*/")}, []string{"/secret/tail/"}, []string{"/", "/s"}},
	{"root-then-catch-all", []shapeRoute{get("/"), get("/*")}, []string{"/secret/tail"}, []string{"/", "/s"}},
	{"use-catch-all-then-root", []shapeRoute{use("/*"), get("/")}, []string{"/secret/tail"}, []string{"/"}},
	{"use-root-then-catch-all", []shapeRoute{use("/"), get("/*")}, []string{"/secret/tail"}, []string{"/", "/s"}},
	{"use-root-then-root-optional", []shapeRoute{use("/"), get("/:id?")}, []string{"/secret"}, []string{"/"}},
	{"root-plus", []shapeRoute{get("/+")}, []string{"/secret/tail"}, []string{"/s", "/"}},
	// parameters that start at the root
	{"root-optional", []shapeRoute{get("/:id?")}, []string{"/secret"}, []string{"/", "/s"}},
	{"root-optional-2", []shapeRoute{get("/:a?/:b?")}, []string{"/s1secret/s2secret"}, []string{"/", "/s1", "/s1/"}},
	{"root-required", []shapeRoute{get("/:id")}, []string{"/secret"}, []string{"/s", "/"}},
	// wildcards below a constant prefix, empty remainder
	{"prefix-star", []shapeRoute{get("/api/*")}, []string{"/api/secret/tail"}, []string{"/api/", "/api", "/api/s"}},
	{"prefix-plus", []shapeRoute{get("/api/+")}, []string{"/api/secret/tail"}, []string{"/api/s", "/api/", "/api"}},
	{"two-stars", []shapeRoute{get("/f/*/mid/*")}, []string{"/f/s1secret/mid/s2secret"}, []string{"/f//mid/", "/f/s1/mid/", "/f/s1/mid", "/f//mid/s2"}},
	{"param-then-star", []shapeRoute{get("/p/:a/*")}, []string{"/p/s1secret/s2secret/s3"}, []string{"/p/s1/", "/p/s1", "/p/s1/s2"}},
	// optional parameters left out
	{"optional", []shapeRoute{get("/u/:id?")}, []string{"/u/secret"}, []string{"/u/", "/u", "/u/s"}},
	{"optional-3", []shapeRoute{get("/o/:a?/:b?/:c?")}, []string{"/o/s1secret/s2secret/s3secret"}, []string{"/o", "/o/s1", "/o/s1/s2", "/o/s1/s2/"}},
	{"optional-after-dash", []shapeRoute{get("/d/:a-:b?")}, []string{"/d/s1secret-s2secret"}, []string{"/d/s1-", "/d/s1-s2"}},
	{"optional-in-the-middle", []shapeRoute{get("/v/:a?/tail")}, []string{"/v/s1secret/tail"}, []string{"/v/tail", "/v//tail", "/v/s/tail"}},
	{"optional-with-constraint", []shapeRoute{get("/c/:id<int>?")}, []string{"/c/4711"}, []string{"/c", "/c/", "/c/7", "/c/x"}},
	// parameterised middlewares in front of parameterised endpoints
	{"use-prefix-star-then-optional", []shapeRoute{use("/api/*"), get("/api/:id?")}, []string{"/api/secret"}, []string{"/api", "/api/", "/api/s"}},
	{"use-optional-then-star", []shapeRoute{use("/m/:id?"), get("/m/*")}, []string{"/m/secret/tail"}, []string{"/m", "/m/", "/m/s"}},
	{"use-prefix-then-two-optional", []shapeRoute{use("/n"), get("/n/:a?/:b?")}, []string{"/n/s1secret/s2secret"}, []string{"/n", "/n/s1"}},
}

// shapeIdx: the shape whose application the NEXT trace is served by (-1: the main application).
// Set by runShape; a worker runs one trace at a time.
var shapeIdx = -1

// every parameter name used by a shape or by the filler route, and the numbered wildcard keys
var shapeParamNames = []string{"a", "b", "c", "id", "x", "y", "z", "*", "+", "*1", "*2", "*3", "+1", "+2"}

// observeParams: the parameter accessors under every name (with and without a default value).
func (st *runState) observeParams(c fiber.Ctx, where string) {
	o := obsMap{"where": where}
	for _, n := range shapeParamNames {
		o["params."+n] = fmt.Sprintf("%q", c.Params(n))
		o["params.default("+n+")"] = fmt.Sprintf("%q", c.Params(n, "dflt"))
	}
	o["params.int(id)"] = fmt.Sprint(fiber.Params[int](c, "id", -1))
	rt := c.Route()
	o["route.path"] = fmt.Sprintf("%q", rt.Path)
	o["route.params"] = fmt.Sprintf("%q", rt.Params)
	st.obs[st.cur] = append(st.obs[st.cur], o)
}

func registerShape(app *fiber.App, st *runState, s *shape) {
	app.Get(shapeFillerPattern, func(c fiber.Ctx) error {
		st.mark(c)
		return c.SendString("zfill " + c.Params("x") + " " + c.Params("y") + " " + c.Params("z"))
	})
	for i, rt := range s.Routes {
		name := fmt.Sprintf("%d:%s %s", i, rt.Kind, rt.Pattern)
		if rt.Kind == "USE" {
			app.Use(rt.Pattern, func(c fiber.Ctx) error {
				st.observe(c, "middleware:"+name, nil)
				st.observeParams(c, "middleware:"+name)
				err := c.Next()
				st.observeParams(c, "after-next:"+name)
				return err
			})
			continue
		}
		app.Get(rt.Pattern, func(c fiber.Ctx) error {
			st.observe(c, "handler:"+name, nil)
			st.observeParams(c, "handler:"+name)
			return c.SendString("shape " + name + " *=[" + c.Params("*") + "] +=[" + c.Params("+") + "] id=[" + c.Params("id") + "] a=[" + c.Params("a") + "]")
		})
	}
}

func (s *shape) routes() string {
	var out []string
	for _, rt := range s.Routes {
		out = append(out, rt.Kind+" "+rt.Pattern)
	}
	return strings.Join(out, ", ")
}

// paths: the probes of a shape (Fill first). The histories are the filler request and the same paths.
func (s *shape) paths() []string { return append(append([]string(nil), s.Fill...), s.Min...) }

func (s *shape) histPaths() []string { return append([]string{shapeFillerPath}, s.paths()...) }

func (s *shape) class(path string) string {
	if path == shapeFillerPath {
		return "filler-route"
	}
	for _, p := range s.Fill {
		if p == path {
			return "filled"
		}
	}
	return "minimal"
}

// runShape serves the requests (GET, one path each) by a fresh application of shape si.
func runShape(cfg, si int, paths []string, newConn []bool) *traceResult {
	reqs := make([][]byte, len(paths))
	for i, p := range paths {
		reqs[i] = req("GET", p, nil, "")
	}
	shapeIdx = si
	defer func() { shapeIdx = -1 }()
	return runTraceOpt(cfg, reqs, newConn, nil, true)
}

type shapeChecker struct {
	ck   *checker
	base map[[3]int]string // (cfg, shape, probe path index) -> packed fresh-application observation
}

func (sc *shapeChecker) fresh(cfg, si, pi int) string {
	r := runShape(cfg, si, []string{shapes[si].paths()[pi]}, []bool{true})
	if r.PanicAt >= 0 {
		core.Fatal("route-shape family: probe %s panics on a fresh app (cfg %s, shape %s): %s", shapes[si].paths()[pi], cfgNames[cfg], shapes[si].Name, r.PanicMsg)
	}
	return pack(flat(r, 0))
}

func (sc *shapeChecker) baseOf(cfg, si, pi int) string {
	k := [3]int{cfg, si, pi}
	if b, ok := sc.base[k]; ok {
		return b
	}
	a, b := sc.fresh(cfg, si, pi), sc.fresh(cfg, si, pi)
	if a != b {
		core.Fatal("route-shape family: fresh-app observation is not reproducible: cfg=%s shape=%s probe=%s keys=%v", cfgNames[cfg], shapes[si].Name, shapes[si].paths()[pi], diffKeys(unpack(a), unpack(b)))
	}
	s := &shapes[si]
	if pi < len(s.Fill) {
		// a Fill path must show a non-empty parameter value to its handler (or the family is vacuous)
		seen := false
		for k, v := range unpack(a) {
			if strings.Contains(k, ":params.") && !strings.Contains(k, "default(") && !strings.Contains(k, "int(") && v != `""` && v != `"prefix_"` {
				seen = true
			}
		}
		if !seen {
			core.Fatal("route-shape family: path %s of shape %s (%s) shows no parameter value to its handler", s.paths()[pi], s.Name, s.routes())
		}
	}
	sc.base[k] = a
	return a
}

// diff runs history + probe and returns the keys in which the probe differs from the fresh run.
func (sc *shapeChecker) diff(cfg, si int, hist []string, pi int, allNew bool) (d []string, obs, want map[string]string, reused bool, status string) {
	s := &shapes[si]
	paths := append(append([]string(nil), hist...), s.paths()[pi])
	nc := make([]bool, len(paths))
	for i := range nc {
		nc[i] = allNew || i == 0
	}
	r := runShape(cfg, si, paths, nc)
	l := sc.ck.l
	l.Add("transitions", int64(len(paths)))
	l.Add("traces", 1)
	l.Add("shape_traces", 1)
	last := len(paths) - 1
	if r.PanicAt >= 0 && r.PanicAt < last {
		l.Add("unspecified_skipped", 1)
		return nil, nil, nil, false, "history-panicked"
	}
	f := flat(r, last)
	b := sc.baseOf(cfg, si, pi)
	status = statusOf(r.Resp[last])
	if pack(f) == b {
		return nil, nil, nil, r.CtxReuse, status
	}
	want = unpack(b)
	d = diffKeys(f, want)
	obs = map[string]string{}
	for _, k := range d {
		obs[k] = f[k]
	}
	return d, obs, want, r.CtxReuse, status
}

func shapeStory(hist []string, probe string, allNew bool) []string {
	var out []string
	for i, h := range hist {
		c := "same-conn"
		if allNew || i == 0 {
			c = "new-conn"
		}
		out = append(out, fmt.Sprintf("GET %s [%s]", h, c))
	}
	c := "same-conn"
	if allNew {
		c = "new-conn"
	}
	return append(out, fmt.Sprintf("PROBE GET %s [%s]", probe, c))
}

// workerShapes runs this worker's share of the family; false: the wall-clock budget ran out.
func workerShapes(r *core.Run, ck *checker, depth int) bool {
	if os.Getenv("C05_NO_SHAPES") != "" { // development aid
		return true
	}
	sc := &shapeChecker{ck: ck, base: map[[3]int]string{}}
	l := ck.l
	item := 0
	for si := range shapes {
		for cfg := range cfgNames[:mainCfgs] {
			item++
			if !r.Shard(item) {
				continue
			}
			if r.Expired() {
				return false
			}
			s := &shapes[si]
			hp := s.histPaths()
			var hists [][]string
			for _, a := range hp {
				hists = append(hists, []string{a})
			}
			if depth >= 3 { // thorough: two preceding requests
				for _, a := range hp {
					for _, b := range hp {
						hists = append(hists, []string{a, b})
					}
				}
			}
			l.Add("shape_apps", 1)
			for pi, probe := range s.paths() {
				reported := map[string]bool{}
				for _, hist := range hists {
					var ds [2][]string
					var obs, want [2]map[string]string
					for k, allNew := range []bool{false, true} {
						var reused bool
						var status string
						ds[k], obs[k], want[k], reused, status = sc.diff(cfg, si, hist, pi, allNew)
						if reused {
							l.Add("shape_probe_served_by_reused_ctx", 1)
							l.Add("probe_served_by_reused_ctx", 1)
						}
						l.Outcome(fmt.Sprintf("route-shape probe=%s status=%s equal-to-fresh=%v", s.class(probe), status, len(ds[k]) == 0))
					}
					if si%5 == cfg && pi == len(s.Fill) && len(hist) == 1 && hist[0] == s.Fill[0] {
						l.Sample(map[string]any{"config": cfgNames[cfg], "route_shape": s.routes(), "trace": shapeStory(hist, probe, false),
							"equal_to_fresh": len(ds[0]) == 0})
					}
					k, conn := 0, "any"
					switch {
					case len(ds[0]) == 0 && len(ds[1]) == 0:
						continue
					case len(ds[1]) == 0:
						conn = "keep-alive-only"
					case len(ds[0]) == 0:
						k, conn = 1, "new-conn-only"
					}
					l.Add("shape_violating_histories", 1)
					// a history of two requests: does one of them suffice? (the single requests were tried before)
					leaked := categories(ds[k])
					key := leaked + "|" + conn
					if reported[key] {
						continue
					}
					reported[key] = true
					// determinism: the same trace must differ in the same way when it is executed again
					d2, _, _, _, _ := sc.diff(cfg, si, hist, pi, k == 1)
					if strings.Join(d2, "|") != strings.Join(ds[k], "|") {
						core.Fatal("route-shape family: non-deterministic execution: cfg=%s shape=%s history=%v probe=%s first=%v second=%v", cfgNames[cfg], s.Name, hist, probe, ds[k], d2)
					}
					var hc []string
					for _, h := range hist {
						hc = append(hc, s.class(h)+":"+h)
					}
					expd := map[string]string{}
					for _, key := range ds[k] {
						expd[key] = want[k][key]
					}
					sig := fmt.Sprintf("history-leaks-into-later-request route-shape=[%s] probe=%s:%s after=%s leaked=%s conn=%s",
						s.routes(), s.class(probe), probe, strings.Join(hc, ","), leaked, conn)
					l.Violate(sig,
						"a probe request that reaches a parameterised route with empty / minimal parameter values (through a shortcut of the matcher) observes or answers with something that depends on the request served before it by the same pooled context: its observation vector / response bytes differ from the same probe sent first to a fresh application with the same routes",
						map[string]any{"config": cfgNames[cfg], "routes_in_registration_order": "GET " + shapeFillerPattern + ", " + s.routes(),
							"trace": shapeStory(hist, probe, k == 1)},
						obs[k], expd)
				}
			}
		}
	}
	// the fresh-application observations the verdicts rest on must not have drifted
	for k, old := range sc.base {
		if now := sc.fresh(k[0], k[1], k[2]); now != old {
			core.Fatal("route-shape family: fresh-app observation drifted during the run: cfg=%s shape=%s probe=%s keys=%v", cfgNames[k[0]], shapes[k[1]].Name, shapes[k[1]].paths()[k[2]], diffKeys(unpack(now), unpack(old)))
		}
	}
	return true
}

// shapeBounds describes the family for the evidence file.
func shapeBounds(depth int) map[string]any {
	var list []string
	for i := range shapes {
		s := &shapes[i]
		list = append(list, fmt.Sprintf("%s: routes [%s] filled %v minimal %v", s.Name, s.routes(), s.Fill, s.Min))
	}
	n := 1
	if depth >= 3 {
		n = 2
	}
	return map[string]any{
		"shapes":       list,
		"filler_route": "GET " + shapeFillerPattern + " (registered first in every shape), request " + shapeFillerPath,
		"histories":    fmt.Sprintf("<= %d preceding requests from {filler request} + filled + minimal paths of the shape; all on one keep-alive connection | one connection each", n),
		"probes":       "every filled and minimal path of the shape",
		"configs":      cfgNames[:mainCfgs],
		"observed":     "full observation vector + Params(name) / Params(name, default) for " + strings.Join(shapeParamNames, " ") + " + Params[int](id) + Route(); middlewares again after c.Next()",
	}
}
