package main

import (
	"crypto/tls"
	"io"
	"net"
	"time"
)

// stepConn is an in-memory connection that hands the server exactly ONE request per
// Read call. fasthttp only reads from the connection when its buffer is empty, i.e.
// after the previous request has been answered and flushed, so
//   - the k-th Read that returns data marks the start of request k of this connection,
//   - everything written between two Reads is the response to that request.
//
// ServeConn runs in the calling goroutine; no concurrency is involved.
type stepConn struct {
	reqs   [][]byte
	next   int      // requests handed out so far
	outs   [][]byte // outs[i] = bytes written while request i was the current one
	closed bool
	onRead func(i int)  // called with the index (within this connection) of the request being handed out
	peer   *net.TCPAddr // remote address of the connection (nil: 127.0.0.1:40000)
}

// connAttr: what a request inherits from the CONNECTION it arrives on. Two requests with
// different attributes can never share a keep-alive connection.
type connAttr struct {
	TLS  bool   // the server sees a TLS connection (c.Scheme() == "https" without any header)
	Peer string // remote "ip:port" ("" = 127.0.0.1:40000)
}

// tlsStepConn is a stepConn the server takes for a TLS connection: fasthttp's RequestCtx.IsTLS
// asks for exactly these two methods. No ALPN protocol is negotiated, so HTTP/1.1 is served.
type tlsStepConn struct{ *stepConn }

func (tlsStepConn) Handshake() error                     { return nil }
func (tlsStepConn) ConnectionState() tls.ConnectionState { return tls.ConnectionState{} }

func makeConn(a connAttr, sc *stepConn) net.Conn {
	if a.Peer != "" {
		addr, err := net.ResolveTCPAddr("tcp", a.Peer)
		if err != nil {
			panic("bad peer address " + a.Peer)
		}
		sc.peer = addr
	}
	if a.TLS {
		return tlsStepConn{sc}
	}
	return sc
}

func (c *stepConn) Read(p []byte) (int, error) {
	if c.closed || c.next >= len(c.reqs) {
		return 0, io.EOF
	}
	if len(c.reqs[c.next]) > len(p) {
		panic("stepConn: request larger than the server's read buffer")
	}
	n := copy(p, c.reqs[c.next])
	if c.onRead != nil {
		c.onRead(c.next)
	}
	c.next++
	c.outs = append(c.outs, nil)
	return n, nil
}

func (c *stepConn) Write(p []byte) (int, error) {
	if len(c.outs) == 0 {
		c.outs = append(c.outs, nil)
	}
	c.outs[len(c.outs)-1] = append(c.outs[len(c.outs)-1], p...)
	return len(p), nil
}

func (c *stepConn) Close() error        { c.closed = true; return nil }
func (c *stepConn) LocalAddr() net.Addr { return &net.TCPAddr{IP: net.IPv4(127, 0, 0, 1), Port: 80} }
func (c *stepConn) RemoteAddr() net.Addr {
	if c.peer != nil {
		return c.peer
	}
	return &net.TCPAddr{IP: net.IPv4(127, 0, 0, 1), Port: 40000}
}
func (c *stepConn) SetDeadline(time.Time) error      { return nil }
func (c *stepConn) SetReadDeadline(time.Time) error  { return nil }
func (c *stepConn) SetWriteDeadline(time.Time) error { return nil }
