package main

// Concurrent part ("concurrent mixes" of the quantifier): two requests in flight on ONE application
// (package verifmc/ccpair). Every handler first writes per-request state through the context (locals, view
// binds, response headers, bound data, flash messages), yields to the cooperative scheduler, and then reads
// everything back into its response; under every interleaving (preemption-bounded) at the yields and at every
// pool / mutex / atomic operation of the core and binder packages (shimmed through the overlay) each request must
// receive exactly the response it receives when served alone on an identically prepared application.

import (
	"fmt"
	"sort"
	"strings"

	"github.com/gofiber/fiber/v3"
	"github.com/gofiber/fiber/v3/verifrt"
	"github.com/valyala/fasthttp"

	"verifmc/ccpair"
	"verifmc/core"
)

func ccSeen(c fiber.Ctx) string {
	var ls []string
	c.RequestCtx().VisitUserValuesAll(func(k, v any) {
		if b, ok := k.([]byte); ok {
			k = string(b)
		}
		ls = append(ls, fmt.Sprintf("%v=%v", k, v))
	})
	sort.Strings(ls)
	var q bound
	qerr := c.Bind().Query(&q)
	var u bound
	uerr := c.Bind().URI(&u)
	var hb bound
	herr := c.Bind().Header(&hb)
	var cb bound
	cerr := c.Bind().Cookie(&cb)
	rd := c.Redirect()
	_ = c.Render("obs", fiber.Map{})
	view := string(c.Response().Body())
	c.Response().ResetBody()
	return fmt.Sprintf("params[a=%q b=%q *=%q] route=%q locals=%v who=%q q=%+v/%s uri=%+v/%s hdr=%+v/%s ck=%+v/%s flash=%q old=%q view=%q xwho=%q accepts=%q",
		c.Params("a"), c.Params("b"), c.Params("*"), c.Route().Path, ls, c.Get("X-Who"), q, errStr(qerr), u, errStr(uerr), hb, errStr(herr), cb, errStr(cerr),
		rd.Messages(), rd.OldInputs(), view, c.GetRespHeader("X-Who"), c.Accepts("text/html;level=1", "application/json;v=2", "text/plain")+"/"+c.AcceptsLanguages("en", "fr", "de")+"/"+c.AcceptsEncodings("gzip", "br"))
}

// ccBuildApp: warm (may be nil) are requests served one after the other BEFORE the two concurrent ones — the
// application's context pool, the redirect pool and the binder pools then hold what those requests released.
// ccGate is a custom route constraint that yields to the scheduler: a scheduling point INSIDE the matcher, between
// the moment a parameter value is cut out of the path and the moment the route is accepted.
type ccGate struct{}

func (ccGate) Name() string { return "gate" }
func (ccGate) Execute(string, ...string) bool {
	verifrt.Yield("constraint.gate")
	return true
}

func ccBuildApp(cfg int, warm ...func() *fasthttp.Request) func() fasthttp.RequestHandler {
	return func() fasthttp.RequestHandler {
		conf := fiber.Config{DisableDefaultDate: true, Views: tinyViews{}, PassLocalsToViews: true, Immutable: cfg == 2}
		app := fiber.New(conf)
		if cfg == 1 {
			app.NewCtxFunc(func(a *fiber.App) fiber.CustomCtx { return &customCtx{DefaultCtx: *fiber.NewDefaultCtx(a)} })
		}
		app.Use(func(c fiber.Ctx) error {
			who := c.Get("X-Who")
			c.Locals("mw", who)
			c.Set("X-Who", who)
			verifrt.Yield("mw.before-next")
			err := c.Next()
			verifrt.Yield("mw.after-next")
			return err
		})
		h := func(c fiber.Ctx) error {
			who := c.Get("X-Who")
			c.Locals("h", who+":"+c.Params("a"))
			_ = c.ViewBind(fiber.Map{"vb": who})
			verifrt.Yield("handler.mid")
			return c.SendString(ccSeen(c))
		}
		app.RegisterCustomConstraint(ccGate{})
		app.Get("/g/:a<gate>/:b<gate>", h)
		app.Get("/p/:a", h)
		app.Get("/p/:a/:b", h)
		app.Get("/w/*", h)
		app.Post("/bind", func(c fiber.Ctx) error {
			var b bound
			err := c.Bind().Body(&b)
			verifrt.Yield("handler.bind")
			return c.SendString(fmt.Sprintf("%+v err=%s | %s", b, errStr(err), ccSeen(c)))
		})
		app.Get("/redir/:a", func(c fiber.Ctx) error {
			verifrt.Yield("handler.redirect")
			return c.Redirect().With("k1", "flash-of-"+c.Params("a")).WithInput().To("/p/x")
		})
		app.Get("/redir2/:a", func(c fiber.Ctx) error {
			rd := c.Redirect().Status(303).With("k2", "second-of-"+c.Params("a"), 7)
			verifrt.Yield("handler.redirect2")
			return rd.With("k3", "third-of-"+c.Params("a"), 8).To("/p/y")
		})
		app.Get("/fail/:a", func(c fiber.Ctx) error {
			c.Redirect().Status(301).With("k1", "abandoned-by-"+c.Params("a"))
			return fiber.NewError(fiber.StatusTeapot, "failed for "+c.Params("a"))
		})
		serve := app.Handler()
		for _, mk := range warm {
			var fctx fasthttp.RequestCtx
			fctx.Init(mk(), nil, nil)
			serve(&fctx)
		}
		return serve
	}
}

func ccObserve(resp *fasthttp.Response) string {
	var hs []string
	resp.Header.VisitAll(func(k, v []byte) { hs = append(hs, string(k)+": "+fmt.Sprintf("%q", v)) })
	sort.Strings(hs)
	return fmt.Sprintf("%d\n%s\n%s", resp.StatusCode(), strings.Join(hs, "\n"), resp.Body())
}

func runConcurrentMixes(r *core.Run) {
	mk := func(method, uri, who, ctype, body string, hdr ...string) func() *fasthttp.Request {
		return func() *fasthttp.Request {
			rq := fasthttp.AcquireRequest()
			rq.Header.SetMethod(method)
			rq.SetRequestURI("http://app.test" + uri)
			rq.Header.Set("X-Who", who)
			if ctype != "" {
				rq.Header.SetContentType(ctype)
				rq.SetBodyString(body)
			}
			for i := 0; i+1 < len(hdr); i += 2 {
				rq.Header.Set(hdr[i], hdr[i+1])
			}
			return rq
		}
	}
	flash := "\x91\x84\xa3key\xa2k1\xa5value\xa5hello\xa5level\x00\xaaisOldInput\xc2"
	reqs := []ccpair.Req{
		{Name: "get-p1-alice", Make: mk("GET", "/p/first?name=alice&age=30&tags=x&tags=y", "alice", "", "", "Accept", "text/html;level=1;q=0.7, text/plain;q=0.2", "Accept-Language", "fr;q=0.9, en;q=0.8", "X-Name", "h-alice", "X-Tags", "ha1,ha2", "Cookie", "name=c-alice; age=3")},
		{Name: "get-p2-bob", Make: mk("GET", "/p/SECOND/two?name=bob&city=rome", "bob", "", "", "Accept", "application/json;v=2;q=0.9, text/plain;format=flowed", "Accept-Encoding", "br;q=0.5, gzip", "X-City", "h-bob-city", "Cookie", "city=c-bob")},
		{Name: "get-wild-carol-flash", Make: mk("GET", "/w/some/long/tail", "carol", "", "", "Cookie", fiber.FlashCookieName+"="+flash)},
		{Name: "post-bind-json-dave", Make: mk("POST", "/bind?name=q-dave", "dave", "application/json", `{"name":"dave","age":41,"tags":["t1","t2"],"city":"oslo"}`)},
		{Name: "post-bind-form-erin", Make: mk("POST", "/bind", "erin", "application/x-www-form-urlencoded", "name=erin&age=7&tags=f1")},
		{Name: "get-redirect-frank", Make: mk("GET", "/redir/frank?name=in-frank", "frank", "", "")},
		{Name: "get-gated-hugo", Make: mk("GET", "/g/hugo-one/hugo-two?name=hugo", "hugo", "", "")},
		{Name: "get-gated-iris", Make: mk("GET", "/g/iris-1/iris-2", "iris", "", "")},
		{Name: "get-404-gina", Make: mk("GET", "/nowhere", "gina", "", "")},
	}
	bound := 2
	var scs []ccpair.Scenario
	for cfg, name := range []string{"default-ctx", "custom-ctx", "immutable"} {
		if r.Quick() && cfg == 1 {
			continue // the custom context shares everything but the pool constructor; thorough only
		}
		scs = append(scs, ccpair.Scenario{Name: name, Build: ccBuildApp(cfg), Reqs: reqs, Observe: ccObserve, Self: true, Unordered: r.Quick()})
	}
	ccpair.Run(r, "concurrent", scs, bound)
	if r.P.Counters["cc_executions"] < 1000 {
		core.Fatal("vacuous concurrent part: only %d executions", r.P.Counters["cc_executions"])
	}

	// histories x schedules: the same two-in-flight exploration on an application that has already SERVED a request
	// (one per kind of exit from the request handler: unknown method, 404, 405, flash cookie, redirect, failed
	// binding, handler error) — what that request released into the pools (a context put back twice, a Redirect
	// object still referenced ...) is handed to the two concurrent requests. The responses are compared with the
	// same request served alone after the same warm-up.
	before := r.P.Counters["cc_executions"]
	badJSON := mk("POST", "/bind", "warm", "application/json", `{"name":`)
	warms := []struct {
		Name string
		Make func() *fasthttp.Request
	}{
		{"unknown-method", mk("FOO", "/p/x", "warm", "", "")},
		{"404", mk("GET", "/nowhere/warm", "warm", "", "")},
		{"405", mk("DELETE", "/p/x", "warm", "", "")},
		{"flash-cookie", mk("GET", "/w/warm/tail", "warm", "", "", "Cookie", fiber.FlashCookieName+"="+flash)},
		{"redirect", mk("GET", "/redir/warm?name=in-warm", "warm", "", "")},
		{"failed-binding", badJSON},
		{"handler-error", mk("GET", "/fail/warm", "warm", "", "")},
	}
	hana := ccpair.Req{Name: "get-redirect2-hana", Make: mk("GET", "/redir2/hana", "hana", "", "")}
	sub := []ccpair.Req{reqs[0], reqs[2], reqs[3], reqs[5], hana}
	var wscs []ccpair.Scenario
	for _, w := range warms {
		wscs = append(wscs, ccpair.Scenario{Name: "after-" + w.Name, Build: ccBuildApp(0, w.Make), Reqs: sub, Observe: ccObserve, Self: true, Unordered: true})
	}
	wbound := 1
	if !r.Quick() {
		wbound = 2
	}
	ccpair.Run(r, "concurrent-after-history", wscs, wbound)
	r.P.Counters["cc_executions_after_history"] = r.P.Counters["cc_executions"] - before
	if r.P.Counters["cc_executions_after_history"] < 500 {
		core.Fatal("vacuous concurrent-after-history part: only %d executions", r.P.Counters["cc_executions_after_history"])
	}
}
