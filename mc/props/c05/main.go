// C05 — requests are isolated from each other despite context pooling.
//
// History search with a differential oracle, on the real code at wire level:
// every sequence of <= D preceding requests from a 32-letter alphabet (each on the
// same keep-alive connection or on a new one) is sent to a fresh application through
// app.Server().ServeConn, followed by one of 23 probe requests whose handler records
// the full observation vector. The observation and the raw response bytes must equal
// those of the same probe sent as the very first request to a fresh application.
//
// Besides the pooled per-request objects, the alphabet covers response helpers that keep
// state in the APPLICATION: a family of SendFile routes whose configurations differ from a
// base configuration in exactly one field each (app.sendfiles memoises one file handler +
// Cache-Control value per configuration); every member is a history letter and a probe.
//
// Values the context DERIVES from several request inputs (BaseURL, Scheme, Host, IP, Path, Query,
// Is, Accepts*, Range, Fresh, cookies, body decodings ...) get a family of their own (derived.go):
// requests built from a base request and a table of inputs, and every ordered pair (history,
// probe) of them that differs in exactly ONE input while agreeing on all others — a cache keyed
// or validated by a subset of the inputs of the value it holds cannot hide behind letters that
// differ from the probe in everything at once.
//
// What a handler DOES with a pooled facility (and what a later handler can look at) has many more
// variants than the product can afford: they form the wide family (wide.go) — 36 more history
// letters and 12 more probes, used in histories of ONE request only.
//
// Route parameter slots of the pooled context are only ever overwritten by a successful match, so every
// shortcut of the matcher may keep a previous request's value: the route-shape family (shape.go) — 23
// small applications (the catch-all in every spelling, root / prefix wildcards, optional parameters,
// parameterised middlewares), each reached with empty / minimal parameter values after a request that
// filled the same slots.
//
// Concurrent mixes (concurrent.go): two requests in flight on one application, from fresh pools and
// after one served request of every kind of exit from the request handler.
//
// Pooled-object reuse is made deterministic: worker processes run with GOMAXPROCS=1,
// all pools are emptied (runtime.GC() twice) before every execution and the collector
// is switched off during it.
package main

import (
	"bytes"
	"fmt"
	"net"
	"os"
	"runtime"
	"runtime/debug"
	"runtime/pprof"
	"sort"
	"strings"
	"syscall"
	"time"

	"verifmc/core"
)

type step struct {
	L   int  // index into historyAlphabet
	New bool // sent on a new connection (false: pipelined on the connection of the previous request)
}

type traceResult struct {
	Obs       map[int][]obsMap // observation vectors per request
	Resp      [][]byte         // raw response bytes per request
	PanicAt   int              // request index during which the server panicked (-1: none)
	PanicMsg  string
	Conns     int  // connections actually opened (a closed connection forces a new one)
	CtxReuse  bool // the probe was served by a fiber ctx that served an earlier request
	FctxReuse bool
}

// runTrace executes reqs in order against a fresh app. newConn[i] says whether request i
// opens a new connection (newConn[0] is ignored: the first request always does).
func runTrace(cfg int, reqs [][]byte, newConn []bool) *traceResult {
	return runTraceOpt(cfg, reqs, newConn, nil, true)
}

// runTraceOpt: flush=false keeps whatever the previous trace left in the process-global
// pools (redirect, binder, fasthttp); the application, its ctx pool and its server are
// fresh in either case.
//
// attrs[i] (nil: all default) is what request i inherits from its connection (TLS, peer address):
// a request whose attributes differ from those of the previous request opens a new connection
// whatever newConn says.
func runTraceOpt(cfg int, reqs [][]byte, newConn []bool, attrs []connAttr, flush bool) *traceResult {
	if flush {
		runtime.GC()
		runtime.GC() // second cycle drops the pools' victim caches: every pool is empty now
	}
	st := newRunState()
	app := buildApp(cfg, st)
	srv := app.Server()
	res := &traceResult{Obs: st.obs, Resp: make([][]byte, len(reqs)), PanicAt: -1}
	n := len(reqs)
	i := 0
	for i < n {
		j := i + 1
		for j < n && !newConn[j] && (attrs == nil || attrs[j] == attrs[i]) {
			j++
		}
		base := i
		conn := &stepConn{reqs: reqs[i:j], onRead: func(k int) { st.cur = base + k }}
		var nc net.Conn = conn
		if attrs != nil {
			nc = makeConn(attrs[i], conn)
		}
		res.Conns++
		func() {
			defer func() {
				if p := recover(); p != nil {
					res.PanicAt = st.cur
					res.PanicMsg = fmt.Sprint(p)
				}
			}()
			_ = srv.ServeConn(nc)
		}()
		for k := 0; k < conn.next; k++ {
			res.Resp[i+k] = conn.outs[k]
		}
		if res.PanicAt >= 0 {
			break
		}
		if conn.next == 0 {
			core.Fatal("server did not read from a fresh connection")
		}
		// requests the server left unread (it closed the connection after an error) are
		// sent on a new connection, as a client would do
		i += conn.next
	}
	last := n - 1
	if p, ok := st.ctxPtr[last]; ok {
		for k := 0; k < last; k++ {
			if st.ctxPtr[k] == p {
				res.CtxReuse = true
			}
			if st.fctxPtr[k] == st.fctxPtr[last] {
				res.FctxReuse = true
			}
		}
	}
	return res
}

// runRaw sends one request to a fresh app and returns the response bytes.
func runRaw(cfg int, raw []byte) []byte {
	r := runTrace(cfg, [][]byte{raw}, []bool{true})
	if r.PanicAt >= 0 {
		core.Fatal("panic while serving %q: %s", raw, r.PanicMsg)
	}
	return r.Resp[0]
}

// flat renders the probe's part of a trace as key -> value.
func flat(r *traceResult, idx int) map[string]string {
	m := map[string]string{}
	for i, o := range r.Obs[idx] {
		for k, v := range o {
			m[fmt.Sprintf("%d:%s", i, k)] = v
		}
	}
	m["observations"] = fmt.Sprint(len(r.Obs[idx]))
	m["response.raw"] = fmt.Sprintf("%q", r.Resp[idx])
	for k, v := range respHeaders(r.Resp[idx]) {
		m["resphdr."+k] = v
	}
	if r.PanicAt == idx {
		m["panic"] = r.PanicMsg
	}
	return m
}

// respHeaders splits the header block of a raw response (names as written by the server;
// repeated headers joined). It only refines the classification of a response difference:
// the raw bytes are compared as a whole in any case.
func respHeaders(resp []byte) map[string]string {
	out := map[string]string{}
	end := bytes.Index(resp, []byte("\r\n\r\n"))
	if end < 0 {
		return out
	}
	lines := strings.Split(string(resp[:end]), "\r\n")
	for _, ln := range lines[1:] {
		i := strings.Index(ln, ": ")
		if i <= 0 {
			continue
		}
		k, v := ln[:i], fmt.Sprintf("%q", ln[i+2:])
		if old, ok := out[k]; ok {
			v = old + "," + v
		}
		out[k] = v
	}
	return out
}

func diffKeys(a, b map[string]string) []string {
	seen := map[string]bool{}
	var out []string
	for k, v := range a {
		if w, ok := b[k]; !ok || w != v {
			seen[k] = true
			out = append(out, k)
		}
	}
	for k := range b {
		if _, ok := a[k]; !ok && !seen[k] {
			out = append(out, k)
		}
	}
	sort.Strings(out)
	return out
}

// category maps an observation key to the facility of the statement it belongs to.
func category(key string) string {
	if i := strings.Index(key, ":"); i >= 0 {
		key = key[i+1:]
	}
	switch {
	case strings.HasPrefix(key, "params."):
		return "route-params"
	case strings.HasPrefix(key, "route."):
		return "route"
	case strings.HasPrefix(key, "locals"):
		return "locals"
	case strings.HasPrefix(key, "flash."):
		return "flash"
	case strings.HasPrefix(key, "bind."):
		return "bound-data"
	case key == "render":
		return "view-binds"
	case key == "uctx.context":
		return "user-context"
	case strings.HasPrefix(key, "api."):
		return "req-res-views"
	case key == "req.baseurl":
		return "baseurl"
	case key == "req.method":
		return "method"
	case key == "req.path" || key == "req.originalurl":
		return "path"
	case strings.HasPrefix(key, "req."):
		return "request-data"
	case strings.HasPrefix(key, "resp."):
		return "response-state-at-entry"
	case key == "response.raw":
		return "response-bytes"
	case key == "resphdr.Content-Length":
		return "response-bytes" // follows from the body
	case strings.HasPrefix(key, "resphdr."):
		return "response-header(" + key[len("resphdr."):] + ")"
	case key == "where" || key == "error" || key == "observations":
		return "dispatch"
	case key == "panic":
		return "panic"
	}
	return "other:" + key
}

func categories(keys []string) string {
	set := map[string]bool{}
	for _, k := range keys {
		set[category(k)] = true
	}
	var out []string
	for k := range set {
		out = append(out, k)
	}
	sort.Strings(out)
	return strings.Join(out, "+")
}

func statusOf(resp []byte) string {
	if len(resp) < 12 || !bytes.HasPrefix(resp, []byte("HTTP/1.1 ")) {
		if len(resp) == 0 {
			return "none"
		}
		return "garbled"
	}
	return string(resp[9:12])
}

// ---------------------------------------------------------------------------

type checker struct {
	l         *core.Local
	baseline  [][]string // [cfg][probe]: packed observation of the probe on a fresh application (see pack)
	baselineW [][]string // the same on an application that carries the routes of the wide family too (see wideApp)
	memo      map[string]rerun
	culprits  map[string]culprit
}

// pack renders an observation as ONE string (sorted, length-prefixed key/value pairs). The
// fresh-application observations stay live for the whole run, and every pool flush is two
// full collections: a few strings are cheaper to mark than a few thousand map entries.
func pack(m map[string]string) string {
	keys := make([]string, 0, len(m))
	for k := range m {
		keys = append(keys, k)
	}
	sort.Strings(keys)
	var sb strings.Builder
	for _, k := range keys {
		fmt.Fprintf(&sb, "%d:%s%d:%s", len(k), k, len(m[k]), m[k])
	}
	return sb.String()
}

func unpack(s string) map[string]string {
	m := map[string]string{}
	next := func() string {
		i := strings.IndexByte(s, ':')
		var n int
		fmt.Sscan(s[:i], &n)
		v := s[i+1 : i+1+n]
		s = s[i+1+n:]
		return v
	}
	for len(s) > 0 {
		k := next()
		m[k] = next()
	}
	return m
}

// diffBase: the keys in which observation f differs from the fresh-application observation.
func (ck *checker) diffBase(cfg, probe int, wide bool, f map[string]string) []string {
	if pack(f) == ck.base(cfg, probe, wide) {
		return nil
	}
	return diffKeys(f, unpack(ck.base(cfg, probe, wide)))
}

// wideApp: does the application of the NEXT trace carry the routes of the wide family (wide.go)? They are
// registered only for traces that contain a wide letter or probe (an application is built per trace, and
// registering half as many routes again for every trace of the product costs ~10% of the run); a probe is
// always compared with its fresh-application observation on the SAME kind of application. Set by buildReqs
// and base; a worker runs one trace at a time.
var wideApp bool

func needWide(hist []step, probe int) bool {
	if probe >= coreProbes && probe < mainProbes {
		return true
	}
	for _, h := range hist {
		if h.L >= coreHist && h.L < mainHist {
			return true
		}
	}
	return false
}

// base: the packed fresh-application observation of a probe. The main product's entries are
// computed up front (computeBaseline); the entries of the derived-value family (many letters,
// each worker needs few of them) on first use — twice, because the oracle rests on them.
func (ck *checker) base(cfg, probe int, wide bool) string {
	tab := ck.baseline
	if wide {
		tab = ck.baselineW
	}
	if b := tab[cfg][probe]; b != "" {
		return b
	}
	one := func() string {
		pr := probes[probe]
		wideApp = wide
		r := runTraceOpt(cfg, [][]byte{pr.Raw}, []bool{true}, []connAttr{pr.Conn}, true)
		if r.PanicAt >= 0 {
			core.Fatal("baseline probe %s panics on a fresh app (cfg %s): %s", pr.Name, cfgNames[cfg], r.PanicMsg)
		}
		return pack(flat(r, 0))
	}
	a, b := one(), one()
	if a != b {
		core.Fatal("fresh-app observation is not reproducible: cfg=%s probe=%s keys=%v", cfgNames[cfg], probes[probe].Name, diffKeys(unpack(a), unpack(b)))
	}
	tab[cfg][probe] = a
	return a
}

func (ck *checker) computeBaseline() [][]string {
	out := make([][]string, len(cfgNames))
	for c := range cfgNames {
		out[c] = make([]string, len(probes))
		if c >= mainCfgs {
			continue
		}
		wideApp = false
		for p, pr := range probes[:coreProbes] { // everything else is computed on first use (base)
			r := runTrace(c, [][]byte{pr.Raw}, []bool{true})
			if r.PanicAt >= 0 {
				core.Fatal("baseline probe %s panics on a fresh app (cfg %s): %s", pr.Name, cfgNames[c], r.PanicMsg)
			}
			out[c][p] = pack(flat(r, 0))
		}
	}
	return out
}

func sameBaseline(a, b [][]string) string {
	for c := range a {
		for p := range a[c] {
			if a[c][p] == "" || b[c][p] == "" {
				continue
			}
			if d := diffKeys(unpack(a[c][p]), unpack(b[c][p])); len(d) > 0 {
				return fmt.Sprintf("cfg=%s probe=%s keys=%v", cfgNames[c], probes[p].Name, d)
			}
		}
	}
	return ""
}

func buildReqs(hist []step, probe int, probeNew bool) ([][]byte, []bool, []connAttr) {
	reqs := make([][]byte, 0, len(hist)+1)
	nc := make([]bool, 0, len(hist)+1)
	var attrs []connAttr // stays nil while every request uses the default connection
	note := func(i int, a connAttr) {
		if a == (connAttr{}) && attrs == nil {
			return
		}
		if attrs == nil {
			attrs = make([]connAttr, len(hist)+1)
		}
		attrs[i] = a
	}
	for i, s := range hist {
		reqs = append(reqs, historyAlphabet[s.L].Raw)
		nc = append(nc, s.New)
		note(i, historyAlphabet[s.L].Conn)
	}
	reqs = append(reqs, probes[probe].Raw)
	nc = append(nc, probeNew)
	note(len(hist), probes[probe].Conn)
	wideApp = needWide(hist, probe)
	return reqs, nc, attrs
}

type rerun struct {
	Diff []string          // differing keys (nil: equal to the fresh run, or a preceding request panicked)
	Obs  map[string]string // observed values of the differing keys
}

func traceKey(cfg int, hist []step, probe int, probeNew bool) string {
	var sb strings.Builder
	fmt.Fprintf(&sb, "%d|%d|%v|", cfg, probe, probeNew || len(hist) == 0)
	for i, h := range hist {
		fmt.Fprintf(&sb, "%d:%v,", h.L, h.New || i == 0)
	}
	return sb.String()
}

// violates runs history+probe again (memoised: executions are deterministic) and
// returns the keys in which the probe differs from the fresh run.
func (ck *checker) violates(cfg int, hist []step, probe int, probeNew bool) rerun {
	key := traceKey(cfg, hist, probe, probeNew)
	if v, ok := ck.memo[key]; ok {
		return v
	}
	v := ck.violatesFresh(cfg, hist, probe, probeNew)
	ck.memo[key] = v
	return v
}

func (ck *checker) violatesFresh(cfg int, hist []step, probe int, probeNew bool) rerun {
	reqs, nc, attrs := buildReqs(hist, probe, probeNew)
	r := runTraceOpt(cfg, reqs, nc, attrs, true)
	ck.l.Add("requests_in_reruns", int64(len(reqs)))
	if r.PanicAt >= 0 && r.PanicAt < len(hist) {
		return rerun{}
	}
	f := flat(r, len(hist))
	d := ck.diffBase(cfg, probe, needWide(hist, probe), f)
	v := rerun{Diff: d, Obs: map[string]string{}}
	for _, k := range d {
		v.Obs[k] = f[k]
	}
	return v
}

func histNames(hist []step) string {
	if len(hist) == 0 {
		return "(none)"
	}
	var s []string
	for _, h := range hist {
		s = append(s, historyAlphabet[h.L].Name)
	}
	return strings.Join(s, ",")
}

func histStory(hist []step, probe int, probeNew bool) []string {
	var s []string
	for i, h := range hist {
		c := "same-conn"
		if h.New || i == 0 {
			c = "new-conn"
		}
		s = append(s, fmt.Sprintf("%s[%s] %q", historyAlphabet[h.L].Name, c, historyAlphabet[h.L].Raw))
	}
	c := "same-conn"
	if probeNew || len(hist) == 0 {
		c = "new-conn"
	}
	s = append(s, fmt.Sprintf("PROBE %s[%s] %q", probes[probe].Name, c, probes[probe].Raw))
	return s
}

// minimise finds a shortest sub-history (subsequence) that still makes the probe differ
// from the fresh run. First every request is moved to its own connection (if the
// difference survives, the connection is irrelevant), then the subsequences are tried
// in order of increasing length; later letters are preferred among equals.
func (ck *checker) minimise(cfg int, hist []step, probe int, probeNew bool) ([]step, bool, string) {
	cur := append([]step(nil), hist...)
	connClass := "keep-alive-only"
	allNew := make([]step, len(cur))
	for i, s := range cur {
		allNew[i] = step{s.L, true}
	}
	if v := ck.violates(cfg, allNew, probe, true); len(v.Diff) > 0 {
		cur, probeNew, connClass = allNew, true, "any"
	}
	n := len(cur)
	for size := 0; size < n; size++ {
		for mask := 1<<n - 1; mask >= 0; mask-- {
			if bitsSet(mask) != size {
				continue
			}
			var cand []step
			for i := 0; i < n; i++ {
				if mask&(1<<i) != 0 {
					cand = append(cand, cur[i])
				}
			}
			if len(cand) > 0 {
				cand[0].New = true
			}
			if v := ck.violates(cfg, cand, probe, probeNew); len(v.Diff) > 0 {
				return cand, probeNew, connClass
			}
		}
	}
	return cur, probeNew, connClass
}

func bitsSet(m int) int {
	c := 0
	for ; m != 0; m &= m - 1 {
		c++
	}
	return c
}

// culprit describes what a (minimal) history does to the requests that follow it:
// which facilities leak, and which probes can see it.
type culprit struct {
	Leaked string
	SeenBy string
}

func (ck *checker) culpritInfo(cfg int, hist []step, probeNew bool) culprit {
	key := traceKey(cfg, hist, -1, probeNew)
	if c, ok := ck.culprits[key]; ok {
		return c
	}
	var keys, seen []string
	for p := range probes[:coreProbes] { // the probes of the product name the victims; a wide probe is added by the caller
		if v := ck.violates(cfg, hist, p, probeNew); len(v.Diff) > 0 {
			keys = append(keys, v.Diff...)
			seen = append(seen, probes[p].Name)
		}
	}
	c := culprit{Leaked: categories(keys), SeenBy: strings.Join(seen, ",")}
	if len(seen) == coreProbes {
		c.SeenBy = "every-probe"
	}
	ck.culprits[key] = c
	return c
}

// culpritWide: the description of a culprit that only probes of the wide family can see.
func (ck *checker) culpritWide(cfg int, hist []step, probeNew bool) culprit {
	var keys, seen []string
	for p := coreProbes; p < mainProbes; p++ {
		if v := ck.violates(cfg, hist, p, probeNew); len(v.Diff) > 0 {
			keys = append(keys, v.Diff...)
			seen = append(seen, probes[p].Name)
		}
	}
	return culprit{Leaked: categories(keys), SeenBy: strings.Join(seen, ",")}
}

// check runs one trace and compares the probe with the fresh run. flush=false is used for
// the 2nd..last probe of the longest histories: the application is fresh, only the
// process-global pools still hold what the previous trace (same history, previous probe)
// released; every difference found that way is re-examined after a full flush.
func (ck *checker) check(cfg int, hist []step, probe int, probeNew, flush bool) {
	l := ck.l
	reqs, nc, attrs := buildReqs(hist, probe, probeNew)
	r := runTraceOpt(cfg, reqs, nc, attrs, flush)
	if !flush {
		l.Add("traces_without_global_pool_flush", 1)
	}
	l.Add("transitions", int64(len(reqs)))
	l.Add("traces", 1)
	pi := len(hist)
	if r.PanicAt >= 0 && r.PanicAt < pi {
		// a panic while serving a preceding request is not an isolation question (C07)
		l.Add("unspecified_skipped", 1)
		l.Outcome("history-request-panicked")
		return
	}
	if r.CtxReuse {
		l.Add("probe_served_by_reused_ctx", 1)
	}
	if r.FctxReuse {
		l.Add("probe_served_by_reused_fasthttp_ctx", 1)
	}
	if r.Conns > 1 {
		l.Add("traces_with_several_connections", 1)
	}
	f := flat(r, pi)
	d := ck.diffBase(cfg, probe, needWide(hist, probe), f)
	l.Outcome(fmt.Sprintf("probe=%s status=%s equal-to-fresh=%v", probes[probe].Name, statusOf(r.Resp[pi]), len(d) == 0))
	if (len(hist) >= 2 && hist[0].L == 7 && hist[0].L != hist[1].L && probe == (hist[1].L+len(hist))%coreProbes && cfg == hist[1].L%3) ||
		(len(hist) == 1 && hist[0].L >= coreHist && probe == (hist[0].L*5)%mainProbes && cfg == hist[0].L%3 && !probeNew) {
		var hs []string
		for k := range hist {
			hs = append(hs, statusOf(r.Resp[k]))
		}
		l.Sample(map[string]any{"config": cfgNames[cfg], "trace": histStory(hist, probe, probeNew), "history_statuses": hs,
			"probe_status": statusOf(r.Resp[pi]), "equal_to_fresh": len(d) == 0, "connections": r.Conns})
	}
	if len(d) == 0 {
		return
	}
	if !flush {
		// same trace again, pools emptied first
		d2 := ck.violatesFresh(cfg, hist, probe, probeNew)
		if strings.Join(d, "|") != strings.Join(d2.Diff, "|") {
			l.Violate(fmt.Sprintf("carry-over-through-process-global-pool leaked=%s seen-by=%s", categories(d), probes[probe].Name),
				"the probe differs from the fresh run only when the process-global pools still hold objects released by an earlier trace on ANOTHER application instance (after runtime.GC() x2 the difference changes or disappears)",
				map[string]any{"config": cfgNames[cfg], "trace": histStory(hist, probe, probeNew), "previous_trace_probe": probes[(probe+mainProbes-1)%mainProbes].Name,
					"difference_without_flush": d, "difference_after_flush": d2.Diff}, nil, nil)
			return
		}
	}
	minHist, minProbeNew, connClass := ck.minimise(cfg, hist, probe, probeNew)
	mv := ck.violates(cfg, minHist, probe, minProbeNew)
	if len(mv.Diff) == 0 {
		core.Fatal("minimised history no longer differs: cfg=%s history=%s probe=%s", cfgNames[cfg], histNames(minHist), probes[probe].Name)
	}
	cu := ck.culpritInfo(cfg, minHist, minProbeNew)
	if cu.SeenBy == "" {
		// no probe of the product sees it: described by the probes of the wide family (whichever of them found it)
		cu = ck.culpritWide(cfg, minHist, minProbeNew)
	}
	sig := fmt.Sprintf("history-leaks-into-later-request after=%s leaked=%s seen-by=%s conn=%s", histNames(minHist), cu.Leaked, cu.SeenBy, connClass)
	if _, seen := l.P.Violations[sig]; !seen {
		// determinism: the same trace must differ in the same way when it is executed again
		// (not memoised), and so must its minimal form
		d2 := ck.violatesFresh(cfg, hist, probe, probeNew)
		if strings.Join(d, "|") != strings.Join(d2.Diff, "|") {
			core.Fatal("non-deterministic execution: cfg=%s history=%s probe=%s first=%v second=%v", cfgNames[cfg], histNames(hist), probes[probe].Name, d, d2.Diff)
		}
		m2 := ck.violatesFresh(cfg, minHist, probe, minProbeNew)
		if strings.Join(mv.Diff, "|") != strings.Join(m2.Diff, "|") {
			core.Fatal("non-deterministic execution: cfg=%s history=%s probe=%s first=%v second=%v", cfgNames[cfg], histNames(minHist), probes[probe].Name, mv.Diff, m2.Diff)
		}
	}
	expd := map[string]string{}
	fresh := unpack(ck.base(cfg, probe, needWide(minHist, probe)))
	for _, k := range mv.Diff {
		expd[k] = fresh[k]
	}
	l.Violate(sig,
		"a probe request observes (or answers with) something that depends on the requests served before it: its observation vector / response bytes differ from the same probe sent first to a fresh application",
		map[string]any{"config": cfgNames[cfg], "minimal_trace": histStory(minHist, probe, minProbeNew), "found_in_trace": histStory(hist, probe, probeNew)},
		mv.Obs, expd)
}

// ---------------------------------------------------------------------------

func enumHistories(depth int) [][]int {
	out := [][]int{{}}
	var rec func(cur []int)
	rec = func(cur []int) {
		if len(cur) == depth {
			return
		}
		for l := range historyAlphabet[:coreHist] {
			nxt := append(append([]int(nil), cur...), l)
			out = append(out, nxt)
			rec(nxt)
		}
	}
	rec(nil)
	// the wide family: histories of one request
	for l := coreHist; l < mainHist && depth >= 1; l++ {
		out = append(out, []int{l})
	}
	return out
}

// probesFor: the probes that follow history h — the product's probes, and after at most one
// preceding request the probes of the wide family too.
func probesFor(h []int) int {
	if len(h) <= 1 {
		return mainProbes
	}
	return coreProbes
}

// histories up to this length get every same/new connection pattern and a pool flush
// before every trace (development override: C05_FULLPAT)
var fullPatternDepth = 2

func main() {
	r := core.Start("C05")
	depth := 2
	budget := 65 * time.Second
	if !r.Quick() {
		depth = 3
		budget = 14 * time.Minute
	}
	if v := os.Getenv("C05_DEPTH"); v != "" {
		fmt.Sscan(v, &depth)
	}
	if v := os.Getenv("C05_FULLPAT"); v != "" {
		fmt.Sscan(v, &fullPatternDepth)
	}
	if r.Deadline.IsZero() {
		r.Deadline = r.Start.Add(budget)
	}
	dvWide = !r.Quick()
	if v := os.Getenv("C05_DVWIDE"); v != "" {
		dvWide = v == "1"
	}

	if r.IsWorker() {
		worker(r, depth)
		return
	}
	if os.Getenv("C05_DUMP") != "" {
		// development aid: the fresh-application response of every probe
		debug.SetGCPercent(-1)
		buildAlphabets()
		for _, p := range probes {
			wideApp = true
			fmt.Printf("--- %s\n%q\n=> %q\n", p.Name, p.Raw, runRaw(0, p.Raw))
		}
		for _, p := range historyAlphabet[:mainHist] {
			wideApp = true
			fmt.Printf("--- history letter %s\n%q\n=> %q\n", p.Name, p.Raw, runRaw(0, p.Raw))
		}
		for si := range shapes {
			for _, p := range shapes[si].paths() {
				r := runShape(0, si, []string{p}, []bool{true})
				fmt.Printf("--- shape %s [%s] GET %s\n=> %q\n", shapes[si].Name, shapes[si].routes(), p, r.Resp[0])
			}
		}
		cleanupFiles()
		return
	}

	if os.Getenv("C05_BENCH") != "" {
		// development aid: CPU cost of one trace (history of two requests + probe), with and without pool flush
		debug.SetGCPercent(-1)
		buildAlphabets()
		reqs, nc, attrs := buildReqs([]step{{L: 1, New: true}, {L: 4, New: false}}, 0, false)
		for _, flush := range []bool{true, false} {
			cpu := func() time.Duration {
				var ru syscall.Rusage
				_ = syscall.Getrusage(syscall.RUSAGE_SELF, &ru)
				return time.Duration(ru.Utime.Nano() + ru.Stime.Nano())
			}
			t0 := cpu()
			const n = 4000
			for i := 0; i < n; i++ {
				if !flush && i%23 == 0 {
					runtime.GC()
					runtime.GC()
				}
				runTraceOpt(0, reqs, nc, attrs, flush)
			}
			fmt.Printf("flush=%v: %.1f us per trace\n", flush, float64((cpu()-t0).Microseconds())/n)
		}
		cleanupFiles()
		return
	}

	nw := runtime.NumCPU()
	if nw > 32 {
		nw = 32
	}
	if nw < 2 {
		nw = 2
	}
	crashed := r.SpawnWorkers(nw, []string{"GOMAXPROCS=1"})
	for _, c := range crashed {
		r.Violate("worker-died", "a worker process died while serving histories (panic outside ServeConn, fatal error or out of memory)", c, nil, nil)
	}

	// concurrent mixes: two requests in flight on one application (small; runs in this process, GC as usual)
	if r.Replay == "" {
		runConcurrentMixes(r)
	}

	// sizes for the evidence (the alphabets are rebuilt here only to name them)
	debug.SetGCPercent(-1)
	buildAlphabets()
	var hnames, pnames []string
	for _, l := range historyAlphabet[:coreHist] {
		hnames = append(hnames, l.Name)
	}
	for _, p := range probes[:coreProbes] {
		pnames = append(pnames, p.Name)
	}
	var wideH, wideP []string
	for _, l := range historyAlphabet[coreHist:mainHist] {
		wideH = append(wideH, l.Name+": "+l.Note)
	}
	for _, p := range probes[coreProbes:mainProbes] {
		wideP = append(wideP, p.Name)
	}
	c := r.P.Counters
	// a tree on which NO probe of any family was served by a reused context does not pool its contexts at all (an allowed
	// implementation: isolation then holds trivially for that mechanism): noted, not a harness error. Some but few reused
	// contexts is a harness problem and stays fatal.
	noPooling := c["probe_served_by_reused_ctx"] == 0 && c["dv_probe_served_by_reused_ctx"] == 0 && c["shape_probe_served_by_reused_ctx"] == 0
	if noPooling && c["traces"] > 0 {
		r.Note("no probe was served by a reused pooled context: contexts are not pooled on this tree")
	}
	if !noPooling && c["traces"] > 0 && c["probe_served_by_reused_ctx"] == 0 {
		core.Fatal("vacuous: no probe was ever served by a reused pooled context")
	}
	if !noPooling && c["dv_traces"] > 0 && c["dv_probe_served_by_reused_ctx"]*2 < c["dv_traces"] {
		core.Fatal("vacuous: derived-value family: only %d of %d probes were served by a reused pooled context", c["dv_probe_served_by_reused_ctx"], c["dv_traces"])
	}
	if !noPooling && c["shape_traces"] > 0 && c["shape_probe_served_by_reused_ctx"]*2 < c["shape_traces"] {
		core.Fatal("vacuous: route-shape family: only %d of %d probes were served by a reused pooled context", c["shape_probe_served_by_reused_ctx"], c["shape_traces"])
	}
	dvVisible, dvBlind := dvVisibility()
	if dvVisible < 100 && len(dvMembers) > 0 {
		core.Fatal("vacuous: only %d single-input changes of the derived-value family are visible to a derived observation", dvVisible)
	}
	r.P.Counters["dv_members"] = int64(len(dvMembers))
	r.P.Counters["dv_single_input_changes_seen_by_a_derived_observation"] = int64(dvVisible)
	ev := core.Evidence{
		Level:      "model_checking",
		Exhaustive: true,
		Coverage: map[string]any{
			"states":                        c["states"],
			"transitions":                   c["transitions"],
			"traces_validated_against_impl": c["traces"],
			"bounds": map[string]any{
				"max_preceding_requests":   depth,
				"history_alphabet":         hnames,
				"probes":                   pnames,
				"configs":                  cfgNames[:mainCfgs],
				"connection_choice":        fmt.Sprintf("histories of <= %d requests: every request after the first on the same keep-alive connection | on a new connection (all 2^n patterns); longer histories: preceding requests all on one connection | one connection each, probe pipelined | on a new connection", fullPatternDepth),
				"workers":                  nw,
				"application_state_family": appFamilyNotes(),
				"derived_value_family":     dvBounds(),
				"route_shape_family":       shapeBounds(depth),
				"derived_value_inputs_changing_only_the_raw_header_dump": dvBlind,
			},
			"rule": "states = distinct (config, history, connection pattern) triples; transitions = requests served through ServeConn in compared traces; a trace = history + probe served by a fresh application (pool flush: see assumptions), whose probe observation vector and raw response bytes are compared key by key with the same probe sent first to a fresh application after a pool flush; the traces of the wide family (counter wide_traces: histories of one request that contain a wide letter or end in a wide probe, see bounds.wide_family; their applications carry the family's routes and are compared with fresh applications that carry them too) are included in states, traces and transitions; the traces of the derived-value family (counters dv_*: one history member + one probe member differing in exactly one request input, see bounds.derived_value_family) are included in traces and transitions but not in states; so are the traces of the route-shape family (counters shape_*: see bounds.route_shape_family; every shape is an application of its own, compared with a fresh application of the same shape)",
		},
		Assumptions: []string{
			fmt.Sprintf("pool flush (runtime.GC() x2) before every trace with <= %d preceding requests (exception: after 2 or more preceding requests, traces whose probe or history contains a letter of the application-state family follow the rule for longer histories); for longer histories before the first of the %d probe traces of a (config, history, connection pattern) — the others run on a fresh application but with the process-global pools as the previous trace left them, and any difference found is re-run after a flush", fullPatternDepth, coreProbes),
			"histories are sequential (one request at a time, GOMAXPROCS=1, GC off during a trace so pooled objects are reused deterministically); concurrent mixes are a separate part: every ordered pair of 7 request kinds (route parameters, wildcard + flash cookie, JSON / form binding, redirect with flash, 404) in flight on one application, all interleavings with <= 2 preemptions at handler/middleware yields and at every pool / mutex / atomic operation of the core and binder packages, each response compared with the same request served alone (counters cc_executions, cc_points); and histories x schedules: the same exploration (5 request kinds incl. two different flash redirects, every unordered pair, <= 1 preemption in quick / 2 in thorough) on an application that has already served ONE request — unknown method | 404 | 405 | flash cookie | redirect with flash | failed binding | handler error — compared with the request served alone after the same warm-up (counter cc_executions_after_history)",
			"wire level through app.Server().ServeConn on an in-memory connection that delivers one request per read; fasthttp's worker pool (goroutine reuse) is bypassed, its RequestCtx pool and fiber's ctx/redirect/binder pools are real",
			"Date header disabled (Config.DisableDefaultDate); no Server header",
			"flash-cookie array headers are kept small enough not to exhaust memory (C12 covers allocation)",
			"SendFile letters: every configuration of the family has CacheDuration < 0 (no fasthttp file cache, no cleaner goroutine per application); one small file with a fixed modification time in a directory private to the worker process; the fields varied one at a time are MaxAge (two values), Download, ByteRange, Compress and FS",
			"derived-value family: pool flush before the first trace of every (config, probe member); the traces of its other history members run on a fresh application with the process-global pools as the previous trace left them, and any difference found is re-run after a flush; the multipart body has ONE field (fasthttp re-marshals a multipart body by ranging over a map)",
			"the oracle is differential: it has no opinion on what the right observation is, only that it must not depend on the history",
		},
		MinOutcomes: 4,
	}
	cleanupFiles()
	r.Finish(ev)
}

// flushBefore: is the trace (history h, probe p) preceded by a pool flush? Always for the
// first probe of a (config, history, connection pattern); for the other probes when the
// history is short — except after 2 or more preceding requests when the probe or one of the
// history letters belongs to the application-state family: those traces follow the rule of
// the longest histories (fresh application, process-global pools as the previous trace of the
// same state left them; a difference found that way is re-examined after a flush, see check).
func flushBefore(h []int, p int) bool {
	if p == 0 {
		return true
	}
	if len(h) > fullPatternDepth {
		return false
	}
	if len(h) >= 2 && (probes[p].App || anyApp(h)) {
		return false
	}
	return true
}

func appFamilyNotes() []string {
	var out []string
	for _, l := range historyAlphabet {
		if l.App {
			out = append(out, l.Name+": "+l.Note)
		}
	}
	return out
}

func anyApp(h []int) bool {
	for _, l := range h {
		if historyAlphabet[l].App {
			return true
		}
	}
	return false
}

func allApp(h []int) bool {
	for _, l := range h {
		if !historyAlphabet[l].App {
			return false
		}
	}
	return len(h) > 0
}

func worker(r *core.Run, depth int) {
	debug.SetGCPercent(-1)
	if pf := os.Getenv("C05_PROFILE"); pf != "" && r.Worker == 0 { // development aid
		f, err := os.Create(pf)
		if err == nil {
			_ = pprof.StartCPUProfile(f)
			defer pprof.StopCPUProfile()
		}
	}
	buildAlphabets()
	ck := &checker{l: core.NewLocal(), memo: map[string]rerun{}, culprits: map[string]culprit{}}
	ck.baseline = ck.computeBaseline()
	ck.baselineW = make([][]string, len(cfgNames))
	for c := range ck.baselineW {
		ck.baselineW[c] = make([]string, len(probes))
	}
	if d := sameBaseline(ck.baseline, ck.computeBaseline()); d != "" {
		core.Fatal("fresh-app observation is not reproducible: %s", d)
	}
	// derived-value family first: it is small, and a run stopped by the wall-clock cap must not lose it
	onlyShapes := os.Getenv("C05_ONLY_SHAPES") != "" // development aid
	if !onlyShapes && !workerDerived(r, ck) {
		r.Cap("wall-clock budget reached while running the derived-value family")
	}
	if os.Getenv("C05_TIMING") != "" {
		fmt.Fprintf(os.Stderr, "worker %d: derived family done at %.1fs\n", r.Worker, time.Since(r.Start).Seconds())
	}
	ck.dropDerived()
	// route-shape family (shape.go): small too
	if os.Getenv("C05_ONLY_DERIVED") == "" && !workerShapes(r, ck, depth) {
		r.Cap("wall-clock budget reached while running the route-shape family")
	}
	if os.Getenv("C05_TIMING") != "" {
		fmt.Fprintf(os.Stderr, "worker %d: route-shape family done at %.1fs\n", r.Worker, time.Since(r.Start).Seconds())
	}
	if os.Getenv("C05_ONLY_DERIVED") != "" || onlyShapes { // development aid
		depth = 0
	}
	hists := enumHistories(depth)
	// shorter histories first (for every configuration), so that a run stopped by the
	// wall-clock cap is still complete for the shorter ones
	// (among equals: the histories made of application-state letters only come first, they are few)
	sort.SliceStable(hists, func(i, j int) bool {
		if len(hists[i]) != len(hists[j]) {
			return len(hists[i]) < len(hists[j])
		}
		return allApp(hists[i]) && !allApp(hists[j])
	})
	item := 0
	capped := false
	cappedAt := 0
outer:
	for _, h := range hists {
		for cfg := range cfgNames[:mainCfgs] {
			item++
			if !r.Shard(item) {
				continue
			}
			if r.Expired() {
				capped = true
				cappedAt = len(h)
				break outer
			}
			n := len(h)
			// bit i of pat: request i+1 (history[i+1], or the probe for i = n-1) opens a new connection
			for pat := 0; pat < 1<<n; pat++ {
				if n > fullPatternDepth {
					// longest histories: the preceding requests share one connection or use one each,
					// and the probe is pipelined or not (4 patterns instead of 2^n)
					inner := pat & (1<<(n-1) - 1)
					if inner != 0 && inner != 1<<(n-1)-1 {
						continue
					}
				}
				hist := make([]step, n)
				for i := range h {
					hist[i] = step{L: h[i], New: i == 0 || pat&(1<<(i-1)) != 0}
				}
				probeNew := n == 0 || pat&(1<<(n-1)) != 0
				ck.l.Add("states", 1)
				ck.l.Add(fmt.Sprintf("states_with_%d_preceding", n), 1)
				for p := 0; p < probesFor(h); p++ {
					ck.check(cfg, hist, p, probeNew, flushBefore(h, p))
					if p >= coreProbes || (n == 1 && h[0] >= coreHist) {
						ck.l.Add("wide_traces", 1)
					}
				}
			}
		}
	}
	if capped {
		r.Cap(fmt.Sprintf("wall-clock budget reached while running the histories of %d preceding requests (shorter ones are complete)", cappedAt))
	}
	if d := sameBaseline(ck.baseline, ck.computeBaseline()); d != "" {
		core.Fatal("fresh-app observation drifted during the run: %s", d)
	}
	for c := range ck.baselineW { // the observations taken on first use (applications with the wide family's routes)
		for p, old := range ck.baselineW[c] {
			if old == "" {
				continue
			}
			ck.baselineW[c][p] = ""
			if now := ck.base(c, p, true); now != old {
				core.Fatal("fresh-app observation drifted during the run: cfg=%s probe=%s (wide application) keys=%v", cfgNames[c], probes[p].Name, diffKeys(unpack(now), unpack(old)))
			}
		}
	}
	if os.Getenv("C05_TIMING") != "" {
		fmt.Fprintf(os.Stderr, "worker %d: all done at %.1fs\n", r.Worker, time.Since(r.Start).Seconds())
	}
	pprof.StopCPUProfile()
	cleanupFiles()
	r.Merge(ck.l.P)
	r.FinishWorker()
}
