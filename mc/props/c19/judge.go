package main

// The per-response oracle of C19 (clauses 1-4 of the statement) and the per-group Vary rule
// (clause 5), shared by every family of the harness: the full configuration x request product
// (main.go), the single-edit neighbourhood of permitted probes (neigh.go) and the request
// histories on one middleware instance (history.go).

import (
	"fmt"
	"strings"

	"verifmc/core"
)

type judger struct {
	c           cfgT
	pol         policy
	wantMethods []string
	tokMemo     map[string]bool
	demand      bool
}

func newJudger(c cfgT, demand bool) *judger {
	j := &judger{c: c, pol: buildPolicy(c.Origins, makeFn(c.Func)), tokMemo: map[string]bool{}, demand: demand}
	j.wantMethods = c.AllowMethods
	if len(j.wantMethods) == 0 {
		j.wantMethods = defaultMethods
	}
	return j
}

func (j *judger) same(got string, want []string, fold bool) bool {
	k := got + "\x00" + strings.Join(want, ",")
	v, ok := j.tokMemo[k]
	if !ok {
		v = sameTokens(got, want, fold)
		j.tokMemo[k] = v
	}
	return v
}

// requestClass names how a preflight's requested method / headers relate to the configured
// sets. The letters the harness has always used (PUT, X-A: members of every configured set)
// give "", so their signatures stay as they were.
func (j *judger) requestClass(q reqT) string {
	var parts []string
	if q.ACRM != "" {
		member := false
		for _, m := range j.wantMethods {
			member = member || m == q.ACRM
		}
		if !member { // a method of the list in another case ("put") is not the listed method either
			parts = append(parts, "method-not-listed")
		}
	}
	if q.ACRH != "" && len(j.c.AllowHeaders) > 0 {
		cfg := tokenSet(strings.Join(j.c.AllowHeaders, ","), true)
		for t := range tokenSet(q.ACRH, true) {
			if !cfg[t] {
				parts = append(parts, "header-not-listed")
				break
			}
		}
	}
	return strings.Join(parts, "+")
}

// judge applies clauses (1)-(4) to one response and returns the request kind and the
// reference answer. Violations go to cr (signature, kept case), counters to l.
func (j *judger) judge(cr *cfgResult, l *core.Local, q reqT, o obsT) (string, tri) {
	c, pol, ov := j.c, j.pol, q.Origin
	kind := kindOf(q)
	noOrigin := kind == "no-origin"
	if q.Skip && c.Next != "" {
		// the configured Next skips the middleware: documented, outside the statement. Only the
		// negative clauses stay in force (no ACAO for an unpermitted origin, no '*' with credentials).
		kind = "skipped-by-next"
		l.Add("mech_skipped_by_next", 1)
	}
	cs := caseT{c, q, kind}
	ac := acaoClass(o, q)
	if o.Panic != "" {
		cr.violate("panic-while-serving kind="+kind, "the middleware panicked while serving a request", cs, o, nil)
		return kind, no
	}
	perm, via := no, ""
	if !noOrigin {
		perm, via = pol.permitted(ov.V)
	}
	if perm == unspec {
		l.Add("unspecified_skipped", 1)
	}
	if !noOrigin && perm == yes && !pol.allowAll {
		switch {
		case via == "func":
			l.Add("mech_func_permits", 1)
		case strings.Contains(via, "*."):
			l.Add("mech_wildcard_permits", 1)
		default:
			l.Add("mech_exact_permits", 1)
		}
	}

	// (1) Access-Control-Allow-Origin only for permitted origins, with the right value
	switch {
	case len(o.ACAO) > 1:
		cr.violate("acao-emitted-more-than-once kind="+kind, "several Access-Control-Allow-Origin headers", cs, o, nil)
	case len(o.ACAO) == 1 && noOrigin:
		if !(pol.allowAll && o.ACAO[0] == "*") {
			cr.violate("acao-without-origin-header value-class="+ac, "Access-Control-Allow-Origin on a request that carries no Origin", cs, o, "no Access-Control-Allow-Origin")
		}
	case len(o.ACAO) == 1 && perm == no:
		cr.violate(fmt.Sprintf("acao-for-unpermitted-origin origin-class=%s via=%s", ov.Class, culprit(c, q)),
			"Access-Control-Allow-Origin emitted although no list entry, wildcard-subdomain entry or function permits the Origin", cs, o, "no Access-Control-Allow-Origin")
	case len(o.ACAO) == 1:
		okv := o.ACAO[0] == strings.ToLower(ov.V) || (pol.allowAll && o.ACAO[0] == "*")
		if !okv {
			cr.violate(fmt.Sprintf("acao-wrong-value value-class=%s origin-class=%s", ac, ov.Class),
				"Access-Control-Allow-Origin is neither the lower-cased origin nor a legitimate '*'", cs, o, strings.ToLower(ov.V))
		}
		if o.ACAO[0] == "*" {
			l.Add("mech_star", 1)
		}
	case perm == yes && (kind == "simple" || kind == "preflight"):
		sig := fmt.Sprintf("no-acao-for-permitted-origin origin-class=%s via=%s", ov.Class, via)
		if j.demand {
			cr.violate(sig, "the configuration permits the Origin but no Access-Control-Allow-Origin is sent", cs, o, strings.ToLower(ov.V))
		} else {
			// "emitted only when permitted" does not oblige emission: not demanded, but recorded
			l.Add("unspecified_skipped", 1)
			l.Add("permitted_origin_without_acao", 1)
			cr.observe(sig, cs)
		}
	case perm == yes:
		l.Add("unspecified_skipped", 1) // OPTIONS without request-method: statement silent
	}
	// (2) never credentials together with '*'
	if o.ACAC != "" && len(o.ACAO) > 0 && o.ACAO[0] == "*" {
		cr.violate("credentials-with-star kind="+kind, "Access-Control-Allow-Credentials sent together with Access-Control-Allow-Origin: *", cs, o, nil)
	}
	// (3) preflight: 204, handler not reached, configured methods/headers - whatever method
	// and headers the preflight asks for (the statement makes no exception for unlisted ones)
	if kind == "preflight" {
		l.Add("mech_preflight", 1)
		rc := j.requestClass(q)
		if rc != "" {
			l.Add("mech_preflight_asks_for_unlisted", 1)
		}
		pv := func(stem, what string, want any) {
			if rc == "" {
				cr.violate(stem, what, cs, o, want)
			} else {
				cr.violateQ(stem, " request="+rc, what, cs, o, want)
			}
		}
		if o.Ran {
			pv("preflight-reached-handler permitted="+perm.String(), "a preflight request reached the downstream handler", "handler not run")
		}
		if o.Status != 204 {
			pv(fmt.Sprintf("preflight-status-not-204 status=%d permitted=%s", o.Status, perm), "a preflight request was not answered with 204", 204)
		}
		if perm == yes {
			if !j.same(o.ACAM, j.wantMethods, false) {
				pv(fmt.Sprintf("preflight-methods-not-configured custom=%v", c.AllowMethods != nil), "Access-Control-Allow-Methods differs from the configured methods", j.wantMethods)
			}
			if len(c.AllowHeaders) > 0 {
				if !j.same(o.ACAH, c.AllowHeaders, true) {
					pv("preflight-headers-not-configured", "Access-Control-Allow-Headers differs from the configured headers", c.AllowHeaders)
				}
			} else {
				l.Add("unspecified_skipped", 1) // no headers configured: statement silent on echoing
			}
		} else {
			l.Add("unspecified_skipped", 1) // methods/headers towards a refused origin: silent
		}
	}
	// (4) requests outside the CORS protocol pass through untouched
	if kind == "no-origin" || kind == "options-without-request-method" {
		if !o.Ran || o.Status != 200 || o.Body != "ok" {
			cr.violate(fmt.Sprintf("non-cors-request-altered kind=%s status=%d handler=%v", kind, o.Status, o.Ran), "a request outside the CORS protocol did not get the handler's own answer", cs, o, "200 ok from the handler")
		}
	}
	return kind, perm
}

// varyRule is clause (5) for one group of requests that differ only in the Origin value
// (qs[i] answered by obs[i]): when the answers differ between Origin values, every one of
// them must carry Vary: Origin.
func (j *judger) varyRule(cr *cfgResult, l *core.Local, qs []reqT, obs []obsT) {
	fps := map[fpT]bool{}
	var absent *obsT
	for i := range qs {
		if qs[i].Origin.Has {
			fps[obs[i].fingerprint()] = true
		} else {
			absent = &obs[i]
		}
	}
	if len(fps) > 1 {
		l.Add("groups_varying_by_origin", 1)
		for i, q := range qs {
			if !obs[i].VaryOrigin && obs[i].Panic == "" {
				cr.violate("vary-origin-missing kind="+kindOf(q), "responses to this request differ between Origin values but this one lacks Vary: Origin",
					caseT{j.c, q, kindOf(q)}, obs[i], "Vary contains Origin")
			}
		}
	} else if absent != nil && !fps[absent.fingerprint()] && !absent.VaryOrigin {
		l.Add("unspecified_skipped", 1) // differs only between "no Origin" and "any Origin" (static '*'): silent
	}
}
