// Reference CORS policy for C19, written from the property statement and the
// public documentation of the middleware (docs/middleware/cors.md) only.
// It is three-valued: yes / no / unspecified.
package main

import "strings"

type tri int

const (
	no tri = iota
	yes
	unspec
)

func (t tri) String() string { return [...]string{"no", "yes", "unspecified"}[t] }

// sOrigin is a serialized origin: scheme "://" host [ ":" port ] and nothing else.
type sOrigin struct {
	scheme, host, port string
	dubious            bool // the host carries a byte that is neither a host-name byte nor a delimiter
}

// parseOrigin accepts only a (lower-cased) serialized origin. Anything that
// carries a path, query, fragment, userinfo, a space ... is not an origin.
func parseOrigin(s string) (sOrigin, bool) {
	i := strings.Index(s, "://")
	if i <= 0 {
		return sOrigin{}, false
	}
	scheme, rest := s[:i], s[i+3:]
	for k, ch := range scheme {
		al := ch >= 'a' && ch <= 'z'
		if !(al || (k > 0 && (ch >= '0' && ch <= '9' || ch == '+' || ch == '-' || ch == '.'))) {
			return sOrigin{}, false
		}
	}
	host, port := rest, ""
	if j := strings.IndexByte(rest, ':'); j >= 0 {
		host, port = rest[:j], rest[j+1:]
		if port == "" {
			return sOrigin{}, false
		}
		for _, ch := range port {
			if ch < '0' || ch > '9' {
				return sOrigin{}, false
			}
		}
	}
	if host == "" {
		return sOrigin{}, false
	}
	dubious := false
	for i := 0; i < len(host); i++ {
		ch := host[i]
		switch {
		case ch >= 'a' && ch <= 'z' || ch >= '0' && ch <= '9' || ch == '.' || ch == '-' || ch == '_':
		case strings.IndexByte("/?#@\\:*[] ", ch) >= 0:
			// a URL delimiter (a parser reads ANOTHER host out of the value), a bracket, a
			// blank or a literal '*': certainly not a host the configuration permits
			return sOrigin{}, false
		default:
			// '%', ',', '|', a tab, a non-ASCII byte ...: the value is no serialized origin a
			// browser can send, but no parser reads another host out of it and, as a string, it
			// still has the dot-separated suffix. The statement is silent: see permits().
			dubious = true
		}
	}
	return sOrigin{scheme, host, port, dubious}, true
}

type refEntry struct {
	literal  string // as written in the configuration
	wildcard bool
	o        sOrigin // for a wildcard entry o.host is the domain after "*."
	usable   bool
}

type policy struct {
	allowAll bool
	entries  []refEntry
	fn       func(string) bool
}

// normEntry: documented normalisation of a configured origin = surrounding
// spaces removed, lower case, trailing slash removed.
func normEntry(e string) string {
	return strings.TrimSuffix(strings.ToLower(strings.Trim(e, " ")), "/")
}

func buildPolicy(origins []string, fn func(string) bool) policy {
	p := policy{fn: fn}
	if len(origins) == 0 && fn == nil {
		p.allowAll = true
	}
	for _, e := range origins {
		if e == "*" {
			p.allowAll = true
			continue
		}
		n := normEntry(e)
		re := refEntry{literal: e}
		if i := strings.Index(n, "://*."); i != -1 {
			re.wildcard = true
			n = n[:i+3] + n[i+5:]
		}
		re.o, re.usable = parseOrigin(n)
		p.entries = append(p.entries, re)
	}
	return p
}

func noEmptyLabel(h string) bool {
	if h == "" {
		return false
	}
	for _, l := range strings.Split(h, ".") {
		if l == "" {
			return false
		}
	}
	return true
}

func (e refEntry) permits(o sOrigin) bool {
	if !e.usable || o.scheme != e.o.scheme || o.port != e.o.port {
		return false
	}
	if !e.wildcard {
		return o.host == e.o.host
	}
	// wildcard-subdomain: host = non-empty label(s) + "." + domain
	suf := "." + e.o.host
	return strings.HasSuffix(o.host, suf) && noEmptyLabel(strings.TrimSuffix(o.host, suf))
}

// permitted answers "is this Origin header value permitted by the configuration"
// and names the first rule that permits it (for signatures).
func (p policy) permitted(raw string) (tri, string) {
	if p.allowAll {
		return yes, "all-origins"
	}
	lo := strings.ToLower(raw)
	dub := ""
	if o, ok := parseOrigin(lo); ok {
		for _, e := range p.entries {
			if e.permits(o) {
				if o.dubious {
					dub = "entry='" + e.literal + "'"
					break
				}
				return yes, "entry='" + e.literal + "'"
			}
		}
	}
	if dub != "" {
		if p.fn != nil && p.fn(raw) && p.fn(lo) {
			return yes, "func"
		}
		return unspec, dub
	}
	if p.fn != nil {
		a, b := p.fn(raw), p.fn(lo)
		switch {
		case a && b:
			return yes, "func"
		case a != b:
			// the statement does not say which spelling the function is consulted with
			return unspec, "func"
		}
	}
	return no, ""
}

// tokens splits a comma separated header value into a sorted-insensitive set key.
func tokenSet(v string, fold bool) map[string]bool {
	m := map[string]bool{}
	for _, t := range strings.Split(v, ",") {
		t = strings.TrimSpace(t)
		if t == "" {
			continue
		}
		if fold {
			t = strings.ToLower(t)
		}
		m[t] = true
	}
	return m
}

func sameTokens(got string, want []string, fold bool) bool {
	g := tokenSet(got, fold)
	w := tokenSet(strings.Join(want, ","), fold)
	if len(g) != len(w) {
		return false
	}
	for k := range w {
		if !g[k] {
			return false
		}
	}
	return true
}
