package main

// Family "single-edit neighbourhood": every Origin value that differs from a permitted probe
// (https://x.y.a.test for a wildcard entry, https://a.test for an exact entry, https://f.test
// for the function ...) in exactly ONE edit - one letter of an alphabet inserted at every
// position, every byte replaced by every letter, every byte deleted. The hand-written
// look-alike menu of main.go has one forbidden byte ('/') at one place (the label next to
// the configured suffix); the neighbourhood puts every delimiter, blank, bracket, dot, case
// variant and odd byte into the scheme, the separator, every host label and the port.
// Judged by the same reference policy and the same per-response / Vary oracle as the product.

import (
	"fmt"
	"sort"
	"strings"

	"github.com/valyala/fasthttp"

	"verifmc/core"
)

type editLetter struct{ s, class string }

// delimiters get a class of their own (a matcher may forget any single one of them)
var editAlphabet = []editLetter{
	{"x", "host-letter"}, {"8", "host-letter"}, {"-", "host-letter"}, {"_", "host-letter"},
	{"X", "upper-case-letter"}, {".", "dot"},
	{"/", "slash"}, {"?", "question-mark"}, {"#", "hash"}, {"@", "at-sign"}, {"\\", "backslash"}, {":", "colon"},
	{" ", "blank"}, {"[", "bracket"}, {"]", "bracket"}, {"*", "star"},
	{"%", "odd-byte"}, {",", "odd-byte"}, {"|", "odd-byte"}, {"^", "odd-byte"}, {"<", "odd-byte"}, {"\t", "odd-byte"}, {"ä", "odd-byte"},
}

var probesQuick = []string{"https://a.test", "https://a.test:8443", "https://x.a.test", "https://x.y.a.test", "https://x.b.test", "https://f.test"}
var probesThorough = append(append([]string(nil), probesQuick...), "http://a.test", "https://b.test", "https://x.a.test:8443", "https://w.x.y.a.test", "http://x.b.test")

// regionOf names the part of the probe a byte position lies in. Host labels are split into
// the registrable-looking tail (the last two labels: what a configuration names) and the
// labels before it (what a wildcard stands for).
func regionOf(probe string, pos int) string {
	i := strings.Index(probe, "://")
	if pos >= len(probe) {
		return "end"
	}
	if pos < i {
		return "scheme"
	}
	if pos < i+3 {
		return "separator"
	}
	rest := probe[i+3:]
	hostEnd := len(rest)
	if j := strings.IndexByte(rest, ':'); j >= 0 {
		hostEnd = j
	}
	p := pos - (i + 3)
	if p >= hostEnd {
		return "port"
	}
	// (a dot counts with the label on its left)
	if strings.Count(rest[p:hostEnd], ".") >= 2 {
		return "subdomain-labels"
	}
	return "domain-labels"
}

type neighT struct {
	ov             originV
	probe, op, let string
	pos            int
}

// neighbours of one probe, de-duplicated by value (first description wins), probe itself first
func neighbours(probe string) []neighT {
	out := []neighT{{originV{true, probe, "probe"}, probe, "none", "", 0}}
	seen := map[string]bool{probe: true}
	add := func(v, op, let, class string, pos int) {
		if seen[v] {
			return
		}
		seen[v] = true
		out = append(out, neighT{originV{true, v, fmt.Sprintf("edit(%s in %s)", class, regionOf(probe, pos))}, probe, op, let, pos})
	}
	for pos := 0; pos <= len(probe); pos++ {
		for _, a := range editAlphabet {
			add(probe[:pos]+a.s+probe[pos:], "insert", a.s, a.class, pos)
		}
	}
	for pos := 0; pos < len(probe); pos++ {
		for _, a := range editAlphabet {
			add(probe[:pos]+a.s+probe[pos+1:], "replace", a.s, a.class, pos)
		}
		add(probe[:pos]+probe[pos+1:], "delete", "", "deletion", pos)
	}
	return out
}

// configurations of the family: every AllowOrigins list of <=2 menu entries, and long lists
// (one menu entry at the head / in the middle / at the tail of 8 unrelated entries), crossed
// with AllowOriginsFunc and AllowCredentials; the options that do not take part in origin
// matching are fixed.
func neighConfigs(menu, funcs []string) []cfgT {
	var ls [][]string
	ls = append(ls, lists(menu, 2)...)
	fill := []string{"https://h0.test", "https://*.h1.test", "http://h2.test", "https://h3.test:8443", "https://*.h4.test", "https://h5.test", "https://H6.test/", " https://h7.test "}
	for _, m := range menu {
		if m == "*" {
			continue
		}
		for _, at := range []int{0, 4, 8} {
			l := append([]string(nil), fill[:at]...)
			l = append(l, m)
			l = append(l, fill[at:]...)
			ls = append(ls, l)
		}
	}
	var out []cfgT
	for _, l := range ls {
		for _, fn := range funcs {
			for _, cred := range []bool{false, true} {
				out = append(out, cfgT{l, fn, cred, false, 0, []string{"X-A", "Content-Type"}, nil, nil, ""})
			}
		}
	}
	return out
}

func runNeighbourhood(r *core.Run, agg *aggregate, demand bool) {
	menu, funcs, probes := originMenuQuick, []string{"", fnOnlyF}, probesQuick
	if !r.Quick() {
		menu, funcs, probes = originMenuThorough, []string{"", fnOnlyF, fnAll}, probesThorough
	}
	cfgs := neighConfigs(menu, funcs)
	var groups [][]neighT
	total := 0
	for _, p := range probes {
		g := neighbours(p)
		groups = append(groups, g)
		total += len(g)
	}
	type shape struct{ method, acrm, acrh string }
	shapes := []shape{{"GET", "", ""}, {"OPTIONS", "PUT", "X-A"}}
	r.Add("neigh_origin_values", int64(total))
	r.Add("neigh_configs", int64(len(cfgs)))
	r.Add("neigh_probes", int64(len(probes)))
	r.Parallel(len(cfgs), func(ci int, l *core.Local) {
		if r.Expired() {
			r.Cap("wall-clock budget reached before all neighbourhood configurations were explored")
			return
		}
		c := cfgs[ci]
		cr := &cfgResult{}
		defer agg.fold(1_000_000+ci, cr)
		t, rejected := build(c)
		if rejected != "" {
			l.Add("neigh_configs_rejected", 1)
			return
		}
		j := newJudger(c, demand)
		var fctx fasthttp.RequestCtx
		outs := map[outKey]int64{}
		for _, g := range groups {
			obs := make([]obsT, len(g))
			qs := make([]reqT, len(g))
			for _, sh := range shapes {
				for i, n := range g {
					q := reqT{sh.method, n.ov, sh.acrm, sh.acrh, "", false}
					o := run(t, &fctx, q)
					obs[i], qs[i] = o, q
					l.Add("evaluations", 1)
					l.Add("neigh_evaluations", 1)
					if !j.pol.allowAll {
						l.Add("nontrivial", 1)
					}
					kind, perm := j.judge(cr, l, q, o)
					outs[outKey{"edited-origin " + kind, acaoClass(o, q), o.ACAC != "", o.VaryOrigin, o.Ran, o.Status}]++
					if !j.pol.allowAll && n.op != "none" {
						l.Add("neigh_reference_"+perm.String(), 1)
						if len(o.ACAO) == 1 {
							l.Add("neigh_acao_emitted_reference_"+perm.String(), 1)
						}
					}
					if ci == 20 && sh.method == "GET" && n.op == "insert" && n.let == "/" && len(cr.samples) < 2 && strings.HasPrefix(n.ov.Class, "edit(slash in subdomain") {
						cr.samples = append(cr.samples, map[string]any{"family": "single-edit neighbourhood", "case": caseT{c, q, kind}, "probe": n.probe, "edit": fmt.Sprintf("%s %q at %d", n.op, n.let, n.pos), "reference_permitted": perm.String(), "observed": o})
					}
				}
				j.varyRule(cr, l, qs, obs)
			}
		}
		keys := make([]outKey, 0, len(outs))
		for k := range outs {
			keys = append(keys, k)
		}
		sort.Slice(keys, func(a, b int) bool { return keys[a].String() < keys[b].String() })
		for _, k := range keys {
			l.P.Outcomes[k.String()] += outs[k]
		}
	})
	for _, k := range []string{"neigh_reference_yes", "neigh_reference_no", "neigh_reference_unspecified", "neigh_acao_emitted_reference_yes"} {
		if r.P.Counters[k] == 0 {
			core.Fatal("vacuous: neighbourhood counter %s is zero", k)
		}
	}
}
