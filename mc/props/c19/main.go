// C19 — CORS headers go only to allowed origins and never pair '*' with credentials.
// Exhaustive product: CORS configurations x Origin values x method x preflight headers,
// every response of the real middleware compared with the reference policy of ref.go.
package main

import (
	"flag"
	"fmt"
	"sort"
	"strings"
	"sync"

	"github.com/gofiber/fiber/v3"
	"github.com/gofiber/fiber/v3/middleware/cors"
	"github.com/valyala/fasthttp"

	"verifmc/core"
	"verifmc/fx"
)

// ---------------------------------------------------------------------------
// alphabet

type cfgT struct {
	Origins       []string `json:"AllowOrigins"`
	Func          string   `json:"AllowOriginsFunc"` // "" = nil
	Cred          bool     `json:"AllowCredentials"`
	PN            bool     `json:"AllowPrivateNetwork"`
	MaxAge        int      `json:"MaxAge"`
	AllowHeaders  []string `json:"AllowHeaders"`
	ExposeHeaders []string `json:"ExposeHeaders"`
	AllowMethods  []string `json:"AllowMethods"`   // nil = default list
	Next          string   `json:"Next,omitempty"` // "" = nil, nextMarked = skips requests that carry X-Skip
}

const nextMarked = "returns true for requests that carry X-Skip"

type originV struct {
	Has   bool   `json:"present"`
	V     string `json:"value"`
	Class string `json:"class"`
}

type reqT struct {
	Method string  `json:"method"`
	Origin originV `json:"origin"`
	ACRM   string  `json:"access_control_request_method"`
	ACRH   string  `json:"access_control_request_headers"`
	PN     string  `json:"access_control_request_private_network"`
	Skip   bool    `json:"x_skip,omitempty"` // carries X-Skip: the configured Next (if any) skips the middleware
}

const (
	fnOnlyF = "allows exactly https://f.test"
	fnAll   = "allows everything"
)

func makeFn(name string) func(string) bool {
	switch name {
	case fnOnlyF:
		return func(o string) bool { return o == "https://f.test" }
	case fnAll:
		return func(string) bool { return true }
	}
	return nil
}

var defaultMethods = []string{"GET", "POST", "HEAD", "PUT", "DELETE", "PATCH"}

var originMenuQuick = []string{"*", "https://a.test", "https://a.test:8443", "http://a.test", "https://*.a.test",
	" https://b.test ", "https://A.TEST/", " https://*.b.test ",
	// an explicit port that is the OTHER scheme's default: a scheme-blind "strip the default port" normalisation
	// turns the entry into https://a.test (round 10)
	"https://a.test:80"}

var originMenuThorough = append(append([]string(nil), originMenuQuick...),
	"https://*.a.test:8443", "http://*.b.test", "https://*.A.TEST/", "https://*.b.test ",
	"null", "https://c.test/path", "https://*", "http://a.test:443", "https://*.a.test:80")

var originsQuick = []originV{
	{false, "", "absent"},
	{true, "null", "null"},
	{true, "https://a.test", "plain-host"},
	{true, "https://a.test:8443", "plain-host-port"},
	{true, "http://a.test", "plain-host-http"},
	{true, "https://b.test", "plain-host"},
	{true, "HTTPS://A.TEST", "upper-case"},
	{true, "https://a.test:443", "explicit-default-port"},
	{true, "https://a.test:8444", "other-port"},
	{true, "https://a.test:80", "other-schemes-default-port"},
	{true, "https://a.test/", "trailing-slash"},
	{true, "https://x.a.test", "subdomain"},
	{true, "https://x.y.a.test", "nested-subdomain"},
	{true, "https://X.A.Test", "subdomain-mixed-case"},
	{true, "https://x.a.test:8443", "subdomain-port"},
	{true, "https://x.b.test", "subdomain"},
	{true, "https://xa.test", "lookalike-without-dot"},
	{true, "https://a.test.evil.test", "configured-host-as-prefix"},
	{true, "https://evil.test/.a.test", "suffix-in-path"},
	{true, "https://.a.test", "empty-subdomain-label"},
	{true, "https://.b.test", "empty-subdomain-label"},
	{true, "https://xb.test", "lookalike-without-dot"},
	{true, "https://.xb.test", "empty-label-lookalike"},
	{true, "http://x.a.test", "subdomain-other-scheme"},
	{true, "https://f.test", "func-host"},
	{true, "HTTPS://F.TEST", "func-host-upper-case"},
	{true, "https://evil.test", "unrelated"},
}

var originsThorough = append(append([]originV(nil), originsQuick...),
	originV{true, "https://f.test.evil.test", "configured-host-as-prefix"},
	originV{true, "https://evil.test?.a.test", "suffix-in-query"},
	originV{true, "https://evil.test#.a.test", "suffix-in-fragment"},
	originV{true, "https://evil.test/.b.test", "suffix-in-path"},
	originV{true, "http://x.b.test", "subdomain-other-scheme"},
	originV{true, "https://x.b.test:8443", "subdomain-port"},
	originV{true, "https://x.a.test.", "trailing-dot"},
	originV{true, "https://a.test.", "trailing-dot"},
	originV{true, "ftp://x.a.test", "subdomain-other-scheme"},
	originV{true, "https://c.test", "plain-host"},
	originV{true, "http://a.test:443", "other-schemes-default-port"},
	originV{true, "https://x.a.test:80", "subdomain-other-schemes-default-port"},
	originV{true, "*", "star-literal"},
	originV{true, "https://*.a.test", "wildcard-literal"},
)

// ordered lists without repetition of length <= max
func lists(menu []string, max int) [][]string {
	out := [][]string{nil}
	var rec func(cur []string, used []bool)
	rec = func(cur []string, used []bool) {
		if len(cur) == max {
			return
		}
		for i, m := range menu {
			if used[i] {
				continue
			}
			used[i] = true
			nxt := append(append([]string(nil), cur...), m)
			out = append(out, nxt)
			rec(nxt, used)
			used[i] = false
		}
	}
	rec(nil, make([]bool, len(menu)))
	sort.SliceStable(out, func(i, j int) bool { return len(out[i]) < len(out[j]) })
	return out
}

// ---------------------------------------------------------------------------
// driving the real middleware

type obsT struct {
	Status     int      `json:"status"`
	Ran        bool     `json:"handler_ran"`
	Body       string   `json:"body"`
	ACAO       []string `json:"Access-Control-Allow-Origin"`
	ACAC       string   `json:"Access-Control-Allow-Credentials"`
	ACAM       string   `json:"Access-Control-Allow-Methods"`
	ACAH       string   `json:"Access-Control-Allow-Headers"`
	ACEH       string   `json:"Access-Control-Expose-Headers"`
	ACMA       string   `json:"Access-Control-Max-Age"`
	ACAPN      string   `json:"Access-Control-Allow-Private-Network"`
	Vary       string   `json:"Vary"`
	VaryOrigin bool     `json:"vary_has_origin"`
	Panic      string   `json:"panic,omitempty"`
}

func (o obsT) acao() string {
	if len(o.ACAO) == 1 {
		return o.ACAO[0]
	}
	return strings.Join(o.ACAO, " | ")
}

// fingerprint of everything a cache could hand to the wrong origin
type fpT struct {
	status                                          int
	ran                                             bool
	body, acao, acac, acam, acah, aceh, acma, acapn string
}

func (o obsT) fingerprint() fpT {
	return fpT{o.Status, o.Ran, o.Body, o.acao(), o.ACAC, o.ACAM, o.ACAH, o.ACEH, o.ACMA, o.ACAPN}
}

type target struct {
	h   fasthttp.RequestHandler
	ran *bool
}

func classifyPanic(v any) string {
	s := fmt.Sprint(v)
	switch {
	case strings.Contains(s, "Invalid origin format"):
		return "invalid origin format"
	case strings.Contains(s, "'AllowCredentials' is set to true"):
		return "credentials with all origins"
	}
	if len(s) > 60 {
		s = s[:60]
	}
	return "other panic: " + s
}

func build(c cfgT) (t target, rejected string) {
	defer func() {
		if v := recover(); v != nil {
			rejected = classifyPanic(v)
		}
	}()
	var next func(fiber.Ctx) bool
	if c.Next == nextMarked {
		next = func(ctx fiber.Ctx) bool { return ctx.Get("X-Skip") != "" }
	}
	mw := cors.New(cors.Config{
		Next:                next,
		AllowOrigins:        c.Origins,
		AllowOriginsFunc:    makeFn(c.Func),
		AllowCredentials:    c.Cred,
		AllowPrivateNetwork: c.PN,
		MaxAge:              c.MaxAge,
		AllowHeaders:        c.AllowHeaders,
		ExposeHeaders:       c.ExposeHeaders,
		AllowMethods:        c.AllowMethods,
	})
	ran := new(bool)
	app := fiber.New()
	app.Use(mw)
	app.All("/", func(ctx fiber.Ctx) error { *ran = true; return ctx.SendString("ok") })
	return target{app.Handler(), ran}, ""
}

func mkReq(q reqT) *fasthttp.Request {
	var hs []string
	if q.Origin.Has {
		hs = append(hs, "Origin", q.Origin.V)
	}
	if q.ACRM != "" {
		hs = append(hs, "Access-Control-Request-Method", q.ACRM)
	}
	if q.ACRH != "" {
		hs = append(hs, "Access-Control-Request-Headers", q.ACRH)
	}
	if q.PN != "" {
		hs = append(hs, "Access-Control-Request-Private-Network", q.PN)
	}
	if q.Skip {
		hs = append(hs, "X-Skip", "1") // last: the other headers keep their positions
	}
	return fx.Req(q.Method, "http://app.test/", hs...)
}

func run(t target, fctx *fasthttp.RequestCtx, q reqT) (o obsT) { return runReq(t, fctx, mkReq(q)) }

func runReq(t target, fctx *fasthttp.RequestCtx, rq *fasthttp.Request) (o obsT) {
	defer func() {
		if v := recover(); v != nil {
			o.Panic = fmt.Sprint(v)
		}
	}()
	*t.ran = false
	fx.CallInto(fctx, t.h, rq, nil, false)
	h := &fctx.Response.Header
	o.Status = fctx.Response.StatusCode()
	o.Ran = *t.ran
	o.Body = string(fctx.Response.Body())
	for _, v := range h.PeekAll("Access-Control-Allow-Origin") {
		o.ACAO = append(o.ACAO, string(v))
	}
	o.ACAC = string(h.Peek("Access-Control-Allow-Credentials"))
	o.ACAM = string(h.Peek("Access-Control-Allow-Methods"))
	o.ACAH = string(h.Peek("Access-Control-Allow-Headers"))
	o.ACEH = string(h.Peek("Access-Control-Expose-Headers"))
	o.ACMA = string(h.Peek("Access-Control-Max-Age"))
	o.ACAPN = string(h.Peek("Access-Control-Allow-Private-Network"))
	var vs []string
	for _, v := range h.PeekAll("Vary") {
		vs = append(vs, string(v))
	}
	o.Vary = strings.Join(vs, ", ")
	for _, tkn := range strings.Split(o.Vary, ",") {
		tkn = strings.TrimSpace(tkn)
		if strings.EqualFold(tkn, "Origin") || tkn == "*" {
			o.VaryOrigin = true
		}
	}
	return o
}

// ---------------------------------------------------------------------------
// which single configured rule makes the real code emit ACAO (for narrow signatures)

var culpritMemo sync.Map

func culprit(c cfgT, q reqT) string {
	try := func(name string, one cfgT) bool {
		key := name + "\x00" + fmt.Sprint(one.Cred) + "\x00" + core.Key(q)
		if v, ok := culpritMemo.Load(key); ok {
			return v.(bool)
		}
		res := false
		if t, rej := build(one); rej == "" {
			var fctx fasthttp.RequestCtx
			res = len(run(t, &fctx, q).ACAO) > 0
		}
		culpritMemo.Store(key, res)
		return res
	}
	for _, e := range c.Origins {
		if e == "*" {
			continue
		}
		if try("e:"+e, cfgT{Origins: []string{e}, Cred: c.Cred}) {
			return "entry='" + e + "'"
		}
	}
	if c.Func != "" && try("f:"+c.Func, cfgT{Func: c.Func, Cred: c.Cred}) {
		return "func"
	}
	return "combination-only"
}

// ---------------------------------------------------------------------------
// per-configuration results (kept per index so that the merged report is deterministic)

type caseT struct {
	Config  cfgT   `json:"config"`
	Request reqT   `json:"request"`
	Kind    string `json:"kind"`
}

type outKey struct {
	kind, acao      string
	cred, vary, ran bool
	status          int
}

func (k outKey) String() string {
	return fmt.Sprintf("%s acao=%s credentials=%v vary-origin=%v status=%d handler=%v", k.kind, k.acao, k.cred, k.vary, k.status, k.ran)
}

type vrec struct {
	sig, what     string
	cs, obs, want any
	count         int64
	stem          string // for a qualified signature: the signature without its qualifier (see foldQualified)
}

type cfgResult struct {
	order   []string
	viols   map[string]*vrec
	samples []any
	notes   map[string]*vrec // behaviour outside the statement: reported, never failing
	norder  []string
}

type aggRec struct {
	vrec
	ci int
}

type aggSample struct {
	ci int
	v  any
}

// aggregate folds the findings of finished configurations; the result does not depend on
// the order of folding (counts add up, the kept case is the one of the lowest index).
type aggregate struct {
	mu      sync.Mutex
	viols   map[string]*aggRec
	notes   map[string]*aggRec
	samples []aggSample
}

func newAggregate() *aggregate {
	return &aggregate{viols: map[string]*aggRec{}, notes: map[string]*aggRec{}}
}

func (a *aggregate) fold(ci int, cr *cfgResult) {
	if len(cr.order) == 0 && len(cr.norder) == 0 && len(cr.samples) == 0 {
		return
	}
	a.mu.Lock()
	defer a.mu.Unlock()
	put := func(m map[string]*aggRec, v *vrec) {
		if o, ok := m[v.sig]; ok {
			n := o.count + v.count
			if ci < o.ci {
				o.vrec, o.ci = *v, ci
			}
			o.count = n
			return
		}
		m[v.sig] = &aggRec{*v, ci}
	}
	for _, sig := range cr.order {
		put(a.viols, cr.viols[sig])
	}
	for _, sig := range cr.norder {
		put(a.notes, cr.notes[sig])
	}
	for _, s := range cr.samples {
		a.samples = append(a.samples, aggSample{ci, s})
	}
}

func (cr *cfgResult) observe(sig string, cs any) {
	if cr.notes == nil {
		cr.notes = map[string]*vrec{}
	}
	if v, ok := cr.notes[sig]; ok {
		v.count++
		return
	}
	cr.notes[sig] = &vrec{sig: sig, cs: cs, count: 1}
	cr.norder = append(cr.norder, sig)
}

func (cr *cfgResult) violate(sig, what string, cs, obs, want any) {
	if cr.viols == nil {
		cr.viols = map[string]*vrec{}
	}
	if v, ok := cr.viols[sig]; ok {
		v.count++
		return
	}
	cr.viols[sig] = &vrec{sig, what, cs, obs, want, 1, ""}
	cr.order = append(cr.order, sig)
}

// violateQ records a violation whose signature carries a qualifier naming the dimension
// that exposed it (" request=method-not-listed", " history-only after=..."). When the run
// also reports the unqualified stem, the qualified signature is the same root cause seen
// again and is folded into the stem at the end of the run (foldQualified).
func (cr *cfgResult) violateQ(stem, qual, what string, cs, obs, want any) {
	cr.violate(stem+qual, what, cs, obs, want)
	cr.viols[stem+qual].stem = stem
}

func foldQualified(viols map[string]*aggRec) {
	var sigs []string
	for sig := range viols {
		sigs = append(sigs, sig)
	}
	sort.Strings(sigs)
	for _, sig := range sigs {
		v := viols[sig]
		if v.stem == "" {
			continue
		}
		if base, ok := viols[v.stem]; ok {
			base.count += v.count
			delete(viols, sig)
		}
	}
}

func kindOf(q reqT) string {
	switch {
	case !q.Origin.Has || q.Origin.V == "":
		return "no-origin"
	case q.Method == "OPTIONS" && q.ACRM == "":
		return "options-without-request-method"
	case q.Method == "OPTIONS":
		return "preflight"
	}
	return "simple"
}

func acaoClass(o obsT, q reqT) string {
	switch {
	case len(o.ACAO) == 0:
		return "none"
	case len(o.ACAO) > 1:
		return "multiple"
	case o.ACAO[0] == "*":
		return "star"
	case q.Origin.Has && o.ACAO[0] == strings.ToLower(q.Origin.V):
		return "origin-lower"
	case q.Origin.Has && o.ACAO[0] == q.Origin.V:
		return "origin-raw-spelling"
	}
	return "other"
}

func main() {
	core.SuperviseSelf("C19") // a runtime fatal error inside the code under test is a finding, not a harness error
	// The statement only says ACAO is emitted ONLY for permitted origins. The converse
	// (a permitted origin does get ACAO) is observed and reported in the evidence, and
	// becomes a violation only with -demand-emission.
	demandEmission := flag.Bool("demand-emission", false, "also fail when a permitted origin receives no Access-Control-Allow-Origin")
	skipFlag := flag.String("skip", "", "diagnostics only: comma separated families to leave out (unlisted, neigh, hist, concurrent); the run is then reported as not exhaustive")
	r := core.Start("C19")
	skip := map[string]bool{}
	for _, f := range strings.Split(*skipFlag, ",") {
		if f != "" {
			skip[f] = true
			r.Cap("diagnostic run without family " + f)
		}
	}
	menu, origins := originMenuQuick, originsQuick
	funcs := []string{"", fnOnlyF}
	acrhs := []string{"", "X-A"}
	pns := []string{"", "true"}
	methodSets := [][]string{nil, {"GET", "PUT"}}
	if !r.Quick() {
		menu, origins = originMenuThorough, originsThorough
		funcs = append(funcs, fnAll)
		acrhs = append(acrhs, "X-A, Content-Type")
		pns = append(pns, "false")
	}
	olists := lists(menu, 2)
	listRule := "ordered AllowOrigins lists of <=2 distinct entries"
	var cfgs []cfgT
	for _, ol := range olists {
		for _, fn := range funcs {
			for _, cred := range []bool{false, true} {
				for _, pn := range []bool{false, true} {
					for _, ma := range []int{0, 60, -1} {
						for _, ah := range [][]string{nil, {"X-A", "Content-Type"}} {
							for _, eh := range [][]string{nil, {"X-Out", "ETag"}} {
								for _, am := range methodSets {
									cfgs = append(cfgs, cfgT{ol, fn, cred, pn, ma, ah, eh, am, ""})
								}
							}
						}
					}
				}
			}
		}
	}
	// entries the constructor must refuse (alone and behind a valid entry): rejected configurations
	for _, bad := range []string{"https://c.test/path", "https://*", "null", "https://%zz", "https://c.test?x=1", "https://*.c.test#f", "://c.test"} {
		cfgs = append(cfgs, cfgT{Origins: []string{bad}}, cfgT{Origins: []string{"https://a.test", bad}})
	}
	listRule += "; plus 14 configurations with an entry the constructor must refuse (path, query, fragment, bare wildcard host, 'null', bad escape, no scheme; alone and behind a valid entry)"
	extra := 0
	if !r.Quick() {
		// plus every 3-entry list (menu order; order effects are covered by the ordered pairs),
		// crossed only with the dimensions that interact with origin matching
		for i := range menu {
			for j := i + 1; j < len(menu); j++ {
				for k := j + 1; k < len(menu); k++ {
					for _, fn := range funcs {
						for _, cred := range []bool{false, true} {
							cfgs = append(cfgs, cfgT{[]string{menu[i], menu[j], menu[k]}, fn, cred, true, 60, []string{"X-A", "Content-Type"}, []string{"X-Out", "ETag"}, nil, ""})
							extra++
						}
					}
				}
			}
		}
		listRule += fmt.Sprintf("; plus %d configurations = all 3-entry combinations x AllowOriginsFunc x AllowCredentials with the other options fixed", extra)
	}
	type group struct{ method, acrm, acrh, pn string }
	var groups []group
	for _, m := range []string{"GET", "POST", "OPTIONS"} {
		for _, acrm := range []string{"", "PUT"} {
			for _, acrh := range acrhs {
				for _, pn := range pns {
					groups = append(groups, group{m, acrm, acrh, pn})
				}
			}
		}
	}

	// preflights that ask for a method / headers OUTSIDE the configured sets, or in another
	// case: PUT and X-A above are members of every configured set, so a middleware that
	// treats unlisted requests differently (falls through, refuses, echoes) needs these.
	baseGroups := len(groups)
	if !skip["unlisted"] {
		xacrh := []string{"", "X-A", "X-Other", "x-a, X-Other"}
		for _, acrm := range []string{"DELETE", "TRACE", "put"} { // DELETE: default list only; TRACE: in no list
			for _, acrh := range xacrh {
				groups = append(groups, group{"OPTIONS", acrm, acrh, ""})
			}
		}
		for _, acrh := range xacrh[2:] {
			groups = append(groups, group{"OPTIONS", "PUT", acrh, ""})
		}
		if !r.Quick() {
			for _, acrm := range []string{"GET", "options", "X-CUSTOM", "GET, PUT"} {
				for _, acrh := range []string{"", "X-Other, X-A", "content-type"} {
					groups = append(groups, group{"OPTIONS", acrm, acrh, "true"})
				}
			}
		}
	}

	agg := newAggregate()
	r.Parallel(len(cfgs), func(ci int, l *core.Local) {
		if r.Expired() {
			r.Cap("wall-clock budget reached before all configurations were explored")
			return
		}
		c := cfgs[ci]
		cr := &cfgResult{}
		defer agg.fold(ci, cr)
		t, rejected := build(c)
		l.Add("configs", 1)
		if rejected != "" {
			l.Add("configs_rejected", 1)
			l.Outcome("rejected configuration: " + rejected)
			return
		}
		j := newJudger(c, *demandEmission)
		pol := j.pol
		var fctx fasthttp.RequestCtx
		obs := make([]obsT, len(origins))
		qs := make([]reqT, len(origins))
		outs := map[outKey]int64{}
		defer func() {
			for k, n := range outs {
				l.P.Outcomes[k.String()] += n
			}
		}()
		for gi, g := range groups {
			for oi, ov := range origins {
				q := reqT{g.method, ov, g.acrm, g.acrh, g.pn, false}
				o := run(t, &fctx, q)
				obs[oi], qs[oi] = o, q
				l.Add("evaluations", 1)
				if ov.Has && !pol.allowAll {
					l.Add("nontrivial", 1)
				}
				kind := kindOf(q)
				outs[outKey{kind, acaoClass(o, q), o.ACAC != "", o.VaryOrigin, o.Ran, o.Status}]++
				_, perm := j.judge(cr, l, q, o)
				if ci%211 == 0 && gi%5 == 0 && (ov.Class == "subdomain" || ov.Class == "suffix-in-path") && len(cr.samples) < 2 {
					cr.samples = append(cr.samples, map[string]any{"case": caseT{c, q, kind}, "reference_permitted": perm.String(), "observed": o})
				}
			}
			// (5) Vary: Origin whenever the answer depends on the Origin value
			j.varyRule(cr, l, qs, obs)
		}
	})
	if !skip["neigh"] {
		runNeighbourhood(r, agg, *demandEmission) // single-edit neighbourhood of permitted probes (neigh.go)
	}
	if !skip["hist"] {
		runHistories(r, agg, *demandEmission) // ordered request histories on one instance and one RequestCtx (history.go)
	}

	// deterministic merge: per signature the case of the lowest configuration index is kept
	outside := map[string]map[string]any{}
	foldQualified(agg.viols)
	for sig, v := range agg.viols {
		r.P.Violations[sig] = &core.Violation{Signature: sig, What: v.what, Case: v.cs, Observed: v.obs, Expected: v.want, Count: v.count}
	}
	for sig, v := range agg.notes {
		outside[sig] = map[string]any{"count": v.count, "first_case": v.cs}
	}
	sort.Slice(agg.samples, func(i, j int) bool { return agg.samples[i].ci < agg.samples[j].ci })
	for _, s := range agg.samples {
		r.Sample(s.v)
	}
	for _, k := range []string{"mech_exact_permits", "mech_wildcard_permits", "mech_func_permits", "mech_preflight", "mech_star", "configs_rejected", "groups_varying_by_origin"} {
		if r.P.Counters[k] == 0 {
			core.Fatal("vacuous: mechanism counter %s is zero", k)
		}
	}
	if !skip["unlisted"] && r.P.Counters["mech_preflight_asks_for_unlisted"] == 0 {
		core.Fatal("vacuous: no preflight asked for an unlisted method or header")
	}
	var oclasses []string
	seen := map[string]bool{}
	for _, o := range origins {
		if !seen[o.Class] {
			seen[o.Class] = true
			oclasses = append(oclasses, o.Class)
		}
	}
	sort.Strings(oclasses)
	nreq := len(groups) * len(origins)
	if !skip["concurrent"] {
		runConcurrent(r)
	} // two requests in flight on one middleware instance, all interleavings (see concurrent.go)
	r.Finish(core.Evidence{
		Level:      "exploration",
		Exhaustive: true,
		Coverage: map[string]any{
			"evaluations":         r.P.Counters["evaluations"],
			"distinct_nontrivial": r.P.Counters["nontrivial"],
			"rule": fmt.Sprintf("full product: %d configurations (%d %s from %q x AllowOriginsFunc %q x AllowCredentials x AllowPrivateNetwork x MaxAge{0,60,-1} x AllowHeaders{none,list} x ExposeHeaders{none,list} x AllowMethods{default,custom}; constructions that panic are counted as rejected and not explored) x %d requests (%d Origin values x method{GET,POST,OPTIONS} x Access-Control-Request-Method{absent,PUT} x Access-Control-Request-Headers %q x Access-Control-Request-Private-Network %q = %d request shapes, plus %d preflight shapes asking for a method/headers outside the configured sets or in another case). PLUS the single-edit neighbourhood family (%d configurations x %d Origin values = every insertion/replacement by one of %d letters and every deletion at every position of %d permitted probes, x {GET, preflight}) and the request-history family (%d configurations x every ordered pair of %d request letters on one fresh middleware instance and one shared RequestCtx, judged against the same reference and qualified against the solo answer). A case is non-trivial when the request carries an Origin and the configuration does not allow all origins, i.e. the origin matching code decides the answer. Each response is judged by a reference policy written from the statement; Vary is judged per group of requests that differ only in Origin.",
				len(cfgs), len(olists), listRule, menu, funcs, nreq, len(origins), acrhs, pns, baseGroups, len(groups)-baseGroups,
				r.P.Counters["neigh_configs"], r.P.Counters["neigh_origin_values"], len(editAlphabet), r.P.Counters["neigh_probes"],
				r.P.Counters["hist_configs"], r.P.Counters["hist_request_letters"]),
			"observed_outside_statement": outside,
			"family_counters":            familyCounters(r),
			"bounds": map[string]any{"max_allow_origins_entries": len(cfgs[len(cfgs)-1].Origins), "origin_menu": menu, "origin_values": len(origins), "origin_classes": oclasses,
				"configs": len(cfgs), "requests_per_config": nreq,
				"neighbourhood_configs": r.P.Counters["neigh_configs"], "neighbourhood_origin_values": r.P.Counters["neigh_origin_values"], "neighbourhood_evaluations": r.P.Counters["neigh_evaluations"],
				"history_configs": r.P.Counters["hist_configs"], "history_request_letters": r.P.Counters["hist_request_letters"], "histories": r.P.Counters["hist_histories"], "history_max_length": map[bool]int{true: 2, false: 3}[r.Quick()]},
		},
		Assumptions: []string{
			"handler-level drive (app.Handler() on a fake connection); fasthttp header parsing is not re-checked here",
			"reference policy: entry normalisation = trim spaces, lower case, drop one trailing slash; wildcard entry permits scheme://(non-empty labels).domain[:same port]; an Origin value that is not scheme://host[:port] is permitted by no list entry; a host with a byte that is neither a host-name byte nor a URL delimiter/blank/bracket/'*' ('%', ',', '|', tab, non-ASCII ...) matching a wildcard entry as a string is unspecified",
			"a preflight is OPTIONS + Origin + Access-Control-Request-Method whatever method/headers it asks for: the statement makes no exception for unlisted ones",
			"where the statement is silent nothing is demanded: Access-Control-Allow-Headers when none are configured, methods/headers sent to a refused origin, Max-Age/Expose-Headers/Private-Network headers, ACAO on OPTIONS without Access-Control-Request-Method, Vary when the answer differs only between 'no Origin' and 'any Origin', function consulted with raw vs lower-cased spelling",
		},
		MinOutcomes: 6,
	})
}

// familyCounters reports the anti-vacuity counters of the added families in the evidence.
func familyCounters(r *core.Run) map[string]int64 {
	out := map[string]int64{}
	for k, v := range r.P.Counters {
		if strings.HasPrefix(k, "neigh_") || strings.HasPrefix(k, "hist_") || strings.HasPrefix(k, "mech_") || strings.HasPrefix(k, "cc_") {
			out[k] = v
		}
	}
	return out
}
