package main

// Concurrent part: two requests in flight on ONE middleware instance. CORS decisions are a
// function of the request alone, so under every interleaving each request must receive exactly
// the response it receives when it is served alone (differential oracle). Scheduling points:
// the AllowOriginsFunc callback and the downstream handler yield to the cooperative scheduler
// (the middleware itself has no synchronisation operations), thread spawn and join.

import (
	"fmt"
	"verifmc/fx"

	"github.com/gofiber/fiber/v3"
	"github.com/gofiber/fiber/v3/middleware/cors"
	"github.com/gofiber/fiber/v3/verifrt"
	"github.com/valyala/fasthttp"

	"verifmc/core"
	"verifmc/xplore"
)

type ccCfg struct {
	Name    string
	Origins []string
	Func    bool // AllowOriginsFunc permitting https://f.test (it yields before answering)
	Cred    bool
}

type ccReq struct {
	Name   string
	Method string
	Origin string
	ACRM   string
}

func ccBuild(c ccCfg) fasthttp.RequestHandler {
	cfg := cors.Config{AllowOrigins: c.Origins, AllowCredentials: c.Cred, AllowHeaders: []string{"X-A"}}
	if c.Func {
		cfg.AllowOriginsFunc = func(o string) bool {
			verifrt.Yield("cors.allowOriginsFunc")
			return o == "https://f.test"
		}
	}
	app := fiber.New()
	app.Use(cors.New(cfg))
	app.All("/", func(ctx fiber.Ctx) error {
		verifrt.Yield("handler")
		return ctx.SendString("ok")
	})
	return app.Handler()
}

func ccRun(h fasthttp.RequestHandler, q ccReq) string {
	hs := []string{}
	if q.Origin != "" {
		hs = append(hs, "Origin", q.Origin)
	}
	if q.ACRM != "" {
		hs = append(hs, "Access-Control-Request-Method", q.ACRM)
	}
	var fctx fasthttp.RequestCtx
	fx.CallInto(&fctx, h, fx.Req(q.Method, "http://app.test/", hs...), nil, false)
	r := &fctx.Response
	return fmt.Sprintf("status=%d acao=%q acac=%q vary=%q acam=%q acah=%q body=%q", r.StatusCode(), r.Header.PeekAll("Access-Control-Allow-Origin"),
		r.Header.Peek("Access-Control-Allow-Credentials"), r.Header.PeekAll("Vary"), r.Header.Peek("Access-Control-Allow-Methods"),
		r.Header.Peek("Access-Control-Allow-Headers"), r.Body())
}

func runConcurrent(r *core.Run) {
	cfgs := []ccCfg{
		{"list+cred", []string{"https://a.test"}, false, true},
		{"wildcard", []string{"https://*.a.test"}, false, false},
		{"func", nil, true, false},
		{"list+func+cred", []string{"https://a.test"}, true, true},
	}
	reqs := []ccReq{
		{"get-permitted-a", "GET", "https://a.test", ""},
		{"get-permitted-f", "GET", "https://f.test", ""},
		{"get-permitted-sub", "GET", "https://x.a.test", ""},
		{"get-foreign", "GET", "https://evil.test", ""},
		{"get-no-origin", "GET", "", ""},
		{"preflight-permitted-a", "OPTIONS", "https://a.test", "PUT"},
		{"preflight-foreign", "OPTIONS", "https://evil.test", "PUT"},
	}
	bound := 2
	if !r.Quick() {
		bound = 4
	}
	for _, c := range cfgs {
		// solo answers on a fresh instance (no scheduler: the yields are no-ops)
		solo := map[string]string{}
		for _, q := range reqs {
			solo[q.Name] = ccRun(ccBuild(c), q)
		}
		for i, qa := range reqs {
			for j, qb := range reqs {
				if i == j {
					continue
				}
				var got [2]string
				ex := &xplore.Explorer{Bounds: xplore.Bounds{0, bound, 0, 0}}
				var res verifrt.Result
				ex.Run = func(x *xplore.X) {
					got = [2]string{}
					res = verifrt.Run(func(kind string, n int, costly bool, label string) int {
						k := xplore.Sched
						if kind == "env" {
							k = xplore.Env
						}
						return x.Choose(k, n, costly, label)
					}, verifrt.Options{MaxSteps: 2000}, func() {
						h := ccBuild(c)
						verifrt.GoNamed("A", false, func() { got[0] = ccRun(h, qa) })
						verifrt.GoNamed("B", false, func() { got[1] = ccRun(h, qb) })
						verifrt.Join()
					})
				}
				ex.Visit = func(x *xplore.X) bool {
					r.Add("cc_executions", 1)
					r.Add("cc_points", int64(len(x.Points)))
					if x.Diverged != "" || res.Stuck != "" {
						core.Fatal("C19 concurrent part: %s %s", x.Diverged, res.Stuck)
					}
					cs := map[string]any{"config": c, "requests": []ccReq{qa, qb}, "choices": x.Choices()}
					if len(res.Panics) > 0 || res.Deadlock {
						r.Violate("concurrent panic-or-deadlock config="+c.Name, "two concurrent requests made the middleware panic or block", cs, res.Panics, nil)
					}
					for k, q := range []ccReq{qa, qb} {
						if got[k] != solo[q.Name] {
							r.Violate(fmt.Sprintf("concurrent response-depends-on-other-request config=%s victim=%s other=%s", c.Name, q.Name, []ccReq{qb, qa}[k].Name),
								"under some interleaving a request received CORS headers different from those it receives when served alone", cs, got[k], solo[q.Name])
						}
					}
					r.Outcome("concurrent " + c.Name + " ok=" + fmt.Sprint(got[0] == solo[qa.Name] && got[1] == solo[qb.Name]))
					return true
				}
				ex.Explore()
			}
		}
	}
}
