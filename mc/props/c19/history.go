package main

// Family "request histories": every ordered pair (thorough: also triples over a smaller
// alphabet) of requests served by ONE freshly built middleware instance on ONE shared
// fasthttp.RequestCtx - the way a keep-alive connection serves them. The product of main.go
// serves its requests in one fixed order, so a decision remembered from the previous request
// (a memo of the last origin, a hoisted variable that is not reset, a string kept from the
// previous request's header buffer) shows there only for the pairs that happen to be adjacent
// in that order. Here every permitted request is followed by every refused one and vice
// versa, including Origin values of EQUAL LENGTH at the same header position (an unsafe
// string kept from request 1 then reads as request 2's origin).
//
// Oracle: the same per-response judge and Vary rule as everywhere else. A violation that the
// same request does not raise when served alone (fresh instance, fresh ctx) is reported with
// the qualifier " history-only after=<what preceded it>"; when it also vanishes with a fresh
// RequestCtx per request the qualifier ends in " reused-ctx-only".

import (
	"fmt"
	"sort"

	"github.com/valyala/fasthttp"

	"verifmc/core"
)

// Origin values of the histories: the menu of the product plus unrelated origins of the same
// length as the permitted ones (https://e.test ~ https://a.test, https://f.test ...).
var historyTwins = []originV{
	{true, "https://e.test", "unrelated-same-length"},
	{true, "https://x.e.test", "unrelated-same-length"},
	{true, "https://x.y.e.test", "unrelated-same-length"},
	{true, "https://e.test:8443", "unrelated-same-length"},
	{true, "http://e.test", "unrelated-same-length"},
}

func historyConfigs(menu []string, next string) []cfgT {
	var out []cfgT
	ls := lists(menu, 1)
	if next == "" {
		ls = append(ls, []string{"https://a.test", "https://*.a.test"}, []string{"https://*.a.test", " https://*.b.test "}, []string{"https://a.test:8443", "http://a.test"})
	}
	for _, l := range ls {
		for _, fn := range []string{"", fnOnlyF} {
			for _, cred := range []bool{false, true} {
				out = append(out, cfgT{l, fn, cred, false, 60, []string{"X-A", "Content-Type"}, nil, nil, next})
			}
		}
	}
	return out
}

type histShape struct {
	method, acrm, acrh string
	skip               bool
}

func (sh histShape) is(q reqT) bool { return q.Method == sh.method && q.Skip == sh.skip }

func sigsOf(cr *cfgResult) []string { return cr.order }

func runHistories(r *core.Run, agg *aggregate, demand bool) {
	plain := []histShape{{"GET", "", "", false}, {"OPTIONS", "PUT", "X-A", false}}
	// configurations without Next x plain requests; configurations whose Next skips marked
	// requests x plain and marked requests (a skipped request is a history step too)
	runHistoryFamily(r, agg, demand, 2_000_000, historyConfigs(originMenuQuick, ""), plain)
	runHistoryFamily(r, agg, demand, 3_000_000, historyConfigs(originMenuQuick, nextMarked), append(plain[:2:2], histShape{"GET", "", "", true}, histShape{"OPTIONS", "PUT", "X-A", true}))
	for _, k := range []string{"hist_histories", "hist_permitted_then_refused_same_length", "hist_refused_then_permitted_same_length", "mech_skipped_by_next"} {
		if r.P.Counters[k] == 0 {
			core.Fatal("vacuous: history counter %s is zero", k)
		}
	}
}

func runHistoryFamily(r *core.Run, agg *aggregate, demand bool, base int, cfgs []cfgT, shapes []histShape) {
	origins := append(append([]originV(nil), originsQuick...), historyTwins...)
	var letters []reqT
	for _, sh := range shapes {
		for _, ov := range origins {
			letters = append(letters, reqT{sh.method, ov, sh.acrm, sh.acrh, "", sh.skip})
		}
	}
	// letters of the third position (thorough): one permitted and one refused of each length class
	var third []int
	if !r.Quick() {
		for li, q := range letters {
			switch q.Origin.V {
			case "https://a.test", "https://e.test", "https://x.a.test", "https://x.e.test", "https://f.test", "":
				third = append(third, li)
			}
		}
	}
	r.Add("hist_configs", int64(len(cfgs)))
	if n := int64(len(letters)); n > r.P.Counters["hist_request_letters"] {
		r.Add("hist_request_letters", n-r.P.Counters["hist_request_letters"])
	}
	nL := len(letters)
	r.Parallel(len(cfgs), func(ci int, l *core.Local) {
		if r.Expired() {
			r.Cap("wall-clock budget reached before all request histories were explored")
			return
		}
		c := cfgs[ci]
		cr := &cfgResult{}
		defer agg.fold(base+ci, cr)
		if _, rejected := build(c); rejected != "" {
			l.Add("hist_configs_rejected", 1)
			return
		}
		j := newJudger(c, demand)
		scratch := core.NewLocal() // mechanism counters of the judge are not counted twice for solo runs
		// what each request raises when served alone (fresh instance, fresh ctx)
		soloSigs := make([]map[string]bool, nL)
		soloFp := make([]fpT, nL)
		soloObs := make([]obsT, nL)
		for li, q := range letters {
			t, _ := build(c)
			var fctx fasthttp.RequestCtx
			o := run(t, &fctx, q)
			one := &cfgResult{}
			j.judge(one, scratch, q, o)
			soloSigs[li], soloFp[li], soloObs[li] = map[string]bool{}, o.fingerprint(), o
			for _, s := range sigsOf(one) {
				soloSigs[li][s] = true
				v := one.viols[s] // solo findings are reported unqualified
				cr.violate(s, v.what, v.cs, v.obs, v.want)
			}
		}
		after := func(prev []int) string {
			s := ""
			for k, pi := range prev {
				p := letters[pi]
				perm, _ := j.pol.permitted(p.Origin.V)
				if !p.Origin.Has {
					perm = no
				}
				if k > 0 {
					s += ","
				}
				kd := kindOf(p)
				if p.Skip && c.Next != "" {
					kd = "skipped-by-next"
				}
				s += fmt.Sprintf("%s:reference-%s", kd, perm)
			}
			return s
		}
		// serve one history; returns the observation of every request
		serve := func(idx []int, shared bool) []obsT {
			t, _ := build(c)
			var fctx *fasthttp.RequestCtx
			if shared {
				fctx = &fasthttp.RequestCtx{}
			}
			out := make([]obsT, len(idx))
			for k, li := range idx {
				if !shared {
					fctx = &fasthttp.RequestCtx{}
				}
				out[k] = run(t, fctx, letters[li])
			}
			return out
		}
		// report what the LAST request of a history raises beyond its solo run
		report := func(idx []int, one *cfgResult) {
			last := idx[len(idx)-1]
			for _, s := range sigsOf(one) {
				if soloSigs[last][s] {
					continue
				}
				v := one.viols[s]
				qual := " history-only after=" + after(idx[:len(idx)-1])
				// does it need the shared RequestCtx?
				fresh := serve(idx, false)
				again := &cfgResult{}
				j.judge(again, scratch, letters[last], fresh[len(idx)-1])
				if again.viols[s] == nil {
					qual += " reused-ctx-only"
				}
				cs := map[string]any{"config": c, "history": reqsOf(letters, idx), "judged_request": len(idx)}
				// the origin class of the victim is not the root cause here: only the clause is kept
				cr.violate(clauseOf(s)+qual, v.what+" (only when the request follows other requests on the same middleware instance)", cs, v.obs, v.want)
			}
		}
		lenEq := func(a, b int) bool {
			return letters[a].Origin.Has && letters[b].Origin.Has && len(letters[a].Origin.V) == len(letters[b].Origin.V) && letters[a].Origin.V != letters[b].Origin.V
		}
		outs := map[string]int64{}
		for fi := range letters {
			firstPerm := no
			if letters[fi].Origin.Has {
				firstPerm, _ = j.pol.permitted(letters[fi].Origin.V)
			}
			for _, sh := range shapes {
				var grpIdx []int
				for li, q := range letters {
					if sh.is(q) {
						grpIdx = append(grpIdx, li)
					}
				}
				obs2 := make([]obsT, len(grpIdx))
				qs2 := make([]reqT, len(grpIdx))
				for gk, si := range grpIdx {
					idx := []int{fi, si}
					os := serve(idx, true)
					l.Add("hist_histories", 1)
					l.Add("evaluations", 2)
					if !j.pol.allowAll {
						l.Add("nontrivial", 1)
					}
					one := &cfgResult{}
					_, perm2 := j.judge(one, l, letters[si], os[1])
					obs2[gk], qs2[gk] = os[1], letters[si]
					if len(one.order) > 0 {
						report(idx, one)
					}
					differs := os[1].fingerprint() != soloFp[si]
					if differs && len(one.order) == 0 {
						l.Add("hist_answer_differs_from_solo_without_violation", 1)
						cr.observe(fmt.Sprintf("history: answer to %s differs from its solo answer after=%s (no clause of the statement broken)", kindOf(letters[si]), after(idx[:1])), map[string]any{"config": c, "history": reqsOf(letters, idx)})
					}
					outs[fmt.Sprintf("history second-request=%s reference=%s same-as-solo=%v", kindOf(letters[si]), perm2, !differs)]++
					if !j.pol.allowAll && lenEq(fi, si) {
						switch {
						case firstPerm == yes && perm2 == no:
							l.Add("hist_permitted_then_refused_same_length", 1)
						case firstPerm == no && perm2 == yes:
							l.Add("hist_refused_then_permitted_same_length", 1)
						}
					}
					for _, ti := range third {
						idx3 := []int{fi, si, ti}
						os3 := serve(idx3, true)
						l.Add("hist_histories", 1)
						l.Add("hist_triples", 1)
						l.Add("evaluations", 3)
						one3 := &cfgResult{}
						j.judge(one3, scratch, letters[ti], os3[2])
						if len(one3.order) > 0 {
							report(idx3, one3)
						}
					}
				}
				// Vary rule over "same first request, second request differing only in Origin"
				one := &cfgResult{}
				j.varyRule(one, scratch, qs2, obs2)
				if len(one.order) > 0 {
					// solo group of the same shape
					soloGrp := &cfgResult{}
					so := make([]obsT, len(grpIdx))
					for gk, si := range grpIdx {
						so[gk] = soloObs[si]
					}
					j.varyRule(soloGrp, scratch, qs2, so)
					for _, s := range one.order {
						if soloGrp.viols[s] != nil {
							continue
						}
						v := one.viols[s]
						// the kept case names the second request; find it for the fresh-ctx re-run
						qual := " history-only after=" + after([]int{fi})
						cr.violate(clauseOf(s)+qual, v.what+" (only when the request follows another request on the same middleware instance)",
							map[string]any{"config": c, "first_request": letters[fi], "judged": v.cs}, v.obs, v.want)
					}
				}
			}
		}
		keys := make([]string, 0, len(outs))
		for k := range outs {
			keys = append(keys, k)
		}
		sort.Strings(keys)
		for _, k := range keys {
			l.P.Outcomes[k] += outs[k]
		}
	})
}

// clauseOf keeps the first word of a judge signature (the clause that is broken).
func clauseOf(sig string) string {
	for i := 0; i < len(sig); i++ {
		if sig[i] == ' ' {
			return sig[:i]
		}
	}
	return sig
}

func reqsOf(letters []reqT, idx []int) []reqT {
	out := make([]reqT, len(idx))
	for k, li := range idx {
		out[k] = letters[li]
	}
	return out
}
