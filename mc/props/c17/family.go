// C17 — request/handler/configuration family (audit round 5).
//
// The scenarios of main.go explore the schedules of ONE request shape (POST /, 201, short body, default config).
// This file adds the dimensions the driver never varied, judged by a small sequential reference model:
//
//	Cfg     how the middleware is configured (given lock, zero Config, New() without argument, custom KeyHeader,
//	        custom KeyHeaderValidate with keys of another length, KeepResponseHeaders spellings / unknown names /
//	        empty list, custom Next, a locker whose Unlock reports an error)
//	Life    Config.Lifetime (default, 2 s, 1 h, and lifetimes that are not whole seconds)
//	Adv     clock advance between the execution and a later duplicate (0, 1 s, just inside the lifetime, at it, past it)
//	Method  unsafe method of the keyed requests (POST PUT PATCH DELETE CONNECT) paired with the safe method of a
//	        bystander that carries the same key (GET HEAD OPTIONS TRACE)
//	Shape   what the handler answers (status classes incl. redirect / 404 / 500 without error, empty / 300 B / 70 kB /
//	        binary / streamed bodies, 40 headers, several cookies, JSON)
//	Behave  first execution: ok, error before writing, error after writing, panic (recovered by an outer recover)
//	Store   built-in memory storage, injected storage honouring the TTL it is given, the same with a corrupted /
//	        failing lookup at one duplicate
//	Variant what the first duplicate changes although the key is the same: nothing, path, body, unsafe method
//	Up      an upstream middleware that writes a response header before the idempotency middleware runs
//	Ctx     every sequential request on a fresh fasthttp.RequestCtx, or all of them on ONE (reset in between as the
//	        server does) although their layouts differ (key header name, key length, body, method)
//
// Members are the ball of radius 3 (thorough: 4) around the base in the sequential family (one thread, nine
// requests per history) and of radius 2 in the concurrent family (first request and its duplicate in flight together,
// all schedules within the preemption bound).  A violation is minimised (dimensions reset to base one by one while
// the same stem stays; in the concurrent family by re-exploring the smaller member) so that its signature names only
// the dimensions that matter.
package main

import (
	"errors"
	"fmt"
	"hash/fnv"
	"sort"
	"strings"
	"time"

	"github.com/gofiber/fiber/v3"
	"github.com/gofiber/fiber/v3/middleware/idempotency"
	recovermw "github.com/gofiber/fiber/v3/middleware/recover"
	"github.com/gofiber/fiber/v3/verifrt"
	"github.com/gofiber/utils/v2"
	"github.com/valyala/fasthttp"

	"verifmc/core"
	"verifmc/fx"
	"verifmc/schedx"
	"verifmc/xplore"
)

const famT0 = 1_900_000_000 // coarse clock at the start of every history (seconds)

// ---- dimensions (index 0 = base) ----------------------------------------------------------------------------------

var famDims = []struct {
	Name string
	Vals []string
}{
	{"cfg", []string{"lock-given", "zero-config", "no-arg", "key-header", "validator", "keep-lower", "keep-mixed", "keep-unknown", "next-custom", "keep-empty", "unlock-error"}},
	{"life", []string{"default", "2s", "1h", "900ms", "1500ms"}},
	{"adv", []string{"0", "1s", "just-inside", "at", "past"}},
	{"method", []string{"POST/GET", "PUT/HEAD", "PATCH/OPTIONS", "DELETE/TRACE", "CONNECT/GET"}},
	{"shape", []string{"base", "empty-200", "status-204", "redirect-303", "notfound-404", "error-500-nil", "body-300", "body-70k", "hdr-40", "json", "cookies-3", "binary", "stream"}},
	{"behave", []string{"ok", "error", "error-after-write", "panic"}},
	{"store", []string{"ttl", "memory", "ttl-corrupt", "ttl-geterr"}},
	{"variant", []string{"same", "other-path", "other-body", "other-method"}},
	{"up", []string{"none", "header"}},
	{"ctx", []string{"fresh", "shared"}},
}

const (
	dCfg = iota
	dLife
	dAdv
	dMethod
	dShape
	dBehave
	dStore
	dVariant
	dUp
	dCtx
	nFamDims
)

type famPV [nFamDims]int

func (p famPV) val(d int) string { return famDims[d].Vals[p[d]] }

func (p famPV) String() string {
	var parts []string
	for d := range famDims {
		if p[d] != 0 {
			parts = append(parts, famDims[d].Name+"="+p.val(d))
		}
	}
	if len(parts) == 0 {
		return "base"
	}
	return strings.Join(parts, " ")
}

func (p famPV) full() map[string]string {
	m := map[string]string{}
	for d := range famDims {
		m[famDims[d].Name] = p.val(d)
	}
	return m
}

// famBall lists every parameter vector with at most radius non-base dimensions, in a fixed order.
func famBall(radius int) []famPV {
	var out []famPV
	var rec func(d, left int, cur famPV)
	rec = func(d, left int, cur famPV) {
		if d == nFamDims {
			out = append(out, cur)
			return
		}
		rec(d+1, left, cur)
		if left > 0 {
			for v := 1; v < len(famDims[d].Vals); v++ {
				c := cur
				c[d] = v
				rec(d+1, left-1, c)
			}
		}
	}
	rec(0, radius, famPV{})
	// base first, then by number of non-base dimensions (the explorer's default choice 0 is the base)
	sort.SliceStable(out, func(i, j int) bool { return famWeight(out[i]) < famWeight(out[j]) })
	return out
}

func famWeight(p famPV) int {
	n := 0
	for _, v := range p {
		if v != 0 {
			n++
		}
	}
	return n
}

// applicable tells whether the combination can be configured at all.
func (p famPV) applicable() bool {
	if p.val(dCfg) == "no-arg" && (p[dLife] != 0 || p[dStore] != 1) {
		return false // New() without argument: built-in storage, default lifetime
	}
	return true
}

func (p famPV) lifetime() time.Duration {
	switch p.val(dLife) {
	case "2s":
		return 2 * time.Second
	case "1h":
		return time.Hour
	case "900ms":
		return 900 * time.Millisecond
	case "1500ms":
		return 1500 * time.Millisecond
	}
	return 30 * time.Minute
}

// advance in whole seconds (the clocks of fiber's storages are coarse)
func (p famPV) advance() int64 {
	l := p.lifetime()
	ceil := int64((l + time.Second - 1) / time.Second)
	switch p.val(dAdv) {
	case "1s":
		return 1
	case "just-inside": // the largest whole second strictly inside the lifetime
		return ceil - 1
	case "at":
		return ceil
	case "past":
		return ceil + 1
	}
	return 0
}

func (p famPV) keepList() []string {
	switch p.val(dCfg) {
	case "keep-lower":
		return []string{"x-a", "x-exec", "set-cookie", "content-type", "location"}
	case "keep-mixed":
		return []string{"X-a", "X-EXEC", "x-H-07"}
	case "keep-unknown":
		return []string{"X-Unknown", "X-Exec", "Not-There"}
	case "keep-empty":
		return []string{} // not nil: which headers are kept then is documented nowhere, none is judged
	}
	return nil
}

// ---- handler shapes -----------------------------------------------------------------------------------------------

var famShapeStatus = map[string]int{"base": 201, "empty-200": 200, "status-204": 204, "redirect-303": 303, "notfound-404": 404, "error-500-nil": 500,
	"body-300": 200, "body-70k": 200, "hdr-40": 202, "json": 200, "cookies-3": 201, "binary": 200, "stream": 200}

func famFill(n, k int, rid string) string {
	unit := fmt.Sprintf("[%d:%s]", k, rid)
	return strings.Repeat(unit, n/len(unit)+1)[:n]
}

// applyShape writes execution k's answer; it returns the body the handler produced.
func applyShape(c fiber.Ctx, shape string, k int, rid string) (string, error) {
	c.Set("X-Exec", fmt.Sprint(k))
	body := fmt.Sprintf("exec#%d for %s", k, rid)
	switch shape {
	case "base":
		c.Status(201)
		c.Response().Header.Add("X-A", "one")
		c.Response().Header.Add("X-A", "two")
		c.Cookie(&fiber.Cookie{Name: "sid", Value: fmt.Sprintf("v%d", k)})
		return body, c.SendString(body)
	case "empty-200":
		c.Response().Header.Add("X-A", fmt.Sprintf("k%d", k))
		return "", nil
	case "status-204":
		return "No Content", c.SendStatus(204)
	case "redirect-303":
		return "", c.Redirect().Status(303).To(fmt.Sprintf("/done/%d", k))
	case "notfound-404":
		return body, c.Status(404).SendString(body)
	case "error-500-nil":
		return body, c.Status(500).SendString(body)
	case "body-300":
		body = famFill(300, k, rid)
		return body, c.SendString(body)
	case "body-70k":
		body = famFill(70_000, k, rid)
		return body, c.SendString(body)
	case "hdr-40":
		c.Status(202)
		for i := 0; i < 40; i++ {
			c.Response().Header.Add(fmt.Sprintf("X-H-%02d", i), fmt.Sprintf("v%d-%02d", k, i))
		}
		for i := 0; i < 5; i++ {
			c.Response().Header.Add("X-A", fmt.Sprintf("a%d", i))
		}
		return body, c.SendString(body)
	case "json":
		if err := c.JSON(fiber.Map{"k": k, "rid": rid}); err != nil {
			return "", err
		}
		return string(c.Response().Body()), nil
	case "cookies-3":
		c.Status(201)
		c.Cookie(&fiber.Cookie{Name: "a", Value: fmt.Sprintf("a%d", k)})
		c.Cookie(&fiber.Cookie{Name: "b", Value: "bee", Path: "/p", HTTPOnly: true})
		c.Cookie(&fiber.Cookie{Name: "c", Value: "sea", MaxAge: 60, SameSite: "Strict"})
		return body, c.SendString(body)
	case "binary":
		body = fmt.Sprintf("\x00\xff\xfe k=%d ü€\x00 %s\x00", k, rid)
		c.Set("X-U", "ü€ "+fmt.Sprint(k))
		c.Set(fiber.HeaderContentType, "application/octet-stream")
		return body, c.Send([]byte(body))
	case "stream":
		body = famFill(5000, k, rid)
		return body, c.SendStream(strings.NewReader(body))
	}
	panic("unknown shape " + shape)
}

// ---- storage honouring the TTL it is given ------------------------------------------------------------------------

type ttlEnt struct {
	val   []byte
	expNs int64 // 0 = never
}

type ttlStorage struct {
	nowSec *int64
	data   map[string]ttlEnt
	armed  string // "", "corrupt", "geterr": applies to the next Get that finds a live record (sequential histories)
	fired  *[]string
}

func (s *ttlStorage) Get(key string) ([]byte, error) {
	verifrt.YieldOn("storage.get", s)
	e, ok := s.data[key]
	if !ok || (e.expNs != 0 && *s.nowSec*int64(time.Second) >= e.expNs) {
		return nil, nil
	}
	switch s.armed {
	case "geterr":
		s.armed = ""
		*s.fired = append(*s.fired, "geterr")
		return nil, errors.New("injected get failure")
	case "corrupt":
		s.armed = ""
		*s.fired = append(*s.fired, "corrupt")
		return append([]byte(nil), e.val[:len(e.val)/2]...), nil
	}
	return append([]byte(nil), e.val...), nil
}

func (s *ttlStorage) Set(key string, val []byte, ttl time.Duration) error {
	verifrt.YieldOn("storage.set", s)
	e := ttlEnt{val: append([]byte(nil), val...)}
	if ttl != 0 {
		e.expNs = *s.nowSec*int64(time.Second) + int64(ttl)
	}
	s.data[strings.Clone(key)] = e
	return nil
}
func (s *ttlStorage) Delete(key string) error { delete(s.data, key); return nil }
func (s *ttlStorage) Reset() error            { s.data = map[string]ttlEnt{}; return nil }
func (s *ttlStorage) Close() error            { return nil }

// unlockErrLocker releases the key and then reports an error (connection to the lock service lost after the release)
type unlockErrLocker struct{ inner *idempotency.MemoryLock }

func (l unlockErrLocker) Lock(key string) error { return l.inner.Lock(key) }
func (l unlockErrLocker) Unlock(key string) error {
	_ = l.inner.Unlock(key)
	return errors.New("injected unlock failure after release")
}

// ---- one history --------------------------------------------------------------------------------------------------

type famReq struct {
	ID, Kind, Method, Path, Body string
	KeyHeader, Key               string
	Arm                          string // storage fault armed for this request
}

type famObs struct {
	ID, Kind  string
	Status    int
	Body      string
	Headers   []string // sorted "Name: value" lines
	Ran       int
	Completed int
}

func (o famObs) digest() map[string]any {
	b := o.Body
	if len(b) > 80 {
		h := fnv.New64a()
		h.Write([]byte(b))
		b = fmt.Sprintf("%q… len=%d fnv=%x", b[:40], len(o.Body), h.Sum64())
	}
	hs := o.Headers
	if len(hs) > 12 {
		hs = append(append([]string{}, hs[:12]...), fmt.Sprintf("… %d lines", len(o.Headers)))
	}
	return map[string]any{"id": o.ID, "kind": o.Kind, "status": o.Status, "body": b, "headers": hs, "ran": o.Ran, "completed": o.Completed}
}

type famStats struct {
	judged, unspecAfterLifetime, unspecBelowResolution, unspecInvalidKey, unspecUpstream, replays, executions int64
}

type famResult struct {
	out   *schedx.Outcome
	stems []string
	stats famStats
}

func headerName(line string) string {
	if i := strings.Index(line, ": "); i >= 0 {
		return line[:i]
	}
	return line
}

// runFam runs one member; conc = first request and its duplicate in flight together.
func runFam(p famPV, conc bool, e *schedx.Exec) famResult {
	var fr famResult
	fr.out = &schedx.Outcome{}
	if !p.applicable() {
		fr.out.Class = "not-applicable"
		return fr
	}
	now := int64(famT0)
	setClock := func() { utils.VerifSetTimestamp(uint32(now)) }
	setClock()

	methods := strings.Split(p.val(dMethod), "/")
	unsafe, safe := methods[0], methods[1]
	nextUnsafe := map[string]string{"POST": "PUT", "PUT": "PATCH", "PATCH": "DELETE", "DELETE": "POST", "CONNECT": "POST"}[unsafe]
	cfgName := p.val(dCfg)
	keyHeader, wrongHeader := "X-Idempotency-Key", "Idempotency-Key"
	if cfgName == "key-header" {
		keyHeader, wrongHeader = wrongHeader, keyHeader
	}
	k1, k2, bad := keyA, keyB, keyA[:35]
	if cfgName == "validator" {
		k1, k2, bad = "kkkk-aaaa-01", "kkkk-bbbb-01", "k-short"
	}
	life := p.lifetime()
	keep := p.keepList()
	shape := p.val(dShape)
	behave := p.val(dBehave)
	store := p.val(dStore)

	first := famReq{ID: "first", Kind: "keyed", Method: unsafe, Path: "/", Body: "b1", KeyHeader: keyHeader, Key: k1}
	dupv := first
	dupv.ID = "dupv"
	switch p.val(dVariant) {
	case "other-path":
		dupv.Path = "/other"
	case "other-body":
		dupv.Body = "another body, longer than the first one"
	case "other-method":
		dupv.Method = nextUnsafe
	}
	late := first
	late.ID = "late"
	if strings.HasPrefix(store, "ttl-") {
		late.Arm = strings.TrimPrefix(store, "ttl-")
	}
	late2 := first
	late2.ID = "late2"
	hist := [][]famReq{}
	if conc {
		hist = append(hist, []famReq{first, dupv})
	} else {
		hist = append(hist, []famReq{first}, []famReq{dupv})
	}
	hist = append(hist,
		[]famReq{{ID: "safe", Kind: "safe", Method: safe, Path: "/", KeyHeader: keyHeader, Key: k1}},
		[]famReq{{ID: "wronghdr", Kind: "nokey", Method: unsafe, Path: "/", Body: "b1", KeyHeader: wrongHeader, Key: k1}},
		[]famReq{{ID: "other", Kind: "keyed", Method: unsafe, Path: "/", Body: "b1", KeyHeader: keyHeader, Key: k2}},
		[]famReq{{ID: "badkey", Kind: "invalid", Method: unsafe, Path: "/", Body: "b1", KeyHeader: keyHeader, Key: bad}},
		nil, // clock advance
		[]famReq{late}, []famReq{late2},
		[]famReq{{ID: "other2", Kind: "keyed", Method: unsafe, Path: "/other", Body: "b1", KeyHeader: keyHeader, Key: k2}},
	)

	if cfgName == "next-custom" {
		for _, ph := range hist {
			for i := range ph {
				if ph[i].Path == "/other" && ph[i].Kind == "keyed" {
					ph[i].Kind = "skipped" // Config.Next says so: not protected, must run
				}
			}
		}
	}
	started := map[string]int{}
	protStarted := 0
	ranFor := map[string]int{}
	completedFor := map[string]int{}
	produced := map[string]string{}
	obs := map[string]famObs{}
	var fired []string
	var mlock *idempotency.MemoryLock
	lockedAtEnd := -1
	phaseTime := map[string]int64{}

	res := verifrt.Run(e.Chooser(), verifrt.Options{MaxSteps: 20000, StateKey: func() string {
		return fmt.Sprint(started, ranFor, completedFor, protStarted)
	}}, func() {
		var ts *ttlStorage
		cfg := idempotency.Config{KeepResponseHeaders: keep}
		if p[dLife] != 0 {
			cfg.Lifetime = life
		}
		if store != "memory" {
			ts = &ttlStorage{nowSec: &now, data: map[string]ttlEnt{}, fired: &fired}
			cfg.Storage = ts
		}
		switch cfgName {
		case "lock-given":
			mlock = idempotency.NewMemoryLock()
			cfg.Lock = mlock
		case "key-header":
			cfg.KeyHeader = keyHeader
		case "unlock-error":
			mlock = idempotency.NewMemoryLock()
			cfg.Lock = unlockErrLocker{mlock}
		case "next-custom":
			cfg.Next = func(c fiber.Ctx) bool { return fiber.IsMethodSafe(c.Method()) || c.Path() == "/other" }
		case "validator":
			cfg.KeyHeaderValidate = func(k string) error {
				if len(k) < 8 {
					return errors.New("key too short")
				}
				return nil
			}
		}
		app := fiber.New()
		if behave == "panic" {
			app.Use(recovermw.New())
		}
		if p.val(dUp) == "header" {
			app.Use(func(c fiber.Ctx) error {
				c.Set("X-Up", "up-"+c.Get("X-Req"))
				return c.Next()
			})
		}
		if conc {
			app.Use(func(c fiber.Ctx) error {
				err := c.Next()
				verifrt.YieldOn("outer.after-next", started)
				return err
			})
		}
		if cfgName == "no-arg" {
			app.Use(idempotency.New())
		} else {
			app.Use(idempotency.New(cfg))
		}
		h := func(c fiber.Ctx) error {
			rid := strings.Clone(c.Get("X-Req"))
			key := strings.Clone(c.Get(keyHeader))
			verifrt.YieldOn("handler.enter", started)
			started[key]++
			ranFor[rid]++
			k := started[key]
			verifrt.YieldOn("handler.work", started)
			// the first execution on behalf of a PROTECTED request of the first key misbehaves (Behave)
			failing := false
			if key == k1 && !fiber.IsMethodSafe(c.Method()) && !(cfgName == "next-custom" && c.Path() == "/other") {
				protStarted++
				failing = protStarted == 1
			}
			if failing && behave == "error" {
				return fiber.NewError(503, "boom")
			}
			body, err := applyShape(c, shape, k, rid)
			if err != nil {
				return err
			}
			if failing && behave == "error-after-write" {
				return fiber.NewError(503, "boom after write")
			}
			if failing && behave == "panic" {
				panic("handler panic")
			}
			produced[rid] = body
			completedFor[rid]++
			return nil
		}
		app.All("/", h)
		app.All("/other", h)
		handler := app.Handler()
		var sharedCtx *fasthttp.RequestCtx
		if p.val(dCtx) == "shared" {
			sharedCtx = &fasthttp.RequestCtx{}
		}
		do := func(rq famReq) {
			req := fx.Req(rq.Method, "http://example.com"+rq.Path, "X-Req", rq.ID)
			if rq.Key != "" {
				req.Header.Set(rq.KeyHeader, rq.Key)
			}
			if rq.Body != "" {
				req.SetBodyString(rq.Body)
			}
			if ts != nil {
				ts.armed = rq.Arm
			}
			fctx := &fasthttp.RequestCtx{}
			if sharedCtx != nil && verifrt.CurrentName() == "main" {
				fctx = sharedCtx
				fctx.ResetUserValues()
			}
			fx.CallInto(fctx, handler, req, nil, false)
			if ts != nil {
				ts.armed = ""
			}
			o := famObs{ID: rq.ID, Kind: rq.Kind, Status: fctx.Response.StatusCode(), Body: string(fctx.Response.Body())}
			fctx.Response.Header.VisitAll(func(k, v []byte) {
				if n := string(k); n != "Transfer-Encoding" && n != "Content-Length" && n != "Connection" {
					o.Headers = append(o.Headers, n+": "+string(v)) // message framing is not part of the answer
				}
			})
			sort.Strings(o.Headers)
			obs[rq.ID] = o
		}
		for _, ph := range hist {
			if ph == nil {
				now += p.advance()
				setClock()
				continue
			}
			for _, rq := range ph {
				phaseTime[rq.ID] = now
			}
			if len(ph) == 1 {
				do(ph[0])
				continue
			}
			for _, rq := range ph {
				rq := rq
				verifrt.GoNamed(rq.ID, false, func() { do(rq) })
			}
			verifrt.Join()
		}
		if mlock != nil {
			lockedAtEnd = mlock.VerifLockedKeys()
		}
	})
	e.Res = res
	utils.VerifSetTimestamp(famT0)
	for id, o := range obs {
		o.Ran, o.Completed = ranFor[id], completedFor[id]
		obs[id] = o
	}

	// ---- oracle: sequential reference model over the phases ----
	var digests []map[string]any
	for _, ph := range hist {
		for _, rq := range ph {
			if o, ok := obs[rq.ID]; ok {
				digests = append(digests, o.digest())
			}
		}
	}
	fr.out.Detail = map[string]any{"member": p.full(), "concurrent": conc, "responses": digests, "storage_faults_fired": fired,
		"deadlock": res.Deadlock, "blocked": res.Blocked, "panics": res.Panics, "locked_keys_at_end": lockedAtEnd}
	viol := func(stem, what string, o, x any) {
		for _, s := range fr.stems {
			if s == stem {
				return
			}
		}
		fr.stems = append(fr.stems, stem)
		fr.out.Violations = append(fr.out.Violations, schedx.Viol{Sig: stem, What: what, Observed: o, Expected: x})
	}
	broken := false
	if len(res.Panics) > 0 {
		viol("panic "+firstLine(res.Panics[0]), "a request thread panicked", res.Panics, nil)
		broken = true
	}
	if res.Deadlock {
		viol("deadlock blocked="+strings.Join(opsOnly(res.Blocked), ","), "requests blocked forever", res.Blocked, nil)
		broken = true
	}
	if res.Horizon {
		viol("horizon", "step horizon exceeded (livelock?)", nil, nil)
		broken = true
	}
	keepSet := map[string]bool{}
	for _, h := range keep {
		keepSet[strings.ToLower(h)] = true
	}
	// differs names the first field in which a duplicate's answer deviates from the recorded execution's answer
	differs := func(o, ref famObs) string {
		if o.Status != ref.Status {
			return "status"
		}
		if o.Body != ref.Body {
			return "body"
		}
		group := func(lines []string) map[string][]string {
			m := map[string][]string{}
			for _, l := range lines {
				n := headerName(l)
				if keep != nil && !keepSet[strings.ToLower(n)] {
					continue // not a kept header: the statement is silent
				}
				m[n] = append(m[n], l)
			}
			return m
		}
		a, b := group(o.Headers), group(ref.Headers)
		names := map[string]bool{}
		for n := range a {
			names[n] = true
		}
		for n := range b {
			names[n] = true
		}
		var sorted []string
		for n := range names {
			sorted = append(sorted, n)
		}
		sort.Strings(sorted)
		for _, n := range sorted {
			if sameMulti(a[n], b[n]) {
				continue
			}
			if n == "X-Up" {
				// written by the upstream middleware of THIS request before the replay: every recorded value must be
				// there; whether the request's own upstream value may stay next to it is not specified
				have := map[string]int{}
				for _, l := range a[n] {
					have[l]++
				}
				missing := false
				for _, l := range b[n] {
					if have[l] == 0 {
						missing = true
					}
					have[l]--
				}
				if !missing {
					fr.stats.unspecUpstream++
					continue
				}
			}
			return "header:" + n
		}
		return ""
	}
	if !broken {
		type rec struct {
			o    famObs
			at   int64
			alts []famObs
		}
		recorded := map[string]*rec{}
		for _, ph := range hist {
			if len(ph) == 0 {
				continue
			}
			// bystanders and invalid keys are judged one by one; keyed requests of one phase together
			var keyed []famReq
			for _, rq := range ph {
				o := obs[rq.ID]
				switch rq.Kind {
				case "invalid":
					fr.stats.unspecInvalidKey++
				case "safe", "nokey", "skipped":
					fr.stats.judged++
					if o.Ran != 1 || o.Completed != 1 {
						viol("bystander-affected kind="+rq.Kind+" field=executions", "a request without key / with a safe method must run its handler exactly once", o.digest(), "ran=1")
					} else if o.Status != famShapeStatus[shape] {
						viol("bystander-affected kind="+rq.Kind+" field=status", "a request without key / with a safe method must get its own answer", o.digest(), famShapeStatus[shape])
					} else if o.Body != produced[rq.ID] {
						viol("bystander-affected kind="+rq.Kind+" field=body", "a request without key / with a safe method must get its own answer", o.digest(), nil)
					}
				default:
					keyed = append(keyed, rq)
				}
			}
			if len(keyed) == 0 {
				continue
			}
			key, at := keyed[0].Key, phaseTime[keyed[0].ID]
			ref := recorded[key]
			if ref != nil && at-ref.at >= int64(life/time.Second) {
				// the lifetime is over, or its last, incomplete second has begun (fiber's storages keep whole seconds
				// and nothing specifies their resolution): replaying and executing afresh are both fine
				if (at-ref.at)*int64(time.Second) >= int64(life) {
					fr.stats.unspecAfterLifetime++
				} else {
					fr.stats.unspecBelowResolution++
				}
				stale := true
				for _, rq := range keyed {
					if obs[rq.ID].Ran != 0 {
						stale = false
					}
				}
				if !stale {
					ref = nil
					delete(recorded, key)
				}
			}
			if ref != nil {
				for _, rq := range keyed {
					o := obs[rq.ID]
					fr.stats.judged++
					faulted := rq.Arm != "" && len(fired) > 0
					switch {
					case faulted && o.Ran != 0:
						viol("faulted-lookup-ran-handler fault="+rq.Arm, "a request whose lookup failed (error or undecodable record) must not run the handler", o.digest(), nil)
					case faulted && o.Status < 400:
						viol("faulted-lookup-not-error fault="+rq.Arm, "a request whose lookup failed (error or undecodable record) must get an error", o.digest(), nil)
					case faulted:
					case o.Ran != 0:
						viol("duplicate-reexecuted-within-lifetime", "a request with a recorded key ran the handler again inside the key's lifetime", o.digest(), ref.o.digest())
						if o.Completed > 0 {
							ref.alts = append(ref.alts, o) // either answer is accepted from now on: one defect, one report
						}
					default:
						fr.stats.replays++
						d := differs(o, ref.o)
						for _, alt := range ref.alts {
							if d != "" && differs(o, alt) == "" {
								d = ""
							}
						}
						if d != "" {
							viol("replay-answer-differs field="+d, "a request with a recorded key was answered differently from the recorded execution", o.digest(), ref.o.digest())
						}
					}
				}
				continue
			}
			// no live record: at most one successful execution among these requests; it becomes the recorded answer
			var succ []famObs
			for _, rq := range keyed {
				o := obs[rq.ID]
				fr.stats.judged++
				if o.Ran > 1 {
					viol("handler-ran-twice-for-one-request", "one request ran the handler more than once", o.digest(), nil)
				}
				if o.Completed > 0 {
					succ = append(succ, o)
				}
			}
			if len(succ) > 1 && life < time.Second {
				// a lifetime below the storages' one-second resolution: the record may be gone at once (see above)
				fr.stats.unspecBelowResolution++
				recorded[key] = &rec{o: succ[len(succ)-1], at: at}
				continue
			}
			if len(succ) > 1 {
				viol(fmt.Sprintf("handler-completed-%d-times", len(succ)), "the protected handler completed successfully more than once for one idempotency key", []any{succ[0].digest(), succ[1].digest()}, "<=1")
				continue
			}
			for _, rq := range keyed {
				o := obs[rq.ID]
				switch {
				case o.Ran == 0 && len(succ) == 0:
					viol("answered-without-execution", "a request with an unrecorded key was answered although no execution succeeded", o.digest(), nil)
				case o.Ran == 0:
					fr.stats.replays++
					if d := differs(o, succ[0]); d != "" {
						viol("duplicate-answer-differs field="+d, "a concurrent duplicate was answered differently from the execution", o.digest(), succ[0].digest())
					}
				case o.Completed > 0:
					fr.stats.executions++
					if o.Status != famShapeStatus[shape] || o.Body != produced[rq.ID] {
						viol("execution-answer-altered", "the request that executed the handler did not receive the handler's answer", o.digest(), famShapeStatus[shape])
					}
				}
			}
			if len(succ) == 1 {
				recorded[key] = &rec{o: succ[0], at: at}
			}
		}
		if lockedAtEnd > 0 {
			viol("memorylock-keys-leaked", "MemoryLock still tracks keys at quiescence", lockedAtEnd, 0)
		}
	}
	var st []string
	for _, id := range []string{"first", "dupv", "late", "late2"} {
		st = append(st, fmt.Sprintf("%d", obs[id].Ran))
	}
	fr.out.Class = fmt.Sprintf("ran(first,dupv,late,late2)=%s late-status-class=%dxx unspec-lifetime=%v violated=%v", strings.Join(st, ","), obs["late"].Status/100, fr.stats.unspecAfterLifetime+fr.stats.unspecBelowResolution > 0, len(fr.stems) > 0)
	fr.out.Interesting = obs["first"].Ran+obs["dupv"].Ran >= 1
	return fr
}

// ---- scenarios ----------------------------------------------------------------------------------------------------

type famFamily struct {
	name    string
	members []famPV
	conc    bool
	cache   map[string]bool // minimisation: "stem|member" -> violated
	bounds  xplore.Bounds
}

func (f *famFamily) violates(p famPV, stem string) bool {
	k := stem + "|" + p.String()
	if v, ok := f.cache[k]; ok {
		return v
	}
	v := false
	has := func(fr famResult) bool {
		for _, s := range fr.stems {
			if s == stem {
				return true
			}
		}
		return false
	}
	if !f.conc {
		xplore.Replay(func(x *xplore.X) { v = has(runFam(p, false, &schedx.Exec{X: x})) }, nil)
	} else {
		// all schedules of the smaller member within the same bounds, stopped at the first execution with that stem
		var fr famResult
		ex := &xplore.Explorer{Bounds: f.bounds}
		ex.Run = func(x *xplore.X) { fr = runFam(p, true, &schedx.Exec{X: x}) }
		ex.Visit = func(*xplore.X) bool { v = v || has(fr); return !v }
		ex.Explore()
	}
	f.cache[k] = v
	return v
}

func (f *famFamily) run(r *core.Run) func(e *schedx.Exec) *schedx.Outcome {
	return func(e *schedx.Exec) *schedx.Outcome {
		idx := e.Choose(xplore.Input, len(f.members), false, "member")
		p := f.members[idx]
		fr := runFam(p, f.conc, e)
		r.Add("fam_judged_requests", fr.stats.judged)
		r.Add("fam_replays_compared", fr.stats.replays)
		r.Add("fam_executions_compared", fr.stats.executions)
		r.Add("unspecified_after_lifetime", fr.stats.unspecAfterLifetime)
		r.Add("unspecified_lifetime_below_clock_resolution", fr.stats.unspecBelowResolution)
		r.Add("unspecified_invalid_key_request", fr.stats.unspecInvalidKey)
		r.Add("unspecified_upstream_header_next_to_recorded", fr.stats.unspecUpstream)
		if fr.out.Class == "not-applicable" {
			r.Add("fam_members_not_applicable", 1)
		}
		for i := range fr.out.Violations {
			v := &fr.out.Violations[i]
			// minimise: reset one dimension after the other to its base value while the same stem stays
			q := p
			for d := 0; d < nFamDims; d++ {
				if q[d] == 0 {
					continue
				}
				t := q
				t[d] = 0
				if t.applicable() && f.violates(t, v.Sig) {
					q = t
				}
			}
			v.Sig = v.Sig + " [" + q.String() + "]"
		}
		return fr.out
	}
}

func famScenarios(r *core.Run) []schedx.Scenario {
	radius, cradius := 3, 2
	if !r.Quick() {
		radius, cradius = 4, 2
	}
	var app []famPV
	for _, p := range famBall(radius) {
		app = append(app, p)
	}
	seq := &famFamily{name: "fam-seq", members: app, cache: map[string]bool{}}
	// concurrent projection: the dimensions that change what the two requests in flight do
	var cm []famPV
	for _, p := range famBall(cradius) {
		if !p.applicable() || p[dCtx] != 0 || p[dAdv] != 0 || p.val(dStore) == "ttl-corrupt" || p.val(dStore) == "ttl-geterr" {
			continue
		}
		cm = append(cm, p)
	}
	con := &famFamily{name: "fam-conc", members: cm, conc: true, cache: map[string]bool{}, bounds: xplore.Bounds{0, 2, 0, 0}}
	if !r.Quick() {
		con.bounds = xplore.Bounds{0, 3, 0, 0}
	}
	return []schedx.Scenario{
		{Name: "fam-seq", Params: map[string]any{"radius": radius, "members": len(seq.members), "dimensions": famDims}, Bounds: xplore.Bounds{0, 0, 0, 0}, Deep: xplore.Bounds{0, 0, 0, 0}, Run: seq.run(r)},
		{Name: "fam-conc", Params: map[string]any{"radius": cradius, "members": len(con.members), "dimensions": famDims}, Bounds: xplore.Bounds{0, 2, 0, 0}, Deep: xplore.Bounds{0, 3, 0, 0}, Run: con.run(r)},
	}
}
