// C17 — idempotency keys: the handler runs at most once, everyone gets the same answer.
// All interleavings (preemption-bounded / unbounded with happens-before pruning) of 2–3
// concurrent duplicate requests plus bystanders at the lock / storage / handler boundaries,
// with injected storage and lock faults.  family.go adds the request / handler / configuration family (methods,
// response shapes, handler failures incl. panic, Config fields, lifetime x clock, corrupted records, reused ctx).
// replay-perkey-* scenarios: answers differ by key in which headers they carry (x KeepResponseHeaders filter): nothing of one
// key's record may show in another key's replay.
// keepalive-* scenarios: connections = threads owning one RequestCtx each and serving several requests on it.
package main

import (
	"errors"
	"fmt"
	"sort"
	"strings"
	"time"

	"github.com/gofiber/fiber/v3"
	"github.com/gofiber/fiber/v3/middleware/idempotency"
	"github.com/gofiber/fiber/v3/verifrt"
	"github.com/gofiber/utils/v2"
	"github.com/valyala/fasthttp"

	"verifmc/core"
	"verifmc/fx"
	"verifmc/schedx"
	"verifmc/xplore"
)

const keyA = "aaaaaaaa-aaaa-aaaa-aaaa-aaaaaaaaaaaa"
const keyB = "bbbbbbbb-bbbb-bbbb-bbbb-bbbbbbbbbbbb"
const keyZ = "zzzzzzzz-zzzz-zzzz-zzzz-zzzzzzzzzzzz" // carried by the foreign request a recycled RequestCtx receives

type reqSpec struct {
	ID     string
	Method string
	Key    string // "" = no key
}

type params struct {
	Reqs        []reqSpec
	Storage     string // "injected" | "memory"
	Locker      string // "default" | "failing"
	Faults      bool   // fault choice points at Lock/Get/Set
	FailFirst   bool   // first execution of keyA returns an error
	EmptyBody   bool
	Keep        []string
	Sequential2 bool // a further duplicate issued after all concurrent ones returned
	// Warm: requests served one after the other BEFORE the concurrent phase (their keys are then recorded); the
	// concurrent requests carrying one of these keys are replays and must get the recorded answer without running
	// the handler. Outer: a middleware in front of idempotency that yields after c.Next() (work done while the
	// replayed response is not yet written out).
	Warm  []reqSpec
	Outer bool
	// SharedCtx: the warm requests and the first concurrent request are served by ONE fasthttp.RequestCtx, reset
	// between requests as fasthttp does (anything the middleware keeps that aliases request buffers is overwritten)
	SharedCtx bool
	// ExpireWarm: after the warm phase the clock moves past the record's lifetime AND past the storage's janitor
	// interval: the recorded keys are expired (a request carrying one legitimately runs the handler again) and the
	// built-in storage's janitor thread (a daemon thread of the execution) is due: it sweeps WHILE the concurrent
	// requests look up, lock and store. The concurrent phase is then judged like a phase without warm-up.
	ExpireWarm bool
	// Conns: keep-alive connections during the concurrent phase. Every connection is one thread that owns ONE
	// fasthttp.RequestCtx and serves its requests one after the other on it (reset between requests as fasthttp does on
	// a keep-alive connection), concurrently with the other connections. nil = every request of Reqs on a connection
	// of its own. When set, Reqs is the concatenation of the connections' requests (see withConns).
	// In every scenario a connection's RequestCtx is recycled after its last request (it goes back to fasthttp's pool
	// and a foreign connection's request is parsed into it): whatever the middleware or its lock still keeps for the
	// requests that are in flight must not alias the buffers of a request that has been answered.
	Conns [][]reqSpec
	// PerKey: the handler's answer depends on the idempotency key of the request: WHICH headers it carries (a header
	// only key A's answer has, another only key B's answer has), the values of a header both carry, status, cookie
	// and content type (see shapeFor). Whatever the middleware carries over from recording one key into the record
	// of another key (a reused record, a map that is not cleared) then shows in the other key's replays.
	PerKey bool
	// Late: requests served one after the other AFTER the concurrent phase (replay scenarios): duplicates of keys
	// recorded in the warm phase or first executed during the concurrent phase; judged like the concurrent replays.
	Late []reqSpec
}

// keyShape: what the handler answers for a key
type keyShape struct {
	Status int
	XA     []string
	Only   [2]string // a header no other key's answer carries ("" = none)
	Cookie bool
	CT     string // "" = fiber's default
}

func shapeFor(p params, key string) keyShape {
	sh := keyShape{Status: 201, XA: []string{"one", "two"}, Cookie: true}
	if !p.PerKey {
		return sh
	}
	switch key {
	case keyA:
		sh.Only = [2]string{"X-Only-A", "from-a"}
	case keyB:
		sh = keyShape{Status: 202, XA: []string{"bee"}, Only: [2]string{"X-Only-B", "from-b"}, CT: "application/json"}
	}
	return sh
}

// framing header lines are not part of the answer
func framing(name string) bool {
	return name == "Transfer-Encoding" || name == "Content-Length" || name == "Connection"
}

// withConns sets the connections of a scenario (and Reqs, their concatenation, which the oracle walks).
func withConns(p params, conns ...[]reqSpec) params {
	p.Conns, p.Reqs = conns, nil
	for _, c := range conns {
		p.Reqs = append(p.Reqs, c...)
	}
	return p
}

// injected storage: yields at every call, may fail
type injStorage struct {
	e      *schedx.Exec
	faults bool
	data   map[string][]byte
	log    *[]string
}

func (s *injStorage) fault(op string) bool {
	if !s.faults {
		return false
	}
	if s.e.Choose(xplore.Fault, 2, true, op) == 1 {
		*s.log = append(*s.log, op+"@"+verifrt.CurrentName())
		return true
	}
	return false
}

func (s *injStorage) Get(key string) ([]byte, error) {
	verifrt.YieldOn("storage.get", s)
	if s.fault("storage.get") {
		return nil, errors.New("injected get failure")
	}
	v, ok := s.data[key]
	if !ok {
		return nil, nil
	}
	return append([]byte(nil), v...), nil
}

func (s *injStorage) Set(key string, val []byte, _ time.Duration) error {
	verifrt.YieldOn("storage.set", s)
	if s.fault("storage.set") {
		return errors.New("injected set failure")
	}
	s.data[key] = append([]byte(nil), val...)
	return nil
}
func (s *injStorage) Delete(key string) error {
	verifrt.YieldOn("storage.del", s)
	delete(s.data, key)
	return nil
}
func (s *injStorage) Reset() error { s.data = map[string][]byte{}; return nil }
func (s *injStorage) Close() error { return nil }

type failingLocker struct {
	inner idempotency.Locker
	e     *schedx.Exec
	log   *[]string
}

func (l *failingLocker) Lock(key string) error {
	if l.e.Choose(xplore.Fault, 2, true, "lock") == 1 {
		*l.log = append(*l.log, "lock@"+verifrt.CurrentName())
		return errors.New("injected lock failure")
	}
	return l.inner.Lock(key)
}
func (l *failingLocker) Unlock(key string) error { return l.inner.Unlock(key) }

type respObs struct {
	ID      string
	Status  int
	Body    string
	XA      []string
	Cookie  []string
	CT      string
	Hdr     []string // every header line "Name: value" except message framing, sorted
	Ran     int
	Panic   string
	Faulted []string
}

type hstate struct {
	started   map[string]int
	completed map[string]int
	ranFor    map[string]int
}

// clock0: the coarse clock (utils.Timestamp, read by the built-in storage) at the start of every execution
const clock0 = 1_900_000_000

func runScenario(p params) func(e *schedx.Exec) *schedx.Outcome {
	return func(e *schedx.Exec) *schedx.Outcome {
		var faultLog []string
		hs := &hstate{started: map[string]int{}, completed: map[string]int{}, ranFor: map[string]int{}}
		n := len(p.Reqs)
		if p.Sequential2 {
			n++
		}
		n += len(p.Late)
		obs := make([]respObs, n)
		inflight := make([]bool, n) // request handed to the app and not yet answered
		warmObs := map[string]respObs{}
		var mlock *idempotency.MemoryLock
		lockedKeysAtEnd := -1
		res := verifrt.Run(e.Chooser(), verifrt.Options{MaxSteps: 5000, StateKey: func() string {
			return fmt.Sprint(hs.started, hs.completed, hs.ranFor, len(faultLog))
		}}, func() {
			utils.VerifSetTimestamp(clock0)
			cfg := idempotency.Config{KeepResponseHeaders: p.Keep}
			if p.Storage == "injected" {
				cfg.Storage = &injStorage{e: e, faults: p.Faults, data: map[string][]byte{}, log: &faultLog}
			}
			mlock = idempotency.NewMemoryLock()
			cfg.Lock = mlock
			if p.Locker == "failing" {
				cfg.Lock = &failingLocker{inner: mlock, e: e, log: &faultLog}
			}
			app := fiber.New()
			if p.Outer {
				app.Use(func(c fiber.Ctx) error {
					err := c.Next()
					verifrt.YieldOn("outer.after-next", hs)
					return err
				})
			}
			app.Use(idempotency.New(cfg))
			h := func(c fiber.Ctx) error {
				// copies: these strings are used as map keys beyond the request (they alias the request buffers)
				rid := strings.Clone(c.Get("X-Req"))
				key := strings.Clone(c.Get("X-Idempotency-Key"))
				ckey := key // executions are counted per key for the protected (unsafe) methods, apart for the safe ones
				if c.Method() != "POST" {
					ckey = "safe:" + key
				}
				verifrt.YieldOn("handler.enter", hs)
				hs.started[ckey]++
				hs.ranFor[rid]++
				k := hs.started[ckey]
				verifrt.YieldOn("handler.work", hs)
				sh := shapeFor(p, key)
				c.Status(sh.Status)
				for _, v := range sh.XA {
					c.Response().Header.Add("X-A", v)
				}
				if sh.Only[0] != "" {
					c.Set(sh.Only[0], sh.Only[1])
				}
				if sh.Cookie {
					c.Cookie(&fiber.Cookie{Name: "sid", Value: fmt.Sprintf("v%d", k)})
				}
				if sh.CT != "" {
					c.Set(fiber.HeaderContentType, sh.CT)
				}
				if p.FailFirst && ckey == keyA && k == 1 {
					return fiber.NewError(503, "boom")
				}
				hs.completed[ckey]++
				if p.EmptyBody {
					return nil
				}
				return c.SendString(fmt.Sprintf("exec#%d of %s", k, firstChar(key)))
			}
			app.Post("/", h)
			app.Get("/", h)
			handler := app.Handler()
			var sharedCtx fasthttp.RequestCtx
			// recycle: the RequestCtx is handed to a foreign connection; its request (served elsewhere) is parsed into it
			foreign := fx.Req("GET", "http://elsewhere.example/", "X-Req", "zzzz", "X-Idempotency-Key", keyZ)
			recycle := func(fctx *fasthttp.RequestCtx) {
				fctx.Request.Reset()
				fctx.Response.Reset()
				fctx.ResetUserValues()
				foreign.CopyTo(&fctx.Request)
			}
			do := func(i int, rs reqSpec, fctx *fasthttp.RequestCtx) {
				req := fx.Req(rs.Method, "http://example.com/", "X-Req", rs.ID)
				if rs.Key != "" {
					req.Header.Set("X-Idempotency-Key", rs.Key)
				}
				fctx.ResetUserValues() // as the server does between the requests of one connection
				mark := len(faultLog)
				inflight[i] = true
				fx.CallInto(fctx, handler, req, nil, false)
				inflight[i] = false
				o := respObs{ID: rs.ID, Status: fctx.Response.StatusCode(), Body: string(fctx.Response.Body()), CT: string(fctx.Response.Header.ContentType())}
				for _, v := range fctx.Response.Header.PeekAll("X-A") {
					o.XA = append(o.XA, string(v))
				}
				for _, v := range fctx.Response.Header.PeekAll("Set-Cookie") {
					o.Cookie = append(o.Cookie, string(v))
				}
				fctx.Response.Header.VisitAll(func(k, v []byte) {
					if !framing(string(k)) {
						o.Hdr = append(o.Hdr, string(k)+": "+string(v))
					}
				})
				sort.Strings(o.Hdr)
				me := "@" + verifrt.CurrentName()
				for _, f := range faultLog[mark:] {
					if strings.HasSuffix(f, me) {
						o.Faulted = append(o.Faulted, strings.TrimSuffix(f, me))
					}
				}
				obs[i] = o
			}
			for _, rs := range p.Warm {
				fctx := &sharedCtx
				if !p.SharedCtx {
					fctx = &fasthttp.RequestCtx{}
				}
				do(0, rs, fctx)
				if !p.SharedCtx {
					recycle(fctx)
				}
				o := obs[0]
				o.Ran = hs.ranFor[rs.ID]
				warmObs[rs.Key] = o
				obs[0] = respObs{}
			}
			if p.ExpireWarm {
				verifrt.Advance(31 * time.Minute) // default lifetime 30 min, janitor interval 10 s
				utils.VerifSetTimestamp(clock0 + 31*60)
				hs.started, hs.completed, hs.ranFor = map[string]int{}, map[string]int{}, map[string]int{}
				warmObs = map[string]respObs{}
			}
			conns := p.Conns
			if conns == nil {
				for _, rs := range p.Reqs {
					conns = append(conns, []reqSpec{rs})
				}
			}
			next := 0
			for ci, conn := range conns {
				base, conn := next, conn
				next += len(conn)
				fctx := &fasthttp.RequestCtx{}
				if p.SharedCtx && ci == 0 {
					fctx = &sharedCtx // the connection that carried the warm requests
				}
				name := conn[0].ID
				for _, rs := range conn[1:] {
					name += "+" + rs.ID
				}
				verifrt.GoNamed(name, false, func() {
					for j, rs := range conn {
						do(base+j, rs, fctx)
					}
					recycle(fctx)
				})
			}
			verifrt.Join()
			if p.Sequential2 {
				fctx := &fasthttp.RequestCtx{}
				do(len(p.Reqs), reqSpec{ID: "late", Method: "POST", Key: keyA}, fctx)
				recycle(fctx)
			}
			for j, rs := range p.Late {
				fctx := &fasthttp.RequestCtx{}
				do(n-len(p.Late)+j, rs, fctx)
				recycle(fctx)
			}
			lockedKeysAtEnd = mlock.VerifLockedKeys()
		})
		e.Res = res
		for i := range obs {
			obs[i].Ran = hs.ranFor[obs[i].ID]
		}
		out := &schedx.Outcome{Detail: map[string]any{"responses": obs, "started": hs.started, "completed": hs.completed, "faults": faultLog,
			"deadlock": res.Deadlock, "blocked": res.Blocked, "panics": res.Panics, "locked_keys_at_end": lockedKeysAtEnd}}
		viol := func(sig, what string, o, x any) {
			out.Violations = append(out.Violations, schedx.Viol{Sig: sig, What: what, Observed: o, Expected: x})
		}
		// ---- oracle ----
		if len(res.Panics) > 0 {
			viol("panic "+firstLine(res.Panics[0]), "a request thread panicked", res.Panics, nil)
		}
		if res.Deadlock {
			viol("deadlock blocked="+strings.Join(opsOnly(res.Blocked), ","), "requests blocked forever", res.Blocked, nil)
			for i, rs := range p.Reqs {
				if inflight[i] && !(rs.Key == keyA && rs.Method == "POST") {
					viol("bystander-blocked-forever kind="+bystanderKind(rs), "a request with another key / without key / with a safe method is never answered", rs, "answered")
				}
			}
		}
		if res.Horizon {
			viol("horizon", "step horizon exceeded (livelock?)", nil, nil)
		}
		setFault := false
		for _, f := range faultLog {
			if strings.HasPrefix(f, "storage.set") {
				setFault = true
			}
		}
		warmPhase := len(p.Warm) > 0 && !p.ExpireWarm
		if warmPhase && len(res.Panics) == 0 && !res.Deadlock && !res.Horizon {
			// replay oracle: a request whose key was recorded in the warm phase gets exactly the recorded answer and
			// does not run the handler; a request with a fresh key runs it once
			for k, w := range warmObs {
				if w.Status != shapeFor(p, k).Status || w.Ran != 1 {
					viol("warm-request-not-executed", "a first request with a key did not run the handler once", w, k)
				}
			}
			keepSet := map[string]bool{}
			for _, h := range p.Keep {
				keepSet[strings.ToLower(h)] = true
			}
			// kept header lines of an answer, by header name
			kept := func(o respObs) map[string][]string {
				m := map[string][]string{}
				for _, l := range o.Hdr {
					name := l
					if i := strings.Index(l, ": "); i >= 0 {
						name = l[:i]
					}
					if p.Keep != nil && !keepSet[strings.ToLower(name)] {
						continue // not a kept header: the statement is silent
					}
					m[name] = append(m[name], l)
				}
				return m
			}
			// recorded: the execution every later request with the key must be answered like (warm phase; for the Late
			// requests also the first executions of the concurrent phase)
			recorded := map[string]respObs{}
			for k, w := range warmObs {
				recorded[k] = w
			}
			judge := func(rs reqSpec, o respObs) {
				w, isRec := recorded[rs.Key]
				if !isRec || rs.Method != "POST" || rs.Key == "" {
					if o.Ran != 1 || o.Status != shapeFor(p, rs.Key).Status || (!p.EmptyBody && o.Body != fmt.Sprintf("exec#%d of %s", hs.started[rs.Key], firstChar(rs.Key)) && o.Body != fmt.Sprintf("exec#1 of %s", firstChar(rs.Key))) {
						viol("bystander-affected kind="+bystanderKind(rs)+" phase=replay", "a request with a fresh key / without key / with a safe method must run its handler exactly once and get its own answer", o, fmt.Sprintf("ran=1 status=%d", shapeFor(p, rs.Key).Status))
					}
					return
				}
				if o.Ran != 0 {
					viol("replay-ran-handler", "a request with a recorded key ran the handler again", o, w)
				}
				diff := ""
				var excess []string // header lines of the answer that the recorded execution did not produce
				switch {
				case o.Status != w.Status:
					diff = "status"
				case o.Body != w.Body:
					diff = "body"
				case (p.Keep == nil || keepSet["x-a"]) && !sameMulti(o.XA, w.XA):
					diff = "header:X-A"
				case p.Keep == nil && !sameMulti(o.Cookie, w.Cookie):
					diff = "header:Set-Cookie"
				case p.Keep == nil && o.CT != w.CT:
					diff = "content-type"
				default:
					// every kept header (all of them when KeepResponseHeaders is unset): same names, same values
					a, b := kept(o), kept(w)
					var names []string
					for n := range a {
						names = append(names, n)
					}
					for n := range b {
						if _, dup := a[n]; !dup {
							names = append(names, n)
						}
					}
					sort.Strings(names)
					for _, n := range names {
						if !sameMulti(a[n], b[n]) {
							diff = "header:" + n
							if len(b[n]) == 0 {
								diff += " not-in-execution"
							} else if len(a[n]) == 0 {
								diff += " missing"
							}
							have := map[string]int{}
							for _, l := range b[n] {
								have[l]++
							}
							for _, l := range a[n] {
								if have[l] == 0 {
									excess = append(excess, l)
								}
								have[l]--
							}
							break
						}
					}
				}
				if diff != "" {
					other := "none"
					for k, x := range recorded {
						if k == rs.Key {
							continue
						}
						if diff == "body" && o.Body == x.Body {
							other = "another-key's-answer"
						}
						for _, l := range excess {
							for _, xl := range x.Hdr {
								if l == xl {
									other = "another-key's-header"
								}
							}
						}
					}
					viol("replay-answer-differs field="+diff+" got="+other, "a request with a recorded key was answered differently from the recorded execution", o, w)
				}
			}
			for i, rs := range p.Reqs {
				judge(rs, obs[i])
			}
			for i, rs := range p.Reqs {
				if _, isRec := recorded[rs.Key]; !isRec && rs.Method == "POST" && rs.Key != "" && obs[i].Ran == 1 && obs[i].Status == shapeFor(p, rs.Key).Status {
					recorded[rs.Key] = obs[i] // first execution during the concurrent phase
				}
			}
			for j, rs := range p.Late {
				judge(rs, obs[n-len(p.Late)+j])
			}
		}
		if !warmPhase && len(res.Panics) == 0 && !res.Deadlock && !res.Horizon {
			if !setFault {
				for k, c := range hs.completed {
					if c > 1 {
						viol(fmt.Sprintf("handler-completed-%d-times", c), "the protected handler completed successfully more than once for one idempotency key", map[string]any{"key": k, "completed": c}, "<=1")
					}
				}
			}
			// duplicates of keyA that were not faulted themselves must all carry the execution's answer
			var ref *respObs
			for i := range obs {
				o := &obs[i]
				isDupA := false
				for _, rs := range append(append([]reqSpec{}, p.Reqs...), reqSpec{ID: "late", Method: "POST", Key: keyA}) {
					if rs.ID == o.ID && rs.Key == keyA && rs.Method == "POST" {
						isDupA = true
					}
				}
				if !isDupA {
					continue
				}
				if len(o.Faulted) > 0 {
					lockOrGet := false
					for _, f := range o.Faulted {
						if f == "lock" || f == "storage.get" {
							lockOrGet = true
						}
					}
					if lockOrGet {
						if o.Ran != 0 {
							viol("faulted-request-ran-handler fault="+strings.Join(o.Faulted, "+"), "a request whose lock/lookup failed must not run the handler", o, nil)
						}
						if o.Status < 400 {
							viol("faulted-request-not-error fault="+strings.Join(o.Faulted, "+"), "a request whose lock/lookup failed must get an error", o, nil)
						}
					} else if o.Status < 400 {
						viol("set-fault-not-error", "a request whose store write failed must get an error", o, nil)
					}
					continue
				}
				if p.FailFirst && o.Status == 503 {
					continue // this one was the failing first execution
				}
				if setFault {
					continue // nothing could be recorded: not judged
				}
				if o.Status != 201 {
					viol(fmt.Sprintf("duplicate-status-%d", o.Status), "an unfaulted duplicate was not answered with the execution's status", o, 201)
					continue
				}
				if ref == nil {
					ref = o
					continue
				}
				if o.Body != ref.Body {
					viol("duplicate-answer-differs field=body", "duplicates received different bodies", []any{ref, o}, nil)
				}
				if !sameMulti(o.XA, ref.XA) {
					viol("duplicate-answer-differs field=header:X-A", "duplicates received different kept header values", []any{ref, o}, nil)
				}
				if p.Keep == nil {
					if !sameMulti(o.Cookie, ref.Cookie) {
						viol("duplicate-answer-differs field=header:Set-Cookie", "duplicates received different Set-Cookie values", []any{ref, o}, nil)
					}
					if o.CT != ref.CT {
						viol("duplicate-answer-differs field=content-type", "duplicates received different content types", []any{ref, o}, nil)
					}
				}
			}
			// bystanders: other key / no key / safe method run exactly once, unaffected
			for i, rs := range p.Reqs {
				if rs.Key == keyA && rs.Method == "POST" {
					continue
				}
				o := obs[i]
				if len(o.Faulted) > 0 {
					continue
				}
				if o.Ran != 1 || o.Status != shapeFor(p, rs.Key).Status {
					viol("bystander-affected kind="+bystanderKind(rs), "a request with another key / without key / with a safe method must run its handler exactly once", o, "ran=1 status=201")
				}
				want := fmt.Sprintf("exec#%d of %s", 1, firstChar(rs.Key))
				if rs.Key == keyA { // GET with keyA shares the started counter
					want = ""
				}
				if !p.EmptyBody && want != "" && o.Body != want {
					viol("bystander-body kind="+bystanderKind(rs), "bystander body differs from a run without duplicates", o, want)
				}
			}
			if lockedKeysAtEnd > 0 && p.Locker == "default" {
				viol("memorylock-keys-leaked", "MemoryLock still tracks keys at quiescence", lockedKeysAtEnd, 0)
			}
		}
		// class
		var st []string
		for _, o := range obs {
			st = append(st, fmt.Sprintf("%d/%d", o.Status, o.Ran))
		}
		out.Class = fmt.Sprintf("status/ran=%s completedA=%d faults=%d deadlock=%v panic=%v", strings.Join(st, ","), hs.completed[keyA], len(faultLog), res.Deadlock, len(res.Panics) > 0)
		out.Interesting = hs.started[keyA] >= 1 && (e.X.Spent(xplore.Sched) > 0 || len(p.Warm) > 0)
		return out
	}
}

func firstChar(s string) string {
	if s == "" {
		return ""
	}
	return s[:1]
}

func bystanderKind(rs reqSpec) string {
	switch {
	case rs.Method != "POST":
		return "safe-method"
	case rs.Key == "":
		return "no-key"
	}
	return "other-key"
}

func firstLine(s string) string {
	if i := strings.IndexByte(s, '\n'); i >= 0 {
		s = s[:i]
	}
	if len(s) > 100 {
		s = s[:100]
	}
	return s
}

func opsOnly(b []string) []string {
	out := append([]string{}, b...)
	sort.Strings(out)
	return out
}

func sameMulti(a, b []string) bool {
	if len(a) != len(b) {
		return false
	}
	x, y := append([]string{}, a...), append([]string{}, b...)
	sort.Strings(x)
	sort.Strings(y)
	for i := range x {
		if x[i] != y[i] {
			return false
		}
	}
	return true
}

func main() {
	r := core.Start("C17")
	dup := func(n int) []reqSpec {
		var out []reqSpec
		for i := 0; i < n; i++ {
			out = append(out, reqSpec{ID: fmt.Sprintf("dup%d", i+1), Method: "POST", Key: keyA})
		}
		return out
	}
	unb := xplore.Bounds{0, -1, 1, 1}
	mk := func(name string, p params, quick, deep xplore.Bounds, pruneDeep bool) schedx.Scenario {
		return schedx.Scenario{Name: name, Params: p, Bounds: quick, Deep: deep, PruneQuick: false, PruneDeep: pruneDeep, Run: runScenario(p)}
	}
	scenarios := []schedx.Scenario{
		mk("dup2-injected", params{Reqs: dup(2), Storage: "injected", Locker: "default"}, xplore.Bounds{0, 2, 0, 0}, xplore.Bounds{0, -1, 0, 0}, true),
		mk("dup2-injected-faults", params{Reqs: dup(2), Storage: "injected", Locker: "failing", Faults: true}, xplore.Bounds{0, 2, 0, 1}, xplore.Bounds{0, 3, 0, 2}, false),
		mk("dup3-injected", params{Reqs: dup(3), Storage: "injected", Locker: "default"}, xplore.Bounds{0, 2, 0, 0}, xplore.Bounds{0, 3, 0, 0}, false),
		mk("dup2-memory", params{Reqs: dup(2), Storage: "memory", Locker: "default"}, xplore.Bounds{0, 2, 0, 0}, unb, true),
		mk("dup2-keep-xa", params{Reqs: dup(2), Storage: "injected", Locker: "default", Keep: []string{"X-A"}}, xplore.Bounds{0, 2, 0, 0}, xplore.Bounds{0, 3, 0, 0}, false),
		mk("dup2-failfirst", params{Reqs: dup(2), Storage: "injected", Locker: "default", FailFirst: true}, xplore.Bounds{0, 2, 0, 0}, xplore.Bounds{0, 3, 0, 0}, false),
		mk("dup3-failfirst", params{Reqs: dup(3), Storage: "injected", Locker: "default", FailFirst: true}, xplore.Bounds{0, 2, 0, 0}, xplore.Bounds{0, 3, 0, 0}, false),
		mk("dup2-emptybody-late", params{Reqs: dup(2), Storage: "injected", Locker: "default", EmptyBody: true, Sequential2: true}, xplore.Bounds{0, 2, 0, 0}, xplore.Bounds{0, 3, 0, 0}, false),
		mk("dup2-bystanders", params{Reqs: append(dup(2), reqSpec{ID: "other", Method: "POST", Key: keyB}, reqSpec{ID: "nokey", Method: "POST"}), Storage: "injected", Locker: "default"},
			xplore.Bounds{0, 2, 0, 0}, xplore.Bounds{0, 3, 0, 0}, false),
		mk("dup2-get-bystander-late", params{Reqs: append(dup(2), reqSpec{ID: "get", Method: "GET", Key: keyB}), Storage: "memory", Locker: "default", Sequential2: true},
			xplore.Bounds{0, 2, 0, 0}, xplore.Bounds{0, 3, 0, 0}, false),
	}
	// replays of recorded keys in flight together (the answer of one must not depend on the other)
	rp := func(id, key string) reqSpec { return reqSpec{ID: id, Method: "POST", Key: key} }
	warmAB := []reqSpec{rp("warmA", keyA), rp("warmB", keyB)}
	scenarios = append(scenarios,
		mk("replay-a-b", params{Warm: warmAB, Outer: true, Reqs: []reqSpec{rp("repA", keyA), rp("repB", keyB)}, Storage: "injected", Locker: "default"},
			xplore.Bounds{0, 2, 0, 0}, xplore.Bounds{0, -1, 0, 0}, true),
		mk("replay-a-b-memory", params{Warm: warmAB, Outer: true, Reqs: []reqSpec{rp("repA", keyA), rp("repB", keyB)}, Storage: "memory", Locker: "default"},
			xplore.Bounds{0, 2, 0, 0}, xplore.Bounds{0, -1, 0, 0}, true),
		mk("replay-a-b-shared-ctx", params{Warm: warmAB, Outer: true, SharedCtx: true, Reqs: []reqSpec{rp("repA", keyA), rp("repB", keyB)}, Storage: "injected", Locker: "default"},
			xplore.Bounds{0, 2, 0, 0}, xplore.Bounds{0, -1, 0, 0}, true),
		mk("replay-a-b-shared-ctx-memory", params{Warm: warmAB, Outer: true, SharedCtx: true, Reqs: []reqSpec{rp("repA", keyA), rp("repB", keyB), rp("repA2", keyA)}, Storage: "memory", Locker: "default"},
			xplore.Bounds{0, 2, 0, 0}, xplore.Bounds{0, 3, 0, 0}, false),
		mk("replay-a-b-a-keep", params{Warm: warmAB, Outer: true, Reqs: []reqSpec{rp("repA1", keyA), rp("repB", keyB), rp("repA2", keyA)}, Storage: "injected", Locker: "default", Keep: []string{"X-A"}},
			xplore.Bounds{0, 2, 0, 0}, xplore.Bounds{0, 3, 0, 0}, false),
		mk("replay-a-first-b", params{Warm: warmAB[:1], Outer: true, Reqs: []reqSpec{rp("repA", keyA), rp("firstB", keyB), {ID: "nokey", Method: "POST"}}, Storage: "injected", Locker: "default"},
			xplore.Bounds{0, 2, 0, 0}, xplore.Bounds{0, 3, 0, 0}, false),
	)
	// answers that differ by key (PerKey: which headers, their values, status, cookie, content type) x
	// KeepResponseHeaders unset / one name / several names x order of recording x storage x fresh / shared RequestCtx:
	// every replay equals the recorded execution of ITS key (nothing of the other key's record shows up in it), for the
	// concurrent replays and for later ones (Late), also of a key first executed while replays were in flight
	warmBA := []reqSpec{warmAB[1], warmAB[0]}
	keepMany := []string{"x-a", "X-Only-A", "X-Only-B", "Content-Type", "Set-Cookie"}
	repAB := []reqSpec{rp("repA", keyA), rp("repB", keyB)}
	lateBA := []reqSpec{rp("lateB", keyB), rp("lateA", keyA)}
	scenarios = append(scenarios,
		mk("replay-perkey-a-b", params{Warm: warmAB, Outer: true, PerKey: true, Reqs: repAB, Late: lateBA, Storage: "injected", Locker: "default"},
			xplore.Bounds{0, 2, 0, 0}, xplore.Bounds{0, -1, 0, 0}, true),
		mk("replay-perkey-a-b-keep1", params{Warm: warmAB, Outer: true, PerKey: true, Reqs: repAB, Late: lateBA, Storage: "injected", Locker: "default", Keep: []string{"X-Only-A"}},
			xplore.Bounds{0, 2, 0, 0}, xplore.Bounds{0, -1, 0, 0}, true),
		mk("replay-perkey-b-a-keep1-shared-ctx", params{Warm: warmBA, Outer: true, PerKey: true, SharedCtx: true, Reqs: repAB, Late: lateBA, Storage: "injected", Locker: "default", Keep: []string{"x-only-b"}},
			xplore.Bounds{0, 2, 0, 0}, xplore.Bounds{0, -1, 0, 0}, true),
		mk("replay-perkey-a-b-keepmany", params{Warm: warmAB, Outer: true, PerKey: true, Reqs: repAB, Late: lateBA, Storage: "injected", Locker: "default", Keep: keepMany},
			xplore.Bounds{0, 2, 0, 0}, xplore.Bounds{0, -1, 0, 0}, true),
		mk("replay-perkey-b-a-keepmany-memory", params{Warm: warmBA, Outer: true, PerKey: true, Reqs: repAB, Late: lateBA, Storage: "memory", Locker: "default", Keep: keepMany},
			xplore.Bounds{0, 2, 0, 0}, xplore.Bounds{0, -1, 0, 0}, true),
		mk("replay-perkey-a-first-b-keepmany", params{Warm: warmAB[:1], Outer: true, PerKey: true, Reqs: []reqSpec{rp("repA", keyA), rp("firstB", keyB)}, Late: lateBA, Storage: "injected", Locker: "default", Keep: keepMany},
			xplore.Bounds{0, 2, 0, 0}, xplore.Bounds{0, 3, 0, 0}, false),
		mk("replay-perkey-b-first-a", params{Warm: warmBA[:1], Outer: true, PerKey: true, Reqs: []reqSpec{rp("repB", keyB), rp("firstA", keyA)}, Late: lateBA, Storage: "injected", Locker: "default"},
			xplore.Bounds{0, 2, 0, 0}, xplore.Bounds{0, 3, 0, 0}, false),
	)
	// the recorded keys have expired and the built-in storage's janitor sweeps while duplicates of one of them arrive
	scenarios = append(scenarios,
		mk("expired-janitor-dup2-memory", params{Warm: warmAB, ExpireWarm: true, Reqs: dup(2), Storage: "memory", Locker: "default"},
			xplore.Bounds{0, 2, 0, 0}, xplore.Bounds{0, 3, 0, 0}, false),
		mk("expired-janitor-dup2-late-memory", params{Warm: warmAB[:1], ExpireWarm: true, Reqs: dup(2), Storage: "memory", Locker: "default", Sequential2: true},
			xplore.Bounds{0, 2, 0, 0}, xplore.Bounds{0, 3, 0, 0}, false),
	)
	// keep-alive connections during the concurrent phase: a connection (one thread, one RequestCtx) carries a FURTHER
	// request after its duplicate of key A was answered, while the other connections' duplicates of A still wait on
	// the lock / execute. Family: follow-up request kind (safe method or POST with another key, POST without key,
	// POST / GET with the same key) x first execution fails or not x storage x 1-2 other duplicate connections x
	// one or both connections keep-alive. Judged by the oracle of the concurrent phase (at most one completion per
	// key, duplicates answered alike, bystanders run once with their own answer, nobody blocked forever, no lock
	// entry left behind).
	kaFollow := map[string]reqSpec{
		"get-b":  {ID: "getB", Method: "GET", Key: keyB},
		"post-b": {ID: "postB", Method: "POST", Key: keyB},
		"nokey":  {ID: "nokey", Method: "POST"},
		"post-a": {ID: "dupSame", Method: "POST", Key: keyA},
		"get-a":  {ID: "getA", Method: "GET", Key: keyA},
	}
	ka := func(follow string, others int, failFirst bool, storage string, secondFollow string, quick bool) {
		d := dup(1 + others)
		conns := [][]reqSpec{{d[0], kaFollow[follow]}}
		for i, o := range d[1:] {
			c := []reqSpec{o}
			if i == 0 && secondFollow != "" {
				f := kaFollow[secondFollow]
				f.ID += "2"
				c = append(c, f)
			}
			conns = append(conns, c)
		}
		name := fmt.Sprintf("keepalive-%s-dup%d-%s", follow, 1+others, storage)
		if secondFollow != "" {
			name += "-and-" + secondFollow
		}
		if failFirst {
			name += "-failfirst"
		}
		if !quick && r.Quick() {
			return
		}
		scenarios = append(scenarios, mk(name, withConns(params{Storage: storage, Locker: "default", FailFirst: failFirst}, conns...),
			xplore.Bounds{0, 2, 0, 0}, xplore.Bounds{0, 3, 0, 0}, false))
	}
	for _, follow := range []string{"get-b", "post-b", "nokey", "post-a", "get-a"} {
		for _, failFirst := range []bool{true, false} {
			for _, storage := range []string{"injected", "memory"} {
				for _, others := range []int{1, 2} {
					// quick tier: a diagonal (every follow-up kind with a failing first execution; three connections
					// for the follow-ups that replace the key header's value); the thorough tier runs the product
					quick := failFirst && storage == "injected" && ((others == 2) == (follow == "get-b" || follow == "nokey"))
					quick = quick || (!failFirst && storage == "memory" && others == 1 && follow == "post-b")
					ka(follow, others, failFirst, storage, "", quick)
				}
			}
		}
	}
	ka("get-b", 1, true, "memory", "nokey", true)
	ka("post-b", 1, false, "injected", "get-a", false)
	// request / handler / configuration family (family.go)
	scenarios = append(scenarios, famScenarios(r)...)
	schedx.RunAll(r, scenarios, 16)
	if r.IsWorker() {
		r.FinishWorker()
	}
	r.Finish(core.Evidence{
		Level:      "model_checking",
		Exhaustive: true,
		Coverage: schedx.Coverage(r, scenarios, map[string]any{
			"family_rule":     "fam-seq / fam-conc (family.go): members = ball of the stated radius around the base over the dimensions cfg x life x adv x method x shape x behave x store x variant x up x ctx (values in the scenario params); fam-seq serves nine requests one after the other (first, duplicate varying path/body/method, safe method with the key, key in the other header name, other key, invalid key, clock advance, duplicate with an optional corrupted/failing lookup, duplicate, duplicate of the other key), fam-conc serves the first two in flight together under all schedules; a sequential reference model (recorded answer per key with its time, lifetime in whole storage seconds) judges every request, three-valued where nothing is specified (counters unspecified_*); violations are minimised by resetting dimensions to base",
			"connection_rule": "keepalive-* scenarios: every connection is one thread owning one fasthttp.RequestCtx and serving its requests one after the other on it (a keep-alive connection: a duplicate of key A, then a follow-up request: safe method or POST with another key, POST without key, POST / GET with key A) concurrently with 1-2 other connections' duplicates of A, with a failing or succeeding first execution, injected or built-in storage (quick: a diagonal, thorough: the product); in EVERY scenario a connection's RequestCtx is recycled after its last request (a foreign request with another key is parsed into it), so nothing kept for the requests still in flight may alias an answered request's buffers",
			"perkey_rule":     "replay-perkey-* scenarios: the handler's answer depends on the key (a header only key A's answer carries, another only key B's, different values of a common header, status 201/202, cookie / none, default / JSON content type) x KeepResponseHeaders unset / one name / several names x recording order A,B / B,A (sequentially, or the second key first executed while a replay is in flight) x injected / built-in storage x fresh / shared RequestCtx; the replays in flight together and two later ones must each equal the recorded execution of THEIR key in status, body and every kept header name and value (all header lines except framing when the filter is unset)",
			"rule":            "every scenario is a closed driver (fresh app per execution, 2-4 request threads); ALL interleavings at the scheduling points (MemoryLock and countedLock mutex operations, storage mutex operations, injected storage Get/Set/Delete, handler entry/work seams, thread spawn/join) are enumerated depth-first by prefix replay under the stated preemption / fault bounds (-1 = unbounded with happens-before state pruning); the oracle runs on every complete execution",
		}),
		Assumptions: []string{
			"sequential consistency; scheduling only at synchronisation operations and harness seams (data-race freedom between them is assumed, see DESIGN 1.3)",
			"the built-in memory storage runs without its gc goroutine (dropgo); expiry is exercised through the harness-owned coarse clock (utilsclock) between requests only, never while requests are in flight",
			"lifetimes are honoured in whole storage seconds: a duplicate arriving in the last, incomplete second of a lifetime that is not a whole number of seconds (or at any time when the lifetime is below one second) is not judged (unspecified_lifetime_below_clock_resolution)",
			"response header lines Transfer-Encoding / Content-Length / Connection are message framing and not compared",
			"with an injected Set fault at-most-once cannot be guaranteed by any implementation and is not judged",
		},
	})
}
