package main

// MessagePack grammar product for part (b): array header forms x announced counts x element sequences.

import (
	"fmt"
	"strings"
)

type elem struct {
	Desc      string
	B         []byte
	Truncated bool // nothing may follow
	Core      bool // member of the reduced set used for pairs in the quick tier
}

type header struct {
	Desc string
	B    []byte
	N    uint64
}

func hdrFix(n int) header { return header{fmt.Sprintf("fixarray(%d)", n), []byte{0x90 | byte(n)}, uint64(n)} }
func hdr16(n int) header {
	return header{fmt.Sprintf("array16(%d)", n), []byte{0xdc, byte(n >> 8), byte(n)}, uint64(n)}
}
func hdr32(n uint64) header {
	return header{fmt.Sprintf("array32(%d)", n), []byte{0xdd, byte(n >> 24), byte(n >> 16), byte(n >> 8), byte(n)}, n}
}

func headersB() []header {
	var hs []header
	for _, n := range []int{0, 1, 2, 3, 15} {
		hs = append(hs, hdrFix(n))
	}
	for _, n := range []int{0, 1, 2, 3, 16, 255, 65535} {
		hs = append(hs, hdr16(n))
	}
	for _, n := range []uint64{0, 1, 2, 3, 65535, 65536} {
		hs = append(hs, hdr32(n))
	}
	return hs
}

var fieldNames = []string{"key", "value", "level", "isOldInput"}

// fieldBytes is the canonical encoding of field f for the element number e.
func fieldBytes(f string, e int) []byte {
	b := encStr(nil, f)
	switch f {
	case "key":
		return encStr(b, fmt.Sprintf("K%d", e))
	case "value":
		return encStr(b, fmt.Sprintf("V%d", e))
	case "level":
		return encUint8(b, uint8(0x41+e))
	default:
		return encBool(b, e%2 == 0)
	}
}

func permutations(items []string) [][]string {
	var out [][]string
	var rec func(cur []string, used int)
	rec = func(cur []string, used int) {
		out = append(out, append([]string(nil), cur...))
		for i, it := range items {
			if used&(1<<i) == 0 {
				rec(append(cur, it), used|1<<i)
			}
		}
	}
	rec(nil, 0)
	return out
}

// elemsB builds the element forms for the element position e (0 or 1) so that two elements of a
// sequence carry different strings.
func elemsB(e int) []elem {
	var es []elem
	add := func(core bool, desc string, b []byte) { es = append(es, elem{Desc: desc, B: b, Core: core}) }
	// 1. fixmap 0..4 with every key subset and order
	for _, p := range permutations(fieldNames) {
		b := []byte{0x80 | byte(len(p))}
		for _, f := range p {
			b = append(b, fieldBytes(f, e)...)
		}
		desc := "fixmap{" + strings.Join(p, ",") + "}"
		core := len(p) == 0 || len(p) == 4 && p[0] == "key" && p[1] == "value" && p[2] == "level" ||
			len(p) == 1 || len(p) == 2 && p[0] == "level" && p[1] == "key"
		add(core, desc, b)
	}
	// 2. wrong value types: alone, and inside a full map after valid fields
	wrong := map[string][][2]string{
		"key":        {{"nil", "\xc0"}, {"int", "\x05"}, {"bool", "\xc3"}, {"array", "\x90"}, {"map", "\x80"}, {"float32", "\xca\x00\x00\x00\x00"}},
		"value":      {{"nil", "\xc0"}, {"int", "\x05"}, {"bool", "\xc2"}, {"array", "\x91\x01"}, {"float64", "\xcb\x00\x00\x00\x00\x00\x00\x00\x00"}},
		"level":      {{"nil", "\xc0"}, {"str", "\xa1x"}, {"bool", "\xc3"}, {"negfixint", "\xff"}, {"uint16=256", "\xcd\x01\x00"}, {"int8=-128", "\xd0\x80"}, {"uint64=max", "\xcf\xff\xff\xff\xff\xff\xff\xff\xff"}, {"float32", "\xca\x3f\x80\x00\x00"}},
		"isOldInput": {{"nil", "\xc0"}, {"int0", "\x00"}, {"int1", "\x01"}, {"str", "\xa4true"}},
	}
	for _, f := range fieldNames {
		for wi, w := range wrong[f] {
			b := append([]byte{0x81}, encStr(nil, f)...)
			b = append(b, w[1]...)
			add(wi == 0, fmt.Sprintf("fixmap{%s:<%s>}", f, w[0]), b)
			full := []byte{0x84}
			for _, g := range fieldNames {
				if g == f {
					full = append(full, encStr(nil, g)...)
					full = append(full, w[1]...)
				} else {
					full = append(full, fieldBytes(g, e)...)
				}
			}
			add(wi == 0 && f == "level", fmt.Sprintf("fixmap{all, %s:<%s>}", f, w[0]), full)
		}
	}
	// 3. map16 / map32
	fullFields := func() []byte {
		var b []byte
		for _, g := range fieldNames {
			b = append(b, fieldBytes(g, e)...)
		}
		return b
	}
	add(true, "map16(0)", []byte{0xde, 0, 0})
	add(false, "map16{key}", append([]byte{0xde, 0, 1}, fieldBytes("key", e)...))
	add(true, "map16{all}", append([]byte{0xde, 0, 4}, fullFields()...))
	add(false, "map32(0)", []byte{0xdf, 0, 0, 0, 0})
	add(false, "map32{all}", append([]byte{0xdf, 0, 0, 0, 4}, fullFields()...))
	add(true, "map16(65535) nothing follows", []byte{0xde, 0xff, 0xff})
	add(false, "map32(2^32-1) nothing follows", []byte{0xdf, 0xff, 0xff, 0xff, 0xff})
	add(false, "map32(2^32-1){all}", append([]byte{0xdf, 0xff, 0xff, 0xff, 0xff}, fullFields()...))
	// 4. elements that are not maps
	for i, nm := range [][2]string{{"nil", "\xc0"}, {"int", "\x05"}, {"str", "\xa1x"}, {"array", "\x90"}, {"bool", "\xc3"}, {"0xc1", "\xc1"}} {
		add(i == 0, "non-map:"+nm[0], []byte(nm[1]))
	}
	// 5. a full canonical map cut at every offset
	full := append([]byte{0x84}, fullFields()...)
	for cut := 1; cut < len(full); cut++ {
		es = append(es, elem{Desc: fmt.Sprintf("fixmap{all} cut at byte %d of %d", cut, len(full)), B: full[:cut], Truncated: true,
			Core: cut == 1 || cut == 6 || cut == 20})
	}
	// 6. unknown / duplicate keys
	add(true, "fixmap{zzz:1}", append([]byte{0x81}, append(encStr(nil, "zzz"), 1)...))
	add(false, "fixmap{all,zzz:[1,2]}", append(append([]byte{0x85}, fullFields()...), append(encStr(nil, "zzz"), 0x92, 1, 2)...))
	es = append(es, elem{Desc: "fixmap{zzz:array32(2^32-1) nothing follows}", B: append(append([]byte{0x81}, encStr(nil, "zzz")...), 0xdd, 0xff, 0xff, 0xff, 0xff), Truncated: true})
	add(false, "fixmap{key:A,key:B}", append(append([]byte{0x82}, append(encStr(nil, "key"), encStr(nil, "A")...)...), append(encStr(nil, "key"), encStr(nil, "B")...)...))
	// 7. alternative widths / families
	add(true, "fixmap{key:str8}", append(append([]byte{0x81}, encStr(nil, "key")...), 0xd9, 2, 'K', byte('0'+e)))
	add(false, "fixmap{value:str16}", append(append([]byte{0x81}, encStr(nil, "value")...), 0xda, 0, 2, 'V', byte('0'+e)))
	add(false, "fixmap{value:str32}", append(append([]byte{0x81}, encStr(nil, "value")...), 0xdb, 0, 0, 0, 2, 'V', byte('0'+e)))
	add(false, "fixmap{level:uint8=0x41}", append(append([]byte{0x81}, encStr(nil, "level")...), 0xcc, 0x41))
	add(false, "fixmap{level:uint8=0xfe}", append(append([]byte{0x81}, encStr(nil, "level")...), 0xcc, 0xfe))
	add(false, "fixmap{level:uint16=0x41}", append(append([]byte{0x81}, encStr(nil, "level")...), 0xcd, 0, 0x41))
	add(false, "fixmap{level:int8=0x41}", append(append([]byte{0x81}, encStr(nil, "level")...), 0xd0, 0x41))
	add(false, "fixmap{value:bin8}", append(append([]byte{0x81}, encStr(nil, "value")...), 0xc4, 2, 'V', byte('0'+e)))
	add(false, "fixmap{bin8-key 'key':str}", append([]byte{0x81, 0xc4, 3, 'k', 'e', 'y'}, encStr(nil, "K")...))
	add(false, "fixmap{str8-key 'key':str}", append([]byte{0x81, 0xd9, 3, 'k', 'e', 'y'}, encStr(nil, "K")...))
	// 8. string headers announcing more than present
	es = append(es, elem{Desc: "fixmap{key:str8(255) 2 bytes follow}", B: append(append([]byte{0x81}, encStr(nil, "key")...), 0xd9, 0xff, 'a', 'b'), Truncated: true, Core: true})
	es = append(es, elem{Desc: "fixmap{value:str32(2^32-1) 2 bytes follow}", B: append(append([]byte{0x81}, encStr(nil, "value")...), 0xdb, 0xff, 0xff, 0xff, 0xff, 'a', 'b'), Truncated: true})
	add(false, "fixmap{value:str8 of 40}", append(append([]byte{0x81}, encStr(nil, "value")...), encStr(nil, strings.Repeat("v", 40))...))
	return es
}

// caseB is one hostile cookie value.
type caseB struct {
	Val  []byte // MessagePack payload (wrapped by the server's transport before injection) unless Raw
	Desc string
	Raw  bool // inject Val verbatim
}

// grammar enumerates the product lazily by index.
type grammar struct {
	hs      []header // headers announcing < 255 elements: combined with every sequence
	big     []header // headers announcing >= 255 elements (each case costs O(announced)): combined with the core sequences
	e0, e1  []elem
	seqs    [][2]int // element indexes; -1 = absent
	bigSeqs [][2]int
	extra   []caseB
}

func newGrammar(quick bool) *grammar {
	g := &grammar{e0: elemsB(0), e1: elemsB(1)}
	for _, h := range headersB() {
		if h.N >= 255 {
			g.big = append(g.big, h)
		} else {
			g.hs = append(g.hs, h)
		}
	}
	g.seqs = append(g.seqs, [2]int{-1, -1})
	g.bigSeqs = append(g.bigSeqs, [2]int{-1, -1})
	for i, a := range g.e0 {
		g.seqs = append(g.seqs, [2]int{i, -1})
		if a.Core || !quick {
			g.bigSeqs = append(g.bigSeqs, [2]int{i, -1})
		}
	}
	for i, a := range g.e0 {
		if a.Truncated {
			continue
		}
		for j, b := range g.e1 {
			if a.Core && b.Core {
				g.bigSeqs = append(g.bigSeqs, [2]int{i, j})
			} else if quick {
				continue
			}
			g.seqs = append(g.seqs, [2]int{i, j})
		}
	}
	for _, b := range []string{"\xdc", "\xdc\x00", "\xdd", "\xdd\x00", "\xdd\x00\x00", "\xdd\x00\x00\x00", "\xdd\xff\xff\xff"} {
		g.extra = append(g.extra, caseB{Val: []byte(b), Desc: "truncated array header"})
	}
	// a long well-formed list: 300 canonical messages (array16), also cut in the middle and with one trailing byte
	var many []msg
	for i := 0; i < 300; i++ {
		many = append(many, msg{Key: fmt.Sprintf("k%03d", i), Value: strings.Repeat("v", i%40), Level: uint8(0x30 + i%64), Old: i%3 == 0})
	}
	enc := encMsgs(many)
	g.extra = append(g.extra, caseB{Val: enc, Desc: "300 canonical messages"}, caseB{Val: enc[:len(enc)/2], Desc: "300 canonical messages cut in half"},
		caseB{Val: append(append([]byte{}, enc...), 0x21), Desc: "300 canonical messages + 1 trailing byte"})
	// long cookies whose header announces far more than present (a bound that is merely super-linear in the length lets these through)
	filler := []byte(strings.Repeat("\x80", 1500))
	g.extra = append(g.extra, caseB{Val: append([]byte{0xdc, 0xff, 0xff}, filler...), Desc: "array16(65535) + 1500 x fixmap(0)"},
		caseB{Val: append([]byte{0xdd, 0x00, 0x0f, 0x42, 0x40}, filler...), Desc: "array32(1000000) + 1500 x fixmap(0)"})
	// the same key used by flash messages and old input, in both orders
	same := []msg{{Key: "A", Value: "flash-1", Level: 0x41}, {Key: "A", Value: "old-1", Level: 0x42, Old: true}, {Key: "A", Value: "flash-2", Level: 0x43}, {Key: "B", Value: "old-2", Old: true, Level: 0x44}, {Key: "B", Value: "flash-3", Level: 0x45}}
	g.extra = append(g.extra, caseB{Val: encMsgs(same), Desc: "5 canonical messages sharing keys across kinds"})
	// 2000 empty maps: the densest legal announcement (1 byte per message)
	dense := append([]byte{0xdc, 0x07, 0xd0}, []byte(strings.Repeat("\x80", 2000))...)
	g.extra = append(g.extra, caseB{Val: dense, Desc: "array16(2000) of fixmap(0)"})
	return g
}

func (g *grammar) size() int { return len(g.hs)*len(g.seqs) + len(g.big)*len(g.bigSeqs) + len(g.extra) }

func (g *grammar) at(i int) caseB {
	var h header
	var s [2]int
	switch n1, n2 := len(g.hs)*len(g.seqs), len(g.big)*len(g.bigSeqs); {
	case i < n1:
		h, s = g.hs[i%len(g.hs)], g.seqs[i/len(g.hs)]
	case i < n1+n2:
		i -= n1
		h, s = g.big[i%len(g.big)], g.bigSeqs[i/len(g.big)]
	default:
		return g.extra[i-n1-n2]
	}
	b := append([]byte{}, h.B...)
	desc := h.Desc
	if s[0] >= 0 {
		b = append(b, g.e0[s[0]].B...)
		desc += " + " + g.e0[s[0]].Desc
	}
	if s[1] >= 0 {
		b = append(b, g.e1[s[1]].B...)
		desc += " + " + g.e1[s[1]].Desc
	}
	return caseB{Val: b, Desc: desc}
}

// ---- hostile-size cases (run one per child process) ----

type sizeCase struct {
	N    uint64
	Elem string
	Seam string
}

func (s sizeCase) value() []byte {
	b := hdr32(s.N).B
	full := append([]byte{0x84}, func() []byte {
		var x []byte
		for _, g := range fieldNames {
			x = append(x, fieldBytes(g, 0)...)
		}
		return x
	}()...)
	switch s.Elem {
	case "one-valid-map":
		b = append(b, full...)
	case "nil":
		b = append(b, 0xc0)
	case "fixmap(0)":
		b = append(b, 0x80)
	case "half-a-map":
		b = append(b, full[:len(full)/2]...)
	}
	return b
}

func sizeCases(quick bool) []sizeCase {
	// 0x09090909 is the smallest array32 count whose four bytes may all travel in a Cookie header (HTAB)
	// (sizes are kept away from the children's 2 GiB address-space limit: 2^22 elements = 168 MB survive,
	// 2^26 elements = 2.7 GB cannot be allocated, so the outcome does not depend on the address-space layout)
	ns := []uint64{1 << 20, 1 << 22, 1 << 26, 0x09090909, 1 << 28, 0x21212121, 1<<31 - 1, 1 << 31, 1<<32 - 1}
	els := []string{"none", "one-valid-map", "nil", "fixmap(0)", "half-a-map"}
	if quick {
		ns = []uint64{1 << 20, 1 << 26, 0x09090909, 1<<32 - 1}
		els = []string{"none", "one-valid-map"}
	}
	var out []sizeCase
	for _, n := range ns {
		for _, e := range els {
			for _, s := range []string{"wire", "hdr"} {
				out = append(out, sizeCase{n, e, s})
			}
		}
	}
	return out
}

func sizeBucket(n uint64) string {
	switch {
	case n >= 1<<31:
		return "2^31..2^32-1"
	case n >= 1<<26:
		return "2^26..2^30"
	case n >= 1<<20:
		return "2^20..2^25"
	case n >= 1<<16:
		return "2^16..2^19"
	case n >= 256:
		return "256..65535"
	case n > 16:
		return "17..255"
	}
	return "0..16"
}
