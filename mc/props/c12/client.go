package main

// A minimal user agent: HTTP/1.1 response head parser (RFC 7230 §3) and the
// cookie algorithms of RFC 6265 §5 (Set-Cookie parsing §5.2, storage model §5.3,
// Cookie header §5.4). It works on bytes and never re-encodes a value: what the
// server's Set-Cookie line says is what comes back in Cookie.

import (
	"bytes"
	"sort"
	"strconv"
	"strings"
	"time"
)

type response struct {
	Status     int
	SetCookies [][]byte // field values of every Set-Cookie line, in order
	Location   string   // field value of the (last) Location line
	HeadLines  int
	Malformed  bool // no parsable status line
}

// parseResponse parses the head of the first response in raw.
// Lines end at LF; a preceding CR is dropped (RFC 7230 §3.5); the head ends at the first empty line.
func parseResponse(raw []byte) response {
	var rs response
	first := true
	for len(raw) > 0 {
		i := bytes.IndexByte(raw, '\n')
		var line []byte
		if i < 0 {
			line, raw = raw, nil
		} else {
			line, raw = raw[:i], raw[i+1:]
		}
		if len(line) > 0 && line[len(line)-1] == '\r' {
			line = line[:len(line)-1]
		}
		if first {
			first = false
			// HTTP/1.1 SP 3DIGIT SP reason
			f := bytes.SplitN(line, []byte(" "), 3)
			if len(f) < 2 || !bytes.HasPrefix(f[0], []byte("HTTP/")) {
				rs.Malformed = true
				return rs
			}
			st, err := strconv.Atoi(string(f[1]))
			if err != nil {
				rs.Malformed = true
				return rs
			}
			rs.Status = st
			continue
		}
		if len(line) == 0 {
			break
		}
		rs.HeadLines++
		c := bytes.IndexByte(line, ':')
		if c <= 0 {
			continue // not a header field; a client ignores it
		}
		name := line[:c]
		val := bytes.Trim(line[c+1:], " \t")
		if strings.EqualFold(string(name), "Set-Cookie") {
			rs.SetCookies = append(rs.SetCookies, append([]byte(nil), val...))
		}
		if strings.EqualFold(string(name), "Location") {
			rs.Location = string(val)
		}
	}
	return rs
}

type cookie struct {
	Name, Value []byte
	Domain      string
	HostOnly    bool
	Path        string
	Persistent  bool
	Expiry      time.Time
	Created     int
}

type jar struct {
	cookies []cookie
	seq     int
	now     func() time.Time
}

func newJar() *jar { return &jar{now: time.Now} }

func trimWSP(b []byte) []byte { return bytes.Trim(b, " \t") }

// defaultPath is RFC 6265 §5.1.4.
func defaultPath(uriPath string) string {
	if uriPath == "" || uriPath[0] != '/' {
		return "/"
	}
	i := strings.LastIndexByte(uriPath, '/')
	if i == 0 {
		return "/"
	}
	return uriPath[:i]
}

// pathMatch is RFC 6265 §5.1.4.
func pathMatch(reqPath, cookiePath string) bool {
	if reqPath == cookiePath {
		return true
	}
	if strings.HasPrefix(reqPath, cookiePath) {
		if strings.HasSuffix(cookiePath, "/") {
			return true
		}
		if len(reqPath) > len(cookiePath) && reqPath[len(cookiePath)] == '/' {
			return true
		}
	}
	return false
}

// domainMatch is RFC 6265 §5.1.3 (host names only; the harness uses no IP hosts).
func domainMatch(host, domain string) bool {
	host, domain = strings.ToLower(host), strings.ToLower(domain)
	if host == domain {
		return true
	}
	return strings.HasSuffix(host, "."+domain)
}

var cookieDateLayouts = []string{time.RFC1123, "Mon, 02-Jan-2006 15:04:05 MST", "Mon, 02 Jan 06 15:04:05 MST", time.ANSIC, time.RFC850}

// parseCookieDate accepts the date formats servers emit (RFC 6265 §5.1.1 is more liberal still;
// an unparsable date makes the attribute ignored, which is what §5.2.1 prescribes).
func parseCookieDate(s string) (time.Time, bool) {
	for _, l := range cookieDateLayouts {
		if t, err := time.Parse(l, s); err == nil {
			return t, true
		}
	}
	return time.Time{}, false
}

// setCookie is RFC 6265 §5.2 + §5.3 for one Set-Cookie field value received for host/uriPath.
// It reports what it did: "stored", "deleted", "ignored".
func (j *jar) setCookie(sc []byte, host, uriPath string) string {
	nv, attrs := sc, []byte(nil)
	if i := bytes.IndexByte(sc, ';'); i >= 0 {
		nv, attrs = sc[:i], sc[i:]
	}
	eq := bytes.IndexByte(nv, '=')
	if eq < 0 {
		return "ignored"
	}
	name, value := trimWSP(nv[:eq]), trimWSP(nv[eq+1:])
	if len(name) == 0 {
		return "ignored"
	}
	ck := cookie{Name: append([]byte(nil), name...), Value: append([]byte(nil), value...)}
	var expires, maxAge time.Time
	hasExpires, hasMaxAge := false, false
	domainAttr, pathAttr := "", ""
	for len(attrs) > 0 {
		attrs = attrs[1:] // the ";"
		av := attrs
		if i := bytes.IndexByte(attrs, ';'); i >= 0 {
			av, attrs = attrs[:i], attrs[i:]
		} else {
			attrs = nil
		}
		an, avv := av, []byte(nil)
		if i := bytes.IndexByte(av, '='); i >= 0 {
			an, avv = av[:i], av[i+1:]
		}
		an, avv = trimWSP(an), trimWSP(avv)
		switch strings.ToLower(string(an)) {
		case "expires":
			if t, ok := parseCookieDate(string(avv)); ok {
				expires, hasExpires = t, true
			}
		case "max-age":
			s := string(avv)
			if s == "" || !(s[0] == '-' || (s[0] >= '0' && s[0] <= '9')) {
				continue
			}
			digits := true
			for _, c := range s[1:] {
				digits = digits && c >= '0' && c <= '9'
			}
			if !digits {
				continue
			}
			d, err := strconv.ParseInt(s, 10, 64)
			if err != nil {
				continue
			}
			if d <= 0 {
				maxAge = time.Unix(0, 0)
			} else {
				maxAge = j.now().Add(time.Duration(d) * time.Second)
			}
			hasMaxAge = true
		case "domain":
			d := string(avv)
			if d == "" {
				continue
			}
			domainAttr = strings.ToLower(strings.TrimPrefix(d, "."))
		case "path":
			if len(avv) == 0 || avv[0] != '/' {
				pathAttr = ""
			} else {
				pathAttr = string(avv)
			}
		}
	}
	switch {
	case hasMaxAge:
		ck.Persistent, ck.Expiry = true, maxAge
	case hasExpires:
		ck.Persistent, ck.Expiry = true, expires
	}
	if domainAttr != "" {
		if !domainMatch(host, domainAttr) {
			return "ignored"
		}
		ck.Domain, ck.HostOnly = domainAttr, false
	} else {
		ck.Domain, ck.HostOnly = strings.ToLower(host), true
	}
	if pathAttr != "" {
		ck.Path = pathAttr
	} else {
		ck.Path = defaultPath(uriPath)
	}
	// replace a cookie with the same name, domain and path
	for i := range j.cookies {
		o := &j.cookies[i]
		if bytes.Equal(o.Name, ck.Name) && o.Domain == ck.Domain && o.Path == ck.Path {
			ck.Created = o.Created
			j.cookies = append(j.cookies[:i], j.cookies[i+1:]...)
			break
		}
	}
	if ck.Created == 0 {
		j.seq++
		ck.Created = j.seq
	}
	j.cookies = append(j.cookies, ck)
	if j.evict() {
		return "deleted"
	}
	return "stored"
}

// evict removes expired cookies (RFC 6265 §5.3 last paragraph); it reports whether any was removed.
func (j *jar) evict() bool {
	now := j.now()
	out := j.cookies[:0]
	removed := false
	for _, c := range j.cookies {
		if c.Persistent && c.Expiry.Before(now) {
			removed = true
			continue
		}
		out = append(out, c)
	}
	j.cookies = out
	return removed
}

// cookieHeader is RFC 6265 §5.4: the Cookie field value for a request to host/uriPath ("" = none).
func (j *jar) cookieHeader(host, uriPath string) []byte {
	var out []byte
	for i, c := range j.selected(host, uriPath) {
		if i > 0 {
			out = append(out, ';', ' ')
		}
		out = append(out, c.Name...)
		out = append(out, '=')
		out = append(out, c.Value...)
	}
	return out
}

// selected lists the cookies of §5.4 for a request to host/uriPath, in the order they are sent.
func (j *jar) selected(host, uriPath string) []cookie {
	j.evict()
	var sel []cookie
	for _, c := range j.cookies {
		if c.HostOnly {
			if strings.ToLower(host) != c.Domain {
				continue
			}
		} else if !domainMatch(host, c.Domain) {
			continue
		}
		if !pathMatch(uriPath, c.Path) {
			continue
		}
		sel = append(sel, c)
	}
	sort.SliceStable(sel, func(a, b int) bool {
		if len(sel[a].Path) != len(sel[b].Path) {
			return len(sel[a].Path) > len(sel[b].Path)
		}
		return sel[a].Created < sel[b].Created
	})
	return sel
}

func (j *jar) get(name string) ([]byte, bool) {
	j.evict()
	for _, c := range j.cookies {
		if string(c.Name) == name {
			return c.Value, true
		}
	}
	return nil, false
}

// receive feeds every Set-Cookie of a response into the jar.
func (j *jar) receive(rs response, host, uriPath string) {
	for _, sc := range rs.SetCookies {
		j.setCookie(sc, host, uriPath)
	}
}
