package main

// Part (b): hostile cookie values against the strict reference decoder.
// Runs in single-threaded worker processes (GOMAXPROCS=1): context reuse through sync.Pool is then
// deterministic and MemStats.TotalAlloc deltas are attributable to the one request in flight.

import (
	"bufio"
	"bytes"
	"encoding/json"
	"fmt"
	"strconv"
	"os"
	"os/exec"
	"path/filepath"
	"runtime"
	"strings"
	"sync"

	"github.com/gofiber/fiber/v3"
	"github.com/valyala/fasthttp"

	"verifmc/core"
	"verifmc/fx"
)

// allocation budget per request up to handler entry: A + B*len(cookie value)
const (
	budgetA = 64 << 10
	budgetB = 256
)

const nWorkersB = 16

// values up to this length must fit any server's request-header buffer (fasthttp's default is 4096 for the whole head)
const wireValueMax = 2048

func totalAlloc() uint64 {
	var m runtime.MemStats
	runtime.ReadMemStats(&m)
	return m.TotalAlloc
}

// richSet is the valid cookie every hostile value is preceded by: 15 messages with marker strings
// (15 = the largest count whose array header is a single byte >= 0x80; array16 headers carry a NUL).
func richSet() []msg {
	var ms []msg
	for i := 0; i < 15; i++ {
		ms = append(ms, msg{Key: fmt.Sprintf("STALE-KEY-%02d", i), Value: fmt.Sprintf("STALE-VALUE-%02d", i), Level: uint8(0x61 + i), Old: i%2 == 1})
	}
	return ms
}

type appB struct {
	app     *fiber.App
	srv     *fasthttp.Server
	h       fasthttp.RequestHandler
	got     seen
	measure bool
	entry   uint64 // TotalAlloc at handler entry
	before  uint64 // TotalAlloc when the request was handed to the server
	onEntry func()
	fctx    fasthttp.RequestCtx
	tmpl    fasthttp.Request
	rich    []msg
	richVal []byte
	probes  []msg
}

func newAppB() *appB {
	a := &appB{}
	a.app = fiber.New()
	a.app.Get("/t", func(c fiber.Ctx) error {
		if a.measure {
			a.entry = totalAlloc()
		}
		if a.onEntry != nil && a.measure {
			a.onEntry()
		}
		a.got = observe(c, a.probes)
		return c.SendString("ok")
	})
	a.h = a.app.Handler()
	a.srv = a.app.Server()
	a.rich = richSet()
	a.richVal = theTransport.enc(encMsgs(a.rich))
	// request-header seam: a request parsed from the wire (so RawHeaders() is populated and mentions
	// the cookie name), whose cookie is then set on the header object.
	raw := "GET /t HTTP/1.1\r\nHost: " + host + "\r\nX-Seam: " + fiber.FlashCookieName + "\r\n\r\n"
	if err := a.tmpl.Read(bufio.NewReader(strings.NewReader(raw))); err != nil {
		core.Fatal("template request: %v", err)
	}
	return a
}

func wireReqB(val []byte) []byte {
	b := []byte("GET /t HTTP/1.1\r\nHost: " + host + "\r\nCookie: " + fiber.FlashCookieName + "=")
	b = append(b, val...)
	return append(b, "\r\n\r\n"...)
}

// transparent: cookie-octet of RFC 6265 §4.1.1 or a byte >= 0x80 — bytes a Cookie header carries unchanged.
func transparent(v []byte) bool {
	for _, c := range v {
		switch {
		case c >= 0x80, c == 0x21, c >= 0x23 && c <= 0x2b, c >= 0x2d && c <= 0x3a, c >= 0x3c && c <= 0x5b, c >= 0x5d && c <= 0x7e:
		default:
			return false
		}
	}
	return true
}

type resB struct {
	status   int
	panicked any
	s        seen
	decAlloc uint64 // allocation from request start to handler entry (0 if the handler did not run)
}

// send delivers val through the seam.
func (a *appB) send(seam string, val []byte, measure bool) (r resB) {
	a.got = seen{}
	a.measure, a.entry = measure, 0
	var before uint64
	if measure {
		before = totalAlloc()
		a.before = before
	}
	func() {
		defer func() {
			if p := recover(); p != nil {
				r.panicked = p
			}
		}()
		if seam == "wire" {
			out, _ := fx.Serve(a.srv, wireReqB(val))
			r.status = parseResponse(out).Status
		} else {
			a.tmpl.Header.SetCookieBytesKV([]byte(fiber.FlashCookieName), val)
			fx.CallInto(&a.fctx, a.h, &a.tmpl, nil, false)
			r.status = a.fctx.Response.StatusCode()
		}
	}()
	a.measure = false
	r.s = a.got
	if measure && r.s.Ran && a.entry >= before {
		r.decAlloc = a.entry - before
	}
	return r
}

func hasStale(s seen) bool {
	for _, m := range append(append([]msg{}, s.Msgs...), s.Olds...) {
		if strings.Contains(m.Key, "STALE") || strings.Contains(m.Value, "STALE") {
			return true
		}
	}
	return false
}

func allZero(s seen) bool {
	for _, m := range append(append([]msg{}, s.Msgs...), s.Olds...) {
		if m.Key != "" || m.Value != "" || m.Level != 0 {
			return false
		}
	}
	return len(s.Olds) == 0
}

func hexs(b []byte) string {
	if len(b) > 96 {
		return fmt.Sprintf("%x...(%d bytes)", b[:96], len(b))
	}
	return fmt.Sprintf("%x", b)
}

func trimSeen(s seen) seen {
	cut := func(ms []msg) []msg {
		if len(ms) > 6 {
			return append(append([]msg{}, ms[:6]...), msg{Key: fmt.Sprintf("...(%d in total)", len(ms))})
		}
		return ms
	}
	s.Msgs, s.Olds = cut(s.Msgs), cut(s.Olds)
	if len(s.Cookie) > 64 {
		s.Cookie = s.Cookie[:64] + "..."
	}
	s.Cookie = fmt.Sprintf("%q", s.Cookie)
	return s
}

// judge runs one hostile value through one seam (after the rich request) and applies the oracle.
// It returns true when the app must be rebuilt (panic, or the context's slice grew).
func (a *appB) judge(cs caseB, seam string, l *core.Local, sample bool) (rebuild bool) {
	// 1. rich valid cookie on the same app, on the wire
	tr := theTransport
	rr := a.send("wire", a.richVal, false)
	if rr.panicked != nil || !rr.s.Ran || !eqMsgs(rr.s.Msgs, flashOf(a.rich)) || !eqMsgs(rr.s.Olds, oldOf(a.rich)) {
		l.Violate("b/valid-15-message-cookie-misdecoded", "a canonical 15-message cookie without control bytes is not decoded exactly",
			map[string]any{"cookie_hex": hexs(a.richVal), "transport": tr.Name}, map[string]any{"status": rr.status, "saw": trimSeen(rr.s), "panic": fmt.Sprint(rr.panicked)}, a.rich)
		return true
	}
	// 1b. the same cookie followed by a garbage byte: malformed, but with a fully decodable prefix —
	// whatever the error path leaves behind in the pooled context must not surface in step 2
	a.send("hdr", append(append([]byte{}, a.richVal...), tr.enc([]byte("x"))...), false)
	// 2. the hostile value; for a well-formed one the by-key accessors are probed too
	a.probes = nil
	sent := cs.Val
	if !cs.Raw {
		sent = tr.enc(cs.Val)
	}
	if pre := refDecodeValue(tr, sent); pre.V == vAccept && len(pre.Msgs) <= 64 {
		a.probes = firstByKey(pre.Msgs)
	}
	r := a.send(seam, sent, true)
	a.probes = nil
	l.Add("evaluations", 1)
	l.Add("b_requests_"+seam, 1)
	inVal := sent
	extraDoc := map[string]any{}
	mkCase := func() map[string]any {
		d := map[string]any{"part": "b", "seam": seam, "cookie_value_hex": hexs(sent), "cookie_len": len(sent), "form": cs.Desc, "transport": tr.Name,
			"preceded_by": "valid 15-message cookie (keys STALE-KEY-nn, values STALE-VALUE-nn, levels 0x61.., alternating old-input flag), then the same cookie + one trailing garbage byte"}
		for k, v := range extraDoc {
			d[k] = v
		}
		return d
	}
	// details are rendered only for the first case of a signature
	viol := func(sig, what string, observed func() any, expected func() any) {
		if _, dup := l.P.Violations[sig]; dup {
			l.Violate(sig, what, nil, nil, nil)
			return
		}
		l.Violate(sig, what, mkCase(), observed(), expected())
	}
	lit := func(v any) func() any { return func() any { return v } }
	if r.panicked != nil {
		ref := refDecodeValue(tr, inVal)
		l.Outcome("b seam=" + seam + " panic")
		viol(fmt.Sprintf("b/panic ref=%s:%s seam=%s", ref.V, ref.Reason, seam), "decoding the cookie panics (fasthttp does not recover handler panics: the server process dies)",
			lit(fmt.Sprint(r.panicked)), lit("no panic"))
		return true
	}
	if seam == "wire" {
		switch {
		case !r.s.Ran:
			// refused before the handler: nobody sees messages
			ref := refDecodeValue(tr, inVal)
			l.Outcome("b seam=wire status=" + strconv.Itoa(r.status) + " handler-not-run ref=" + ref.V.String())
			if transparent(inVal) && ref.V == vAccept && len(inVal) > wireValueMax {
				l.Add("unspecified_skipped", 1) // header-size limits of the server are outside the statement
			} else if transparent(inVal) && ref.V == vAccept {
				viol("b/accepted-cookie-refused-on-the-wire", "a well-formed cookie made of cookie-octets/high bytes is answered without running the handler", lit(r.status), lit(ref.Msgs))
			}
			if ref.HasHeader {
				l.Add("b_nontrivial", 1)
			}
			return false
		case !transparent(inVal) || r.s.Cookie != string(inVal):
			if transparent(inVal) {
				l.Add("b_transparent_value_altered_by_server_parser", 1)
			}
			// bytes that have a meaning in the Cookie syntax (space, quotes, ';', ...): judge what the server says it received
			l.Add("b_wire_value_reinterpreted_by_cookie_syntax", 1)
			inVal = []byte(r.s.Cookie)
			extraDoc["cookie_value_as_parsed_by_server_hex"] = hexs(inVal)
		}
	} else if r.s.Ran && r.s.Cookie != string(inVal) {
		viol("b/harness-seam-value-differs", "the request-header seam did not deliver the value (harness problem)", lit(fmt.Sprintf("%q", r.s.Cookie)), lit(nil))
		return false
	}
	ref := refDecodeValue(tr, inVal)
	if ref.HasHeader {
		l.Add("b_nontrivial", 1)
	}
	wantF, wantO := flashOf(ref.Msgs), oldOf(ref.Msgs)
	exact := r.s.NMsgs == len(wantF) && r.s.NOlds == len(wantO) && eqMsgs(r.s.Msgs, wantF) && eqMsgs(r.s.Olds, wantO)
	none := r.s.NMsgs+r.s.NOlds == 0
	gotKind := "other"
	switch {
	case none:
		gotKind = "none"
	case exact:
		gotKind = "exact"
	case hasStale(r.s):
		gotKind = "stale-strings-of-previous-request"
	case allZero(r.s):
		gotKind = "zero-valued-messages"
	case ref.V == vReject:
		gotKind = "decoded-prefix"
	}
	l.Outcome("b seam=" + seam + " status=" + strconv.Itoa(r.status) + " ref=" + ref.V.String() + " got=" + gotKind)
	mkObs := func() any {
		return map[string]any{"status": r.status, "saw": trimSeen(r.s), "messages_seen": r.s.NMsgs, "old_inputs_seen": r.s.NOlds, "alloc_before_handler": r.decAlloc, "kind": gotKind}
	}
	extraDoc["reference_verdict"] = ref.V.String() + ":" + ref.Reason
	if sample {
		l.Sample(map[string]any{"case": mkCase(), "reference": map[string]any{"verdict": ref.V.String(), "reason": ref.Reason, "decode": ref.Msgs}, "observed": mkObs()})
	}
	// ---- oracle ----
	want := func() any { return map[string]any{"messages": wantF, "old_inputs": wantO} }
	wantOrNone := func() any { return map[string]any{"messages": wantF, "old_inputs": wantO, "or": "none"} }
	switch ref.V {
	case vReject:
		if !none {
			viol("b/malformed-cookie-yields-messages class="+rejectClass(ref.Reason)+" seam="+seam,
				"a cookie value that is not a well-formed encoding yields messages (zero-valued, decoded prefix, or data of the previous request)",
				mkObs, lit("no messages (reference: "+ref.Reason+")"))
		}
	case vAccept, vLenient:
		switch {
		case exact && r.s.ProbeBad != "" && string(inVal) == string(sent):
			viol("b/message-by-key-disagrees seam="+seam, "Message(k)/OldInput(k) do not return the first message / old input of that key", lit(r.s.ProbeBad), want)
		case exact, none && ref.V == vLenient:
		case ref.Absent && !none:
			viol("b/absent-field-reads-stale-data seam="+seam,
				"an element that lacks some of the four fields shows data decoded for an earlier request (it may be refused or read with zero values)",
				mkObs, wantOrNone)
		case ref.V == vAccept:
			viol("b/well-formed-cookie-misdecoded seam="+seam, "a well-formed minimal encoding with all four fields is not decoded to exactly its content", mkObs, want)
		default:
			viol("b/non-minimal-encoding-misdecoded seam="+seam,
				"a well-formed, correctly typed, non-minimal encoding is neither refused nor decoded exactly", mkObs, wantOrNone)
		}
	default:
		l.Add("unspecified_skipped", 1)
	}
	if lim := uint64(budgetA + budgetB*len(inVal)); r.decAlloc > lim {
		form := "fixarray"
		if pl, _ := tr.dec(inVal); len(pl) > 0 && pl[0] == 0xdc {
			form = "array16"
		} else if len(pl) > 0 && pl[0] == 0xdd {
			form = "array32"
		}
		viol("b/alloc-over-budget header="+form+" seam="+seam,
			"allocation before the handler runs exceeds A + B*len(cookie) (A=64KiB, B=256 B/byte)", mkObs, lit(fmt.Sprintf("<= %d bytes", lim)))
	}
	return ref.HasHeader && ref.Announced > 15
}

// firstByKey lists, per (key, kind), the first message: what Message(k) / OldInput(k) must return.
func firstByKey(ms []msg) []msg {
	var out []msg
	for _, m := range ms {
		dup := false
		for _, o := range out {
			dup = dup || (o.Key == m.Key && o.Old == m.Old)
		}
		if !dup {
			if m.Old {
				m.Level = 0
			}
			out = append(out, m)
		}
	}
	return out
}

// rejectClass groups the reference decoder's reasons by the kind of defect.
func rejectClass(reason string) string {
	switch {
	case reason == "trailing-bytes":
		return "trailing-bytes"
	case strings.HasPrefix(reason, "array-announces-more"), strings.HasPrefix(reason, "truncated"):
		return "truncated"
	case reason == "empty-value", reason == "not-an-array":
		return "not-an-array"
	}
	return "wrong-type"
}

// ---- case space of the workers ----

func bytesCount(maxLen int) int {
	n, p := 0, 1
	for l := 0; l <= maxLen; l++ {
		n += p
		p *= 256
	}
	return n
}

func bytesAt(i int) caseB {
	l, p := 0, 1
	for i >= p {
		i -= p
		p *= 256
		l++
	}
	v := make([]byte, l)
	for k := l - 1; k >= 0; k-- {
		v[k] = byte(i)
		i >>= 8
	}
	return caseB{Val: v, Desc: "all byte strings (injected verbatim)", Raw: true}
}

func maxLenB(quick bool) int {
	if quick {
		return 2
	}
	return 3
}

func runPartBWorker(r *core.Run) {
	l := core.NewLocal()
	g := newGrammar(r.Quick())
	nb := bytesCount(maxLenB(r.Quick()))
	total := nb + g.size()
	a := newAppB()
	// warm-up so that pools and buffers exist before allocation is measured
	for i := 0; i < 8; i++ {
		a.send("wire", a.richVal, false)
		a.send("hdr", a.richVal, false)
	}
	base := a.send("wire", []byte("x"), true)
	l.Add("b_baseline_alloc_wire_max", int64(base.decAlloc))
	capped := false
	for i := 0; i < total; i++ {
		if !r.Shard(i) {
			continue
		}
		if i&0xfff == 0 && r.Expired() {
			capped = true
			break
		}
		var cs caseB
		if i < nb {
			cs = bytesAt(i)
		} else {
			cs = g.at(i - nb)
		}
		sample := i%7919 == 17 && i >= nb
		for _, seam := range []string{"wire", "hdr"} {
			if a.judge(cs, seam, l, sample) {
				a = newAppB()
			}
		}
		l.Add("b_cases", 1)
	}
	if capped {
		r.Cap("budget expired in part (b)")
	}
	r.Merge(l.P)
}

// ---- parent side ----

func runPartB(r *core.Run) map[string]any {
	g := newGrammar(r.Quick())
	nb := bytesCount(maxLenB(r.Quick()))
	crashed := r.SpawnWorkers(nWorkersB, []string{"GOMAXPROCS=1"})
	for _, c := range crashed {
		r.Violate("b/worker-process-died", "a part (b) worker process died outside a recoverable panic (fatal runtime error?)", c, c, "workers exit 0")
	}
	r.P.Counters["b_maxlen"] = int64(maxLenB(r.Quick()))
	// baseline is a max, not a sum
	r.P.Counters["b_baseline_alloc_wire_max"] /= nWorkersB
	scs := sizeCases(r.Quick())
	runSizeCases(r, scs)
	return map[string]any{
		"byte_strings_max_len": maxLenB(r.Quick()), "byte_strings": nb,
		"grammar_headers_small": len(g.hs), "grammar_headers_announcing_255_or_more": len(g.big), "grammar_element_forms": len(g.e0),
		"grammar_element_sequences": len(g.seqs), "grammar_element_sequences_for_big_headers": len(g.bigSeqs), "grammar_cases": g.size(),
		"seams":                 []string{"wire", "hdr"},
		"cookie_transport":      theTransport.Name,
		"hostile_size_cases":    len(scs),
		"alloc_budget":          "64KiB + 256*len(value), measured from request start to handler entry",
		"size_child_vmem_limit": fmt.Sprintf("%d KiB (ulimit -v)", childVMemKiB),
	}
}

const childVMemKiB = 2 << 20 // 2 GiB of address space per size child

// runSizeCases runs each hostile-size case in its own child process under an address-space limit,
// so that a runtime "out of memory" death is observed as a violation of the case.
func runSizeCases(r *core.Run, scs []sizeCase) {
	_ = os.MkdirAll(filepath.Join(core.VerifDir, ".build", "parts"), 0o755)
	dir, derr := os.MkdirTemp(filepath.Join(core.VerifDir, ".build", "parts"), r.Prop+"-size-")
	if derr != nil {
		core.Fatal("temp dir for size children: %v", derr)
	}
	defer os.RemoveAll(dir)
	sem := make(chan struct{}, 4)
	var wg sync.WaitGroup
	type result struct {
		part   *core.Partial
		died   bool
		stage  string
		stderr string
		err    string
		alloc  string
	}
	results := make([]result, len(scs))
	for i := range scs {
		wg.Add(1)
		go func(i int) {
			defer wg.Done()
			sem <- struct{}{}
			defer func() { <-sem }()
			out := filepath.Join(dir, fmt.Sprintf("size%d.json", i))
			_ = os.Remove(out)
			script := fmt.Sprintf("ulimit -v %d; exec \"$0\" \"$@\"", childVMemKiB)
			cmd := exec.Command("bash", "-c", script, os.Args[0], "-tier", r.Tier, "-worker", "0", "-nworkers", "1", "-out", out, "-sizecase", fmt.Sprint(i))
			cmd.Env = append(os.Environ(), "GOMAXPROCS=1")
			var so, se bytes.Buffer
			cmd.Stdout, cmd.Stderr = &so, &se
			err := cmd.Run()
			res := result{stage: "before-request"}
			for _, ln := range strings.Split(so.String(), "\n") {
				if strings.HasPrefix(ln, "STAGE ") {
					res.stage = strings.TrimPrefix(ln, "STAGE ")
				}
				if strings.HasPrefix(ln, "ALLOC ") {
					res.alloc = strings.TrimPrefix(ln, "ALLOC ")
				}
			}
			b, rerr := os.ReadFile(out)
			if err != nil || rerr != nil {
				res.died = true
				res.err = fmt.Sprint(err)
				lines := strings.Split(se.String(), "\n")
				if len(lines) > 4 {
					lines = lines[:4]
				}
				res.stderr = strings.Join(lines, " | ")
			} else {
				var p core.Partial
				if jerr := json.Unmarshal(b, &p); jerr == nil {
					res.part = &p
				} else {
					res.died, res.err = true, "unreadable partial: "+jerr.Error()
				}
			}
			_ = os.Remove(out)
			results[i] = res
		}(i)
	}
	wg.Wait()
	for i, res := range results {
		sc := scs[i]
		r.Add("b_size_children", 1)
		if res.part != nil {
			r.Merge(res.part)
			continue
		}
		r.Add("evaluations", 1)
		r.Add("b_nontrivial", 1)
		r.Outcome(fmt.Sprintf("b size seam=%s process-died stage=%s", sc.Seam, res.stage))
		r.Violate(fmt.Sprintf("b/process-death announced=%s seam=%s", sizeBucket(sc.N), sc.Seam),
			"a few-byte cookie kills the server process (unrecoverable runtime error while decoding / exposing the announced elements) under a 2 GiB address-space limit",
			map[string]any{"part": "b-size", "seam": sc.Seam, "cookie_value_hex": hexs(theTransport.enc(sc.value())), "cookie_len": len(theTransport.enc(sc.value())), "transport": theTransport.Name, "announced_elements": sc.N, "elements_present": sc.Elem},
			map[string]any{"exit": res.err, "stderr_head": res.stderr, "last_stage": res.stage, "allocated_before_handler": res.alloc}, "process survives; no messages; allocation <= 64KiB + 256*len")
	}
}

// runSizeChild is the body of one size child.
func runSizeChild(r *core.Run, idx int) {
	scs := sizeCases(r.Quick())
	if idx >= len(scs) {
		core.Fatal("no size case %d", idx)
	}
	sc := scs[idx]
	l := core.NewLocal()
	a := newAppB()
	for i := 0; i < 4; i++ {
		a.send("wire", a.richVal, false)
		a.send("hdr", a.richVal, false)
	}
	fmt.Println("STAGE decoding")
	a.onEntry = func() {
		fmt.Printf("ALLOC %d\nSTAGE handler-reading-messages\n", a.entry-a.before)
	}
	val := sc.value()
	cs := caseB{Val: val, Desc: fmt.Sprintf("array32(%d) + %s", sc.N, sc.Elem)}
	a.judge(cs, sc.Seam, l, false)
	fmt.Println("STAGE done")
	r.Merge(l.P)
	r.FinishWorker()
}
