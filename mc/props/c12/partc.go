package main

// Part (c): the redirect round trip under varied SCENARIOS.
//
// Part (a) drives every message set through ONE scenario: default Config, To("/x/y/t"), default status,
// With* then WithInput, a plain target handler registered directly on the app, a client holding nothing
// but the flash cookie, and the wire as only transport — where everything that carries old input or the
// default level 0 is undeliverable for a known reason (raw MessagePack in the cookie), i.e. never judged
// positively. Part (c) adds the dimensions part (a) holds constant:
//
//   seam     wire (HTTP/1.1 serialiser + parser + RFC 6265 client)  |  object (the same RFC 6265 client, but the
//            Set-Cookie / Cookie field values travel between the response/request OBJECTS: a lossless transport.
//            The statement demands delivery over a real exchange for all keys and values; delivery over a
//            lossless transport is a necessary condition of that and lets old input / level 0 / NUL be judged)
//   program  the sequence of calls on the Redirect (With, With+level, WithInput in any order, same key twice,
//            flash key == old-input key, 3..40 messages, override of the k-th) x where the input comes from
//            (query, urlencoded body with 3 Content-Type spellings, multipart body)
//   cfg      default | Immutable | custom ctx (NewCtxFunc: the other request handler) | both
//   shape    target registered on the app | behind a middleware that reads the messages too | in a group | in a mounted sub-app
//   issue    To | Route(params) | Route(params+2 queries) | Back(Referer) | Back(fallback) | Route(unknown name: 3xx with an empty
//            Location, the client goes to the target on its own) | Back without Referer/fallback (fails: nobody may see anything)   x   Status unset/301/303/307/308
//            (the client follows the Location it is given; after 307/308 it repeats method and entity)
//   h2       what the consuming handler does: plain | reads twice | sets a cookie of its own | returns an error |
//            redirects on WITH a new message set (chain) | redirects on without messages
//   layout   other cookies the client holds next to the flash cookie (before / after / before through a longer
//            Path; names sid, xfiber_flash, fiber_flashx; values 1, fiber_flash=zz) and the spelling of the
//            Cookie header name
//
// A violation is minimised (every dimension reset to its default while the violation persists) before it is
// reported, so the signature names only the dimensions that matter.

import (
	"bufio"
	"bytes"
	"fmt"
	"sort"
	"strings"

	"github.com/gofiber/fiber/v3"
	"github.com/valyala/fasthttp"

	"verifmc/core"
	"verifmc/fx"
)

const target2 = "/x/z/t"

// ---- dimensions ----

type scen struct {
	Cfg, Shape, Issue, Status, H2, Layout, Hdr, Seam int
}

var (
	cfgNames    = []string{"default", "immutable", "custom-ctx", "custom-ctx+immutable"}
	shapeNames  = []string{"route-on-app", "reading-middleware+route", "group", "mounted-sub-app"}
	issueNames  = []string{"to", "route+params", "route+params+queries", "back-referer", "back-fallback", "route-unknown-name(empty-location)", "back-without-referer-or-fallback(fails)"}
	statusVals  = []int{0, 301, 303, 307, 308}
	h2Names     = []string{"plain", "reads-twice", "sets-own-cookie", "returns-error", "redirects-on-with-messages", "redirects-on-plain"}
	hdrNames    = []string{"Cookie", "cookie", "COOKIE"}
	seamNames   = []string{"wire", "object"}
	inKindNames = []string{"none", "query", "urlencoded-body", "multipart-body"}
	ctSpellings = []string{"application/x-www-form-urlencoded", "application/x-www-form-urlencoded; charset=UTF-8", "APPLICATION/X-WWW-FORM-URLENCODED"}
)

const (
	h2Twice, h2OwnCookie, h2Error, h2Chain, h2ChainPlain                                                   = 1, 2, 3, 4, 5
	issueTo, issueRoute, issueRouteQ, issueBackRef, issueBackFallback, issueRouteUnknown, issueBackNothing = 0, 1, 2, 3, 4, 5, 6
	seamWire, seamObject                                                                                   = 0, 1
)

type extraCookie struct {
	Name, Value, Path string
	After             bool // set after the redirect call (so: created later in the client)
}

type layoutT struct {
	Name  string
	Extra []extraCookie
	Core  bool
}

func layoutsC() []layoutT {
	ls := []layoutT{{Name: "flash-only", Core: true}}
	for _, n := range []string{"sid", "xfiber_flash", "fiber_flashx"} {
		for _, v := range []string{"1", "fiber_flash=zz"} {
			ls = append(ls,
				layoutT{Name: n + "=" + v + " before", Extra: []extraCookie{{n, v, "/", false}}, Core: n == "xfiber_flash" && v == "1" || n == "sid" && v != "1"},
				layoutT{Name: n + "=" + v + " after", Extra: []extraCookie{{n, v, "/", true}}, Core: n == "fiber_flashx" && v == "1"},
				layoutT{Name: n + "=" + v + " before-by-longer-path", Extra: []extraCookie{{n, v, "/x", true}}, Core: n == "sid" && v == "1"})
		}
	}
	ls = append(ls,
		layoutT{Name: "sid=1 before, xfiber_flash=1 after", Extra: []extraCookie{{"sid", "1", "/", false}, {"xfiber_flash", "1", "/", true}}},
		layoutT{Name: "xfiber_flash=fiber_flash=zz before, sid=1 after", Extra: []extraCookie{{"xfiber_flash", "fiber_flash=zz", "/", false}, {"sid", "1", "/", true}}, Core: true})
	return ls
}

var theLayouts = layoutsC()

func (s scen) dims() string {
	var p []string
	add := func(k, v string) { p = append(p, k+"="+v) }
	if s.Cfg != 0 {
		add("cfg", cfgNames[s.Cfg])
	}
	if s.Shape != 0 {
		add("shape", shapeNames[s.Shape])
	}
	if s.Issue != 0 {
		add("issue", issueNames[s.Issue])
	}
	if s.Status != 0 {
		add("status", fmt.Sprint(statusVals[s.Status]))
	}
	if s.H2 != 0 {
		add("h2", h2Names[s.H2])
	}
	if s.Layout != 0 {
		p = append(p, "client-also-holds=["+theLayouts[s.Layout].Name+"]")
	}
	if s.Hdr != 0 {
		add("header-name", hdrNames[s.Hdr])
	}
	if len(p) == 0 {
		return "scenario=default"
	}
	return strings.Join(p, " ")
}

func (s scen) doc() map[string]any {
	return map[string]any{"seam": seamNames[s.Seam], "cfg": cfgNames[s.Cfg], "target_registered": shapeNames[s.Shape], "issued_by": issueNames[s.Issue],
		"status_set": statusVals[s.Status], "consuming_handler": h2Names[s.H2], "client_also_holds": theLayouts[s.Layout].Name, "cookie_header_name": hdrNames[s.Hdr]}
}

// dimension accessors for the minimiser, in the order they are reset
var dimPtrs = []func(*scen) *int{
	func(s *scen) *int { return &s.Layout }, func(s *scen) *int { return &s.Hdr }, func(s *scen) *int { return &s.H2 },
	func(s *scen) *int { return &s.Status }, func(s *scen) *int { return &s.Issue }, func(s *scen) *int { return &s.Shape },
	func(s *scen) *int { return &s.Cfg },
}

// ---- programs ----

const (
	opWith  = "With(k,v)"
	opWithL = "With(k,v,level)"
	opInput = "WithInput()"
)

type op struct {
	Op string `json:"call"`
	K  string `json:"k,omitempty"`
	V  string `json:"v,omitempty"`
	L  uint8  `json:"level,omitempty"`
}

type prog struct {
	Ops    []op `json:"calls_on_redirect"`
	InKind int  `json:"-"`
	CT     int  `json:"-"`
	Tiny   bool `json:"-"` // member of the 4-program set of the full cross
	Core   bool `json:"-"` // member of the reduced set of the quick one-at-a-time family
	Only1  bool `json:"-"` // level / length sweeps: only in the first family
}

// the input request 1 carries when InKind != 0: key "a" is also a flash key of the program letters
var inFields = []opair{{"a", "o1"}, {"c", "o\x00 2"}}

type caseC struct {
	P  *prog
	Sc scen
}

func (c *caseC) doc() map[string]any {
	d := map[string]any{"part": "c", "calls_on_redirect": c.P.Ops, "request1_input": inKindNames[c.P.InKind], "scenario": c.Sc.doc()}
	if c.P.InKind != 0 {
		d["request1_fields"] = inFields
	}
	if c.P.InKind == 2 {
		d["request1_content_type"] = ctSpellings[c.P.CT]
	}
	return d
}

func hasInput(ops []op) bool {
	for _, o := range ops {
		if o.Op == opInput {
			return true
		}
	}
	return false
}

func progClass(p *prog) string {
	s := "flash-only"
	if hasInput(p.Ops) {
		s = "input:" + inKindNames[p.InKind]
		if p.InKind == 2 && p.CT != 0 {
			s += fmt.Sprintf("(content-type-spelling-%d)", p.CT)
		}
	} else if p.InKind != 0 {
		s = "flash-only(request-has-" + inKindNames[p.InKind] + ")"
	}
	seenIn, after, twice := false, false, false
	keys := map[string]bool{}
	for _, o := range p.Ops {
		if o.Op == opInput {
			seenIn = true
			continue
		}
		after = after || seenIn
		twice = twice || keys[o.K]
		keys[o.K] = true
	}
	if after {
		s += "+with-after-input"
	}
	if twice {
		s += "+same-key-twice"
	}
	if len(p.Ops) > 3 {
		s += "+many"
	}
	if len(p.Ops) == 0 {
		s = "no-calls"
	}
	if p.Only1 {
		if p.Ops[0].K == "lv" {
			switch lv := p.Ops[0].L; {
			case lv < 0x20:
				s += "+level-below-0x20"
			case lv < 0x80:
				s += "+level-fixint"
			default:
				s += "+level-uint8"
			}
		} else {
			n := len(p.Ops[0].K) + len(p.Ops[0].V) - 3
			switch {
			case n < 32:
				s += "+fixstr"
			case n < 256:
				s += "+str8"
			case n < 65536:
				s += "+str16"
			default:
				s += "+str32"
			}
		}
	}
	return s
}

// simplest programs the minimiser tries: if the violation shows with one of them the calls do not matter
var simplestProgs = []*prog{
	{Ops: []op{{Op: opWithL, K: "a", V: "v2", L: 0x41}}},
	{Ops: []op{{Op: opWith, K: "a", V: "v1"}}},
}

// expectedC is the reference: With overrides the FLASH message of that key (never old input), otherwise
// appends; WithInput appends what the binder handed over for request 1.
func expectedC(ops []op, attached map[string]string) []msg {
	var out []msg
	for _, o := range ops {
		if o.Op == opInput {
			keys := make([]string, 0, len(attached))
			for k := range attached {
				keys = append(keys, k)
			}
			sort.Strings(keys)
			for _, k := range keys {
				out = append(out, msg{Key: k, Value: attached[k], Old: true})
			}
			continue
		}
		lv := o.L
		if o.Op == opWith {
			lv = 0
		}
		dup := false
		for i := range out {
			if !out[i].Old && out[i].Key == o.K {
				out[i].Value, out[i].Level, dup = o.V, lv, true
				break
			}
		}
		if !dup {
			out = append(out, msg{Key: o.K, Value: o.V, Level: lv})
		}
	}
	return out
}

// programsC enumerates: every sequence of <= maxLen calls over the letters {With(a,v1), With(a,v2,0x41),
// With(b,"w é",255), WithInput} with at most one WithInput, x the input kinds; plus long programs.
func programsC(quick bool) []*prog {
	letters := []op{{Op: opWith, K: "a", V: "v1"}, {Op: opWithL, K: "a", V: "v2", L: 0x41}, {Op: opWithL, K: "b", V: "w é", L: 255}, {Op: opInput}}
	maxLen := 4
	if quick {
		maxLen = 3
	}
	var seqs [][]op
	var rec func(cur []op)
	rec = func(cur []op) {
		seqs = append(seqs, append([]op(nil), cur...))
		if len(cur) == maxLen {
			return
		}
		for _, l := range letters {
			if l.Op == opInput && hasInput(cur) {
				continue
			}
			rec(append(cur, l))
		}
	}
	rec(nil)
	var ps []*prog
	for _, s := range seqs {
		kinds := []int{0, 1} // a program without WithInput: the request may still carry input (it must not be delivered)
		if hasInput(s) {
			kinds = []int{0, 1, 2, 3}
		}
		for _, k := range kinds {
			cts := 1
			if k == 2 && hasInput(s) {
				cts = len(ctSpellings)
			}
			for ct := 0; ct < cts; ct++ {
				p := &prog{Ops: s, InKind: k, CT: ct}
				p.Core = len(s) <= 2 && ct == 0 || len(s) == 3 && k == 1 && s[0].Op == opInput
				ps = append(ps, p)
			}
		}
	}
	// long programs: n distinct level-carrying messages (n <= 15: one-byte array header), optionally followed by
	// an override of the j-th, optionally with input in front
	ns := []int{3, 15, 16, 40}
	for _, n := range ns {
		var base []op
		for i := 0; i < n; i++ {
			base = append(base, op{Op: opWithL, K: fmt.Sprintf("k%02d", i), V: fmt.Sprintf("value-%02d", i), L: uint8(0x41 + i)})
		}
		ps = append(ps, &prog{Ops: base, Core: n == 15})
		for _, j := range []int{0, n / 2, n - 1} {
			o := append(append([]op(nil), base...), op{Op: opWithL, K: fmt.Sprintf("k%02d", j), V: "again", L: 0x7e})
			ps = append(ps, &prog{Ops: o, Core: n == 15 && j == n/2})
		}
		ps = append(ps, &prog{Ops: append([]op{{Op: opInput}}, base...), InKind: 1})
	}
	// every level, alone (how the level byte is encoded: fixint below 128, uint8 above)
	for lv := 0; lv < 256; lv++ {
		ps = append(ps, &prog{Ops: []op{{Op: opWithL, K: "lv", V: "x", L: uint8(lv)}}, Only1: true})
	}
	// key / value lengths around the string-header widths (fixstr < 32, str8 < 256, str16 < 65536, str32)
	for _, n := range []int{31, 32, 58, 60, 255, 256, 65535, 65536} {
		long := strings.Repeat("L", n)
		ps = append(ps, &prog{Ops: []op{{Op: opWithL, K: "len", V: long, L: 0x41}}, Only1: true},
			&prog{Ops: []op{{Op: opWithL, K: long, V: "len", L: 0x41}, {Op: opWith, K: "z", V: long}}, Only1: true})
	}
	// the 4 programs of the full cross: one wire-deliverable pair, one default-level + input after, one input first with a colliding key
	tiny := [][]op{
		{letters[1], letters[2]},
		{letters[2], letters[1], letters[1]},
		{letters[0], letters[3]},
		{letters[3], letters[0], letters[2]},
	}
	for i, t := range tiny {
		k := 0
		if hasInput(t) {
			k = 1 + i%2 // query for the third, urlencoded body for the fourth
		}
		ps = append(ps, &prog{Ops: t, InKind: k, Tiny: true})
	}
	return ps
}

// ---- the app ----

type cctx struct {
	fiber.DefaultCtx
}

type appC struct {
	cfg, shape int
	app        *fiber.App
	srv        *fasthttp.Server
	h          fasthttp.RequestHandler
	cur        *caseC
	attached   map[string]string
	step       int    // number of the request in flight within the exchange (1-based)
	got        []seen // what the target handler saw, per visit
	mw         []seen // what the reading middleware saw, per request to a target
	second     *seen  // second read of visit 1 (h2 = reads-twice)
	probes     []msg
	issueErr   string
	fctx       fasthttp.RequestCtx
}

func cloneMap(m map[string]string) map[string]string {
	out := map[string]string{}
	for k, v := range m {
		out[strings.Clone(k)] = strings.Clone(v)
	}
	return out
}

func newAppC(cfg, shape int) *appC {
	a := &appC{cfg: cfg, shape: shape}
	conf := fiber.Config{Immutable: cfg&1 != 0}
	a.app = fiber.New(conf)
	if cfg&2 != 0 {
		a.app.NewCtxFunc(func(app *fiber.App) fiber.CustomCtx {
			return &cctx{DefaultCtx: *fiber.NewDefaultCtx(app)}
		})
	}
	if shape == 1 {
		a.app.Use(func(c fiber.Ctx) error {
			if strings.HasPrefix(c.Path(), "/x/") {
				a.mw = append(a.mw, observe(c, nil))
			}
			return c.Next()
		})
	}
	a.app.All("/r", func(c fiber.Ctx) error {
		cs := a.cur
		if cs.P.InKind != 0 {
			m := map[string]string{}
			if cs.P.InKind == 1 {
				_ = c.Bind().Query(m)
			} else {
				_ = c.Bind().Form(m)
			}
			a.attached = cloneMap(m)
		}
		lay := theLayouts[cs.Sc.Layout]
		for _, x := range lay.Extra {
			if !x.After {
				c.Cookie(&fiber.Cookie{Name: x.Name, Value: x.Value, Path: x.Path})
			}
		}
		r := c.Redirect()
		if st := statusVals[cs.Sc.Status]; st != 0 {
			r.Status(st)
		}
		for _, o := range cs.P.Ops {
			switch o.Op {
			case opWith:
				r.With(o.K, o.V)
			case opWithL:
				r.With(o.K, o.V, o.L)
			default:
				r.WithInput()
			}
		}
		var err error
		switch cs.Sc.Issue {
		case issueTo:
			err = r.To(target)
		case issueRoute:
			err = r.Route("tgt", fiber.RedirectConfig{Params: fiber.Map{"id": "y"}})
		case issueRouteQ:
			err = r.Route("tgt", fiber.RedirectConfig{Params: fiber.Map{"id": "y"}, Queries: map[string]string{"q": "1", "p": "2"}})
		case issueBackRef, issueBackNothing:
			err = r.Back() // with / without a Referer on the request
		case issueRouteUnknown:
			err = r.Route("no-such-route")
		default:
			err = r.Back(target)
		}
		if err != nil {
			a.issueErr = err.Error()
		}
		for _, x := range lay.Extra {
			if x.After {
				c.Cookie(&fiber.Cookie{Name: x.Name, Value: x.Value, Path: x.Path})
			}
		}
		return err
	})
	tgt := func(c fiber.Ctx) error {
		// only the request that follows the redirect (request 2) probes by key and behaves as h2 says
		var pr []msg
		if a.step == 2 {
			pr = a.probes
		}
		a.got = append(a.got, observe(c, pr))
		if a.step != 2 {
			return c.SendString("ok")
		}
		switch a.cur.Sc.H2 {
		case h2Twice:
			s2 := observe(c, nil)
			a.second = &s2
		case h2OwnCookie:
			c.Cookie(&fiber.Cookie{Name: "seen", Value: "1"})
		case h2Error:
			return fiber.NewError(fiber.StatusInternalServerError, "boom")
		case h2Chain:
			return c.Redirect().With(chainSet[0].Key, chainSet[0].Value, chainSet[0].Level).To(target2)
		case h2ChainPlain:
			return c.Redirect().To(target2)
		}
		return c.SendString("ok")
	}
	pass := func(c fiber.Ctx) error { return c.Next() }
	switch shape {
	case 2:
		g := a.app.Group("/x", pass)
		g.All("/:id/t", tgt).Name("tgt")
	case 3:
		sub := fiber.New(conf)
		sub.All("/:id/t", tgt).Name("tgt")
		a.app.Use("/x", sub)
	default:
		a.app.All("/x/:id/t", tgt).Name("tgt")
	}
	a.h = a.app.Handler()
	a.srv = a.app.Server()
	return a
}

// chainSet is what the consuming handler attaches when it redirects on (deliverable over the wire).
var chainSet = []msg{{Key: "n", Value: "second", Level: 0x42}}

// ---- requests ----

// bodyOf is the entity request 1 carries (method, Content-Type line, body); a client following a 307/308
// redirect repeats it.
func bodyOf(cs *caseC) (method, ctLine, body string) {
	var q []string
	for _, f := range inFields {
		q = append(q, pctAll(f.K)+"="+pctAll(f.V))
	}
	switch cs.P.InKind {
	case 2:
		return "POST", "Content-Type: " + ctSpellings[cs.P.CT] + "\r\n", strings.Join(q, "&")
	case 3:
		const bd = "VerifBoundary7MA4YWxk"
		var b strings.Builder
		for _, f := range inFields {
			b.WriteString("--" + bd + "\r\nContent-Disposition: form-data; name=\"" + f.K + "\"\r\n\r\n" + f.V + "\r\n")
		}
		b.WriteString("--" + bd + "--\r\n")
		return "POST", "Content-Type: multipart/form-data; boundary=" + bd + "\r\n", b.String()
	}
	return "GET", "", ""
}

func buildReq1C(cs *caseC) []byte {
	hdr := "Host: " + host + "\r\n"
	if cs.Sc.Issue == issueBackRef {
		hdr += "Referer: " + target + "\r\n"
	}
	uri := "/r"
	if cs.P.InKind == 1 {
		var q []string
		for _, f := range inFields {
			q = append(q, pctAll(f.K)+"="+pctAll(f.V))
		}
		uri += "?" + strings.Join(q, "&")
	}
	method, ctLine, body := bodyOf(cs)
	if method == "GET" {
		return []byte("GET " + uri + " HTTP/1.1\r\n" + hdr + "\r\n")
	}
	return []byte(method + " " + uri + " HTTP/1.1\r\n" + hdr + ctLine + "Content-Length: " + fmt.Sprint(len(body)) + "\r\n\r\n" + body)
}

// buildGetC builds a follow-up request; with placeholders the cookie values are "x" (object seam: the real
// values are put on the parsed request object afterwards).
func buildGetC(loc, hdrName string, sel []cookie, placeholders bool) []byte {
	return buildFollowC("GET", "", "", loc, hdrName, sel, placeholders)
}

// buildFollowC is buildGetC for any method; a non-GET request repeats the entity of request 1.
func buildFollowC(method, ctLine, body, loc, hdrName string, sel []cookie, placeholders bool) []byte {
	b := []byte(method + " " + loc + " HTTP/1.1\r\nHost: " + host + "\r\n")
	if len(sel) > 0 {
		b = append(b, hdrName+": "...)
		for i, c := range sel {
			if i > 0 {
				b = append(b, ';', ' ')
			}
			b = append(b, c.Name...)
			b = append(b, '=')
			if placeholders {
				b = append(b, 'x')
			} else {
				b = append(b, c.Value...)
			}
		}
		b = append(b, '\r', '\n')
	}
	if method != "GET" {
		b = append(b, ctLine+"Content-Length: "+fmt.Sprint(len(body))+"\r\n\r\n"+body...)
		return b
	}
	return append(b, '\r', '\n')
}

// do sends one request through the seam. Object seam: the request head is parsed from the wire form (so the
// raw header block names the cookies as a real request does), the cookie values are then set on the object;
// the response is read from the response object.
func (a *appC) do(seam int, raw []byte, sel []cookie) (rs response, panicked any) {
	a.step++
	defer func() {
		if p := recover(); p != nil {
			panicked = p
		}
	}()
	if seam == seamWire {
		out, _ := fx.Serve(a.srv, raw)
		return parseResponse(out), nil
	}
	// the request is read straight into the RequestCtx (Request.CopyTo would drop a parsed multipart form)
	a.fctx.Request.Reset()
	a.fctx.Response.Reset()
	a.fctx.Init2(fx.NewWireConn(nil, peerC), nil, false)
	req := &a.fctx.Request
	if err := req.Read(bufio.NewReader(bytes.NewReader(raw))); err != nil {
		core.Fatal("part (c): object-seam request does not parse: %v\n%q", err, raw)
	}
	for _, c := range sel {
		req.Header.SetCookieBytesKV(c.Name, c.Value)
	}
	a.h(&a.fctx)
	rs.Status = a.fctx.Response.StatusCode()
	a.fctx.Response.Header.VisitAllCookie(func(_, v []byte) {
		rs.SetCookies = append(rs.SetCookies, append([]byte(nil), v...))
	})
	rs.Location = string(a.fctx.Response.Header.Peek("Location"))
	return rs, nil
}

var peerC = fx.TCP("192.0.2.7", 40000)

func pathOf(loc string) string {
	if i := strings.IndexAny(loc, "?#"); i >= 0 {
		loc = loc[:i]
	}
	return loc
}

func isRedirect(rs response) bool { return rs.Status/100 == 3 && strings.HasPrefix(rs.Location, "/") }

// ---- one exchange ----

type violC struct {
	Kind, What string
	Obs, Exp   any
	Known      string // non-empty: report under this (part (a)) signature, unminimised
}

type resC struct {
	Viol    []violC
	Outcome string
	Exact   bool // request 2 saw exactly the attached set (and the set was not empty)
	Skipped string
}

func (r resC) has(kind string) bool {
	for _, v := range r.Viol {
		if v.Kind == kind {
			return true
		}
	}
	return false
}

func sees(s seen) bool { return s.NMsgs+s.NOlds > 0 }

func kindOf(s *seen, want []msg, status int) string {
	if s == nil {
		return fmt.Sprintf("status-%d-handler-not-run", status)
	}
	return seenKind(*s, want, status)
}

// wireClean: every byte may stand in a field value (HTAB, 0x20-0x7e, 0x80-0xff) and none is ';'.
func wireClean(b []byte) bool {
	for _, c := range b {
		if c == ';' || c == 0x7f || (c < 0x20 && c != '\t') {
			return false
		}
	}
	return true
}

func hasSemiCRLF(b []byte) bool { return bytes.ContainsAny(b, ";\r\n") }

func (a *appC) exchange(cs *caseC) (res resC) {
	a.cur, a.attached, a.step, a.got, a.mw, a.second, a.probes, a.issueErr = cs, nil, 0, nil, nil, nil, nil, ""
	sc := cs.Sc
	hn := hdrNames[sc.Hdr]
	object := sc.Seam == seamObject
	client := newJar()
	add := func(kind, what string, obs, exp any) {
		res.Viol = append(res.Viol, violC{Kind: kind, What: what, Obs: obs, Exp: exp})
	}

	rs1, p := a.do(sc.Seam, buildReq1C(cs), nil)
	if p != nil {
		add("panic request=1", "handler panic while redirecting with messages", fmt.Sprint(p), nil)
		res.Outcome = "c panic"
		return res
	}
	client.receive(rs1, host, "/r")
	want := expectedC(cs.P.Ops, a.attached)
	if rs1.Status/100 != 3 {
		// no redirect was issued (Back without Referer and fallback answers 500): the statement speaks of
		// messages attached to a redirect; all that is checked is that the client's next request sees none
		res.Skipped = fmt.Sprintf("request 1 answered %d without a local Location (%s)", rs1.Status, a.issueErr)
		res.Outcome = fmt.Sprintf("c seam=%s no-redirect-issued status=%d", seamNames[sc.Seam], rs1.Status)
		selN := client.selected(host, target)
		a.step = 100 // not "the request following the redirect": the target handler answers plainly
		rsN, _ := a.do(sc.Seam, buildGetC(target, hn, selN, object), selN)
		if len(a.got) == 0 || rsN.Status != 200 || sees(a.got[0]) {
			add("request-after-failed-redirect-sees-messages", "the redirect call failed (no Location); the client's next request sees messages (or fails)",
				map[string]any{"status": rsN.Status, "cookies": cookieList(selN)}, "none, 200")
		}
		return res
	}
	// a 3xx without a usable Location (Route with an unknown name answers 302 with an empty Location): the client
	// cannot follow, its next request — made on its own to the target — is the one carrying the issued cookie
	loc1 := rs1.Location
	if !isRedirect(rs1) {
		loc1 = target
	}
	nontrivial := len(want) > 0
	class := inputClass(want)
	deliverable := class == "plain-text-level-255"
	if object {
		deliverable = !hasSemiCRLF(encMsgs(want))
	} else if deliverable && !wireClean(encMsgs(want)) {
		// a length byte, an array16/str16 header or a level puts a control byte / DEL / ';' into the cookie although no
		// key or value holds one: the known raw-MessagePack root cause, but none of its known input classes —
		// not judged over the wire (the object seam judges these sets)
		res.Skipped = "level, length or count byte that is a control byte, DEL or ';' (raw MessagePack in the cookie): not judged over the wire"
		res.Outcome = "c seam=wire header-byte-cannot-travel-not-judged"
		return res
	} else if deliverable && len(encMsgs(want)) > wireValueMax {
		res.Skipped = "cookie longer than 2048 bytes over the wire (header-size limits of the server are outside the statement)"
		res.Outcome = "c seam=wire cookie-too-long-not-judged"
		return res
	}
	for _, m := range want {
		dup := false
		for _, q := range a.probes {
			dup = dup || (q.Key == m.Key && q.Old == m.Old)
		}
		if !dup {
			a.probes = append(a.probes, m)
		}
	}
	_, held1 := client.get(fiber.FlashCookieName)

	// request 2: the client follows the redirect
	sel2 := client.selected(host, pathOf(loc1))
	m2, ct2, body2 := "GET", "", ""
	if rs1.Status == 307 || rs1.Status == 308 {
		m2, ct2, body2 = bodyOf(cs) // RFC 9110 15.4.8/15.4.9: method and content are kept
	}
	rs2, p := a.do(sc.Seam, buildFollowC(m2, ct2, body2, loc1, hn, sel2, object), sel2)
	if p != nil {
		add("panic request=2", "handler panic on the request carrying the issued cookie", fmt.Sprint(p), nil)
		res.Outcome = "c panic"
		return res
	}
	client.receive(rs2, host, pathOf(loc1))
	var s2 *seen
	if len(a.got) > 0 {
		s2 = &a.got[0]
	}
	k2 := kindOf(s2, want, rs2.Status)
	var mw2 *seen
	if len(a.mw) > 0 {
		mw2 = &a.mw[0]
	}
	second := a.second
	visit1Ran := s2 != nil
	_, held2 := client.get(fiber.FlashCookieName)
	chain := visit1Ran && sc.H2 == h2Chain

	// request 3: follow a redirect of the consuming handler, else ask for the target again
	loc3 := loc1
	if isRedirect(rs2) {
		loc3 = rs2.Location
	}
	nGot := len(a.got)
	sel3 := client.selected(host, pathOf(loc3))
	rs3, p := a.do(sc.Seam, buildGetC(loc3, hn, sel3, object), sel3)
	if p != nil {
		add("panic request=3", "handler panic on the request after the consuming one", fmt.Sprint(p), nil)
		res.Outcome = "c panic"
		return res
	}
	client.receive(rs3, host, pathOf(loc3))
	var s3 *seen
	if len(a.got) > nGot {
		s3 = &a.got[nGot]
	}

	// request 4: the same client once more; request 5: another client without cookies
	nGot = len(a.got)
	sel4 := client.selected(host, pathOf(loc1))
	rs4, _ := a.do(sc.Seam, buildGetC(loc1, hn, sel4, object), sel4)
	var s4 *seen
	if len(a.got) > nGot {
		s4 = &a.got[nGot]
	}
	nGot = len(a.got)
	rs5, _ := a.do(sc.Seam, buildGetC(loc1, hn, nil, object), nil)
	var s5 *seen
	if len(a.got) > nGot {
		s5 = &a.got[nGot]
	}

	obs := func() any {
		q := func(s *seen) any {
			if s == nil {
				return "handler did not run"
			}
			return qSeen(*s)
		}
		return map[string]any{
			"attached_old_input": a.attached, "response1_status": rs1.Status, "response1_location": rs1.Location, "response1_set_cookie": quoteAll(rs1.SetCookies),
			"client_holds_flash_after_1": held1, "request2_cookies": cookieList(sel2), "response2_status": rs2.Status, "request2_saw": q(s2), "request2_outcome": k2,
			"response2_set_cookie": quoteAll(rs2.SetCookies), "response2_location": rs2.Location, "client_holds_flash_after_2": held2,
			"request3_target": loc3, "request3_cookies": cookieList(sel3), "response3_status": rs3.Status, "request3_saw": q(s3),
			"request4_cookies": cookieList(sel4), "response4_status": rs4.Status, "request4_saw": q(s4),
		}
	}
	res.Outcome = fmt.Sprintf("c seam=%s set=%v deliverable=%v req2=%s chain=%v held-after-2=%v req3-sees=%v", seamNames[sc.Seam], nontrivial, deliverable, k2, chain, held2, s3 != nil && sees(*s3))

	// ---- oracle ----
	switch {
	case !nontrivial:
		if s2 != nil && sees(*s2) {
			add("messages-from-empty-set", "no message attached, yet the follow-up request sees some", obs(), "none")
		}
	case k2 != "exact":
		switch {
		case deliverable:
			add("not-delivered", "the request following the redirect with the issued cookie does not see exactly the attached messages/old input",
				obs(), map[string]any{"request2_must_see": sortMsgs(want)})
		case !object:
			// undeliverable over the wire for the known reason (raw MessagePack): same signature as part (a)
			res.Viol = append(res.Viol, violC{Kind: "known-wire", Known: "a/not-delivered input=" + class,
				What: "the request replaying the issued Set-Cookie through a conforming client does not see exactly the attached messages/old input",
				Obs:  obs(), Exp: map[string]any{"request2_must_see": sortMsgs(want)}})
		default:
			res.Skipped = "message set whose encoding holds ';' / CR / LF on the object seam"
		}
	default:
		res.Exact = true
		if s2.ProbeBad != "" {
			add("message-by-key-disagrees", "Message(k)/OldInput(k) disagree with Messages()/OldInputs()", s2.ProbeBad, nil)
		}
		if sc.Shape == 1 && (mw2 == nil || !sameSeen(*mw2, *s2)) {
			add("middleware-and-handler-disagree", "a middleware in front of the handler does not see the same messages as the handler", obs(), nil)
		}
		if sc.H2 == h2Twice && (second == nil || !sameSeen(*second, *s2)) {
			add("second-read-differs", "reading Messages()/OldInputs() twice in one handler gives two different answers", obs(), nil)
		}
	}
	if visit1Ran && (k2 == "exact" || !nontrivial) && !chain && held2 {
		add("cookie-not-expired-by-response-2", "the response to the request that consumed the flash cookie leaves the cookie with the client", obs(),
			"Set-Cookie: fiber_flash=...; expired (Max-Age=0 or Expires in the past)")
	}
	if chain {
		if k3 := kindOf(s3, chainSet, rs3.Status); k3 != "exact" {
			add("chained-set-not-delivered", "the consuming handler redirected on with a new message set; the request following THAT redirect does not see exactly the new set",
				obs(), map[string]any{"request3_must_see": chainSet})
		}
	} else if s3 != nil && sees(*s3) {
		add("delivered-again-on-request-3", "the conforming client presents the messages a second time: request 3 sees messages", obs(), "request 3 sees none")
	}
	if s4 != nil && sees(*s4) {
		add("delivered-again-on-request-4", "the conforming client still presents messages on its fourth request", obs(), "request 4 sees none")
	}
	if s5 == nil || rs5.Status != 200 || sees(*s5) {
		add("no-cookie-request-sees-messages", "a request without cookies sees messages (or fails)", map[string]any{"status": rs5.Status}, "none, 200")
	}
	return res
}

func sameSeen(a, b seen) bool {
	return a.NMsgs == b.NMsgs && a.NOlds == b.NOlds && eqMsgs(a.Msgs, b.Msgs) && eqMsgs(a.Olds, b.Olds)
}

func cookieList(sel []cookie) []string {
	out := []string{}
	for _, c := range sel {
		out = append(out, bq(c.Name)+"="+bq(c.Value)+" (path "+c.Path+")")
	}
	return out
}

// ---- enumeration ----

type famC struct {
	name string
	n    int
	at   func(i int) caseC // cfg/shape must be the slowest-varying part of i
}

// variationsC lists the one-dimension-at-a-time scenarios (cfg, shape and seam are crossed on top).
func variationsC() []scen {
	var vs []scen
	for is := range issueNames {
		for st := range statusVals {
			vs = append(vs, scen{Issue: is, Status: st})
		}
	}
	for h := 1; h < len(h2Names); h++ {
		vs = append(vs, scen{H2: h})
	}
	for ly := 1; ly < len(theLayouts); ly++ {
		vs = append(vs, scen{Layout: ly})
	}
	for hd := 1; hd < len(hdrNames); hd++ {
		vs = append(vs, scen{Hdr: hd}, scen{Hdr: hd, Layout: 2})
	}
	return vs
}

func familiesC(quick bool) ([]famC, map[string]any) {
	all := programsC(quick)
	var core1, tiny []*prog
	for _, p := range all {
		if (p.Core || p.Tiny || !quick) && !p.Only1 {
			core1 = append(core1, p)
		}
		if p.Tiny {
			tiny = append(tiny, p)
		}
	}
	vs := variationsC()
	var coreLay []int
	for i, l := range theLayouts {
		if l.Core {
			coreLay = append(coreLay, i)
		}
	}
	nApps := len(cfgNames) * len(shapeNames)
	fams := []famC{
		{"every program x both seams x cfg x shape (rest of the scenario default)", nApps * len(all) * 2, func(i int) caseC {
			sm, i := i%2, i/2
			p, i := i%len(all), i/len(all)
			return caseC{P: all[p], Sc: scen{Cfg: i / len(shapeNames), Shape: i % len(shapeNames), Seam: sm}}
		}},
		{"one scenario dimension at a time x programs x both seams x cfg x shape", nApps * len(vs) * len(core1) * 2, func(i int) caseC {
			sm, i := i%2, i/2
			p, i := i%len(core1), i/len(core1)
			v, i := i%len(vs), i/len(vs)
			s := vs[v]
			s.Cfg, s.Shape, s.Seam = i/len(shapeNames), i%len(shapeNames), sm
			return caseC{P: core1[p], Sc: s}
		}},
		{"full cross cfg x shape x issue x h2 x core layouts x seam x 4 programs", nApps * len(issueNames) * len(h2Names) * len(coreLay) * 2 * len(tiny), func(i int) caseC {
			sm, i := i%2, i/2
			p, i := i%len(tiny), i/len(tiny)
			ly, i := i%len(coreLay), i/len(coreLay)
			h, i := i%len(h2Names), i/len(h2Names)
			is, i := i%len(issueNames), i/len(issueNames)
			return caseC{P: tiny[p], Sc: scen{Cfg: i / len(shapeNames), Shape: i % len(shapeNames), Issue: is, H2: h, Layout: coreLay[ly], Seam: sm}}
		}},
	}
	bounds := map[string]any{
		"programs": len(all), "programs_in_one_at_a_time_family": len(core1), "programs_in_full_cross": len(tiny),
		"cfg": cfgNames, "shape": shapeNames, "issue": issueNames, "status": statusVals, "consuming_handler": h2Names,
		"client_layouts": len(theLayouts), "client_layouts_in_full_cross": len(coreLay), "cookie_header_names": hdrNames, "seams": seamNames,
		"one_at_a_time_variations": len(vs), "requests_per_exchange": 5,
	}
	for _, f := range fams {
		bounds["family: "+f.name] = f.n
	}
	return fams, bounds
}

const blockC = 1024

// workerC owns the apps of one goroutine.
type workerC struct {
	apps map[[2]int]*appC
	sigs map[string]sigC // (kind, scenario[, class of the calls]) -> signature found by minimising, per block
}

type sigC struct {
	sig  string
	min  caseC
	note string
}

// classify turns one violation into its signature: the case is run again (a violation that does not show again
// depends on what the pooled objects served before), then the call program is replaced by the simplest one and
// every dimension reset to its default while the same kind of violation persists. The result is remembered per
// (kind, scenario) when the calls do not matter, else per (kind, scenario, class of the calls): a change that
// breaks every exchange costs one minimisation per scenario of the block, not one per case.
func (w *workerC) classify(cs caseC, kind string) (string, caseC, string) {
	if w.sigs == nil {
		w.sigs = map[string]sigC{}
	}
	k1 := fmt.Sprint(kind, "|", cs.Sc)
	if c, ok := w.sigs[k1]; ok {
		return c.sig, c.min, c.note
	}
	k2 := k1 + "|" + progClass(cs.P)
	if c, ok := w.sigs[k2]; ok {
		return c.sig, c.min, c.note
	}
	seam := " seam=" + seamNames[cs.Sc.Seam] + " "
	if !w.run(cs).has(kind) {
		coarse := "flash-only"
		if hasInput(cs.P.Ops) {
			coarse = "with-input"
		} else if len(cs.P.Ops) == 0 {
			coarse = "no-calls"
		}
		// not remembered: the next case may well be reproducible
		return "c/" + kind + seam + "depends-on-earlier-exchanges calls=" + coarse, cs,
			" (only after earlier exchanges on the same pooled objects: the case alone, run again, passes)"
	}
	for pi, sp := range simplestProgs {
		if w.run(caseC{P: sp, Sc: cs.Sc}).has(kind) {
			min := caseC{P: sp, Sc: cs.Sc}
			min.Sc = w.minimise(min, kind)
			c := sigC{sig: "c/" + kind + seam + min.Sc.dims() + " calls=" + []string{"any", "any-with-default-level"}[pi], min: min}
			w.sigs[k1] = c
			return c.sig, c.min, ""
		}
	}
	min := cs
	min.Sc = w.minimise(cs, kind)
	c := sigC{sig: "c/" + kind + seam + min.Sc.dims() + " calls=" + progClass(cs.P), min: min}
	w.sigs[k2] = c
	return c.sig, c.min, ""
}

func (w *workerC) app(cfg, shape int) *appC {
	k := [2]int{cfg, shape}
	if a, ok := w.apps[k]; ok {
		return a
	}
	if len(w.apps) > 4 {
		w.apps = map[[2]int]*appC{}
	}
	a := newAppC(cfg, shape)
	w.apps[k] = a
	return a
}

func (w *workerC) run(cs caseC) resC {
	a := w.app(cs.Sc.Cfg, cs.Sc.Shape)
	res := a.exchange(&cs)
	for _, v := range res.Viol {
		if strings.HasPrefix(v.Kind, "panic") {
			delete(w.apps, [2]int{cs.Sc.Cfg, cs.Sc.Shape}) // a panicking request leaves the pooled ctx behind
			break
		}
	}
	return res
}

// minimise resets every dimension to its default while the violation kind persists.
func (w *workerC) minimise(cs caseC, kind string) scen {
	sc := cs.Sc
	for _, ptr := range dimPtrs {
		if *ptr(&sc) == 0 {
			continue
		}
		try := sc
		*ptr(&try) = 0
		// a violation that lives in a pooled object shows or not depending on which object the pool hands out:
		// a dimension counts as irrelevant if the violation persists in any of three tries
		for t := 0; t < 3; t++ {
			if w.run(caseC{P: cs.P, Sc: try}).has(kind) {
				sc = try
				break
			}
		}
	}
	return sc
}

func runPartC(r *core.Run) map[string]any {
	fams, bounds := familiesC(r.Quick())
	type blk struct{ f, from, to int }
	var blocks []blk
	for fi, f := range fams {
		for from := 0; from < f.n; from += blockC {
			to := from + blockC
			if to > f.n {
				to = f.n
			}
			blocks = append(blocks, blk{fi, from, to})
		}
	}
	r.Parallel(len(blocks), func(bi int, l *core.Local) {
		if r.Expired() {
			r.Cap("budget expired in part (c)")
			return
		}
		b := blocks[bi]
		w := &workerC{apps: map[[2]int]*appC{}}
		for i := b.from; i < b.to; i++ {
			cs := fams[b.f].at(i)
			res := w.run(cs)
			l.Add("c_exchanges", 1)
			l.Add("evaluations", 1)
			if len(cs.P.Ops) > 0 {
				l.Add("c_nontrivial", 1)
			}
			l.Outcome(res.Outcome)
			if res.Skipped != "" {
				l.Add("unspecified_skipped", 1)
				l.Add("c_skipped: "+res.Skipped, 1)
			}
			if res.Exact {
				// anti-vacuity: every value of every dimension must have carried an exact delivery
				sc := cs.Sc
				l.Add("c_exact seam="+seamNames[sc.Seam], 1)
				l.Add("c_exact seam="+seamNames[sc.Seam]+" cfg="+cfgNames[sc.Cfg], 1)
				l.Add("c_exact seam="+seamNames[sc.Seam]+" shape="+shapeNames[sc.Shape], 1)
				l.Add("c_exact seam="+seamNames[sc.Seam]+" issue="+issueNames[sc.Issue], 1)
				l.Add("c_exact seam="+seamNames[sc.Seam]+" status="+fmt.Sprint(statusVals[sc.Status]), 1)
				l.Add("c_exact seam="+seamNames[sc.Seam]+" h2="+h2Names[sc.H2], 1)
				l.Add("c_exact seam="+seamNames[sc.Seam]+" header-name="+hdrNames[sc.Hdr], 1)
				if sc.Layout != 0 {
					l.Add("c_exact seam="+seamNames[sc.Seam]+" client-holds-other-cookies", 1)
				}
				if hasInput(cs.P.Ops) {
					l.Add("c_exact seam="+seamNames[sc.Seam]+" with-old-input:"+inKindNames[cs.P.InKind], 1)
				}
			}
			if i == b.from+5 && bi%97 == 0 {
				l.Sample(map[string]any{"case": cs.doc(), "outcome": res.Outcome, "violations": len(res.Viol)})
			}
			for _, v := range res.Viol {
				if v.Known != "" {
					if _, dup := l.P.Violations[v.Known]; dup {
						l.Violate(v.Known, v.What, nil, nil, nil)
					} else {
						l.Violate(v.Known, v.What, cs.doc(), v.Obs, v.Exp)
					}
					continue
				}
				sig, min, note := w.classify(cs, v.Kind)
				if _, dup := l.P.Violations[sig]; dup {
					l.Violate(sig, v.What, nil, nil, nil)
					continue
				}
				// document the minimised case
				mo, me := v.Obs, v.Exp
				if min.P != cs.P || min.Sc != cs.Sc {
					for _, mv := range w.run(min).Viol {
						if mv.Kind == v.Kind {
							mo, me = mv.Obs, mv.Exp
						}
					}
				}
				l.Violate(sig, v.What+note, min.doc(), mo, me)
			}
		}
	})
	return bounds
}
