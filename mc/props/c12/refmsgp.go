package main

// Reference model of the flash-cookie wire format, written from the MessagePack
// specification and from the field list of redirectionMsg (key:string,
// value:string, level:uint8, isOldInput:bool) — it shares no code with
// tinylib/msgp or with redirect_msgp.go.
//
// The cookie is: array( map{ "key":str, "value":str, "level":uint, "isOldInput":bool } ... ).

import "sort"

// msg is one message of the model (flash message or old-input pair).
type msg struct {
	Key   string `json:"key"`
	Value string `json:"value"`
	Level uint8  `json:"level"`
	Old   bool   `json:"old"`
}

// verdict of the strict reference decoder.
type verdict int

const (
	vAccept  verdict = iota // well-formed; implementation must yield exactly the decode
	vLenient                // well-formed MessagePack of the right types in a non-minimal width, or maps lacking fields: none or exact decode
	vUnspec                 // statement is silent (unknown/duplicate keys, bin where str is expected)
	vReject                 // not a well-formed encoding: implementation must yield no messages
)

func (v verdict) String() string {
	return [...]string{"accept", "lenient", "unspecified", "reject"}[v]
}

type refResult struct {
	V      verdict
	Reason string // for vReject / vUnspec: first cause found
	Msgs   []msg  // decode (valid for accept/lenient)
	// Announced is the element count in the array header (0 when there is no header).
	Announced uint64
	HasHeader bool
	// Absent reports that at least one element lacks one of the four fields.
	Absent bool
}

// ---- encoder (canonical, what a MessagePack encoder of minimal width emits) ----

func encStr(b []byte, s string) []byte {
	n := len(s)
	switch {
	case n < 32:
		b = append(b, 0xa0|byte(n))
	case n < 256:
		b = append(b, 0xd9, byte(n))
	case n < 65536:
		b = append(b, 0xda, byte(n>>8), byte(n))
	default:
		b = append(b, 0xdb, byte(n>>24), byte(n>>16), byte(n>>8), byte(n))
	}
	return append(b, s...)
}

func encUint8(b []byte, v uint8) []byte {
	if v < 128 {
		return append(b, v)
	}
	return append(b, 0xcc, v)
}

func encBool(b []byte, v bool) []byte {
	if v {
		return append(b, 0xc3)
	}
	return append(b, 0xc2)
}

func encArrayHeader(b []byte, n int) []byte {
	switch {
	case n < 16:
		return append(b, 0x90|byte(n))
	case n < 65536:
		return append(b, 0xdc, byte(n>>8), byte(n))
	}
	return append(b, 0xdd, byte(n>>24), byte(n>>16), byte(n>>8), byte(n))
}

func encMsg(b []byte, m msg) []byte {
	b = append(b, 0x84)
	b = encStr(b, "key")
	b = encStr(b, m.Key)
	b = encStr(b, "value")
	b = encStr(b, m.Value)
	b = encStr(b, "level")
	b = encUint8(b, m.Level)
	b = encStr(b, "isOldInput")
	b = encBool(b, m.Old)
	return b
}

func encMsgs(ms []msg) []byte {
	b := encArrayHeader(nil, len(ms))
	for _, m := range ms {
		b = encMsg(b, m)
	}
	return b
}

// ---- strict decoder ----

type rd struct {
	b   []byte
	pos int
}

func (r *rd) left() int { return len(r.b) - r.pos }

func (r *rd) take(n int) ([]byte, bool) {
	if n < 0 || r.left() < n {
		return nil, false
	}
	s := r.b[r.pos : r.pos+n]
	r.pos += n
	return s, true
}

func (r *rd) be(n int) (uint64, bool) {
	s, ok := r.take(n)
	if !ok {
		return 0, false
	}
	var v uint64
	for _, c := range s {
		v = v<<8 | uint64(c)
	}
	return v, true
}

// readStr reads a str-family object. kind: "str", "bin", "other", "short".
func (r *rd) readStr() (s string, kind string, minimal bool) {
	if r.left() == 0 {
		return "", "short", true
	}
	c := r.b[r.pos]
	var n uint64
	var ok bool
	kind = "str"
	switch {
	case c >= 0xa0 && c <= 0xbf:
		r.pos++
		n, ok, minimal = uint64(c&0x1f), true, true
	case c == 0xd9:
		r.pos++
		n, ok = r.be(1)
		minimal = n >= 32
	case c == 0xda:
		r.pos++
		n, ok = r.be(2)
		minimal = n >= 256
	case c == 0xdb:
		r.pos++
		n, ok = r.be(4)
		minimal = n >= 65536
	case c == 0xc4:
		r.pos++
		kind = "bin"
		n, ok = r.be(1)
	case c == 0xc5:
		r.pos++
		kind = "bin"
		n, ok = r.be(2)
	case c == 0xc6:
		r.pos++
		kind = "bin"
		n, ok = r.be(4)
	default:
		return "", "other", true
	}
	if !ok {
		return "", "short", true
	}
	if n > uint64(r.left()) {
		return "", "short", true
	}
	p, _ := r.take(int(n))
	return string(p), kind, minimal
}

// readInt reads an int-family object. kind: "int", "other", "short".
func (r *rd) readInt() (v int64, big bool, kind string, minimal bool) {
	if r.left() == 0 {
		return 0, false, "short", true
	}
	c := r.b[r.pos]
	switch {
	case c <= 0x7f:
		r.pos++
		return int64(c), false, "int", true
	case c >= 0xe0:
		r.pos++
		return int64(int8(c)), false, "int", true
	}
	var n int
	signed := false
	switch c {
	case 0xcc:
		n = 1
	case 0xcd:
		n = 2
	case 0xce:
		n = 4
	case 0xcf:
		n = 8
	case 0xd0:
		n, signed = 1, true
	case 0xd1:
		n, signed = 2, true
	case 0xd2:
		n, signed = 4, true
	case 0xd3:
		n, signed = 8, true
	default:
		return 0, false, "other", true
	}
	r.pos++
	u, ok := r.be(n)
	if !ok {
		return 0, false, "short", true
	}
	if signed {
		switch n {
		case 1:
			v = int64(int8(u))
		case 2:
			v = int64(int16(u))
		case 4:
			v = int64(int32(u))
		default:
			v = int64(u)
		}
		// minimal unsigned encoders never use the signed family for values >= 0
		return v, false, "int", v < 0
	}
	if u > 1<<62 {
		return 0, true, "int", true
	}
	v = int64(u)
	switch n {
	case 1:
		minimal = u >= 128
	case 2:
		minimal = u >= 256
	case 4:
		minimal = u >= 65536
	default:
		minimal = u >= 1<<32
	}
	return v, false, "int", minimal
}

// skip consumes one well-formed MessagePack object of any type. ok=false: truncated or invalid.
func (r *rd) skip(depth int) bool {
	if depth > 64 || r.left() == 0 {
		return false
	}
	c := r.b[r.pos]
	r.pos++
	fixed := func(n int) bool { _, ok := r.take(n); return ok }
	lenp := func(w int) bool {
		n, ok := r.be(w)
		if !ok || n > uint64(r.left()) {
			return false
		}
		r.pos += int(n)
		return true
	}
	items := func(n uint64) bool {
		if n > uint64(r.left()) {
			return false
		}
		for i := uint64(0); i < n; i++ {
			if !r.skip(depth + 1) {
				return false
			}
		}
		return true
	}
	switch {
	case c <= 0x7f, c >= 0xe0, c == 0xc0, c == 0xc2, c == 0xc3:
		return true
	case c >= 0x80 && c <= 0x8f:
		return items(2 * uint64(c&0x0f))
	case c >= 0x90 && c <= 0x9f:
		return items(uint64(c & 0x0f))
	case c >= 0xa0 && c <= 0xbf:
		return fixed(int(c & 0x1f))
	}
	switch c {
	case 0xc1:
		return false
	case 0xc4, 0xd9:
		return lenp(1)
	case 0xc5, 0xda:
		return lenp(2)
	case 0xc6, 0xdb:
		return lenp(4)
	case 0xc7:
		n, ok := r.be(1)
		return ok && fixed(1+int(n))
	case 0xc8:
		n, ok := r.be(2)
		return ok && fixed(1+int(n))
	case 0xc9:
		n, ok := r.be(4)
		return ok && n < 1<<31 && fixed(1+int(n))
	case 0xca, 0xce, 0xd2:
		return fixed(4)
	case 0xcb, 0xcf, 0xd3:
		return fixed(8)
	case 0xcc, 0xd0:
		return fixed(1)
	case 0xcd, 0xd1:
		return fixed(2)
	case 0xd4:
		return fixed(2)
	case 0xd5:
		return fixed(3)
	case 0xd6:
		return fixed(5)
	case 0xd7:
		return fixed(9)
	case 0xd8:
		return fixed(17)
	case 0xdc:
		n, ok := r.be(2)
		return ok && items(n)
	case 0xdd:
		n, ok := r.be(4)
		return ok && items(n)
	case 0xde:
		n, ok := r.be(2)
		return ok && items(2*n)
	case 0xdf:
		n, ok := r.be(4)
		return ok && items(2*n)
	}
	return false
}

// refDecode is the strict reference decoder.
func refDecode(b []byte) refResult {
	res := refResult{}
	r := &rd{b: b}
	reject := func(why string) refResult {
		res.V, res.Reason, res.Msgs = vReject, why, nil
		return res
	}
	if len(b) == 0 {
		return reject("empty-value")
	}
	lenient := false
	unspec := ""
	c := b[0]
	var n uint64
	switch {
	case c >= 0x90 && c <= 0x9f:
		r.pos++
		n = uint64(c & 0x0f)
	case c == 0xdc:
		r.pos++
		v, ok := r.be(2)
		if !ok {
			return reject("truncated-array-header")
		}
		n = v
		lenient = lenient || n < 16
	case c == 0xdd:
		r.pos++
		v, ok := r.be(4)
		if !ok {
			return reject("truncated-array-header")
		}
		n = v
		lenient = lenient || n < 65536
	default:
		return reject("not-an-array")
	}
	res.HasHeader, res.Announced = true, n
	if n > uint64(r.left()) {
		// every element takes at least one byte
		if r.left() == 0 {
			return reject("array-announces-more-than-present:no-element-bytes")
		}
		// keep scanning the present elements to name the first defect, but the verdict is reject
	}
	msgs := make([]msg, 0, min64(n, uint64(r.left())))
	for i := uint64(0); i < n; i++ {
		if r.left() == 0 {
			return reject("array-announces-more-than-present:elements-missing")
		}
		h := r.b[r.pos]
		var k uint64
		switch {
		case h >= 0x80 && h <= 0x8f:
			r.pos++
			k = uint64(h & 0x0f)
		case h == 0xde:
			r.pos++
			v, ok := r.be(2)
			if !ok {
				return reject("truncated-element")
			}
			k = v
			lenient = lenient || k < 16
		case h == 0xdf:
			r.pos++
			v, ok := r.be(4)
			if !ok {
				return reject("truncated-element")
			}
			k = v
			lenient = lenient || k < 65536
		default:
			return reject("element-not-a-map")
		}
		var m msg
		seen := map[string]bool{}
		for j := uint64(0); j < k; j++ {
			name, kind, minimal := r.readStr()
			switch kind {
			case "short":
				return reject("truncated-element")
			case "other":
				return reject("map-key-not-a-string")
			case "bin":
				if unspec == "" {
					unspec = "bin-as-map-key"
				}
			}
			lenient = lenient || !minimal
			if seen[name] && unspec == "" {
				unspec = "duplicate-key"
			}
			switch name {
			case "key", "value":
				s, kd, mn := r.readStr()
				switch kd {
				case "short":
					return reject("truncated-element")
				case "other":
					return reject("wrong-type:" + name)
				case "bin":
					if unspec == "" {
						unspec = "bin-for-string-field"
					}
				}
				lenient = lenient || !mn
				if name == "key" {
					m.Key = s
				} else {
					m.Value = s
				}
			case "level":
				v, big, kd, mn := r.readInt()
				switch kd {
				case "short":
					return reject("truncated-element")
				case "other":
					return reject("wrong-type:level")
				}
				if big || v < 0 || v > 255 {
					return reject("level-out-of-uint8-range")
				}
				lenient = lenient || !mn
				m.Level = uint8(v)
			case "isOldInput":
				if r.left() == 0 {
					return reject("truncated-element")
				}
				switch r.b[r.pos] {
				case 0xc2:
					m.Old = false
				case 0xc3:
					m.Old = true
				default:
					return reject("wrong-type:isOldInput")
				}
				r.pos++
			default:
				if !r.skip(0) {
					return reject("truncated-or-invalid-unknown-field")
				}
				if unspec == "" {
					unspec = "unknown-key"
				}
			}
			seen[name] = true
		}
		if !(seen["key"] && seen["value"] && seen["level"] && seen["isOldInput"]) {
			res.Absent = true
		}
		msgs = append(msgs, m)
	}
	if r.left() != 0 {
		return reject("trailing-bytes")
	}
	res.Msgs = msgs
	switch {
	case unspec != "":
		res.V, res.Reason = vUnspec, unspec
	case res.Absent:
		// whether a map lacking fields is a well-formed message is not said: it may be refused, or read
		// with zero values for the absent fields — never with anything else
		res.V, res.Reason = vLenient, "fields-absent"
	case lenient:
		res.V, res.Reason = vLenient, "non-minimal-width"
	default:
		res.V = vAccept
	}
	return res
}

func min64(a, b uint64) int {
	if a < b {
		return int(a)
	}
	return int(b)
}

// ---- helpers on message lists ----

func flashOf(ms []msg) []msg {
	out := []msg{}
	for _, m := range ms {
		if !m.Old {
			out = append(out, m)
		}
	}
	return out
}

func oldOf(ms []msg) []msg {
	out := []msg{}
	for _, m := range ms {
		if m.Old {
			out = append(out, msg{Key: m.Key, Value: m.Value, Old: true})
		}
	}
	return out
}

func sortMsgs(ms []msg) []msg {
	out := append([]msg(nil), ms...)
	sort.Slice(out, func(i, j int) bool {
		a, b := out[i], out[j]
		if a.Old != b.Old {
			return !a.Old
		}
		if a.Key != b.Key {
			return a.Key < b.Key
		}
		if a.Value != b.Value {
			return a.Value < b.Value
		}
		return a.Level < b.Level
	})
	return out
}

func eqMsgs(a, b []msg) bool {
	if len(a) != len(b) {
		return false
	}
	for i := range a {
		if a[i] != b[i] {
			return false
		}
	}
	return true
}
