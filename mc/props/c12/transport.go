package main

// The cookie carries MessagePack; how those bytes are wrapped into a cookie value (today: not at all)
// is learnt from the server's own Set-Cookie for a known message set, so that the hostile-value part
// keeps judging "the encoding the server itself emits" if the wrapping changes (hex, base64...).

import (
	"bytes"
	"encoding/base64"
	"encoding/hex"

	"github.com/gofiber/fiber/v3"
)

type transport struct {
	Name string
	enc  func([]byte) []byte
	dec  func([]byte) ([]byte, bool)
}

func b64(name string, e *base64.Encoding) transport {
	return transport{name,
		func(b []byte) []byte { return []byte(e.EncodeToString(b)) },
		func(v []byte) ([]byte, bool) { d, err := e.DecodeString(string(v)); return d, err == nil }}
}

var transports = []transport{
	{"raw", func(b []byte) []byte { return b }, func(v []byte) ([]byte, bool) { return v, true }},
	{"hex", func(b []byte) []byte { return []byte(hex.EncodeToString(b)) },
		func(v []byte) ([]byte, bool) { d, err := hex.DecodeString(string(v)); return d, err == nil }},
	b64("base64-std", base64.StdEncoding), b64("base64-url", base64.URLEncoding),
	b64("base64-rawstd", base64.RawStdEncoding), b64("base64-rawurl", base64.RawURLEncoding),
}

// detectTransport asks the server to redirect with one known message and matches the Set-Cookie value.
func detectTransport() (transport, bool) {
	app := fiber.New()
	known := msg{Key: "probe", Value: "transport", Level: 200}
	app.Get("/r", func(c fiber.Ctx) error { return c.Redirect().With(known.Key, known.Value, known.Level).To("/") })
	_ = app.Handler()
	out, _ := serve(app.Server(), []byte("GET /r HTTP/1.1\r\nHost: "+host+"\r\n\r\n"))
	j := newJar()
	j.receive(parseResponse(out), host, "/r")
	v, _ := j.get(fiber.FlashCookieName)
	want := encMsgs([]msg{known})
	for _, t := range transports {
		if bytes.Equal(t.enc(want), v) {
			return t, true
		}
	}
	return transports[0], false
}

// refDecodeValue is the reference verdict for a cookie value under transport t.
func refDecodeValue(t transport, value []byte) refResult {
	payload, ok := t.dec(value)
	if !ok {
		return refResult{V: vReject, Reason: "not-a-" + t.Name + "-string"}
	}
	res := refDecode(payload)
	if !bytes.Equal(t.enc(payload), value) && (res.V == vAccept) {
		// e.g. upper-case hex digits: an alternative spelling of the same bytes
		res.V, res.Reason = vLenient, "non-canonical-"+t.Name
	}
	return res
}
