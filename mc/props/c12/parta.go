package main

// Part (a): message sets x a conforming client, four/five requests on the wire.

import (
	"fmt"
	"sort"
	"strings"

	"github.com/gofiber/fiber/v3"
	"github.com/valyala/fasthttp"

	"verifmc/core"
	"verifmc/fx"
)

const host = "app.example.com"

// target is the redirect target: a nested path, so that an expiring Set-Cookie without Path=/ (default-path /x/y)
// does not match the stored cookie (Path=/) in the client.
const target = "/x/y/t"

var alphabet = []string{"", "a", "a b", "k:v", "a,b", "é", "\x00", "\r\n", ";", `"`, strings.Repeat("z", 200)}
var smallAlphabet = []string{"a", "\x00", ";", "é"}
var levels = []uint8{0, 1, 255}

type fmsg struct {
	K, V string
	L    uint8
}
type opair struct{ K, V string }

// caseA is one message set.
type caseA struct {
	Flash []fmsg  `json:"flash"`
	Old   []opair `json:"old_input_sent"`
	Form  bool    `json:"old_input_via_form"`
}

// seen is what the follow-up handler observed.
type seen struct {
	Ran      bool   `json:"handler_ran"`
	Msgs     []msg  `json:"messages"`
	Olds     []msg  `json:"old_inputs"`
	NMsgs    int    `json:"n_messages"`
	NOlds    int    `json:"n_old_inputs"`
	Cookie   string `json:"cookie_seen"`
	ProbeBad string `json:"probe_mismatch,omitempty"`
}

// appA is one fiber app with the redirecting and the receiving handler.
type appA struct {
	app      *fiber.App
	srv      *fasthttp.Server
	cur      *caseA
	attached map[string]string // what the binder saw in request 1 (the "input attached")
	probes   []msg             // keys to probe with Message(k)/OldInput(k), with expectations
	got      seen
}

func newAppA() *appA {
	a := &appA{}
	a.app = fiber.New()
	a.app.All("/r", func(c fiber.Ctx) error {
		cs := a.cur
		r := c.Redirect()
		for _, m := range cs.Flash {
			if m.L == 0 {
				r.With(m.K, m.V)
			} else {
				r.With(m.K, m.V, m.L)
			}
		}
		if len(cs.Old) > 0 {
			m := map[string]string{}
			if cs.Form {
				_ = c.Bind().Form(m)
			} else {
				_ = c.Bind().Query(m)
			}
			a.attached = map[string]string{}
			for k, v := range m {
				a.attached[strings.Clone(k)] = strings.Clone(v)
			}
			r.WithInput()
		}
		return r.To(target)
	})
	a.app.Get(target, func(c fiber.Ctx) error {
		a.got = observe(c, a.probes)
		return c.SendString("ok")
	})
	_ = a.app.Handler()
	a.srv = a.app.Server()
	return a
}

const keepMax = 4096

// observe copies everything the redirect API exposes (strings may alias request buffers).
func observe(c fiber.Ctx, probes []msg) seen {
	s := seen{Ran: true, Msgs: []msg{}, Olds: []msg{}}
	r := c.Redirect()
	fm, oi := r.Messages(), r.OldInputs()
	s.NMsgs, s.NOlds = len(fm), len(oi)
	// a well-formed cookie cannot hold more messages than bytes; beyond keepMax only the count is kept
	if len(fm) > keepMax {
		fm = fm[:keepMax]
	}
	if len(oi) > keepMax {
		oi = oi[:keepMax]
	}
	for _, m := range fm {
		s.Msgs = append(s.Msgs, msg{Key: strings.Clone(m.Key), Value: strings.Clone(m.Value), Level: m.Level})
	}
	for _, o := range oi {
		s.Olds = append(s.Olds, msg{Key: strings.Clone(o.Key), Value: strings.Clone(o.Value), Old: true})
	}
	s.Cookie = strings.Clone(c.Cookies(fiber.FlashCookieName))
	for _, p := range probes {
		if p.Old {
			o := r.OldInput(p.Key)
			if o.Key != p.Key || o.Value != p.Value {
				s.ProbeBad = fmt.Sprintf("OldInput(%q)=%q:%q want %q:%q", p.Key, o.Key, o.Value, p.Key, p.Value)
			}
		} else {
			m := r.Message(p.Key)
			if m.Key != p.Key || m.Value != p.Value || m.Level != p.Level {
				s.ProbeBad = fmt.Sprintf("Message(%q)=%q:%q:%d want %q:%q:%d", p.Key, m.Key, m.Value, m.Level, p.Key, p.Value, p.Level)
			}
		}
	}
	return s
}

func pctAll(s string) string {
	var b strings.Builder
	for i := 0; i < len(s); i++ {
		fmt.Fprintf(&b, "%%%02X", s[i])
	}
	return b.String()
}

func buildReq1(cs *caseA) []byte {
	var q []string
	for _, o := range cs.Old {
		q = append(q, pctAll(o.K)+"="+pctAll(o.V))
	}
	qs := strings.Join(q, "&")
	if cs.Form && len(cs.Old) > 0 {
		return []byte("POST /r HTTP/1.1\r\nHost: " + host + "\r\nContent-Type: application/x-www-form-urlencoded\r\nContent-Length: " +
			fmt.Sprint(len(qs)) + "\r\n\r\n" + qs)
	}
	uri := "/r"
	if qs != "" {
		uri += "?" + qs
	}
	return []byte("GET " + uri + " HTTP/1.1\r\nHost: " + host + "\r\n\r\n")
}

func buildGet(path string, cookieHdr []byte, extra string) []byte {
	b := []byte("GET " + path + " HTTP/1.1\r\nHost: " + host + "\r\n")
	if len(cookieHdr) > 0 {
		b = append(b, "Cookie: "...)
		b = append(b, cookieHdr...)
		b = append(b, '\r', '\n')
	}
	b = append(b, extra...)
	return append(b, '\r', '\n')
}

// serve runs one request on its own connection; a handler panic is returned, not propagated.
func serve(srv *fasthttp.Server, in []byte) (out []byte, panicked any) {
	defer func() {
		if p := recover(); p != nil {
			panicked = p
		}
	}()
	out, _ = fx.Serve(srv, in)
	return out, nil
}

// expectedSet is the reference: With() overrides a flash message of the same key; old input is what
// the binder handed to the redirect in request 1.
func expectedSet(cs *caseA, attached map[string]string) []msg {
	var out []msg
	for _, m := range cs.Flash {
		dup := false
		for i := range out {
			if !out[i].Old && out[i].Key == m.K {
				out[i].Value, out[i].Level, dup = m.V, m.L, true
			}
		}
		if !dup {
			out = append(out, msg{Key: m.K, Value: m.V, Level: m.L})
		}
	}
	keys := make([]string, 0, len(attached))
	for k := range attached {
		keys = append(keys, k)
	}
	sort.Strings(keys)
	for _, k := range keys {
		out = append(out, msg{Key: k, Value: attached[k], Old: true})
	}
	return out
}

// inputClass names the hostile feature of the message set that matters first on the wire.
func inputClass(set []msg) string {
	has := func(f func(m msg) bool) bool {
		for _, m := range set {
			if f(m) {
				return true
			}
		}
		return false
	}
	inStr := func(sub string) func(m msg) bool {
		return func(m msg) bool { return strings.Contains(m.Key, sub) || strings.Contains(m.Value, sub) }
	}
	switch {
	case has(inStr("\n")) || has(inStr("\r")):
		return "CR/LF-in-key-or-value"
	case has(inStr(";")):
		return "semicolon-in-key-or-value"
	case has(inStr("\x00")):
		return "NUL-in-key-or-value"
	case has(func(m msg) bool { return m.Old }):
		return "old-input-present"
	case has(func(m msg) bool { return m.Level < 0x20 }):
		return "level-below-0x20"
	}
	return "plain-text-level-255"
}

func seenKind(s seen, want []msg, status int) string {
	switch {
	case !s.Ran:
		return fmt.Sprintf("status-%d-handler-not-run", status)
	case len(s.Msgs)+len(s.Olds) == 0:
		return "handler-saw-none"
	}
	got := sortMsgs(append(append([]msg{}, s.Msgs...), s.Olds...))
	if eqMsgs(got, sortMsgs(want)) {
		return "exact"
	}
	return "handler-saw-different-set"
}

// exchange runs the whole history for one message set.
func (a *appA) exchange(cs *caseA, l *core.Local, sample bool) {
	a.cur, a.attached = cs, nil
	l.Add("a_exchanges", 1)
	client := newJar()
	out1, p := serve(a.srv, buildReq1(cs))
	if p != nil {
		l.Violate("a/panic request=1", "handler panic while redirecting with messages", cs, fmt.Sprint(p), nil)
		return
	}
	rs1 := parseResponse(out1)
	client.receive(rs1, host, "/r")
	want := expectedSet(cs, a.attached)
	nontrivial := len(want) > 0
	if nontrivial {
		l.Add("a_nontrivial", 1)
	}
	if len(cs.Old) > 0 {
		sent := map[string]string{}
		for _, o := range cs.Old {
			sent[o.K] = o.V
		}
		if core.Key(sent) != core.Key(a.attached) {
			l.Add("a_binder_view_differs_from_sent_pairs", 1)
		}
	}
	a.probes = nil
	for _, m := range want {
		dup := false
		for _, q := range a.probes {
			dup = dup || (q.Key == m.Key && q.Old == m.Old)
		}
		if !dup {
			a.probes = append(a.probes, m)
		}
	}
	class := inputClass(want)
	_, held1 := client.get(fiber.FlashCookieName)

	// request 2: replay
	a.got = seen{}
	ck2 := client.cookieHeader(host, target)
	out2, p := serve(a.srv, buildGet(target, ck2, ""))
	if p != nil {
		l.Violate("a/panic request=2 input="+class, "handler panic on the replayed cookie", cs, fmt.Sprint(p), nil)
		a.rebuild()
		return
	}
	rs2 := parseResponse(out2)
	s2 := a.got
	client.receive(rs2, host, target)
	k2 := seenKind(s2, want, rs2.Status)
	_, held2 := client.get(fiber.FlashCookieName)

	// request 3: replay whatever is still held
	a.got = seen{}
	a.probes = nil
	ck3 := client.cookieHeader(host, target)
	out3, p := serve(a.srv, buildGet(target, ck3, ""))
	if p != nil {
		l.Violate("a/panic request=3 input="+class, "handler panic on the second replay", cs, fmt.Sprint(p), nil)
		a.rebuild()
		return
	}
	rs3 := parseResponse(out3)
	s3 := a.got

	// request 4: second client, no cookie; request 5: no cookie, but the name occurs in another header
	a.got = seen{}
	out4, _ := serve(a.srv, buildGet(target, nil, ""))
	rs4 := parseResponse(out4)
	s4 := a.got
	a.got = seen{}
	out5, _ := serve(a.srv, buildGet(target, nil, "X-Note: "+fiber.FlashCookieName+"\r\n"))
	rs5 := parseResponse(out5)
	s5 := a.got

	l.Add("evaluations", 1)
	n3 := len(s3.Msgs) + len(s3.Olds)
	l.Outcome(fmt.Sprintf("a set=%v held-after-1=%v req2=%s held-after-2=%v req3-sees=%v", nontrivial, held1, k2, held2, n3 > 0))
	mkObs := func() any {
		return map[string]any{
			"response1_status": rs1.Status, "response1_set_cookie": quoteAll(rs1.SetCookies), "client_holds_after_1": held1,
			"request2_cookie_header": bq(ck2), "response2_status": rs2.Status, "request2_saw": qSeen(s2), "request2_outcome": k2,
			"response2_set_cookie": quoteAll(rs2.SetCookies), "client_holds_after_2": held2,
			"request3_cookie_header": bq(ck3), "response3_status": rs3.Status, "request3_saw": qSeen(s3),
		}
	}
	mkFull := func() any { return map[string]any{"case": cs, "attached_old_input": a.attached} }
	if sample {
		l.Sample(map[string]any{"part": "a", "case": cs, "observed": mkObs()})
	}
	// details are rendered only for the first case of a signature
	viol := func(sig, what string, observed func() any, expected any) {
		if _, dup := l.P.Violations[sig]; dup {
			l.Violate(sig, what, nil, nil, nil)
			return
		}
		l.Violate(sig, what, mkFull(), observed(), expected)
	}

	// ---- oracle ----
	if !nontrivial {
		// nothing attached: nobody may see anything
		if len(s2.Msgs)+len(s2.Olds)+n3 > 0 {
			viol("a/messages-from-empty-set", "no message attached, yet a follow-up request sees some", mkObs, "none")
		}
	} else {
		if k2 != "exact" {
			viol("a/not-delivered input="+class,
				"the request replaying the issued Set-Cookie through a conforming client does not see exactly the attached messages/old input",
				mkObs, map[string]any{"request2_must_see": sortMsgs(want)})
		} else {
			if s2.ProbeBad != "" {
				viol("a/message-by-key-disagrees input="+class, "Message(k)/OldInput(k) disagree with Messages()/OldInputs()", func() any { return s2.ProbeBad }, nil)
			}
			if held2 {
				viol("a/cookie-not-expired-by-response-2", "the response to the request that consumed the flash cookie carries no expiring Set-Cookie; the client still holds it",
					mkObs, "Set-Cookie: fiber_flash=...; expired (Max-Age=0 or Expires in the past)")
			}
		}
		if n3 > 0 {
			viol("a/delivered-again-on-request-3", "the conforming client presents the messages a second time: request 3 sees messages",
				mkObs, "request 3 sees none")
		}
	}
	if !s4.Ran || rs4.Status != 200 || len(s4.Msgs)+len(s4.Olds) > 0 {
		viol("a/no-cookie-request-sees-messages", "a request without the cookie sees messages (or fails)", func() any { return map[string]any{"status": rs4.Status, "saw": qSeen(s4)} }, "none, 200")
	}
	if !s5.Ran || rs5.Status != 200 || len(s5.Msgs)+len(s5.Olds) > 0 {
		viol("a/no-cookie-request-sees-messages header-mentions-name", "a request without the cookie (name only mentioned in another header) sees messages (or fails)",
			func() any { return map[string]any{"status": rs5.Status, "saw": qSeen(s5)} }, "none, 200")
	}
}

func (a *appA) rebuild() { *a = *newAppA() }

func quoteAll(bs [][]byte) []string {
	out := []string{}
	for _, b := range bs {
		out = append(out, bq(b))
	}
	return out
}

// bq renders bytes as printable ASCII with \xNN escapes for everything else (never interprets UTF-8).
func bq(b []byte) string {
	var sb strings.Builder
	for _, c := range b {
		if c >= 0x20 && c < 0x7f && c != '\\' {
			sb.WriteByte(c)
		} else {
			fmt.Fprintf(&sb, "\\x%02x", c)
		}
	}
	return sb.String()
}

// qSeen makes the raw cookie printable.
func qSeen(s seen) seen {
	s.Cookie = bq([]byte(s.Cookie))
	return s
}

// ---- enumeration ----

func flashSingles(alpha []string) []fmsg {
	var out []fmsg
	for _, k := range alpha {
		for _, v := range alpha {
			for _, lv := range levels {
				out = append(out, fmsg{k, v, lv})
			}
		}
	}
	return out
}

func oldSingles(alpha []string) []opair {
	var out []opair
	for _, k := range alpha {
		for _, v := range alpha {
			out = append(out, opair{k, v})
		}
	}
	return out
}

// family is a sub-product of the case space, addressed by index.
type family struct {
	name string
	n    int
	at   func(i int) caseA
}

func familiesA(quick bool) []family {
	f1, o1 := flashSingles(alphabet), oldSingles(alphabet)
	fs, os := flashSingles(smallAlphabet), oldSingles(smallAlphabet)
	fam := []family{
		{"<=1 flash x <=1 old (full alphabet)", (len(f1) + 1) * (len(o1) + 1), func(i int) caseA {
			fi, oi := i%(len(f1)+1), i/(len(f1)+1)
			var c caseA
			if fi > 0 {
				c.Flash = []fmsg{f1[fi-1]}
			}
			if oi > 0 {
				c.Old = []opair{o1[oi-1]}
			}
			return c
		}},
		{"2 flash, no old (full alphabet)", len(f1) * len(f1), func(i int) caseA {
			return caseA{Flash: []fmsg{f1[i%len(f1)], f1[i/len(f1)]}}
		}},
		{"2 old, no flash (full alphabet, query)", len(o1) * len(o1), func(i int) caseA {
			return caseA{Old: []opair{o1[i%len(o1)], o1[i/len(o1)]}}
		}},
		{"<=2 old via form body, no flash (full alphabet)", len(o1) * (len(o1) + 1), func(i int) caseA {
			c := caseA{Form: true, Old: []opair{o1[i%len(o1)]}}
			if j := i / len(o1); j > 0 {
				c.Old = append(c.Old, o1[j-1])
			}
			return c
		}},
	}
	// 2 x 2 and the mixed 2 x 1 / 1 x 2 products use a reduced alphabet on the doubled side
	tiny := []string{"a", ";"}
	ft, ot := flashSingles(tiny), oldSingles(tiny)
	two22 := func(name string, fl []fmsg, ol []opair) family {
		return family{name, len(fl) * len(fl) * len(ol) * len(ol), func(i int) caseA {
			a, i := i%len(fl), i/len(fl)
			b, i := i%len(fl), i/len(fl)
			c, d := i%len(ol), i/len(ol)
			return caseA{Flash: []fmsg{fl[a], fl[b]}, Old: []opair{ol[c], ol[d]}}
		}}
	}
	if quick {
		fam = append(fam, two22("2 flash x 2 old (alphabet {a,;})", ft, ot))
	} else {
		fam = append(fam, two22("2 flash x 2 old (alphabet {a,NUL,;,é})", fs, os),
			family{"2 flash (full alphabet) x 1 old (alphabet {a,;})", len(f1) * len(f1) * len(ot), func(i int) caseA {
				a, i := i%len(f1), i/len(f1)
				b, c := i%len(f1), i/len(f1)
				return caseA{Flash: []fmsg{f1[a], f1[b]}, Old: []opair{ot[c]}}
			}},
			family{"1 flash (full alphabet) x 2 old (alphabet {a,NUL,;,é})", len(f1) * len(os) * len(os), func(i int) caseA {
				a, i := i%len(f1), i/len(f1)
				b, c := i%len(os), i/len(os)
				return caseA{Flash: []fmsg{f1[a]}, Old: []opair{os[b], os[c]}}
			}})
	}
	return fam
}

const blockA = 2048

func runPartA(r *core.Run) (bounds map[string]any) {
	fams := familiesA(r.Quick())
	type blk struct{ f, from, to int }
	var blocks []blk
	bounds = map[string]any{}
	for fi, f := range fams {
		bounds[f.name] = f.n
		for from := 0; from < f.n; from += blockA {
			to := from + blockA
			if to > f.n {
				to = f.n
			}
			blocks = append(blocks, blk{fi, from, to})
		}
	}
	r.Parallel(len(blocks), func(bi int, l *core.Local) {
		if r.Expired() {
			r.Cap("budget expired in part (a)")
			return
		}
		b := blocks[bi]
		a := newAppA()
		for i := b.from; i < b.to; i++ {
			cs := fams[b.f].at(i)
			a.exchange(&cs, l, i == b.from+7 && bi%41 == 0)
		}
	})
	return bounds
}
