// C12 — flash messages and old input survive the redirect round trip intact, only once.
//
// Part (a): message sets x an RFC 6265 client, 5 requests per history, on the wire.
// Part (b): hostile cookie values (all short byte strings + a MessagePack grammar product)
//
//	against a strict reference decoder; allocation budget; process death in a child.
//
// Part (c): the round trip under varied scenarios (transport seam, call programs on the Redirect, Config /
//
//	custom ctx, where the target is registered, how the redirect is issued, what the consuming
//	handler does, what else the client holds), see partc.go.
package main

import (
	"flag"
	"fmt"
	"os"
	"runtime/pprof"

	"verifmc/core"
)

var (
	flagSize = flag.Int("sizecase", -1, "run one hostile-size case in this process (internal)")
	flagPart = flag.String("part", "abc", "which parts to run (debug): any of a, b, c")
)

func main() {
	core.SuperviseSelf("C12") // a runtime fatal error inside the code under test (part C serves on several goroutines) is a finding
	r := core.Start("C12")
	if pf := os.Getenv("C12_CPUPROFILE"); pf != "" && (!r.IsWorker() || os.Getenv("C12_PROFILE_WORKER") != "") {
		f, _ := os.Create(pf)
		_ = pprof.StartCPUProfile(f)
		defer pprof.StopCPUProfile()
	}
	var known bool
	if theTransport, known = detectTransport(); !known {
		r.Note("the server's Set-Cookie for a known message is none of raw/hex/base64 MessagePack; part (b) injects raw MessagePack")
	}
	if *flagSize >= 0 {
		runSizeChild(r, *flagSize)
		return
	}
	if r.IsWorker() {
		runPartBWorker(r)
		pprof.StopCPUProfile()
		r.FinishWorker()
		return
	}
	boundsA := map[string]any{}
	if has(*flagPart, 'a') {
		boundsA = runPartA(r)
	}
	boundsB := map[string]any{}
	if has(*flagPart, 'b') {
		boundsB = runPartB(r)
	}
	boundsC := map[string]any{}
	if has(*flagPart, 'c') {
		boundsC = runPartC(r)
	}
	c := r.P.Counters
	ev := core.Evidence{
		Level:       "exploration",
		Exhaustive:  true,
		MinOutcomes: 4,
		Coverage: map[string]any{
			"evaluations":         c["evaluations"],
			"distinct_nontrivial": c["a_nontrivial"] + c["b_nontrivial"] + c["c_nontrivial"],
			"rule": fmt.Sprintf("(a) every message set of the listed families (<=2 flash messages x <=2 old-input pairs, keys/values over the 11-string hostile alphabet, levels {0,1,255}) "+
				"is driven through 5 wire requests (redirect; RFC 6265 mini-client replays Set-Cookie; second replay; cookie-less client; cookie-less request mentioning the name); "+
				"non-trivial = at least one message attached. (b) every byte string of length <=%d and every member of the MessagePack grammar product "+
				"(array header forms x announced counts x element sequences) is injected as fiber_flash value twice (wire Cookie header; request-header object after a wire parse), "+
				"each time right after a request with a rich valid cookie on the same app; non-trivial = the value starts with a complete array header (the decoder gets past the header). "+
				"Each case is compared with an independent strict reference decoder; allocation per request is measured with MemStats.TotalAlloc in single-threaded child processes. "+
				"(c) every member of three families — every call program (sequences of With / With+level / WithInput, level and length sweeps, 3..41 messages) x 2 seams x 4 configurations x 4 registrations of the target; "+
				"one scenario dimension at a time (issue kind x status, consuming-handler behaviour, other cookies held by the client, Cookie header-name spelling) x programs x seams x cfg x shape; "+
				"a full cross of core values x 4 programs — is driven through 5 requests (redirect; the RFC 6265 client follows the Location; follow-up or chained redirect; same client again; cookie-less client) "+
				"over the wire and over a lossless object seam; non-trivial = at least one call on the Redirect.",
				c["b_maxlen"]),
			"bounds": map[string]any{"part_a_families": boundsA, "part_b": boundsB, "part_c": boundsC},
		},
		Assumptions: []string{
			"the client model is RFC 6265 §5 (no RFC 6265bis control-character rejection); it uses the real clock only to decide whether an Expires/Max-Age lies in the past",
			"old input attached to the redirect = what fiber's own binder returns for request 1 (binder semantics are not judged here)",
			"order of Messages()/OldInputs() after a round trip is not specified: part (a) compares multisets; part (b) compares sequences in array order",
			"values with unknown/duplicate map keys or bin-typed strings are outside the statement (unspecified_skipped): only no-panic and the allocation budget are checked",
			"well-formed MessagePack of the right types in non-minimal widths, and maps lacking some of the four fields, may be refused or decoded exactly (absent = zero value), nothing else",
			"a valid encoding followed by extra bytes counts as not well-formed (reported under its own signature class=trailing-bytes)",
			"fiber's WithInput ranges over a Go map, so the order of two old-input pairs inside the cookie varies between runs: per-signature counts of part (a) may differ by a fraction of a percent, the signature set does not",
			"the request-header seam (cookie set on the parsed request object) reaches the decoder with bytes fasthttp's wire parser refuses; it is what app.Handler() callers and redirect_test use",
			"part (c) object seam: the RFC 6265 client model exchanges Set-Cookie / Cookie field values with the response / request objects (request head parsed from its wire form with placeholder cookie values, real values set on the object). Delivery over this lossless transport is a necessary condition of the statement's delivery over a real exchange; it is the only way old input (level 0 = NUL in the raw-MessagePack cookie) is judged positively. Sets whose encoding holds ';', CR or LF are not judged there (unspecified_skipped)",
			"part (c) wire seam: message sets that cannot travel for the known raw-MessagePack reason keep the part (a) signatures (a/not-delivered input=...); sets outside the five known input classes whose level / length / count byte is a control byte, DEL or ';', and cookies above 2048 bytes, are not judged over the wire (unspecified_skipped; the object seam judges them)",
			"part (c): the old input a request 'has' is what fiber's binder returns for it (query for GET, form for urlencoded and multipart bodies); a request never carries both; the client follows 301/302/303 with GET and repeats method and entity after 307/308 (RFC 9110 15.4)",
			"part (c): a redirect call that fails (Back without Referer and fallback) attaches nothing the statement speaks of: only 'the next request sees none' is checked; Route with an unknown name answers 3xx with an empty Location: the client's own next request to the target is taken as the one carrying the issued cookie",
		},
	}
	pprof.StopCPUProfile()
	r.Finish(ev)
}

// theTransport is how the server wraps the MessagePack bytes into the cookie value (learnt at start).
var theTransport = transports[0]

func has(s string, c byte) bool {
	for i := 0; i < len(s); i++ {
		if s[i] == c {
			return true
		}
	}
	return false
}
