// C12 — flash messages and old input survive the redirect round trip intact, only once.
//
// Part (a): message sets x an RFC 6265 client, 5 requests per history, on the wire.
// Part (b): hostile cookie values (all short byte strings + a MessagePack grammar product)
//           against a strict reference decoder; allocation budget; process death in a child.
package main

import (
	"flag"
	"fmt"
	"os"
	"runtime/pprof"

	"verifmc/core"
)

var (
	flagSize = flag.Int("sizecase", -1, "run one hostile-size case in this process (internal)")
	flagPart = flag.String("part", "ab", "which parts to run (debug): a, b, ab")
)

func main() {
	r := core.Start("C12")
	if pf := os.Getenv("C12_CPUPROFILE"); pf != "" && (!r.IsWorker() || os.Getenv("C12_PROFILE_WORKER") != "") {
		f, _ := os.Create(pf)
		_ = pprof.StartCPUProfile(f)
		defer pprof.StopCPUProfile()
	}
	var known bool
	if theTransport, known = detectTransport(); !known {
		r.Note("the server's Set-Cookie for a known message is none of raw/hex/base64 MessagePack; part (b) injects raw MessagePack")
	}
	if *flagSize >= 0 {
		runSizeChild(r, *flagSize)
		return
	}
	if r.IsWorker() {
		runPartBWorker(r)
		pprof.StopCPUProfile()
		r.FinishWorker()
		return
	}
	boundsA := map[string]any{}
	if has(*flagPart, 'a') {
		boundsA = runPartA(r)
	}
	boundsB := map[string]any{}
	if has(*flagPart, 'b') {
		boundsB = runPartB(r)
	}
	c := r.P.Counters
	ev := core.Evidence{
		Level:       "exploration",
		Exhaustive:  true,
		MinOutcomes: 4,
		Coverage: map[string]any{
			"evaluations":         c["evaluations"],
			"distinct_nontrivial": c["a_nontrivial"] + c["b_nontrivial"],
			"rule": fmt.Sprintf("(a) every message set of the listed families (<=2 flash messages x <=2 old-input pairs, keys/values over the 11-string hostile alphabet, levels {0,1,255}) "+
				"is driven through 5 wire requests (redirect; RFC 6265 mini-client replays Set-Cookie; second replay; cookie-less client; cookie-less request mentioning the name); "+
				"non-trivial = at least one message attached. (b) every byte string of length <=%d and every member of the MessagePack grammar product "+
				"(array header forms x announced counts x element sequences) is injected as fiber_flash value twice (wire Cookie header; request-header object after a wire parse), "+
				"each time right after a request with a rich valid cookie on the same app; non-trivial = the value starts with a complete array header (the decoder gets past the header). "+
				"Each case is compared with an independent strict reference decoder; allocation per request is measured with MemStats.TotalAlloc in single-threaded child processes.",
				c["b_maxlen"]),
			"bounds": map[string]any{"part_a_families": boundsA, "part_b": boundsB},
		},
		Assumptions: []string{
			"the client model is RFC 6265 §5 (no RFC 6265bis control-character rejection); it uses the real clock only to decide whether an Expires/Max-Age lies in the past",
			"old input attached to the redirect = what fiber's own binder returns for request 1 (binder semantics are not judged here)",
			"order of Messages()/OldInputs() after a round trip is not specified: part (a) compares multisets; part (b) compares sequences in array order",
			"values with unknown/duplicate map keys or bin-typed strings are outside the statement (unspecified_skipped): only no-panic and the allocation budget are checked",
			"well-formed MessagePack of the right types in non-minimal widths, and maps lacking some of the four fields, may be refused or decoded exactly (absent = zero value), nothing else",
			"a valid encoding followed by extra bytes counts as not well-formed (reported under its own signature class=trailing-bytes)",
			"fiber's WithInput ranges over a Go map, so the order of two old-input pairs inside the cookie varies between runs: per-signature counts of part (a) may differ by a fraction of a percent, the signature set does not",
			"the request-header seam (cookie set on the parsed request object) reaches the decoder with bytes fasthttp's wire parser refuses; it is what app.Handler() callers and redirect_test use",
		},
	}
	pprof.StopCPUProfile()
	r.Finish(ev)
}

// theTransport is how the server wraps the MessagePack bytes into the cookie value (learnt at start).
var theTransport = transports[0]

func has(s string, c byte) bool {
	for i := 0; i < len(s); i++ {
		if s[i] == c {
			return true
		}
	}
	return false
}
