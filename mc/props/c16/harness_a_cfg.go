package main

// Configuration dimension "redundant / conflicting fields" of harness A.
//
// csrf.Config has fields that the documentation declares ignored or overridden in the presence of
// another field:
//
//	KeyLookup    "Ignored if an Extractor is explicitly set"
//	CookieName   "Overridden if KeyLookup == cookie:<name>"
//	Storage      "Ignored if Session is set"
//	expiration   "CookieSessionOnly ... Ignores Expiration if set to true"
//
// The statement quantifies over configurations and speaks of "the configured extractor" and "the
// CSRF cookie"; it must therefore hold whatever is left over in the ignored fields. The token
// life-cycle histories of harness A are run for the product
//
//	explicit Extractor {header, form, query, param, cookie (the CSRF cookie), cookie2 (another cookie)}
//	  x left-over KeyLookup {unset, cookie:<CSRF cookie>, cookie:<other>, header:<same>, header:<other>, form:, query:, param:}
//	KeyLookup-derived and explicit extractors x CookieName {explicit default, custom} x KeyLookup cookie names that agree / disagree with it
//	Session + Storage (a decoy storage that answers every Get with a value), CookieSessionOnly + IdleTimeout
//
// The oracle is the one of the canonical configurations. What "the configured extractor" reads is
// taken from the documentation (an explicit Extractor wins over KeyLookup); which cookie is "the
// CSRF cookie" is OBSERVED (resolve: the cookie in which a safe request leaves the generated
// token), never derived from KeyLookup/CookieName by the harness.

import (
	"fmt"
	"sort"
	"strings"
	"time"

	"github.com/gofiber/fiber/v3"
	"github.com/gofiber/fiber/v3/middleware/csrf"
	"github.com/valyala/fasthttp"

	"verifmc/fx"
)

const (
	otherCookie = "other_" // cookie named only by a left-over KeyLookup
	tokCookie2  = "tokc"   // cookie read by the explicit extractor of kind cookie2
)

// docCookieName is the cookie name an application author asks for with CookieName.
func (c cfgA) docCookieName() string {
	if c.CookieName != "" {
		return c.CookieName
	}
	return "csrf_"
}

// keyLookup is the KeyLookup text written in the Config ("" = field unset).
func (c cfgA) keyLookup() string {
	if c.Explicit || c.Lookup != "" {
		return c.Lookup
	}
	return lookups[c.Extractor]
}

// canonical configurations are those of the original harness: extractor derived from its canonical
// KeyLookup, nothing else set.
func (c cfgA) canonical() bool {
	return !c.Explicit && c.Lookup == "" && c.CookieName == "" && !c.SessOnly && !c.DecoyStore && !c.Defaults
}

// extractorText is the Go expression of the explicit extractor.
func (c cfgA) extractorText() string {
	switch c.Extractor {
	case "header":
		return `csrf.FromHeader("X-Csrf-Token")`
	case "form":
		return `csrf.FromForm("_csrf")`
	case "query":
		return `csrf.FromQuery("_csrf")`
	case "param":
		return `csrf.FromParam("_csrf")`
	case "cookie":
		return fmt.Sprintf("csrf.FromCookie(%q)", c.docCookieName())
	case "cookie2":
		return fmt.Sprintf("csrf.FromCookie(%q)", tokCookie2)
	}
	return "?"
}

// wiring describes the non-canonical part of the configuration ("" for canonical ones).
func (c cfgA) wiring() string {
	if c.canonical() {
		return ""
	}
	var p []string
	if c.Explicit {
		p = append(p, "Extractor="+c.extractorText())
	}
	if c.Explicit || c.Lookup != "" {
		p = append(p, fmt.Sprintf("KeyLookup=%q", c.Lookup))
	}
	if c.CookieName != "" {
		p = append(p, fmt.Sprintf("CookieName=%q", c.CookieName))
	}
	if c.SessOnly {
		p = append(p, "CookieSessionOnly=true")
	}
	if c.DecoyStore {
		p = append(p, "Storage=set-next-to-Session")
	}
	if c.Defaults {
		p = append(p, "IdleTimeout+ErrorHandler=unset")
	}
	return strings.Join(p, ",")
}

// literal is the csrf.Config literal of the configuration (for the violation case).
func (c cfgA) literal() string {
	var p []string
	if c.Explicit {
		p = append(p, "Extractor: "+c.extractorText())
	}
	if kl := c.keyLookup(); kl != "" {
		p = append(p, fmt.Sprintf("KeyLookup: %q", kl))
	}
	if c.CookieName != "" {
		p = append(p, fmt.Sprintf("CookieName: %q", c.CookieName))
	}
	if c.SessOnly {
		p = append(p, "CookieSessionOnly: true")
	}
	p = append(p, fmt.Sprintf("SingleUseToken: %v", c.SingleUse))
	if !c.Defaults {
		p = append(p, "IdleTimeout: "+idle.String())
	}
	switch c.Backend {
	case "storage":
		p = append(p, "Storage: <injected storage>")
	case "session-direct", "session-mw":
		p = append(p, "Session: <session store on the injected storage>")
	}
	if c.DecoyStore {
		p = append(p, "Storage: <second storage, every Get returns a value>")
	}
	return "csrf.Config{" + strings.Join(p, ", ") + "}"
}

// sigSuffix classifies the non-canonical part for violation signatures: the kind of each redundant
// field, never its exact spelling ("" for canonical configurations, whose signatures are unchanged).
func (c cfgA) sigSuffix() string {
	if c.Method != "" {
		// application-defined request methods dimension; main folds the qualifier away when the same
		// signature shows with POST on a default app
		c2 := c
		c2.Method = ""
		return c2.sigSuffix() + " unsafe-method=" + methodClassB(c.Method)
	}
	if c.canonical() {
		return ""
	}
	var p []string
	if c.Explicit {
		p = append(p, "explicit-extractor")
		if c.Lookup != "" {
			p = append(p, "leftover-keylookup="+strings.SplitN(c.Lookup, ":", 2)[0])
		}
	} else if c.Lookup != "" {
		p = append(p, "keylookup="+strings.SplitN(c.Lookup, ":", 2)[0])
	}
	if c.CookieName != "" {
		p = append(p, "cookiename-set")
	}
	if c.SessOnly {
		p = append(p, "cookie-session-only")
	}
	if c.DecoyStore {
		p = append(p, "storage-next-to-session")
	}
	if c.Defaults {
		p = append(p, "idle-timeout-default")
	}
	return " config=" + strings.Join(p, "+")
}

// apply writes the extractor wiring into the csrf.Config.
func (c cfgA) apply(cc *csrf.Config) {
	cc.KeyLookup = c.keyLookup()
	cc.CookieName = c.CookieName
	cc.CookieSessionOnly = c.SessOnly
	if !c.Explicit {
		return
	}
	switch c.Extractor {
	case "header":
		cc.Extractor = csrf.FromHeader("X-Csrf-Token")
	case "form":
		cc.Extractor = csrf.FromForm("_csrf")
	case "query":
		cc.Extractor = csrf.FromQuery("_csrf")
	case "param":
		cc.Extractor = csrf.FromParam("_csrf")
	case "cookie":
		cc.Extractor = csrf.FromCookie(c.docCookieName())
	case "cookie2":
		cc.Extractor = csrf.FromCookie(tokCookie2)
	default:
		panic("unknown extractor " + c.Extractor)
	}
}

// sameSlot: the configured extractor reads the CSRF cookie itself, so "token matches the CSRF
// cookie" holds by construction and a request cannot present two different values.
func (c cfgA) sameSlot() bool { return c.TokCookie != "" && c.TokCookie == c.CkName }

// decoyCookie is the cookie named only by a left-over "cookie:<name>" KeyLookup (neither the CSRF
// cookie nor the cookie the extractor reads); unsafe requests send the presented token in it too.
func (c cfgA) decoyCookie() string {
	if !c.Explicit || !strings.HasPrefix(c.Lookup, "cookie:") {
		return ""
	}
	n := strings.TrimPrefix(c.Lookup, "cookie:")
	if n == "" || n == c.CkName || n == c.TokCookie {
		return ""
	}
	return n
}

// requestShape tells where an unsafe request of the history carries its values.
func (c cfgA) requestShape() string {
	slot := map[string]string{"header": "header X-Csrf-Token", "form": "urlencoded body field _csrf", "query": "query parameter _csrf", "param": "route parameter :_csrf"}[c.Extractor]
	if c.TokCookie != "" {
		slot = "cookie " + c.TokCookie
	}
	sh := "token in " + slot + "; cookie value in CSRF cookie " + c.CkName
	if c.sameSlot() {
		sh = "token = CSRF cookie " + c.CkName + " (the extractor reads the CSRF cookie itself)"
	}
	if dc := c.decoyCookie(); dc != "" {
		sh += "; cookie " + dc + " (named only by the left-over KeyLookup) repeats the token"
	}
	return sh
}

// resolve fills the derived fields. TokCookie follows the documentation (explicit Extractor wins,
// otherwise KeyLookup); CkName is observed on a throw-away instance: the cookie in which a safe
// request leaves the token it generated. If no cookie carries it, the documented name is used and
// the safe-request oracle reports the missing cookie.
func resolve(c cfgA) cfgA {
	c.TokCookie = ""
	switch {
	case c.Explicit && c.Extractor == "cookie":
		c.TokCookie = c.docCookieName()
	case c.Explicit && c.Extractor == "cookie2":
		c.TokCookie = tokCookie2
	case !c.Explicit && c.Extractor == "cookie":
		c.TokCookie = strings.TrimPrefix(c.keyLookup(), "cookie:")
	}
	s := newSut(c)
	path := "/"
	if c.Extractor == "param" {
		path = "/page"
	}
	req := fx.Req("GET", path)
	req.Header.SetHost("example.com")
	if s.st != nil {
		s.st.beginOp(-1)
	}
	fx.CallInto(&s.fctx, s.h, req, nil, false)
	var names []string
	s.fctx.Response.Header.VisitAllCookie(func(k, v []byte) {
		var ck fasthttp.Cookie
		if err := ck.ParseBytes(v); err != nil {
			return
		}
		if s.issued[string(ck.Value())] {
			names = append(names, string(ck.Key()))
		}
	})
	sort.Strings(names)
	if len(names) > 0 {
		c.CkName = names[0]
	} else if c.TokCookie != "" && !c.Explicit {
		c.CkName = c.TokCookie
	} else {
		c.CkName = c.docCookieName()
	}
	return c
}

// yesStore is the decoy Config.Storage of configurations that also set Config.Session: if the
// middleware consulted it, every token (also a never issued one) would be found.
type yesStore struct{}

func (yesStore) Get(string) ([]byte, error)              { return []byte{'+'}, nil }
func (yesStore) Set(string, []byte, time.Duration) error { return nil }
func (yesStore) Delete(string) error                     { return nil }
func (yesStore) Reset() error                            { return nil }
func (yesStore) Close() error                            { return nil }

var _ fiber.Storage = yesStore{}

// leftoverLookups are the KeyLookup spellings left next to an explicit Extractor.
var leftoverLookups = []string{"", "cookie:csrf_", "cookie:" + otherCookie, "header:X-Csrf-Token", "header:X-Other", "form:_csrf", "query:_csrf", "param:_csrf"}

// rcfConfigs enumerates the redundant / conflicting configurations (all without injected storage
// failures: the failure paths do not depend on the extractor wiring).
func rcfConfigs(depth, depthSess int, all []int) []cfgA {
	var out []cfgA
	sus := []bool{false, true}
	// 1. explicit Extractor x left-over KeyLookup
	for _, ext := range []string{"header", "form", "query", "param", "cookie", "cookie2"} {
		for _, lk := range leftoverLookups {
			for _, su := range sus {
				out = append(out, cfgA{Extractor: ext, Backend: "storage", SingleUse: su, Depth: depth, Ticks: all, Explicit: true, Lookup: lk})
			}
		}
	}
	// 2. CookieName (explicit default / custom) x wirings whose KeyLookup cookie name agrees or disagrees with it
	type wire struct {
		explicit bool
		ext, lk  string
	}
	for _, cn := range []string{"csrf_", "xsrf"} {
		for _, w := range []wire{
			{false, "header", ""}, {false, "form", ""}, {false, "cookie", "cookie:csrf_"}, {false, "cookie", "cookie:xsrf"},
			{true, "header", ""}, {true, "header", "cookie:csrf_"}, {true, "header", "cookie:xsrf"}, {true, "query", "cookie:xsrf"},
			{true, "cookie", ""}, {true, "cookie", "header:X-Csrf-Token"}, {true, "cookie", "cookie:" + otherCookie},
			{true, "cookie2", "cookie:xsrf"}, {true, "cookie2", "cookie:" + tokCookie2},
		} {
			for _, su := range sus {
				out = append(out, cfgA{Extractor: w.ext, Backend: "storage", SingleUse: su, Depth: depth, Ticks: all, Explicit: w.explicit, Lookup: w.lk, CookieName: cn})
			}
		}
	}
	// 3. session backend: explicit Extractor x left-over KeyLookup; Storage set next to Session
	for _, su := range sus {
		for _, lk := range []string{"", "cookie:csrf_", "cookie:" + otherCookie} {
			out = append(out, cfgA{Extractor: "header", Backend: "session-direct", SingleUse: su, Depth: depthSess, Ticks: all, Explicit: true, Lookup: lk})
		}
		for _, ext := range []string{"header", "cookie"} {
			out = append(out, cfgA{Extractor: ext, Backend: "session-direct", SingleUse: su, Depth: depthSess, Ticks: all, DecoyStore: true})
		}
		out = append(out, cfgA{Extractor: "header", Backend: "session-direct", SingleUse: su, Depth: depthSess, Ticks: all, Explicit: true, Lookup: "cookie:csrf_", DecoyStore: true})
	}
	// 4. CookieSessionOnly next to IdleTimeout
	for _, su := range sus {
		for _, ext := range []string{"header", "cookie"} {
			out = append(out, cfgA{Extractor: ext, Backend: "storage", SingleUse: su, Depth: depth, Ticks: all, SessOnly: true})
		}
	}
	return out
}
