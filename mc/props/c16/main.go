// C16 — CSRF: unsafe requests pass only with a live issued token from an allowed origin.
//
// Two harnesses in one binary:
//
//	B (harness_b.go)  input product over scheme x Host x Origin x Referer x TrustedOrigins (canonical and respelt
//	                  entries; origins derived from the entries) with a valid token+cookie, so that only the
//	                  origin decision is observed; every passing combination again without a live token;
//	A (harness_a.go)  explicit-state BFS over operation histories of three clients against the real
//	                  middleware on an injected storage with a harness-owned virtual clock and at
//	                  most one injected storage failure, compared with a reference token model;
//	                  configurations: extractors x backends x single-use x faults, plus the
//	                  redundant / conflicting Config fields dimension (harness_a_cfg.go);
//	                  plus the request-layout family (harness_c.go): the same histories without state
//	                  de-duplication on ONE RequestCtx (reset between requests as fasthttp does) x
//	                  request layouts, on the middleware's own store and on an injected storage that
//	                  keeps the key strings it is given.
package main

import (
	"flag"
	"fmt"
	"os"
	"runtime/debug"
	"runtime/pprof"
	"sort"
	"strings"
	"sync"
	"time"

	"github.com/gofiber/fiber/v3/verifrt/vtime"

	"verifmc/core"
)

// collector keeps, per signature, the smallest-ordered case (deterministic whatever the goroutine
// interleaving) and the number of cases.
type collector struct {
	mu sync.Mutex
	m  map[string]*cviol
}

type cviol struct {
	ord   [4]int
	v     core.Violation
	count int64
}

func less4(a, b [4]int) bool {
	for i := range a {
		if a[i] != b[i] {
			return a[i] < b[i]
		}
	}
	return false
}

func (c *collector) add(ord [4]int, sig, what string, cs, observed, expected any) {
	c.mu.Lock()
	defer c.mu.Unlock()
	if c.m == nil {
		c.m = map[string]*cviol{}
	}
	if o, ok := c.m[sig]; ok {
		o.count++
		if less4(ord, o.ord) {
			o.ord = ord
			o.v = core.Violation{Signature: sig, What: what, Case: cs, Observed: observed, Expected: expected}
		}
		return
	}
	c.m[sig] = &cviol{ord: ord, count: 1, v: core.Violation{Signature: sig, What: what, Case: cs, Observed: observed, Expected: expected}}
}

func (c *collector) flush(r *core.Run) {
	sigs := make([]string, 0, len(c.m))
	for s := range c.m {
		sigs = append(sigs, s)
	}
	sort.Strings(sigs)
	for _, s := range sigs {
		o := c.m[s]
		r.Violate(s, o.v.What, o.v.Case, o.v.Observed, o.v.Expected)
		r.P.Violations[s].Count = o.count
	}
}

func main() {
	core.SuperviseSelf("C16") // a runtime fatal error inside the code under test is a finding, not a harness error
	only := flag.String("only", "", "run only harness A or B (debugging)")
	onlyCfg := flag.String("cfg", "", "harness A: run only configurations whose name contains this text (debugging)")
	r := core.Start("C16")
	vtime.SetClock(clock0) // constant for the whole run (set before any worker starts); see clock0
	if pf := os.Getenv("C16_CPUPROFILE"); pf != "" { // diagnostics only
		if f, err := os.Create(pf); err == nil {
			_ = pprof.StartCPUProfile(f)
		}
	}
	debug.SetGCPercent(200)  // every execution builds a fresh app: allocation-heavy, small live heap
	if r.Deadline.IsZero() { // internal budget: a capped run ends with exhaustive=false and exit 0
		if r.Quick() {
			r.Deadline = r.Start.Add(70 * time.Second)
		} else {
			r.Deadline = r.Start.Add(14 * time.Minute)
		}
	}
	col := &collector{}
	var samples []any

	if *only == "" || *only == "T" {
		runClockPart(r) // sequential, before the parallel parts (it moves the clocks and restores them)
	}
	var bInfo map[string]any
	if *only == "" || *only == "B" {
		bInfo = runB(r, col, &samples)
	}
	var cInfo map[string]any
	if *only == "" || *only == "A" || *only == "C" {
		cInfo = runC(r, col, &samples, *onlyCfg) // request-layout family of harness A (harness_c.go); before the BFS, which is the part a wall-clock cap cuts
	}
	var aInfo map[string]any
	if *only == "" || *only == "A" {
		aInfo = runA(r, col, &samples, *onlyCfg)
	}
	// application-defined request methods (harness A): a violation that the same configuration shows with POST
	// on a default app too is that violation; the qualifier stays only on what needs another method
	{
		var sigs []string
		for sg := range col.m {
			if strings.Contains(sg, " unsafe-method=") {
				sigs = append(sigs, sg)
			}
		}
		sort.Strings(sigs)
		for _, sg := range sigs {
			i := strings.Index(sg, " unsafe-method=")
			j := strings.Index(sg[i+1:], " ")
			stem := sg[:i]
			if j != -1 {
				stem += sg[i+1+j:]
			}
			if t, ok := col.m[stem]; ok {
				t.count += col.m[sg].count
				delete(col.m, sg)
			}
		}
	}
	col.flush(r)
	// anti-vacuity: the interesting mechanisms must have been exercised
	if bInfo != nil && (r.P.Counters["B.judged_reached"] == 0 || r.P.Counters["B.judged_rejected"] == 0) {
		core.Fatal("vacuous harness B: judged_reached=%d judged_rejected=%d", r.P.Counters["B.judged_reached"], r.P.Counters["B.judged_rejected"])
	}
	if bInfo != nil && r.P.Counters["B.appmethods.own_verb_with_live_token_reached"] == 0 {
		core.Fatal("vacuous harness B: no request with an application-defined method and a live token ever reached the handler")
	}
	if aInfo != nil && *onlyCfg == "" && len(r.P.Caps) == 0 {
		if r.P.Counters["A.agree_pass"] == 0 {
			core.Fatal("vacuous harness A: no unsafe request with a live token ever reached the handler")
		}
		for _, need := range []string{"forbids:consumed", "forbids:expired", "forbids:deleted", "forbids:not-issued", "forbids:token-cookie-mismatch"} {
			found := false
			for k := range r.P.Outcomes {
				found = found || (strings.Contains(k, need) && strings.Contains(k, "reached=false"))
			}
			if !found {
				core.Fatal("vacuous harness A: no rejected request of class %s", need)
			}
		}
		// the redundant / conflicting configurations must exercise the same mechanisms
		for _, need := range []string{"A.rcf.agree_pass", "A.rcf.agree_reject.token-cookie-mismatch", "A.rcf.agree_reject.not-issued", "A.rcf.agree_reject.expired", "A.rcf.agree_reject.consumed", "A.rcf.agree_reject.deleted"} {
			if r.P.Counters[need] == 0 {
				core.Fatal("vacuous harness A: counter %s is 0 in the redundant/conflicting-field configurations", need)
			}
		}
	}

	if cInfo != nil && *onlyCfg == "" && len(r.P.Caps) == 0 {
		// the life-cycle classes must have been exercised on the shared RequestCtx as well as on fresh ones
		for _, cx := range []string{"shared", "fresh"} {
			for _, need := range []string{"agree_pass", "agree_reject.deleted", "agree_reject.consumed", "agree_reject.expired", "agree_reject.not-issued"} {
				if r.P.Counters["A.layouts."+cx+"."+need] == 0 {
					core.Fatal("vacuous request-layout family: counter A.layouts.%s.%s is 0", cx, need)
				}
			}
		}
	}

	if cInfo != nil && *onlyCfg == "" && len(r.P.Caps) == 0 {
		// near-miss dimension: the base token must have been live, and both rejection classes seen
		for _, need := range []string{"A.nearmiss.base_token_live", "A.nearmiss.rejected.not-issued", "A.nearmiss.rejected.token-cookie-mismatch"} {
			if r.P.Counters[need] == 0 {
				core.Fatal("vacuous near-miss dimension: counter %s is 0", need)
			}
		}
	}
	if bInfo != nil && (r.P.Counters["B.badtoken_evaluations"] == 0 || r.P.Counters["B.badtoken_rejected"] == 0) {
		core.Fatal("vacuous harness B: token state x origin dimension not exercised (evaluations=%d rejected=%d)", r.P.Counters["B.badtoken_evaluations"], r.P.Counters["B.badtoken_rejected"])
	}

	cov := map[string]any{
		"samples": samples,
		"bounds":  map[string]any{"A": aInfo["bounds"], "B": bInfo["bounds"], "A_request_layout_family": cInfo["bounds"]},
	}
	if cInfo != nil {
		cov["request_layout_family"] = cInfo
	}
	if aInfo != nil {
		// states = distinct canonical states of the de-duplicating search + history-tree nodes of the
		// request-layout family (not de-duplicated); a transition = one executed and judged operation
		nodes := 0
		if cInfo != nil {
			nodes = int(cInfo["histories"].(int64))
		}
		cov["states"] = aInfo["states"].(int) + nodes
		cov["transitions"] = aInfo["transitions"].(int) + nodes
		cov["traces_validated_against_impl"] = aInfo["traces"].(int) + nodes
		cov["max_depth"] = aInfo["max_depth"]
		cov["per_config"] = aInfo["per_config"]
		cov["time_sources"] = aInfo["time_sources"]
	}
	if bInfo != nil {
		cov["evaluations"] = r.P.Counters["B.evaluations"]
		cov["distinct_nontrivial"] = r.P.Counters["B.nontrivial"]
		cov["rule"] = bInfo["rule"]
	}
	if *only == "B" || *only == "C" {
		cov["states"], cov["transitions"], cov["traces_validated_against_impl"] = 0, 0, 0
	}
	fmt.Printf("C16 A: states=%v transitions=%v max_depth=%v | B: evaluations=%d nontrivial=%d\n",
		cov["states"], cov["transitions"], cov["max_depth"], r.P.Counters["B.evaluations"], r.P.Counters["B.nontrivial"])
	pprof.StopCPUProfile()
	r.Finish(core.Evidence{
		Level:       "model_checking",
		Exhaustive:  true,
		MinOutcomes: 6,
		Coverage:    cov,
		Assumptions: []string{
			"handler-level drive (app.Handler() on a fake connection carrying peer address and TLS flag); fasthttp request parsing is exercised as is",
			"A: the requests of a history are served by ONE fasthttp.RequestCtx that is reset between requests (user values, Request, Response) as fasthttp does on a keep-alive connection / through its ctx pool; the request-layout family repeats its histories on a fresh RequestCtx per request; a violation that disappears on fresh RequestCtxs carries the signature suffix reused-ctx-only. The bytes left in the RequestCtx buffers are not part of the canonical state key of the BFS, therefore the request-layout family does not de-duplicate states",
			"A: the injected fiber.Storage keeps the key strings it is given (as fiber's own internal/storage/memory and other map-based storages do; entries are searched by comparing key bytes, no hashing) and copies values; the middleware's own in-memory store (no Storage configured) is run as is, minus its janitor goroutine (overlay dropgo)",
			"A: time: the injected fiber.Storage decides expiry against its own virtual clock; the clocks the middleware reads itself (time.Now of package csrf: Token.Expiration of session backends, cookie Expires; utils.Timestamp of the built-in store) are held CONSTANT for the whole run through the build overlay, and a tick of a history is a time translation of what was stored with an absolute time: Token.Expiration inside every stored session blob moves into the past by the tick plus one nanosecond (a request never happens exactly on an expiry boundary), every entry of the built-in store by the tick (overlay accessor); the session package's own time.Now reads (absolute session timeout, not configured) stay on the wall clock",
			"A: in the session-idle=3x configurations the session store / middleware has IdleTimeout = 3 x the CSRF IdleTimeout, so that a token kept in a session expires only through Token.Expiration; in the IdleTimeout+ErrorHandler=unset configurations the token lifetime is the documented default (30 minutes) and the ticks are half of it / one second more than it",
			"A: a CSRF cookie with a non-empty value whose Expires is not after the constant clock, or whose Max-Age is negative, is no cookie: the client keeps nothing and the safe request is judged to have left no valid cookie",
			"A: near-miss requests (request-layout family) present a value derived from the client's current token (last byte dropped / one byte appended / upper case / last byte changed); none of them was issued by the server, and none equals the genuine value it is compared with",
			"A: states are deduplicated by a canonical key (model live set with relative expiries, storage contents, client-held cookies/tokens, fault-used flag) modulo renaming of generated tokens and session ids; soundness rests on the middleware treating token strings opaquely",
			"A: redundant/conflicting configurations: 'the configured extractor' is the explicit Extractor when one is set (documentation: KeyLookup is then ignored), otherwise the KeyLookup one; 'the CSRF cookie' is the cookie in which a safe request is observed to leave the generated token (not derived from KeyLookup/CookieName by the harness); when the extractor reads that very cookie the cookie-match conjunct holds by construction",
			"A: the reference model is deliberately generous (a token is live from generation, extended on every accepted use); the statement is an only-if for unsafe requests, so a rejection the model would allow is counted (model_allows_but_rejected), never flagged",
			"B: reference origin predicate = RFC 6454 (scheme, lower-cased host, port with defaults) of the URL's authority; path/query/fragment/userinfo never contribute; wildcard entries require a non-empty label in front of the domain; net/url is the trusted URL parser",
			"B: every request is served on a RequestCtx of its own (buffer reuse is the subject of the request-layout family of harness A); blanks around a TrustedOrigins entry are not part of the entry (the middleware trims them); the neighbours of the configured entries (nearOrigins) are used as Origin everywhere and as Referer where the Referer can decide (Origin absent or null)",
			"B: a violation seen only with a respelt TrustedOrigins configuration carries ` entry=<spelling>`; if a canonical configuration shows the same signature the respelt cases are counted under it",
			"Origin: null is counted as unspecified (the statement does not say whether it is 'present') unless an https Referer from a foreign origin is let through",
			"safe request during which a storage call fails: the statement is over-determined ('always pass and leave a valid cookie' vs 'rejected'); either documented behaviour is accepted, only 'passes and leaves a token that is not accepted' is flagged",
		},
	})
}
