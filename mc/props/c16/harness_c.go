package main

// Request-layout family of harness A: token life-cycle histories whose requests are served by ONE
// fasthttp.RequestCtx and differ in their LAYOUT.
//
// The strings the middleware reads from a request (c.Cookies, c.Get, c.Query, c.FormValue) alias
// the buffers of the RequestCtx. fasthttp serves every request of a keep-alive connection - and,
// through its ctx pool, requests of later connections - on the same RequestCtx: between requests it
// resets the user values, the Request and the Response, and the next request is parsed into the
// same buffers (the n-th cookie / header / argument of the new request overwrites the n-th of the
// previous one in place). Whatever the middleware keeps beyond a request (the token store) must not
// depend on those bytes. The BFS of harness_a.go sends every request in one fixed layout; here every
// request of a history chooses
//
//	the CSRF cookie   alone | after another cookie whose value is longer than a token | after another
//	                  cookie whose value has exactly a token's length | before another cookie
//	the token         first in its container (header list, query string, form body) | after another
//	                  header/argument/field of other length | after one of exactly a token's length
//
// and the never issued token has the length of the issued ones (so it can replace one in place).
// Because the bytes left in the buffers are hidden state, histories are NOT de-duplicated by the
// canonical state key: every sequence of Free operations after an issuing prefix is replayed on a
// fresh app and its last operation judged by the oracle of harness A (reference token model:
// live / consumed / deleted / expired / never issued / other client's).
//
// Configurations: RequestCtx {shared, fresh} x backend {middleware's own in-memory store (no
// Storage configured), injected storage that keeps the key strings it is given, session store with /
// without the session middleware} x extractor x SingleUseToken. A violation seen on the shared
// RequestCtx is re-run on fresh ones; if it disappears its signature ends in `reused-ctx-only`.

import (
	"fmt"
	"sort"
	"strings"
	"sync"

	"verifmc/core"
)

const (
	ckAlone int8 = iota
	ckAfterOtherDiff
	ckAfterOtherSame
	ckBeforeOther
)

const (
	slotFirst int8 = iota
	slotAfterDiff
	slotAfterSame
)

// layout of one request: where the CSRF cookie sits in the Cookie header and where the token sits
// in the container the extractor reads.
type layout struct{ Ck, Slot int8 }

const forgedSame = "tok-fake" // never issued, same length as the generated tokens (tok-0001, ...)

// filler values: one whose length differs from n, one of exactly n bytes
func diffLen(n int) string {
	v := "dark-mode-on"
	if len(v) == n {
		v += "x"
	}
	return v
}

func sameLen(n int) string { return strings.Repeat("z", n) }

// otherCookie is the cookie that accompanies a CSRF cookie whose value has n bytes ("" = none).
func (l layout) otherCookie(n int) string {
	switch l.Ck {
	case ckAfterOtherDiff, ckBeforeOther:
		return "theme=" + diffLen(n)
	case ckAfterOtherSame:
		return "theme=" + sameLen(n)
	}
	return ""
}

// slotPad is the value of the header / argument / field that precedes a token of n bytes ("" = none).
func (l layout) slotPad(n int) string {
	switch l.Slot {
	case slotAfterDiff:
		return diffLen(n)
	case slotAfterSame:
		return sameLen(n)
	}
	return ""
}

func (l layout) text(unsafe bool) string {
	if l == (layout{}) {
		return ""
	}
	var p []string
	switch l.Ck {
	case ckAfterOtherDiff:
		p = append(p, "CSRF cookie after another cookie (value of other length)")
	case ckAfterOtherSame:
		p = append(p, "CSRF cookie after another cookie (value of the same length)")
	case ckBeforeOther:
		p = append(p, "CSRF cookie before another cookie")
	}
	if unsafe {
		switch l.Slot {
		case slotAfterDiff:
			p = append(p, "token after another header/argument/field (value of other length)")
		case slotAfterSame:
			p = append(p, "token after another header/argument/field (value of the same length)")
		}
	}
	if len(p) == 0 {
		return ""
	}
	return " [layout: " + strings.Join(p, "; ") + "]"
}

func (c cfgA) ctxText() string {
	if c.Ctx == "fresh" {
		return "a new fasthttp.RequestCtx for every request"
	}
	return "ONE fasthttp.RequestCtx serves all requests of the history and is reset between them (ResetUserValues, Request.Reset, Response.Reset) as fasthttp does on a keep-alive connection / through its ctx pool; requests without a layout note carry the CSRF cookie first and the token first"
}

// absOp is an operation of the family before the values held by the clients are known.
type absOp struct {
	Kind  byte   // 'S', 'D', 'U', 'T'
	Cl    int8   // 0 = U (full alphabet), 1 = V (second client: own token only)
	Which string // S: own | none; U: cur | prev | other | forged-same-length
	Lay   layout
	Tick  int8
}

// resolve turns a into a concrete operation for the current client state; false = not applicable
// (the client does not hold the value), the history is pruned.
func (a absOp) resolve(cl *[3]client) (opA, bool) {
	o := opA{Kind: a.Kind, Cl: a.Cl, Tick: a.Tick, Fault: -1, Lay: a.Lay}
	c, oth := cl[a.Cl], cl[otherOf(int(a.Cl))]
	switch a.Kind {
	case 'T':
		return o, true
	case 'S':
		if a.Which == "none" {
			o.Label = "cookie=none"
			return o, true
		}
		o.Ck, o.Label = c.Jar, "cookie=own-jar"
		return o, o.Ck != ""
	case 'D':
		o.Ck, o.Label = c.Jar, "cookie=own-jar"
		return o, o.Ck != ""
	}
	if strings.HasPrefix(a.Which, "near:") {
		// near-miss of the client's current token: "near:<derivation>:<where>"
		f := strings.Split(a.Which, ":")
		t := c.Cur
		if t == "" {
			return o, false
		}
		d := nearMiss(t, f[1])
		switch f[2] {
		case "both":
			o.Tok, o.Ck = d, d
		case "token":
			o.Tok, o.Ck = d, t
		case "cookie":
			o.Tok, o.Ck = t, d
		}
		o.Label = "near-miss of own current token " + t + ": " + f[1] + " presented as " + f[2]
		return o, true
	}
	switch a.Which {
	case "cur":
		o.Tok = c.Cur
	case "prev":
		o.Tok = c.Prev
	case "other":
		o.Tok = oth.Cur
	case "forged-same-length":
		o.Tok = forgedSame
	}
	o.Ck, o.Label = o.Tok, "token="+a.Which+" cookie=same-as-token"
	return o, o.Tok != ""
}

// famOps is the alphabet of the freely chosen steps.
func famOps(cfg cfgA) []absOp {
	ckL := []layout{{ckAlone, 0}, {ckAfterOtherDiff, 0}, {ckAfterOtherSame, 0}, {ckBeforeOther, 0}}
	full, some, few := ckL, ckL, []layout{{ckAlone, 0}, {ckAfterOtherSame, 0}}
	two := few
	slotted := cfg.Extractor == "header" || cfg.Extractor == "query" || cfg.Extractor == "form"
	if slotted && !cfg.sameSlot() {
		full = append(append([]layout(nil), ckL...), layout{ckAlone, slotAfterDiff}, layout{ckAlone, slotAfterSame}, layout{ckAfterOtherSame, slotAfterSame})
		some = []layout{{ckAlone, 0}, {ckAfterOtherDiff, 0}, {ckAlone, slotAfterDiff}, {ckAfterOtherSame, slotAfterSame}}
		few = []layout{{ckAlone, 0}, {ckAfterOtherSame, 0}, {ckAlone, slotAfterSame}}
		two = []layout{{ckAlone, 0}, {ckAfterOtherSame, slotAfterSame}}
	}
	var ops []absOp
	for _, l := range ckL {
		ops = append(ops, absOp{Kind: 'S', Cl: 0, Which: "own", Lay: l})
	}
	ops = append(ops, absOp{Kind: 'S', Cl: 0, Which: "none"})
	for _, l := range ckL {
		ops = append(ops, absOp{Kind: 'D', Cl: 0, Lay: l})
	}
	for _, w := range []struct {
		which string
		ls    []layout
	}{{"cur", full}, {"prev", some}, {"other", full}, {"forged-same-length", few}} {
		for _, l := range w.ls {
			ops = append(ops, absOp{Kind: 'U', Cl: 0, Which: w.which, Lay: l})
		}
	}
	// second client: only its own token, in the base layout and one shifted layout
	for _, l := range two {
		ops = append(ops, absOp{Kind: 'S', Cl: 1, Which: "own", Lay: layout{l.Ck, 0}})
	}
	for _, l := range two {
		ops = append(ops, absOp{Kind: 'D', Cl: 1, Lay: layout{l.Ck, 0}})
	}
	for _, l := range two {
		ops = append(ops, absOp{Kind: 'U', Cl: 1, Which: "cur", Lay: l})
	}
	for _, t := range cfg.Ticks {
		ops = append(ops, absOp{Kind: 'T', Tick: int8(t)})
	}
	return ops
}

// nearMiss derives a value that differs from token t in exactly one respect.
func nearMiss(t, how string) string {
	switch how {
	case "truncated":
		return t[:len(t)-1]
	case "extended":
		return t + "0"
	case "upper":
		return strings.ToUpper(t)
	case "last-byte":
		return t[:len(t)-1] + "x"
	}
	panic("unknown near-miss " + how)
}

var nearMissKinds = []string{"truncated", "extended", "upper", "last-byte"}

// famTails is the near-miss dimension: unsafe requests tried only as the LAST step of a short history,
// presenting a value derived from the client's current token (one byte shorter, one byte longer, other
// case, last byte changed) as token and cookie (store lookup with a neighbouring key), as token next to the
// genuine cookie, and as cookie next to the genuine token (double-submit comparison).
func famTails(cfg cfgA) []absOp {
	var out []absOp
	wheres := []string{"both", "token", "cookie"}
	if cfg.sameSlot() {
		wheres = wheres[:1]
	}
	for _, k := range nearMissKinds {
		for _, w := range wheres {
			out = append(out, absOp{Kind: 'U', Cl: 0, Which: "near:" + k + ":" + w})
		}
	}
	return out
}

// famPrefixes: every history starts with the requests that issue the tokens (base layout).
var famPrefixes = [][]absOp{
	{{Kind: 'S', Cl: 0, Which: "none"}},
	{{Kind: 'S', Cl: 0, Which: "none"}, {Kind: 'S', Cl: 1, Which: "none"}},
}

func famConfigs(quick bool) []cfgA {
	var out []cfgA
	tick := []int{1} // idle+1s: every stored token expires
	add := func(ext, be string, su bool, freeShared, freeFresh int) {
		tk := tick // also for the middleware's own store: a tick ages its entries (see runState.step)
		out = append(out,
			cfgA{Extractor: ext, Backend: be, SingleUse: su, Ticks: tk, Layouts: true, Ctx: "shared", Free: freeShared},
			cfgA{Extractor: ext, Backend: be, SingleUse: su, Ticks: tk, Layouts: true, Ctx: "fresh", Free: freeFresh})
	}
	// the session backends decode and encode the whole session (gob) several times per request: about
	// four times the cost of the storage ones, and tokens kept in a session are copied by the encoder
	for _, su := range []bool{false, true} {
		for _, be := range []string{"builtin", "storage", "session-direct", "session-mw"} {
			sess := be == "session-direct" || be == "session-mw"
			for _, ext := range []string{"header", "cookie"} {
				switch {
				case quick && sess && !(be == "session-direct" && ext == "header" && !su):
					add(ext, be, su, 2, 2)
				case quick:
					add(ext, be, su, 3, 2)
				case !sess && !su:
					add(ext, be, su, 4, 3)
				default:
					add(ext, be, su, 3, 3)
				}
			}
		}
		for _, be := range []string{"builtin", "storage"} {
			for _, ext := range []string{"query", "form"} {
				if quick {
					add(ext, be, su, 2, 2)
				} else {
					add(ext, be, su, 3, 3)
				}
			}
		}
	}
	return out
}

type famStat struct{ Nodes, Requests, Pruned, Tails int64 }

func runC(r *core.Run, col *collector, samples *[]any, only string) map[string]any {
	if len(forgedSame) != len(fmt.Sprintf("tok-%04d", 1)) {
		core.Fatal("forgedSame must have the length of the generated tokens")
	}
	cfgs := famConfigs(r.Quick())
	tailDepth := 1 // near-miss requests follow the issuing prefix plus at most this many free steps
	if !r.Quick() {
		tailDepth = 2
	}
	type item struct{ cfg, prefix, first int }
	var items []item
	alph := make([][]absOp, len(cfgs))
	for ci := range cfgs {
		if only != "" && !strings.Contains(cfgs[ci].name(), only) {
			continue
		}
		cfgs[ci] = resolve(cfgs[ci])
		alph[ci] = famOps(cfgs[ci])
		for pi := range famPrefixes {
			for f := range alph[ci] {
				items = append(items, item{ci, pi, f})
			}
		}
	}
	// biggest searches first
	sort.SliceStable(items, func(a, b int) bool { return cfgs[items[a].cfg].Free > cfgs[items[b].cfg].Free })
	stats := make([]famStat, len(cfgs))
	var smu sync.Mutex
	var fsamples []any
	r.Parallel(len(items), func(ii int, l *core.Local) {
		it := items[ii]
		cfg, ops, prefix := cfgs[it.cfg], alph[it.cfg], famPrefixes[it.prefix]
		tails := famTails(cfg)
		var st famStat
		node, sampled := 0, false
		// runNode replays prefix+seq on a fresh app and judges the last operation
		runNode := func(seq []int, tail *absOp) bool {
			throttle()
			rs := newRunState(cfg)
			n := len(prefix) + len(seq)
			if tail != nil {
				n++
			}
			hist := make([]opA, 0, n)
			var si stepInfo
			for k := 0; k < n; k++ {
				a := absOp{}
				if k < len(prefix) {
					a = prefix[k]
				} else if k < len(prefix)+len(seq) {
					a = ops[seq[k-len(prefix)]]
				} else {
					a = *tail
					if rs.m.isLive(rs.cl[0].Cur) {
						l.Add("A.nearmiss.base_token_live", 1)
					}
				}
				o, ok := a.resolve(&rs.cl)
				if !ok {
					st.Pruned++
					return false
				}
				si = rs.step(o)
				hist = append(hist, o)
				if o.Kind != 'T' {
					st.Requests++
				}
			}
			node++
			st.Nodes++
			if tail != nil {
				st.Tails++
				if !si.ob.Reached {
					l.Add("A.nearmiss.rejected."+si.Why, 1)
				}
			}
			rs.judge(hist, si, &judgeCtx{l: l, col: col, ord: [4]int{2, it.cfg*8 + it.prefix, it.first, node}})
			if !sampled && it.first%11 == 3 && len(seq) == cfg.Free && it.prefix == 1 && tail == nil {
				sampled = true
				smu.Lock()
				fsamples = append(fsamples, map[string]any{"harness": "A", "config": cfg.name(), "history": histStrings(hist)})
				smu.Unlock()
			}
			return true
		}
		var rec func(seq []int)
		rec = func(seq []int) {
			if r.Expired() {
				r.Cap("wall-clock budget reached inside the request-layout family of harness A")
				return
			}
			if !runNode(seq, nil) {
				return
			}
			if len(seq) <= tailDepth {
				for ti := range tails {
					runNode(seq, &tails[ti])
				}
			}
			if len(seq) >= cfg.Free {
				return
			}
			for i := range ops {
				rec(append(seq[:len(seq):len(seq)], i))
			}
		}
		if it.first == 0 {
			for ti := range tails { // right after the issuing prefix
				runNode(nil, &tails[ti])
			}
		}
		rec([]int{it.first})
		smu.Lock()
		stats[it.cfg].Nodes += st.Nodes
		stats[it.cfg].Requests += st.Requests
		stats[it.cfg].Pruned += st.Pruned
		stats[it.cfg].Tails += st.Tails
		smu.Unlock()
	})
	per := map[string]any{}
	var tot famStat
	for ci, c := range cfgs {
		if alph[ci] == nil {
			continue
		}
		s := stats[ci]
		per[c.name()] = map[string]any{"free_steps": c.Free, "alphabet": len(alph[ci]), "histories": s.Nodes, "requests": s.Requests, "pruned_not_applicable": s.Pruned, "near_miss_histories": s.Tails}
		tot.Nodes += s.Nodes
		tot.Tails += s.Tails
		tot.Requests += s.Requests
		tot.Pruned += s.Pruned
		if only != "" {
			fmt.Printf("  %-60s free=%d alphabet=%d histories=%d requests=%d\n", c.name(), c.Free, len(alph[ci]), s.Nodes, s.Requests)
		}
	}
	r.Add("A.layouts.histories", tot.Nodes)
	r.Add("A.layouts.requests", tot.Requests)
	r.Add("A.nearmiss.histories", tot.Tails)
	sort.Slice(fsamples, func(i, j int) bool { return fmt.Sprint(fsamples[i]) < fmt.Sprint(fsamples[j]) })
	if len(fsamples) > 2 {
		fsamples = fsamples[:2]
	}
	*samples = append(*samples, fsamples...)
	frees := map[string]any{}
	for ci, c := range cfgs {
		if alph[ci] != nil {
			frees[c.name()] = c.Free
		}
	}
	return map[string]any{
		"bounds":    map[string]any{"clients": []string{"U", "V"}, "issuing_prefixes": len(famPrefixes), "free_steps_per_config": frees, "idle_timeout": idle.String(), "never_issued_token": forgedSame},
		"histories": tot.Nodes, "requests": tot.Requests, "pruned_not_applicable": tot.Pruned, "configs": len(per), "per_config": per,
		"near_miss_histories": tot.Tails, "near_miss_after_free_steps_at_most": tailDepth,
		"near_miss_tokens": "as the last request of a history of <= near_miss_after_free_steps_at_most free steps: a value derived from the client's current token (last byte dropped / one byte appended / upper case / last byte changed) presented as token and cookie, as token with the genuine cookie, as cookie with the genuine token",
		"rule":           "every sequence of <= free_steps operations after an issuing prefix {U issues | U and V issue}, no state de-duplication (the bytes left in the RequestCtx buffers are hidden state); each history is a complete real execution on a fresh app whose last operation is judged against the reference token model",
		"alphabet":       "U: safe request with own cookie x 4 cookie layouts, safe request without cookie, DeleteToken x 4 cookie layouts, unsafe request with token {own current, other client's} x 7 layouts (4 for the cookie extractor), own previous x 4, never issued token of the issued tokens' length x 3; V: safe / DeleteToken / unsafe with its own token x 2 layouts; tick idle+1s",
		"cookie_layouts": []string{"CSRF cookie alone", "after another cookie whose value has another length", "after another cookie whose value has the token's length", "before another cookie"},
		"token_layouts":  []string{"first header / query argument / form field", "after another one whose value has another length", "after another one whose value has the token's length"},
		"request_ctx":    []string{"shared: one RequestCtx per history, reset between requests (ResetUserValues, Request.Reset, Response.Reset)", "fresh: a new RequestCtx per request"},
		"backends":       []string{"builtin (no Storage configured: the middleware's own in-memory store)", "storage (injected, keeps the key strings it is given)", "session-direct", "session-mw"},
	}
}
