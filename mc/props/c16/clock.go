package main

// Part T: TIME PASSES THROUGH THE CLOCKS.
//
// Harness A holds both clocks constant and lets time pass by translating the stored data (that keeps its parallel
// histories independent), which cannot see a token store that reads a clock that never moves, or two clocks that
// drift apart. This part is sequential and small: for every backend {built-in token store, injected storage,
// session middleware on an injected storage, session middleware on the built-in storage} x session idle timeout
// {equal to, three times} the token's, in a FRESH PROCESS MODEL (the coarse clock utils.Timestamp() reads 0 until
// somebody starts its updater, exactly as the real package), a client obtains a token and then presents it on
// unsafe requests after every sequence of three waiting times out of {half, just under, just over the idle
// timeout}; both clocks (time.Now of the middleware packages, the coarse clock) and the injected storage's clock
// advance by the waiting time. Reference: a token lives IdleTimeout past its last successful use.
//
//	presented more than 2 s before that deadline -> the protected handler must be reached
//	presented more than 2 s after it             -> it must not ("unexpired" clause)
//
// (2 s: the coarse clock has a resolution of one second.)

import (
	"fmt"
	"strings"
	"time"

	"github.com/gofiber/fiber/v3"
	"github.com/gofiber/fiber/v3/middleware/csrf"
	"github.com/gofiber/fiber/v3/middleware/session"
	"github.com/gofiber/fiber/v3/verifrt/vtime"
	"github.com/gofiber/utils/v2"
	"github.com/valyala/fasthttp"

	"verifmc/core"
	"verifmc/fx"
)

// tstore: map storage whose entries expire by the harness clock (vtime manual clock)
type tstore struct{ m map[string]tent }
type tent struct {
	val []byte
	exp time.Time
}

func (s *tstore) Get(k string) ([]byte, error) {
	e, ok := s.m[k]
	if !ok || (!e.exp.IsZero() && !e.exp.After(vtime.Now())) {
		delete(s.m, k)
		return nil, nil
	}
	return append([]byte(nil), e.val...), nil
}
func (s *tstore) Set(k string, v []byte, d time.Duration) error {
	if k == "" || len(v) == 0 {
		return nil
	}
	e := tent{val: append([]byte(nil), v...)}
	if d > 0 {
		e.exp = vtime.Now().Add(d)
	}
	s.m[strings.Clone(k)] = e
	return nil
}
func (s *tstore) Delete(k string) error { delete(s.m, k); return nil }
func (s *tstore) Reset() error          { s.m = map[string]tent{}; return nil }
func (s *tstore) Close() error          { return nil }

func runClockPart(r *core.Run) {
	const idle = 30 * time.Minute
	waits := []struct {
		name string
		d    time.Duration
	}{{"half", idle / 2}, {"just-under", idle - 5*time.Second}, {"just-over", idle + 5*time.Second}}
	defer func() {
		vtime.SetClock(clock0)
		utils.VerifSetTimestamp(uint32(clock0.Unix()))
		utils.VerifNewProcess(false)
	}()
	for _, backend := range []string{"builtin", "storage-injected", "session-injected", "session-builtin"} {
		for _, sessMul := range []int{1, 3} {
			if sessMul == 3 && !strings.HasPrefix(backend, "session") {
				continue
			}
			for w1 := range waits {
				for w2 := range waits {
					for w3 := range waits {
						seq := []int{w1, w2, w3}
						now := clock0
						setClocks := func() {
							vtime.SetClock(now)
							utils.VerifSetTimestamp(uint32(now.Unix()))
						}
						utils.VerifNewProcess(true)
						setClocks()
						reached := false
						cc := csrf.Config{IdleTimeout: idle, ErrorHandler: func(_ fiber.Ctx, _ error) error { return fiber.ErrForbidden }}
						app := fiber.New()
						switch backend {
						case "storage-injected":
							cc.Storage = &tstore{m: map[string]tent{}}
						case "session-injected":
							mw, store := session.NewWithStore(session.Config{Storage: &tstore{m: map[string]tent{}}, IdleTimeout: time.Duration(sessMul) * idle})
							app.Use(mw)
							cc.Session = store
						case "session-builtin":
							mw, store := session.NewWithStore(session.Config{IdleTimeout: time.Duration(sessMul) * idle})
							app.Use(mw)
							cc.Session = store
						}
						app.Use(csrf.New(cc))
						app.All("/", func(c fiber.Ctx) error { reached = true; return c.SendString("ok") })
						h := app.Handler()
						jar := map[string]string{}
						do := func(method string) int {
							req := fx.Req(method, "http://app.test/")
							var ck []string
							for k, v := range jar {
								ck = append(ck, k+"="+v)
							}
							if len(ck) > 0 {
								req.Header.Set("Cookie", strings.Join(ck, "; "))
							}
							if method != "GET" {
								req.Header.Set("X-Csrf-Token", jar["csrf_"])
							}
							var fctx fasthttp.RequestCtx
							reached = false
							fx.CallInto(&fctx, h, req, nil, false)
							fctx.Response.Header.VisitAllCookie(func(k, v []byte) {
								var c fasthttp.Cookie
								if c.ParseBytes(v) == nil {
									if len(c.Value()) == 0 || (!c.Expire().IsZero() && c.Expire() != fasthttp.CookieExpireUnlimited && !c.Expire().After(now)) {
										delete(jar, string(k))
									} else {
										jar[string(k)] = string(c.Value())
									}
								}
							})
							return fctx.Response.StatusCode()
						}
						if st := do("GET"); st != 200 || jar["csrf_"] == "" {
							core.Fatal("clock part: no token issued (backend %s): status %d cookies %v", backend, st, jar)
						}
						deadline := now.Add(idle)
						var trace []string
						for step, wi := range seq {
							now = now.Add(waits[wi].d)
							setClocks()
							st := do("POST")
							trace = append(trace, fmt.Sprintf("wait %s -> POST %d reached=%v", waits[wi].name, st, reached))
							r.Add("T.requests", 1)
							cs := map[string]any{"backend": backend, "session_idle": fmt.Sprintf("%dx token idle", sessMul), "waits": trace, "process": "fresh: nobody but the code under test starts the coarse clock's updater"}
							switch {
							case now.Before(deadline.Add(-2 * time.Second)):
								r.Add("T.judged_live", 1)
								if !reached {
									r.Violate(fmt.Sprintf("T live-token-rejected backend=%s step=%d wait=%s", backend, step+1, waits[wi].name),
										"an unsafe request with an unexpired token (presented before last use + IdleTimeout) did not reach the protected handler", cs, st, "reached")
								}
							case now.After(deadline.Add(2 * time.Second)):
								r.Add("T.judged_expired", 1)
								if reached {
									r.Violate(fmt.Sprintf("T expired-token-accepted backend=%s wait=%s", backend, waits[wi].name),
										"an unsafe request whose token had been idle for more than IdleTimeout reached the protected handler", cs, st, "rejected")
								}
							}
							r.Outcome(fmt.Sprintf("T backend=%s reached=%v", backend, reached))
							if !reached {
								break // the client has no live token any more
							}
							deadline = now.Add(idle)
						}
					}
				}
			}
		}
	}
	if r.P.Counters["T.judged_live"] == 0 || r.P.Counters["T.judged_expired"] == 0 {
		core.Fatal("vacuous clock part: live=%d expired=%d", r.P.Counters["T.judged_live"], r.P.Counters["T.judged_expired"])
	}
}
