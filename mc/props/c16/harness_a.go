package main

import (
	"bytes"
	"crypto/sha1"
	"encoding/gob"
	"fmt"
	"runtime"
	"runtime/metrics"
	"sort"
	"strings"
	"sync"
	"sync/atomic"
	"time"

	"github.com/gofiber/fiber/v3"
	"github.com/gofiber/fiber/v3/middleware/csrf"
	"github.com/gofiber/fiber/v3/middleware/session"
	"github.com/valyala/fasthttp"

	"verifmc/core"
	"verifmc/fx"
)

const (
	idle   = 10 * time.Minute
	forged = "tok-forged"
)

// clock0 is the constant value of both clocks the middleware reads (time.Now of package csrf through
// the vtime shim, utils.Timestamp of the built-in store through the overlay clock). The clocks never
// move; a tick of a history is a time translation of the stored data (see runState.step).
var clock0 = time.Unix(1_900_000_000, 0)

// sessIdleLong is the session IdleTimeout of the "session outlives the token" configurations.
const sessIdleLong = 3 * idle

var (
	tickName   = []string{"idle/2", "idle+1s"}
	clientName = []string{"U", "V", "X"}
)

func otherOf(c int) int {
	if c == 0 {
		return 1
	}
	return 0
}

// cfgA is one configuration of the history search; every configuration is a separate BFS.
// The fields after Ticks are the "redundant / conflicting fields" dimension (harness_a_cfg.go).
type cfgA struct {
	Extractor string // header | form | query | param | cookie | cookie2 (explicit FromCookie on a cookie that is not the CSRF cookie)
	Backend   string // storage (injected) | session-direct | session-mw | builtin
	SingleUse bool
	Faults    int // 0 or 1 injected storage failure per history
	Depth     int
	Ticks     []int // tick letters (see cfgA.tick) this configuration may use

	Explicit   bool   // Config.Extractor is set explicitly (csrf.FromHeader(...), ...); otherwise the extractor comes from KeyLookup
	Lookup     string // Config.KeyLookup as written; with Explicit it is a left-over (documented: ignored); "" = unset (not Explicit: the canonical spelling for Extractor)
	CookieName string // Config.CookieName as written ("" = unset)
	SessOnly   bool   // Config.CookieSessionOnly together with IdleTimeout (documented: cookie expiration ignored)
	DecoyStore bool   // Config.Storage set next to Config.Session (documented: ignored if Session is set); the decoy answers every Get with a value

	// RequestCtx dimension: "fresh" = every request of a history on a new fasthttp.RequestCtx;
	// "shared" (and "", the BFS configurations) = all requests of a history on ONE RequestCtx that is
	// reset between requests the way fasthttp does on a keep-alive connection / through its ctx pool.
	Ctx string
	// Layouts: configuration of the request-layout family (harness_c.go): histories are enumerated
	// without state de-duplication and every request chooses its layout.
	Layouts bool
	Free    int // request-layout family: number of freely chosen steps after the issuing prefix

	// LongSess: the session store / middleware has IdleTimeout = 3 x the CSRF IdleTimeout, so a token kept in
	// a session expires only through Token.Expiration (the session entry itself is still alive).
	LongSess bool

	// Defaults: "fields left to their documented defaults" dimension: Config.IdleTimeout and
	// Config.ErrorHandler are not set (documented: 30 minutes; 403 Forbidden). Ticks are relative to the
	// effective idle timeout.
	Defaults bool

	// Method: "application-defined request methods" dimension: the unsafe requests of the histories use this
	// method instead of POST ("" = POST on a default app) on an app whose fiber.Config.RequestMethods are the
	// default ones plus appMethodsB.
	Method string

	// derived by resolve() before the search
	CkName    string // the CSRF cookie = the cookie in which a safe request leaves the generated token (observed, not assumed)
	TokCookie string // name of the cookie the configured extractor reads ("" if it does not read a cookie)
}

func (c cfgA) name() string {
	n := fmt.Sprintf("%s/%s/singleuse=%v/faults=%d", c.Extractor, c.Backend, c.SingleUse, c.Faults)
	if w := c.wiring(); w != "" {
		n += "/" + w
	}
	if c.LongSess {
		n += "/session-idle=3x"
	}
	if c.Method != "" {
		n += "/unsafe-method=" + c.Method
	}
	if c.Layouts {
		n += "/request-layouts/ctx=" + c.Ctx
	}
	return n
}

func (c cfgA) sessBackend() bool { return c.Backend == "session-direct" || c.Backend == "session-mw" }

func (c cfgA) sessIdle() time.Duration {
	if c.LongSess {
		return sessIdleLong
	}
	return idle
}

// docDefaultIdle is the documented default of Config.IdleTimeout.
const docDefaultIdle = 30 * time.Minute

// effIdle is the lifetime of a token under this configuration according to the documentation.
func (c cfgA) effIdle() time.Duration {
	if c.Defaults {
		return docDefaultIdle
	}
	return idle
}

// tick is the duration of tick letter i: half the effective idle timeout / one second more than it.
func (c cfgA) tick(i int8) time.Duration {
	if i == 0 {
		return c.effIdle() / 2
	}
	return c.effIdle() + time.Second
}

type client struct{ Jar, Cur, Prev, Sid string }

// opA is one concrete operation of a history.
type opA struct {
	Kind  byte // 'S' safe request, 'U' unsafe request, 'D' safe request whose handler calls DeleteToken, 'T' tick
	Cl    int8
	Tick  int8
	Fault int8 // index of the failing storage call inside this operation, -1 = none
	Tok   string
	Ck    string
	Label string
	Lay   layout // where the request carries the CSRF cookie and the token (harness_c.go); zero = cookie first, token first
}

func (o opA) String() string {
	f := ""
	if o.Fault >= 0 {
		f = fmt.Sprintf(" [storage call #%d of this request returns an error]", o.Fault)
	}
	switch o.Kind {
	case 'T':
		return "tick " + tickName[o.Tick]
	case 'S':
		return fmt.Sprintf("%s: GET (safe) cookie=%q (%s)%s%s", clientName[o.Cl], o.Ck, o.Label, o.Lay.text(false), f)
	case 'D':
		return fmt.Sprintf("%s: GET whose handler calls csrf.HandlerFromContext(c).DeleteToken(c), cookie=%q%s%s", clientName[o.Cl], o.Ck, o.Lay.text(false), f)
	}
	return fmt.Sprintf("%s: POST (unsafe) token=%q cookie=%q (%s)%s%s", clientName[o.Cl], o.Tok, o.Ck, o.Label, o.Lay.text(true), f)
}

func histStrings(h []opA) []string {
	out := make([]string, len(h))
	for i, o := range h {
		out[i] = o.String()
	}
	return out
}

// ---------------------------------------------------------------------------
// system under test: a fresh app + fresh storage per execution

type sut struct {
	cfg     cfgA
	h       fasthttp.RequestHandler
	st      *vstore
	issued  map[string]bool
	gen     []string
	nTok    int
	nSess   int
	reached bool
	csrfErr string
	delErr  string
	fctx    fasthttp.RequestCtx
	hd      *csrf.Handler // the middleware's Handler, captured from the context of a passing request (built-in store: ageing and inspection)
}

var lookups = map[string]string{"header": "header:X-Csrf-Token", "form": "form:_csrf", "query": "query:_csrf", "param": "param:_csrf", "cookie": "cookie:csrf_"}

func newSut(c cfgA) *sut {
	s := &sut{cfg: c, issued: map[string]bool{}}
	cc := csrf.Config{
		IdleTimeout:    idle,
		SingleUseToken: c.SingleUse,
		KeyGenerator: func() string {
			s.nTok++
			t := fmt.Sprintf("tok-%04d", s.nTok)
			s.issued[t] = true
			s.gen = append(s.gen, t)
			return t
		},
		ErrorHandler: func(_ fiber.Ctx, err error) error {
			s.csrfErr = err.Error()
			return fiber.ErrForbidden
		},
	}
	if c.Defaults {
		cc.IdleTimeout, cc.ErrorHandler = 0, nil
	}
	c.apply(&cc)
	sgen := func() string { s.nSess++; return fmt.Sprintf("sid-%04d", s.nSess) }
	appCfg := fiber.Config{}
	if c.Method != "" {
		appCfg.RequestMethods = append(append([]string(nil), fiber.DefaultMethods...), appMethodsB...)
	}
	app := fiber.New(appCfg)
	switch c.Backend {
	case "storage":
		s.st = newVstore()
		cc.Storage = s.st
	case "builtin":
	case "session-mw":
		s.st = newVstore()
		s.st.sessions = true
		mw, store := session.NewWithStore(session.Config{Storage: s.st, KeyGenerator: sgen, IdleTimeout: c.sessIdle()})
		app.Use(mw)
		cc.Session = store
	case "session-direct":
		s.st = newVstore()
		s.st.sessions = true
		cc.Session = session.NewStore(session.Config{Storage: s.st, KeyGenerator: sgen, IdleTimeout: c.sessIdle()})
	default:
		core.Fatal("unknown backend %q", c.Backend)
	}
	if c.DecoyStore {
		if cc.Session == nil {
			core.Fatal("DecoyStore needs a session backend: %s", c.name())
		}
		cc.Storage = yesStore{}
	}
	protected := func(ctx fiber.Ctx) error {
		s.reached = true
		if h := csrf.HandlerFromContext(ctx); h != nil {
			s.hd = h
		}
		if ctx.Get("X-Op") == "del" {
			hd := csrf.HandlerFromContext(ctx)
			if hd == nil {
				s.delErr = "no csrf handler in context"
			} else if err := hd.DeleteToken(ctx); err != nil {
				s.delErr = err.Error()
			}
		}
		return ctx.SendString("ok")
	}
	if c.Extractor == "param" {
		app.Use("/:_csrf", csrf.New(cc))
		app.All("/:_csrf", protected)
	} else {
		app.Use(csrf.New(cc))
		app.All("/", protected)
	}
	s.h = app.Handler()
	return s
}

// requestCtx returns the RequestCtx the next request is served on.
func (s *sut) requestCtx() *fasthttp.RequestCtx {
	if s.cfg.Ctx == "fresh" {
		return &fasthttp.RequestCtx{}
	}
	// shared: what fasthttp's serveConn does before the next request of a connection and
	// releaseCtx/acquireCtx do between connections: userValues.Reset, Request.Reset,
	// Response.Reset (fx.CallInto does the latter two; Init2 leaves the user values alone). The
	// buffers of the previous request stay allocated and are overwritten in place.
	s.fctx.ResetUserValues()
	return &s.fctx
}

type obsA struct {
	Reached bool     `json:"handler_reached"`
	Status  int      `json:"status"`
	Err     string   `json:"csrf_error,omitempty"`
	DelErr  string   `json:"delete_token_error,omitempty"`
	SetCk   *string  `json:"set_cookie_csrf"`
	CkAttr  string   `json:"set_cookie_csrf_attributes,omitempty"`
	CkGone  bool     `json:"set_cookie_csrf_already_expired,omitempty"` // non-empty value, but Expires is not after the (constant) clock or Max-Age is negative: a browser drops it
	SetSid  *string  `json:"set_cookie_session,omitempty"`
	Gen     []string `json:"tokens_generated,omitempty"`
	Calls   []string `json:"storage_calls,omitempty"`
	Failed  string   `json:"failed_storage_call,omitempty"`
}

func (s *sut) do(method, tok, ck, sid string, del bool, failAt int, lay layout) obsA {
	post := method == "POST"
	if post && s.cfg.Method != "" {
		method = s.cfg.Method // the histories' unsafe request with the configuration's method
	}
	path := "/"
	if s.cfg.Extractor == "param" {
		if post {
			path = "/" + tok
		} else {
			path = "/page"
		}
	}
	// the layout decides what precedes the token in its container (header list, query string, form
	// body) and what surrounds the CSRF cookie in the Cookie header
	pad := lay.slotPad(len(tok))
	if s.cfg.Extractor == "query" && post && tok != "" {
		path += "?"
		if pad != "" {
			path += "pad=" + pad + "&"
		}
		path += "_csrf=" + tok
	}
	req := fx.Req(method, path)
	req.Header.SetHost("example.com")
	if post {
		switch s.cfg.Extractor {
		case "header":
			if tok != "" {
				if pad != "" {
					req.Header.Set("X-Pad", pad)
				}
				req.Header.Set("X-Csrf-Token", tok)
			}
		case "form":
			req.Header.SetContentType("application/x-www-form-urlencoded")
			if tok != "" {
				body := "_csrf=" + tok
				if pad != "" {
					body = "pad=" + pad + "&" + body
				}
				req.SetBodyString(body)
			}
		}
	}
	var cks []string
	if post && s.cfg.sameSlot() {
		ck = tok // the extractor reads the CSRF cookie itself
	}
	other := lay.otherCookie(len(ck))
	if ck != "" {
		if other != "" && lay.Ck != ckBeforeOther {
			cks = append(cks, other)
		}
		cks = append(cks, s.cfg.CkName+"="+ck)
		if other != "" && lay.Ck == ckBeforeOther {
			cks = append(cks, other)
		}
	}
	if post && tok != "" {
		if tc := s.cfg.TokCookie; tc != "" && tc != s.cfg.CkName {
			cks = append(cks, tc+"="+tok)
		}
		if dc := s.cfg.decoyCookie(); dc != "" {
			cks = append(cks, dc+"="+tok) // the cookie a left-over KeyLookup names always agrees with the presented token
		}
	}
	if sid != "" {
		cks = append(cks, "session_id="+sid)
	}
	if len(cks) > 0 {
		req.Header.Set("Cookie", strings.Join(cks, "; "))
	}
	if del {
		req.Header.Set("X-Op", "del")
	}
	s.reached, s.csrfErr, s.delErr = false, "", ""
	s.gen = nil
	if s.st != nil {
		s.st.beginOp(failAt)
	}
	fctx := s.requestCtx()
	fx.CallInto(fctx, s.h, req, nil, false)
	ob := obsA{Reached: s.reached, Status: fctx.Response.StatusCode(), Err: s.csrfErr, DelErr: s.delErr, Gen: s.gen}
	if s.st != nil {
		ob.Calls = append([]string(nil), s.st.log...)
		ob.Failed = s.st.failed
		s.st.beginOp(-1)
	}
	fctx.Response.Header.VisitAllCookie(func(k, v []byte) {
		var c fasthttp.Cookie
		if err := c.ParseBytes(v); err != nil {
			return
		}
		val := string(c.Value())
		switch string(c.Key()) {
		case s.cfg.CkName:
			ob.SetCk = &val
			ob.CkGone, ob.CkAttr = false, ""
			if exp := c.Expire(); !exp.Equal(fasthttp.CookieExpireUnlimited) {
				ob.CkAttr = "Expires=clock" + exp.Sub(clock0).String()
				ob.CkGone = val != "" && !exp.After(clock0)
			}
			if ma := c.MaxAge(); ma != 0 {
				ob.CkAttr += fmt.Sprintf(" Max-Age=%d", ma)
				ob.CkGone = ob.CkGone || (val != "" && ma < 0)
			}
		case "session_id":
			ob.SetSid = &val
		}
	})
	return ob
}

// ---------------------------------------------------------------------------
// reference model: set of live tokens with expiry

type model struct {
	idle time.Duration
	now  time.Duration
	live map[string]time.Duration
	dead map[string]string
}

func (m *model) isLive(t string) bool { e, ok := m.live[t]; return ok && e > m.now }
func (m *model) touch(t string)       { m.live[t] = m.now + m.idle }
func (m *model) kill(t, why string) {
	if _, ok := m.live[t]; ok {
		delete(m.live, t)
		m.dead[t] = why
	}
}

func (m *model) tick(d time.Duration) {
	m.now += d
	for t, e := range m.live {
		if e <= m.now {
			delete(m.live, t)
			m.dead[t] = "expired"
		}
	}
}

// allows is the statement's necessary condition for an unsafe request to reach the handler.
func (m *model) allows(sameSlot bool, tok, ck string, issued map[string]bool) (bool, string) {
	switch {
	case tok == "":
		return false, "no-token"
	case !sameSlot && tok != ck:
		return false, "token-cookie-mismatch"
	case !issued[tok]:
		return false, "not-issued"
	case m.isLive(tok):
		return true, "live"
	}
	if w, ok := m.dead[tok]; ok {
		return false, w
	}
	return false, "never-live"
}

// ---------------------------------------------------------------------------
// one execution

type runState struct {
	cfg       cfgA
	s         *sut
	cl        [3]client
	m         model
	faultUsed bool
	faultCall string
}

func newRunState(c cfgA) *runState {
	return &runState{cfg: c, s: newSut(c), m: model{idle: c.effIdle(), live: map[string]time.Duration{}, dead: map[string]string{}}}
}

type stepInfo struct {
	ob    obsA
	P     bool   // unsafe: model allows
	Why   string // unsafe: reason
	CLive bool   // safe: presented cookie token was live
}

func (rs *runState) learn(c *client, ob obsA) {
	if ob.SetCk != nil {
		if v := *ob.SetCk; v == "" || ob.CkGone {
			c.Jar = "" // removed, or set with an expiry that is already over: the client keeps nothing
		} else {
			c.Jar = v
			if v != c.Cur {
				c.Prev, c.Cur = c.Cur, v
			}
		}
	}
	if ob.SetSid != nil {
		c.Sid = *ob.SetSid
	}
}

func (rs *runState) step(o opA) stepInfo {
	var si stepInfo
	if o.Kind == 'T' {
		// time passes by d: the injected storage has its own virtual clock; the clocks the middleware reads
		// itself are constants, so what it stored with an absolute time (Token.Expiration inside a session
		// blob, the expiry of an entry of the built-in store) is moved d into the past instead
		d := rs.cfg.tick(o.Tick)
		if rs.s.st != nil {
			rs.s.st.now += d
			if rs.s.st.sessions {
				rs.s.st.ageSessions(d)
			}
		}
		if rs.cfg.Backend == "builtin" && rs.s.hd != nil {
			rs.s.hd.VerifAge(uint32(d / time.Second))
		}
		rs.m.tick(d)
		return si
	}
	c := &rs.cl[o.Cl]
	switch o.Kind {
	case 'S', 'D':
		si.CLive = rs.m.isLive(o.Ck)
		si.ob = rs.s.do("GET", "", o.Ck, c.Sid, o.Kind == 'D', int(o.Fault), o.Lay)
		if si.CLive && si.ob.Reached {
			rs.m.touch(o.Ck)
		}
		for _, g := range si.ob.Gen {
			rs.m.touch(g)
		}
		if o.Kind == 'D' && o.Ck != "" && si.ob.Reached && si.ob.DelErr == "" {
			rs.m.kill(o.Ck, "deleted")
		}
	case 'U':
		si.P, si.Why = rs.m.allows(rs.cfg.sameSlot(), o.Tok, o.Ck, rs.s.issued)
		si.ob = rs.s.do("POST", o.Tok, o.Ck, c.Sid, false, int(o.Fault), o.Lay)
		if si.ob.Reached && si.P {
			if rs.cfg.SingleUse {
				rs.m.kill(o.Tok, "consumed")
			} else {
				rs.m.touch(o.Tok)
			}
		}
		for _, g := range si.ob.Gen {
			rs.m.touch(g)
		}
	}
	rs.learn(c, si.ob)
	if o.Fault >= 0 {
		rs.faultUsed = true
		rs.faultCall = si.ob.Failed
	}
	return si
}

// sessionToken decodes a session blob and returns the CSRF token key stored in it ("" if none) and the
// whole seconds (rounded) until its Token.Expiration as seen at clock0 (-1: expired).
func sessionToken(blob []byte) (string, int64) {
	var m map[any]any
	if err := gob.NewDecoder(bytes.NewReader(blob)).Decode(&m); err != nil {
		return "?undecodable", -1
	}
	for _, v := range m {
		if t, ok := v.(csrf.Token); ok {
			left := t.Expiration.Sub(clock0)
			if left <= 0 {
				return t.Key, -1
			}
			return t.Key, int64((left + time.Second/2) / time.Second)
		}
	}
	return "", -1
}

// ageSessions moves the Token.Expiration of every CSRF token kept in a stored session d (plus an
// instant: a request never happens exactly on an expiry boundary) into the past.
func (s *vstore) ageSessions(d time.Duration) {
	for i := range s.ents {
		var m map[any]any
		if err := gob.NewDecoder(bytes.NewReader(s.ents[i].val)).Decode(&m); err != nil {
			continue
		}
		changed := false
		for k, v := range m {
			if t, ok := v.(csrf.Token); ok {
				t.Expiration = t.Expiration.Add(-d - time.Nanosecond)
				m[k] = t
				changed = true
			}
		}
		if !changed {
			continue
		}
		var buf bytes.Buffer
		if err := gob.NewEncoder(&buf).Encode(&m); err != nil {
			core.Fatal("re-encoding an aged session: %v", err)
		}
		s.ents[i].val = buf.Bytes()
	}
}

// key is the canonical state key: client-held values, storage contents and model live set, with
// generated tokens / session ids renamed in order of first appearance and expiries made relative.
func (rs *runState) key() string {
	names := map[string]string{"": "-", forged: "F"}
	nt, ns := 0, 0
	rt := func(t string) string {
		if n, ok := names[t]; ok {
			return n
		}
		nt++
		n := fmt.Sprintf("t%d", nt)
		names[t] = n
		return n
	}
	rsid := func(t string) string {
		if t == "" {
			return "-"
		}
		if n, ok := names["sid:"+t]; ok {
			return n
		}
		ns++
		n := fmt.Sprintf("s%d", ns)
		names["sid:"+t] = n
		return n
	}
	var b strings.Builder
	for i := range rs.cl {
		c := &rs.cl[i]
		fmt.Fprintf(&b, "%s,%s,%s,%s|", rt(c.Jar), rt(c.Cur), rt(c.Prev), rsid(c.Sid))
	}
	now := rs.m.now
	type ent struct {
		id, tok  string
		rel, mrl time.Duration
		tleft    int64 // session backends: seconds until the stored Token.Expiration (-1 expired / none)
	}
	mrel := func(t string) time.Duration {
		if rs.m.isLive(t) {
			return rs.m.live[t] - now
		}
		return -1
	}
	var ents []ent
	if st := rs.s.st; st != nil {
		for _, e := range st.live() {
			k := e.key
			rel := time.Duration(0)
			if e.exp != 0 {
				rel = e.exp - st.now
			}
			if rs.cfg.Backend == "storage" {
				ents = append(ents, ent{id: "", tok: k, rel: rel, mrl: mrel(k)})
			} else {
				tk, left := sessionToken(e.val)
				ents = append(ents, ent{id: k, tok: tk, rel: rel, mrl: mrel(tk), tleft: left})
			}
		}
	} else if rs.s.hd != nil {
		// the middleware's own in-memory store
		for _, e := range rs.s.hd.VerifDump() {
			if !e.Forever && e.Left <= 0 {
				continue
			}
			ents = append(ents, ent{id: "", tok: e.Key, rel: time.Duration(e.Left) * time.Second, mrl: mrel(e.Key)})
		}
		sort.SliceStable(ents, func(i, j int) bool { return ents[i].tok < ents[j].tok })
	}
	known := func(e ent) bool {
		if e.id != "" {
			_, ok := names["sid:"+e.id]
			return ok
		}
		_, ok := names[e.tok]
		return ok
	}
	sort.SliceStable(ents, func(i, j int) bool {
		ki, kj := known(ents[i]), known(ents[j])
		if ki != kj {
			return ki
		}
		if ents[i].rel != ents[j].rel {
			return ents[i].rel < ents[j].rel
		}
		if ents[i].mrl != ents[j].mrl {
			return ents[i].mrl < ents[j].mrl
		}
		if ents[i].tleft != ents[j].tleft {
			return ents[i].tleft < ents[j].tleft
		}
		if ents[i].id != ents[j].id {
			return ents[i].id < ents[j].id
		}
		return ents[i].tok < ents[j].tok
	})
	var parts []string
	for _, e := range ents {
		p := fmt.Sprintf("%s:%s@%d", rsid(e.id), rt(e.tok), e.rel/time.Second)
		if e.id != "" && e.tok != "" {
			p += fmt.Sprintf("/%d", e.tleft)
		}
		parts = append(parts, p)
	}
	sort.Strings(parts)
	b.WriteString("st[" + strings.Join(parts, " ") + "]")
	var lt []string
	for t := range rs.m.live {
		if rs.m.isLive(t) {
			lt = append(lt, t)
		}
	}
	sort.Slice(lt, func(i, j int) bool {
		_, ki := names[lt[i]]
		_, kj := names[lt[j]]
		if ki != kj {
			return ki
		}
		if a, c := mrel(lt[i]), mrel(lt[j]); a != c {
			return a < c
		}
		return lt[i] < lt[j]
	})
	parts = parts[:0]
	for _, t := range lt {
		parts = append(parts, fmt.Sprintf("%s@%d", rt(t), mrel(t)/time.Second))
	}
	sort.Strings(parts)
	b.WriteString("m[" + strings.Join(parts, " ") + "]")
	if rs.faultUsed {
		b.WriteString("F:" + rs.faultCall)
	}
	return b.String()
}

// ---------------------------------------------------------------------------
// enumeration of the concrete operations available in a state

type stateA struct {
	Hist      []opA
	Cl        [3]client
	FaultUsed bool
	Key       string
}

func concreteOps(cfg cfgA, st *stateA) []opA {
	var ops []opA
	for ci := 0; ci < 3; ci++ {
		c, o := st.Cl[ci], st.Cl[otherOf(ci)]
		// safe requests
		seen := map[string]bool{}
		for _, ck := range []struct{ l, v string }{{"cookie=own-jar", c.Jar}, {"cookie=forged", forged}} {
			if !seen[ck.v] {
				seen[ck.v] = true
				ops = append(ops, opA{Kind: 'S', Cl: int8(ci), Ck: ck.v, Label: ck.l})
			}
		}
		// unsafe requests
		toks := []struct{ l, v string }{{"own-current", c.Cur}, {"own-previous", c.Prev}, {"other-client's", o.Cur}, {"forged", forged}, {"none", ""}}
		seen = map[string]bool{}
		if cfg.sameSlot() {
			vals := append(toks, struct{ l, v string }{"own-jar", c.Jar}, struct{ l, v string }{"other-jar", o.Jar})
			for _, t := range vals {
				if !seen[t.v] {
					seen[t.v] = true
					ops = append(ops, opA{Kind: 'U', Cl: int8(ci), Tok: t.v, Ck: t.v, Label: "cookie-extractor value=" + t.l})
				}
			}
		} else {
			for _, t := range toks {
				for _, ck := range []struct{ l, v string }{{"own-jar", c.Jar}, {"other-jar", o.Jar}, {"none", ""}, {"same-as-token", t.v}} {
					k := t.v + "\x00" + ck.v
					if !seen[k] {
						seen[k] = true
						ops = append(ops, opA{Kind: 'U', Cl: int8(ci), Tok: t.v, Ck: ck.v, Label: "token=" + t.l + " cookie=" + ck.l})
					}
				}
			}
		}
		// DeleteToken through the handler API
		ops = append(ops, opA{Kind: 'D', Cl: int8(ci), Ck: c.Jar, Label: "cookie=own-jar"})
	}
	for _, t := range cfg.Ticks {
		ops = append(ops, opA{Kind: 'T', Tick: int8(t)})
	}
	for i := range ops {
		ops[i].Fault = -1
	}
	return ops
}

// ---------------------------------------------------------------------------
// oracle for the last operation of an execution

type judgeCtx struct {
	l          *core.Local
	col        *collector
	ord        [4]int
	noClassify bool // the fresh-ctx re-run itself
}

// violatesOnFresh replays hist with every request on a RequestCtx of its own and tells whether the
// last operation is judged a violation with the same signature.
func violatesOnFresh(cfg cfgA, hist []opA, sig string) bool {
	cfg.Ctx = "fresh"
	rs := newRunState(cfg)
	var si stepInfo
	for _, o := range hist {
		si = rs.step(o)
	}
	tmp := &collector{}
	rs.judge(hist, si, &judgeCtx{l: core.NewLocal(), col: tmp, noClassify: true})
	_, ok := tmp.m[sig]
	return ok
}

func (rs *runState) caseOf(hist []opA, extra string) map[string]any {
	c := map[string]any{"harness": "A", "config": rs.cfg.name(), "csrf_config": rs.cfg.literal(), "unsafe_request_shape": rs.cfg.requestShape(), "idle_timeout": rs.cfg.effIdle().String(), "history": histStrings(hist),
		"request_ctx": rs.cfg.ctxText()}
	if rs.cfg.Method != "" {
		c["application_defined_methods"] = "fiber.Config.RequestMethods = fiber.DefaultMethods + " + strings.Join(appMethodsB, ", ") + "; every 'POST (unsafe)' of the history is sent with method " + rs.cfg.Method
	}
	if extra != "" {
		c["then"] = extra
	}
	return c
}

func ckKind(si stepInfo, o opA) string {
	switch {
	case si.ob.SetCk == nil:
		return "none"
	case *si.ob.SetCk == "":
		return "expired"
	case si.ob.CkGone:
		return "already-expired-attributes"
	case *si.ob.SetCk == o.Ck && si.CLive:
		return "kept-live"
	case *si.ob.SetCk == o.Ck:
		return "kept-dead"
	}
	for _, g := range si.ob.Gen {
		if g == *si.ob.SetCk {
			return "fresh"
		}
	}
	return "foreign"
}

func (rs *runState) judge(hist []opA, si stepInfo, j *judgeCtx) {
	o := hist[len(hist)-1]
	l := j.l
	cfg := rs.cfg
	faultHere := o.Fault >= 0
	sfx := cfg.sigSuffix()
	add := func(sig, what string, cs, observed, expected any) {
		sig += sfx
		if j.noClassify {
			j.col.add(j.ord, sig, what, cs, observed, expected)
			return
		}
		if cfg.Ctx != "fresh" {
			// classification only: does the same history violate in the same way when every request gets
			// a RequestCtx of its own? If not, something kept across requests depends on the request buffers.
			onFresh := "violates too"
			if !violatesOnFresh(cfg, hist, sig) {
				onFresh = "passes"
				sig += " reused-ctx-only"
			}
			if m, ok := cs.(map[string]any); ok {
				m["same_history_on_fresh_request_ctxs"] = onFresh
			}
		}
		j.col.add(j.ord, sig, what, cs, observed, expected)
	}
	switch o.Kind {
	case 'T':
		l.Outcome("A tick")
	case 'D':
		l.Outcome(fmt.Sprintf("A delete reached=%v delerr=%q setcookie=%s fault=%v", si.ob.Reached, si.ob.DelErr, ckKind(si, o), faultHere))
		if !si.ob.Reached {
			if faultHere {
				l.Add("unspecified_skipped", 1)
			} else {
				add(fmt.Sprintf("A safe-request-rejected kind=delete backend=%s extractor=%s", cfg.Backend, cfg.Extractor),
					"a safe-method request did not reach the handler", rs.caseOf(hist, ""), si.ob, "safe methods always pass")
			}
		}
	case 'S':
		kind := ckKind(si, o)
		static := kind == "kept-live" || kind == "fresh"
		probeReached, probeP := false, false
		var pob obsA
		if si.ob.Reached && si.ob.SetCk != nil && *si.ob.SetCk != "" && !si.ob.CkGone {
			v := *si.ob.SetCk
			probeP, _ = rs.m.allows(cfg.sameSlot(), v, v, rs.s.issued)
			pob = rs.s.do("POST", v, v, rs.cl[o.Cl].Sid, false, -1, layout{})
			probeReached = pob.Reached
			l.Add("A.probes", 1)
			if probeReached && !probeP && rs.faultUsed && !faultHere {
				_, why := rs.m.allows(cfg.sameSlot(), v, v, rs.s.issued)
				add(fmt.Sprintf("A dead-token-accepted-after-ignored-store-fault why=%s failed=%s backend=%s", why, rs.faultCall, cfg.Backend),
					"an unsafe request reached the handler with a token that is "+why+"; an earlier storage failure was swallowed by the middleware",
					rs.caseOf(hist, "probe: POST presenting the cookie's token as token and cookie"), pob, "rejected ("+why+")")
			} else if probeReached && !probeP {
				_, why := rs.m.allows(cfg.sameSlot(), v, v, rs.s.issued)
				add(fmt.Sprintf("A safe-request-revalidated-dead-token why=%s backend=%s extractor=%s", why, cfg.Backend, cfg.Extractor),
					"after a safe request the cookie carries a token that is not live (never issued / expired / consumed / deleted) and an unsafe request presenting it reaches the handler",
					rs.caseOf(hist, "probe: POST presenting the cookie's token as token and cookie"), pob, "rejected")
			}
		}
		l.Outcome(fmt.Sprintf("A safe reached=%v setcookie=%s accepted=%v fault=%v", si.ob.Reached, kind, probeReached, faultHere))
		if faultHere {
			if !si.ob.Reached || (static && probeReached) {
				l.Add("unspecified_skipped", 1) // over-determined by the statement: either clause satisfied
				l.Add("A.safe_with_fault_one_clause_satisfied", 1)
			} else {
				add(fmt.Sprintf("A store-fault-ignored req=safe backend=%s failed=%s", cfg.Backend, si.ob.Failed),
					"a storage call failed during a safe request; the request was neither rejected nor did it leave a valid token cookie (the cookie's token is not accepted afterwards)",
					rs.caseOf(hist, "probe: POST presenting the cookie's token as token and cookie"), map[string]any{"safe_request": si.ob, "probe": pob},
					"either rejected (token store failed) or passes and leaves a valid token cookie")
			}
			return
		}
		switch {
		case !si.ob.Reached:
			add(fmt.Sprintf("A safe-request-rejected kind=get backend=%s extractor=%s", cfg.Backend, cfg.Extractor),
				"a safe-method request did not reach the handler", rs.caseOf(hist, ""), si.ob, "safe methods always pass")
		case !static && rs.faultUsed && kind == "kept-dead":
			// consequence of an earlier swallowed storage failure; reported through the probe above
		case !static:
			add(fmt.Sprintf("A safe-request-left-no-valid-cookie cookie=%s backend=%s extractor=%s singleuse=%v", kind, cfg.Backend, cfg.Extractor, cfg.SingleUse),
				"after a safe request the CSRF cookie is missing, expired, or carries a token that is neither the presented live token nor one generated for this request",
				rs.caseOf(hist, ""), si.ob, "Set-Cookie csrf_ = live presented token or freshly generated token")
		case !probeReached:
			add(fmt.Sprintf("A safe-request-cookie-token-not-accepted backend=%s extractor=%s singleuse=%v", cfg.Backend, cfg.Extractor, cfg.SingleUse),
				"the token left in the cookie by a safe request is not valid: an unsafe request presenting it right away is rejected",
				rs.caseOf(hist, "probe: POST presenting the cookie's token as token and cookie"), map[string]any{"safe_request": si.ob, "probe": pob}, "valid token cookie")
		}
	case 'U':
		verdict := "allows"
		if !si.P {
			verdict = "forbids:" + si.Why
		}
		l.Outcome(fmt.Sprintf("A unsafe reached=%v err=%q model=%s fault=%v", si.ob.Reached, si.ob.Err, verdict, faultHere))
		switch {
		case si.ob.Reached && si.P:
			l.Add("A.agree_pass", 1)
			if cfg.Layouts {
				l.Add("A.layouts."+cfg.Ctx+".agree_pass", 1)
			}
			if sfx != "" {
				l.Add("A.rcf.agree_pass", 1)
			}
		case !si.ob.Reached && !si.P:
			l.Add("A.agree_reject", 1)
			if cfg.Layouts {
				l.Add("A.layouts."+cfg.Ctx+".agree_reject."+si.Why, 1)
			}
			if sfx != "" {
				l.Add("A.rcf.agree_reject."+si.Why, 1)
			}
		case !si.ob.Reached && si.P:
			if faultHere {
				l.Add("A.rejected_on_store_fault", 1)
			} else {
				l.Add("A.model_allows_but_rejected", 1)
				l.Add("A.model_allows_but_rejected."+cfg.Backend, 1)
				l.Add("unspecified_skipped", 1)
			}
		}
		if si.ob.Reached && !si.P {
			if rs.faultUsed && !faultHere {
				add(fmt.Sprintf("A dead-token-accepted-after-ignored-store-fault why=%s failed=%s backend=%s", si.Why, rs.faultCall, cfg.Backend),
					"an unsafe request reached the handler with a token that is "+si.Why+"; an earlier storage failure was swallowed by the middleware",
					rs.caseOf(hist, ""), si.ob, "rejected ("+si.Why+")")
			} else {
				add(fmt.Sprintf("A unsafe-passed-without-live-token why=%s extractor=%s backend=%s singleuse=%v", si.Why, cfg.Extractor, cfg.Backend, cfg.SingleUse),
					"an unsafe request reached the protected handler although the statement's condition fails: "+si.Why,
					rs.caseOf(hist, ""), si.ob, "rejected ("+si.Why+")")
			}
		}
		if si.ob.Reached && faultHere {
			add(fmt.Sprintf("A store-fault-ignored req=unsafe backend=%s failed=%s", cfg.Backend, si.ob.Failed),
				"a storage call failed while an unsafe request was processed, yet the request reached the protected handler",
				rs.caseOf(hist, ""), si.ob, "if the token store fails the request is rejected")
		}
	}
}

// ---------------------------------------------------------------------------
// BFS by replay

// memGuard is back-pressure against heap growth: every execution allocates a fresh app, and on an
// oversubscribed machine a GC cycle can take seconds during which everything allocated stays
// live. When the heap passes the limit all workers queue behind one forced collection.
var memGuard struct {
	mu sync.Mutex
	n  atomic.Int64
}

const heapLimit = 1536 << 20

func throttle() {
	if memGuard.n.Add(1)%64 != 0 {
		return
	}
	sample := []metrics.Sample{{Name: "/memory/classes/heap/objects:bytes"}}
	metrics.Read(sample)
	if sample[0].Value.Kind() != metrics.KindUint64 || sample[0].Value.Uint64() < heapLimit {
		return
	}
	memGuard.mu.Lock()
	metrics.Read(sample)
	if sample[0].Value.Uint64() >= heapLimit {
		runtime.GC()
	}
	memGuard.mu.Unlock()
}

type hkey [16]byte

func hashKey(s string) hkey {
	h := sha1.Sum([]byte(s))
	var k hkey
	copy(k[:], h[:16])
	return k
}

type cand struct {
	ord [2]int
	st  *stateA
}

type levelMap struct {
	sh [64]struct {
		mu sync.Mutex
		m  map[hkey]*cand
	}
}

func newLevelMap() *levelMap {
	lm := &levelMap{}
	for i := range lm.sh {
		lm.sh[i].m = map[hkey]*cand{}
	}
	return lm
}

func (lm *levelMap) put(k hkey, ord [2]int, mk func() *stateA) {
	s := &lm.sh[k[0]%64]
	s.mu.Lock()
	if c, ok := s.m[k]; ok {
		if ord[0] < c.ord[0] || (ord[0] == c.ord[0] && ord[1] < c.ord[1]) {
			c.ord = ord
			if c.st != nil {
				c.st = mk()
			}
		}
	} else {
		s.m[k] = &cand{ord: ord, st: mk()}
	}
	s.mu.Unlock()
}

type bfsResult struct {
	States, Transitions, MaxDepth int
	PerLevel                      []int
	Capped                        bool
	CkName                        string
}

func bfs(r *core.Run, col *collector, cfg cfgA, cfgIdx int, samples *[]any) bfsResult {
	var res bfsResult
	cfg = resolve(cfg)
	res.CkName = cfg.CkName
	init := &stateA{}
	{
		rs := newRunState(cfg)
		init.Key = rs.key()
	}
	seen := map[hkey]struct{}{hashKey(init.Key): {}}
	frontier := []*stateA{init}
	res.States = 1
	res.PerLevel = append(res.PerLevel, 1)
	var trans int64
	var tmu sync.Mutex
	for depth := 0; depth < cfg.Depth && len(frontier) > 0; depth++ {
		last := depth == cfg.Depth-1
		lm := newLevelMap()
		r.Parallel(len(frontier), func(i int, l *core.Local) {
			if r.Expired() {
				r.Cap("wall-clock budget reached inside harness A")
				return
			}
			parent := frontier[i]
			n := 0
			diverged := false
			runOne := func(o opA, ordOp int) stepInfo {
				throttle()
				rs := newRunState(cfg)
				for _, p := range parent.Hist {
					rs.step(p)
				}
				if len(parent.Hist) > 0 {
					if k := rs.key(); k != parent.Key {
						// the middleware on an injected storage is a deterministic function of the history; a
						// replay that ends elsewhere depends on something outside the history (e.g. the hash
						// seed of a map whose keys alias request buffers)
						col.add([4]int{1, cfgIdx*100 + depth, i, -1}, fmt.Sprintf("A replay-of-history-diverges backend=%s extractor=%s", cfg.Backend, cfg.Extractor),
							"two executions of the same history on fresh apps end in different states", rs.caseOf(parent.Hist, ""), k, parent.Key)
						diverged = true
						return stepInfo{}
					}
				}
				si := rs.step(o)
				n++
				k := rs.key()
				hk := hashKey(k)
				if _, ok := seen[hk]; !ok {
					hist := append(append(make([]opA, 0, len(parent.Hist)+1), parent.Hist...), o)
					cl, fu := rs.cl, rs.faultUsed
					lm.put(hk, [2]int{i, ordOp}, func() *stateA {
						if last {
							return nil
						}
						return &stateA{Hist: hist, Cl: cl, FaultUsed: fu, Key: k}
					})
				}
				hist := append(append(make([]opA, 0, len(parent.Hist)+1), parent.Hist...), o)
				rs.judge(hist, si, &judgeCtx{l: l, col: col, ord: [4]int{1, cfgIdx*100 + depth, i, ordOp}})
				return si
			}
			for j, o := range concreteOps(cfg, parent) {
				if diverged {
					break
				}
				si := runOne(o, j*32)
				if cfg.Faults > 0 && !parent.FaultUsed && o.Kind != 'T' {
					for k := range si.ob.Calls {
						o2 := o
						o2.Fault = int8(k)
						runOne(o2, j*32+k+1)
					}
				}
			}
			tmu.Lock()
			trans += int64(n)
			tmu.Unlock()
		})
		// merge: deterministic order of the new states
		var cs []*cand
		var hks []hkey
		for si := range lm.sh {
			for k, c := range lm.sh[si].m {
				cs = append(cs, c)
				hks = append(hks, k)
			}
		}
		idx := make([]int, len(cs))
		for i := range idx {
			idx[i] = i
		}
		sort.Slice(idx, func(a, b int) bool {
			x, y := cs[idx[a]].ord, cs[idx[b]].ord
			if x[0] != y[0] {
				return x[0] < y[0]
			}
			return x[1] < y[1]
		})
		frontier = frontier[:0]
		for _, i := range idx {
			seen[hks[i]] = struct{}{}
			if cs[i].st != nil {
				frontier = append(frontier, cs[i].st)
			}
		}
		res.States += len(cs)
		res.PerLevel = append(res.PerLevel, len(cs))
		if len(cs) > 0 {
			res.MaxDepth = depth + 1
		}
		if !last && len(frontier) > 0 && depth >= 1 {
			s := frontier[len(frontier)/2]
			*samples = append(*samples, map[string]any{"harness": "A", "config": cfg.name(), "depth": depth + 1, "history": histStrings(s.Hist), "state_key": s.Key})
		}
		if r.Expired() {
			res.Capped = true
			break
		}
	}
	res.Transitions = int(trans)
	return res
}

func runA(r *core.Run, col *collector, samples *[]any, only string) map[string]any {
	var cfgs []cfgA
	quick := r.Quick()
	d := func(q, t int) int {
		if quick {
			return q
		}
		return t
	}
	all := []int{0, 1}
	// quick-tier depths per extractor (the extractors share one state space; header and cookie get the deepest search)
	nq := map[string]int{"header": 5, "form": 4, "query": 4, "param": 4, "cookie": 5} // no injected failure
	fq := map[string]int{"header": 4, "form": 3, "query": 3, "param": 3, "cookie": 3} // one injected failure
	sq := map[string]int{"header": 4, "cookie": 4, "form": 3}                         // session backends
	for _, ext := range []string{"header", "form", "query", "param", "cookie"} {
		for _, su := range []bool{false, true} {
			cfgs = append(cfgs,
				cfgA{Extractor: ext, Backend: "storage", SingleUse: su, Faults: 0, Depth: d(nq[ext], 7), Ticks: all},
				cfgA{Extractor: ext, Backend: "storage", SingleUse: su, Faults: 1, Depth: d(fq[ext], 5), Ticks: all},
			)
		}
	}
	for _, ext := range []string{"header", "cookie", "form"} {
		for _, su := range []bool{false, true} {
			cfgs = append(cfgs,
				cfgA{Extractor: ext, Backend: "session-direct", SingleUse: su, Faults: 0, Depth: d(sq[ext], 6), Ticks: all},
				cfgA{Extractor: ext, Backend: "session-direct", SingleUse: su, Faults: 1, Depth: d(3, 4), Ticks: all},
				cfgA{Extractor: ext, Backend: "session-mw", SingleUse: su, Faults: 0, Depth: d(sq[ext], 6), Ticks: []int{1}},
			)
		}
	}
	// the middleware's own in-memory store (no Storage configured: the default), with ticks (time translation
	// of its entries, see step)
	for _, ext := range []string{"header", "cookie"} {
		for _, su := range []bool{false, true} {
			cfgs = append(cfgs, cfgA{Extractor: ext, Backend: "builtin", SingleUse: su, Faults: 0, Depth: d(4, 5), Ticks: all})
		}
	}
	// fields left to their documented defaults (IdleTimeout 30 minutes, ErrorHandler 403)
	for _, be := range []string{"storage", "builtin"} {
		for _, su := range []bool{false, true} {
			cfgs = append(cfgs, cfgA{Extractor: "header", Backend: be, SingleUse: su, Faults: 0, Depth: d(3, 5), Ticks: all, Defaults: true})
		}
	}
	// the session outlives the token (session IdleTimeout = 3 x CSRF IdleTimeout): a token kept in a session
	// expires only through its own Token.Expiration, on both paths of the session manager (session taken from
	// the request context / fetched from the store)
	for _, ext := range []string{"header", "cookie"} {
		for _, su := range []bool{false, true} {
			for _, be := range []string{"session-direct", "session-mw"} {
				cfgs = append(cfgs, cfgA{Extractor: ext, Backend: be, SingleUse: su, Faults: 0, Depth: d(map[string]int{"header": 4, "cookie": 3}[ext], map[string]int{"header": 5, "cookie": 4}[ext]), Ticks: all, LongSess: true})
			}
		}
	}
	// application-defined request methods (fiber.Config.RequestMethods = default + appMethodsB): the unsafe
	// requests of the histories use one of the application's own verbs (or a standard unsafe method other than
	// POST); every token rule must hold for them as it does for POST
	for i, m := range productMethodsB() {
		be := []string{"storage", "builtin", "session-direct", "storage"}[i%4]
		ext := []string{"header", "cookie", "header", "form"}[i%4]
		for _, su := range []bool{false, true} {
			cfgs = append(cfgs, cfgA{Extractor: ext, Backend: be, SingleUse: su, Faults: 0, Depth: d(3, 4), Ticks: all, Method: m})
		}
	}
	nCanonical := len(cfgs)
	// redundant / conflicting fields (harness_a_cfg.go)
	cfgs = append(cfgs, rcfConfigs(d(3, 4), d(3, 4), all)...)
	{
		names := map[string]bool{}
		for _, c := range cfgs {
			if names[c.name()] {
				core.Fatal("duplicate configuration %s", c.name())
			}
			names[c.name()] = true
		}
	}
	per := map[string]any{}
	tot := bfsResult{}
	results := make([]*bfsResult, len(cfgs))
	csamples := make([][]any, len(cfgs))
	secs := make([]float64, len(cfgs))
	// configurations are independent searches: run a few of them side by side (each one
	// parallelises its own levels), biggest first
	order := make([]int, len(cfgs))
	for i := range order {
		order[i] = i
	}
	sort.SliceStable(order, func(a, b int) bool {
		x, y := cfgs[order[a]], cfgs[order[b]]
		if x.Faults != y.Faults {
			return x.Faults > y.Faults
		}
		return x.Depth > y.Depth
	})
	var wg sync.WaitGroup
	var next int
	var nmu sync.Mutex
	for w := 0; w < 4; w++ {
		wg.Add(1)
		go func() {
			defer wg.Done()
			for {
				nmu.Lock()
				oi := next
				next++
				nmu.Unlock()
				if oi >= len(order) {
					return
				}
				i := order[oi]
				if only != "" && !strings.Contains(cfgs[i].name(), only) {
					continue
				}
				t0 := time.Now()
				res := bfs(r, col, cfgs[i], i, &csamples[i])
				results[i] = &res
				secs[i] = time.Since(t0).Seconds()
			}
		}()
	}
	wg.Wait()
	for i, c := range cfgs {
		if results[i] == nil {
			continue
		}
		res := *results[i]
		tot.States += res.States
		tot.Transitions += res.Transitions
		if res.MaxDepth > tot.MaxDepth {
			tot.MaxDepth = res.MaxDepth
		}
		per[c.name()] = map[string]any{"csrf_cookie_observed": res.CkName, "depth_bound": c.Depth, "states": res.States, "transitions": res.Transitions, "max_depth": res.MaxDepth, "states_per_level": res.PerLevel}
		r.Add("A.states", int64(res.States))
		r.Add("A.transitions", int64(res.Transitions))
		if res.Capped {
			r.Cap("harness A stopped by the wall-clock budget in " + c.name())
		}
		if len(*samples) < 9 && len(csamples[i]) > 0 && i%7 == 0 {
			*samples = append(*samples, csamples[i][len(csamples[i])-1])
		}
		if only != "" {
			fmt.Printf("  %-45s depth<=%d states=%d transitions=%d levels=%v %.1fs\n", c.name(), c.Depth, res.States, res.Transitions, res.PerLevel, secs[i])
		}
	}
	return map[string]any{
		"states": tot.States, "transitions": tot.Transitions, "traces": tot.Transitions, "max_depth": tot.MaxDepth, "per_config": per,
		"bounds": map[string]any{
			"clients": clientName, "configs": len(cfgs), "idle_timeout": idle.String(), "ticks": tickName,
			"depth_storage_nofault": d(5, 7), "depth_storage_nofault_form_query_param": d(4, 7), "depth_storage_fault_header": d(4, 5), "depth_storage_fault_others": d(3, 5),
			"depth_session": d(4, 6), "depth_session_form": d(3, 6), "depth_session_fault": d(3, 4), "depth_builtin": d(4, 5),
			"depth_session_outliving_token_header": d(4, 5), "depth_session_outliving_token_cookie": d(3, 4), "session_idle_timeout_outliving": sessIdleLong.String(),
			"max_injected_failures_per_history": 1, "depth_application_defined_methods": d(3, 4), "application_defined_methods": appMethodsB, "unsafe_methods_on_apps_with_own_methods": productMethodsB(),
			"canonical_configs":                 nCanonical, "redundant_conflicting_field_configs": len(cfgs) - nCanonical, "depth_redundant_conflicting": d(3, 4),
			"leftover_keylookups_next_to_explicit_extractor": leftoverLookups, "explicit_extractors": []string{"header", "form", "query", "param", "cookie (the CSRF cookie)", "cookie2 (another cookie)"},
			"cookie_names": []string{"unset", "csrf_ (explicit default)", "xsrf"}, "other_ignored_fields": []string{"Storage next to Session (decoy answering every Get)", "CookieSessionOnly next to IdleTimeout"},
		},
		"time_sources": "storage backend: expiry decided only by Storage.Get/Set(exp) -> owned by the injected storage's virtual clock. session backend: sessionManager stamps Token.Expiration with time.Now() and compares with time.Now(): package csrf reads the vtime shim (overlay swapdir), held constant; a tick moves the Token.Expiration inside every stored session blob into the past by the tick plus 1ns (gob decode / encode), next to the virtual clock of the injected storage that decides the session entry's own expiry; in the session-idle=3x configurations the session outlives the token, so Token.Expiration alone decides. built-in memory store: utils.Timestamp() through the overlay clock, held constant; a tick moves the expiry of every entry into the past (overlay accessor VerifAge). the cookie Expires attribute is computed from the same constant clock",
	}
}
