package main

import (
	"errors"
	"sort"
	"strings"
	"time"
)

// vstore is the injected fiber.Storage of harness A. Expiry is decided against the
// harness-owned virtual clock `now` (never the wall clock), every call is counted per
// operation, and at most one call (index failAt inside the current operation) fails.
type vstore struct {
	now    time.Duration
	m      map[string]vent
	calls  int      // calls inside the current operation
	log    []string // names of the calls inside the current operation
	failAt int      // -1: no injected failure in the current operation
	failed string   // name of the call that failed ("" if none)
}

type vent struct {
	val []byte
	exp time.Duration // absolute virtual time; 0 = never
}

var errInjected = errors.New("injected storage failure")

func newVstore() *vstore { return &vstore{m: map[string]vent{}, failAt: -1} }

func (s *vstore) beginOp(failAt int) {
	s.calls, s.failAt, s.failed = 0, failAt, ""
	s.log = s.log[:0]
}

func (s *vstore) hit(name string) bool {
	i := s.calls
	s.calls++
	s.log = append(s.log, name)
	if i == s.failAt {
		s.failed = name
		return true
	}
	return false
}

func (s *vstore) Get(key string) ([]byte, error) {
	if s.hit("Get") {
		return nil, errInjected
	}
	e, ok := s.m[key]
	if !ok {
		return nil, nil
	}
	if e.exp != 0 && e.exp <= s.now {
		delete(s.m, key)
		return nil, nil
	}
	return append([]byte(nil), e.val...), nil
}

func (s *vstore) Set(key string, val []byte, exp time.Duration) error {
	if s.hit("Set") {
		return errInjected
	}
	if key == "" || len(val) == 0 {
		return nil
	}
	// The middleware hands over strings that alias the request buffer (c.Cookies, c.Get); a
	// storage must not retain them, so the key is cloned (values are copied as well).
	key = strings.Clone(key)
	e := vent{val: append([]byte(nil), val...)}
	if exp > 0 {
		e.exp = s.now + exp
	}
	s.m[key] = e
	return nil
}

func (s *vstore) Delete(key string) error {
	if s.hit("Delete") {
		return errInjected
	}
	delete(s.m, key)
	return nil
}

func (s *vstore) Reset() error { s.m = map[string]vent{}; return nil }
func (s *vstore) Close() error { return nil }

// liveKeys returns the unexpired keys in sorted order (harness inspection, not counted).
func (s *vstore) liveKeys() []string {
	ks := make([]string, 0, len(s.m))
	for k, e := range s.m {
		if e.exp != 0 && e.exp <= s.now {
			continue
		}
		ks = append(ks, k)
	}
	sort.Strings(ks)
	return ks
}
