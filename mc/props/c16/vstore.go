package main

import (
	"errors"
	"sort"
	"strings"
	"time"
)

// vstore is the injected fiber.Storage of harness A. Expiry is decided against the
// harness-owned virtual clock `now` (never the wall clock), every call is counted per
// operation, and at most one call (index failAt inside the current operation) fails.
//
// The store KEEPS THE KEY STRINGS IT IS GIVEN (as fiber's own internal/storage/memory and any
// map-based fiber.Storage do; on an update the key string of the entry is replaced by the one just
// given, which is what a Go map does as well). A middleware that hands over a string aliasing the
// request buffers (c.Cookies, c.Get, ...) therefore corrupts the entry as soon as the RequestCtx
// serves another request. Entries live in a slice that is searched by comparing key bytes: no
// hashing, so the behaviour of a corrupted entry is deterministic.
type vstore struct {
	now    time.Duration
	ents   []vent
	calls  int      // calls inside the current operation
	log    []string // names of the calls inside the current operation
	failAt int      // -1: no injected failure in the current operation
	failed string   // name of the call that failed ("" if none)

	sessions bool // the values are session blobs: a tick also ages the Token.Expiration kept inside them (ageSessions)
}

type vent struct {
	key string // exactly the string handed to Set (never cloned)
	val []byte
	exp time.Duration // absolute virtual time; 0 = never
}

var errInjected = errors.New("injected storage failure")

func newVstore() *vstore { return &vstore{failAt: -1} }

func (s *vstore) find(key string) int {
	for i := range s.ents {
		if s.ents[i].key == key {
			return i
		}
	}
	return -1
}

func (s *vstore) remove(i int) { s.ents = append(s.ents[:i], s.ents[i+1:]...) }

func (s *vstore) beginOp(failAt int) {
	s.calls, s.failAt, s.failed = 0, failAt, ""
	s.log = s.log[:0]
}

func (s *vstore) hit(name string) bool {
	i := s.calls
	s.calls++
	s.log = append(s.log, name)
	if i == s.failAt {
		s.failed = name
		return true
	}
	return false
}

func (s *vstore) Get(key string) ([]byte, error) {
	if s.hit("Get") {
		return nil, errInjected
	}
	i := s.find(key)
	if i < 0 {
		return nil, nil
	}
	if e := s.ents[i]; e.exp != 0 && e.exp <= s.now {
		s.remove(i)
		return nil, nil
	}
	return append([]byte(nil), s.ents[i].val...), nil
}

func (s *vstore) Set(key string, val []byte, exp time.Duration) error {
	if s.hit("Set") {
		return errInjected
	}
	if key == "" || len(val) == 0 {
		return nil
	}
	// the key string is kept as given (see the type comment); the value is copied
	e := vent{key: key, val: append([]byte(nil), val...)}
	if exp > 0 {
		e.exp = s.now + exp
	}
	if i := s.find(key); i >= 0 {
		s.ents[i] = e
	} else {
		s.ents = append(s.ents, e)
	}
	return nil
}

func (s *vstore) Delete(key string) error {
	if s.hit("Delete") {
		return errInjected
	}
	if i := s.find(key); i >= 0 {
		s.remove(i)
	}
	return nil
}

func (s *vstore) Reset() error { s.ents = nil; return nil }
func (s *vstore) Close() error { return nil }

// live returns copies of the unexpired entries sorted by the CURRENT bytes of their keys (harness
// inspection, not counted; the keys are cloned here because they may alias request buffers).
func (s *vstore) live() []vent {
	var out []vent
	for _, e := range s.ents {
		if e.exp != 0 && e.exp <= s.now {
			continue
		}
		e.key = strings.Clone(e.key)
		out = append(out, e)
	}
	sort.SliceStable(out, func(i, j int) bool { return out[i].key < out[j].key })
	return out
}
