package main

import (
	"fmt"
	"net/url"
	"strings"

	"github.com/gofiber/fiber/v3"
	"github.com/gofiber/fiber/v3/middleware/csrf"
	"github.com/valyala/fasthttp"

	"verifmc/core"
	"verifmc/fx"
)

// ---------------------------------------------------------------------------
// reference: origins per RFC 6454

type rorigin struct {
	Scheme, Host, Port string
	OK                 bool
}

func defPort(scheme string) string {
	switch scheme {
	case "http":
		return "80"
	case "https":
		return "443"
	}
	return ""
}

// originOf extracts the origin (scheme, host, port) of a URL-ish header value. Only the authority
// contributes; path, query, fragment and userinfo are ignored.
func originOf(s string) rorigin {
	u, err := url.Parse(s)
	if err != nil || u.Scheme == "" || u.Host == "" || u.Opaque != "" {
		return rorigin{}
	}
	sc := strings.ToLower(u.Scheme)
	h := strings.ToLower(u.Hostname())
	p := u.Port()
	if p == "" {
		p = defPort(sc)
	}
	if h == "" {
		return rorigin{}
	}
	return rorigin{sc, h, p, true}
}

func ownOrigin(scheme, hostHdr string) rorigin {
	return originOf(scheme + "://" + hostHdr)
}

func validLabels(s string) bool {
	if s == "" {
		return false
	}
	for _, l := range strings.Split(s, ".") {
		if l == "" {
			return false
		}
	}
	return true
}

// refAllowed: same origin, or equal to an exact trusted entry, or (wildcard entry) same scheme and
// port and host = <non-empty labels> "." domain.
func refAllowed(o, own rorigin, trusted []string) bool {
	if !o.OK {
		return false
	}
	if o == own {
		return true
	}
	for _, t := range trusted {
		if i := strings.Index(t, "://*."); i != -1 {
			w := originOf(t[:i+3] + t[i+5:])
			if !w.OK || o.Scheme != w.Scheme || o.Port != w.Port {
				continue
			}
			suf := "." + w.Host
			if strings.HasSuffix(o.Host, suf) && validLabels(strings.TrimSuffix(o.Host, suf)) {
				return true
			}
			continue
		}
		if e := originOf(t); e.OK && e == o {
			return true
		}
	}
	return false
}

// diagnose names, for the signature, WHY a foreign value could have been accepted: it looks at the
// value itself (where a configured wildcard domain suffix sits) so that different alphabet entries
// exercising the same defect share one signature; otherwise the alphabet's class label is used.
func diagnose(class, val string, trusted []string) string {
	class = strings.TrimSuffix(class, "-upper")
	u, err := url.Parse(strings.ToLower(val))
	if err != nil {
		return class
	}
	for _, t := range trusted {
		i := strings.Index(t, "://*.")
		if i == -1 {
			continue
		}
		suf := "." + strings.ToLower(t[i+5:])
		host := u.Hostname()
		if strings.HasSuffix(host, suf) && !validLabels(strings.TrimSuffix(host, suf)) {
			return "empty-label"
		}
		if strings.HasSuffix(strings.ToLower(val), suf) && !strings.HasSuffix(u.Host, suf) {
			switch {
			case u.Fragment != "":
				return "trusted-suffix-in-fragment"
			case u.RawQuery != "":
				return "trusted-suffix-in-query"
			default:
				return "trusted-suffix-in-path"
			}
		}
	}
	return class
}

// ---------------------------------------------------------------------------
// alphabets

type hv struct {
	Class string
	Val   string // may contain {S} own scheme, {O} other scheme, {H} Host header, {N} host name without port, {DP} default port
}

func originAlphabet(thorough bool) []hv {
	a := []hv{
		{"absent", ""},
		{"null", "null"},
		{"same", "{S}://{H}"},
		{"same-upper", "{S^}://{H^}"},
		{"same-explicit-default-port", "{S}://{N}:{DP}"},
		{"same-host-other-port", "{S}://{N}:9999"},
		{"same-host-other-scheme", "{O}://{H}"},
		{"trusted-exact", "https://partner.example.net"},
		{"trusted-exact-upper", "HTTPS://PARTNER.EXAMPLE.NET"},
		{"trusted-exact-trailing-slash", "https://partner.example.net/"},
		{"exact-other-scheme", "http://partner.example.net"},
		{"exact-other-port", "https://partner.example.net:8443"},
		{"exact-lookalike-suffix", "https://partner.example.net.evil.com"},
		{"exact-lookalike-prefix", "https://evilpartner.example.net"},
		{"exact-in-path", "https://evil.com/https://partner.example.net"},
		{"wildcard-sub", "https://a.example.com"},
		{"wildcard-deep-sub", "https://a.b.example.com"},
		{"wildcard-sub-upper", "https://A.EXAMPLE.COM"},
		{"wildcard-sub-other-scheme", "http://a.example.com"},
		{"wildcard-sub-other-port", "https://a.example.com:8443"},
		{"apex-https", "https://example.com"},
		{"evil", "https://evil.com"},
		{"lookalike-prefix", "https://evilexample.com"},
		{"lookalike-suffix", "https://example.com.evil.com"},
		{"trusted-suffix-in-path", "https://evil.com/.example.com"},
		{"trusted-suffix-in-path", "https://evil.com/a.example.com"},
		{"trusted-suffix-in-path-upper", "HTTPS://EVIL.COM/.EXAMPLE.COM"},
		{"trusted-suffix-in-query", "https://evil.com?.example.com"},
		{"trusted-suffix-in-fragment", "https://evil.com#.example.com"},
		{"empty-label", "https://.example.com"},
		{"trusted-host-in-userinfo", "https://a.example.com@evil.com"},
		{"evil-userinfo-trusted-host", "https://evil.com@a.example.com"},
		{"unparsable-escape", "https://%zz"},
		{"unparsable-port", "https://evil.com:.example.com"},
		{"backslash", "https://evil.com\\.example.com"},
		{"schemeless", "a.example.com"},
		{"protocol-relative", "//a.example.com"},
	}
	if thorough {
		a = append(a,
			hv{"empty-label-deep", "https://a..example.com"},
			hv{"empty-label-upper", "HTTPS://.EXAMPLE.COM"},
			hv{"trusted-suffix-in-path", "https://evil.com/x/y.example.com"},
			hv{"trusted-suffix-in-query", "https://evil.com/?q=.example.com"},
			hv{"trusted-suffix-in-path-http-prefix", "http://evil.com/.example.com"},
			hv{"wildcard-sub-trailing-dot", "https://a.example.com."},
			hv{"wildcard-sub-trailing-slash", "https://a.example.com/"},
			hv{"evil-port", "https://evil.com:443"},
			hv{"same-trailing-slash", "{S}://{H}/"},
			hv{"same-in-path", "https://evil.com/{S}://{H}"},
			hv{"same-lookalike-suffix", "{S}://{H}.evil.com"},
			hv{"same-in-userinfo", "{S}://{N}@evil.com"},
			hv{"other-scheme-ftp", "ftp://{H}"},
			hv{"ipv6-evil", "https://[2001:db8::1]"},
			hv{"leading-space", " https://evil.com/.example.com"},
			hv{"wildcard-literal", "https://*.example.com"},
		)
	}
	return a
}

func refererAlphabet(thorough bool) []hv {
	a := []hv{
		{"absent", ""},
		{"same-with-path", "{S}://{H}/page?x=1"},
		{"same-bare", "{S}://{H}"},
		{"same-host-other-scheme", "{O}://{H}/page"},
		{"trusted-exact-bare", "https://partner.example.net"},
		{"trusted-exact-with-path", "https://partner.example.net/x"},
		{"wildcard-sub-bare", "https://a.example.com"},
		{"wildcard-sub-with-path", "https://a.example.com/page"},
		{"evil-with-path", "https://evil.com/page"},
		{"trusted-suffix-in-path", "https://evil.com/x.example.com"},
		{"trusted-suffix-in-query", "https://evil.com/?r=.example.com"},
		{"trusted-suffix-in-fragment", "https://evil.com/#.example.com"},
		{"trusted-suffix-in-path-upper", "HTTPS://EVIL.COM/X.EXAMPLE.COM"},
		{"exact-in-path", "https://evil.com/https://partner.example.net"},
		{"lookalike-prefix", "https://evilexample.com/"},
		{"lookalike-suffix", "https://example.com.evil.com/"},
		{"empty-label", "https://.example.com/"},
		{"unparsable-escape", "https://%zz/"},
	}
	if thorough {
		a = append(a,
			hv{"same-in-path", "https://evil.com/{S}://{H}"},
			hv{"same-lookalike-suffix", "{S}://{H}.evil.com/x"},
			hv{"trusted-host-in-userinfo", "https://a.example.com@evil.com/"},
			hv{"trusted-suffix-in-path", "https://evil.com/a/b/.example.com"},
			hv{"exact-lookalike-suffix", "https://partner.example.net.evil.com"},
			hv{"wildcard-sub-other-scheme", "http://a.example.com/page"},
			hv{"schemeless", "a.example.com/page"},
		)
	}
	return a
}

func expand(t, scheme, host string) string {
	other := "http"
	if scheme == "http" {
		other = "https"
	}
	name := host
	if i := strings.LastIndex(host, ":"); i != -1 {
		name = host[:i]
	}
	rep := strings.NewReplacer("{S^}", strings.ToUpper(scheme), "{H^}", strings.ToUpper(host), "{S}", scheme, "{O}", other, "{H}", host, "{N}", name, "{DP}", defPort(scheme))
	return rep.Replace(t)
}

type modeB struct {
	Name   string
	Scheme string // what the request's own scheme is (reference)
	TLS    bool
	Peer   string
	XFP    string
}

var modesB = []modeB{
	{"http", "http", false, "8.8.8.8", ""},
	{"https-tls", "https", true, "8.8.8.8", ""},
	{"https-trusted-xfp", "https", false, "10.0.0.1", "https"},
	{"http-untrusted-xfp", "http", false, "8.8.8.8", "https"},
}

type trustB struct {
	Name    string
	Origins []string
}

var trustsB = []trustB{
	{"none", nil},
	{"exact", []string{"https://partner.example.net"}},
	{"wildcard", []string{"https://*.example.com"}},
	{"exact+wildcard", []string{"https://partner.example.net", "https://*.example.com"}},
}

func runB(r *core.Run, col *collector, samples *[]any) map[string]any {
	thorough := !r.Quick()
	origins := originAlphabet(thorough)
	referers := refererAlphabet(thorough)
	hosts := []string{"example.com", "example.com:8080", "a.example.com"}
	if thorough {
		hosts = append(hosts, "EXAMPLE.com", "partner.example.net")
	}
	type unit struct{ ti, mi, hi int }
	var units []unit
	for ti := range trustsB {
		for mi := range modesB {
			for hi := range hosts {
				units = append(units, unit{ti, mi, hi})
			}
		}
	}
	r.Parallel(len(units), func(ui int, l *core.Local) {
		u := units[ui]
		tr, mode, host := trustsB[u.ti], modesB[u.mi], hosts[u.hi]
		reached := false
		lastErr := ""
		app := fiber.New(fiber.Config{TrustProxy: true, TrustProxyConfig: fiber.TrustProxyConfig{Proxies: []string{"10.0.0.1"}}})
		app.Use(csrf.New(csrf.Config{TrustedOrigins: tr.Origins, ErrorHandler: func(_ fiber.Ctx, err error) error {
			lastErr = err.Error()
			return fiber.ErrForbidden
		}}))
		app.All("/", func(c fiber.Ctx) error { reached = true; return c.SendString("ok") })
		h := app.Handler()
		var fctx fasthttp.RequestCtx
		peer := fx.TCP(mode.Peer, 5555)
		// obtain a valid token + cookie
		greq := fx.Req("GET", "/")
		greq.Header.SetHost(host)
		fx.CallInto(&fctx, h, greq, peer, mode.TLS)
		var ck fasthttp.Cookie
		ck.SetKey("csrf_")
		if !fctx.Response.Header.Cookie(&ck) || len(ck.Value()) == 0 {
			core.Fatal("B: GET did not issue a csrf cookie")
		}
		tok := string(ck.Value())
		own := ownOrigin(mode.Scheme, host)
		for oi, ov := range origins {
			for ri, rv := range referers {
				oval, rval := expand(ov.Val, mode.Scheme, host), expand(rv.Val, mode.Scheme, host)
				req := fx.Req("POST", "/", "X-Csrf-Token", tok, "Cookie", "csrf_="+tok)
				req.Header.SetHost(host)
				if mode.XFP != "" {
					req.Header.Set("X-Forwarded-Proto", mode.XFP)
				}
				if oval != "" {
					req.Header.Set("Origin", oval)
				}
				if rval != "" {
					req.Header.Set("Referer", rval)
				}
				reached, lastErr = false, ""
				fx.CallInto(&fctx, h, req, peer, mode.TLS)
				l.Add("B.evaluations", 1)
				https := mode.Scheme == "https"
				oAllowed := refAllowed(originOf(oval), own, tr.Origins)
				rAllowed := refAllowed(originOf(rval), own, tr.Origins)
				isNull := strings.EqualFold(oval, "null")
				cs := map[string]any{"harness": "B", "scheme_mode": mode.Name, "tls": mode.TLS, "peer": mode.Peer, "x_forwarded_proto": mode.XFP,
					"host": host, "origin": oval, "origin_class": ov.Class, "referer": rval, "referer_class": rv.Class,
					"trusted_origins": tr.Origins, "token": "valid (issued by a prior GET, sent as X-Csrf-Token and csrf_ cookie)"}
				ord := [4]int{0, ui, oi, ri}
				oKind, rKind := "absent", "ignored"
				judged := false
				switch {
				case oval != "" && !isNull:
					judged = true
					oKind = fmt.Sprintf("allowed=%v", oAllowed)
					if reached && !oAllowed {
						col.add(ord, fmt.Sprintf("B origin-check-bypass via=Origin class=%s wildcard-entry-configured=%v", diagnose(ov.Class, oval, tr.Origins), strings.Contains(tr.Name, "wildcard")),
							"unsafe request with a valid token reached the handler although its Origin is neither the same origin nor a trusted origin",
							cs, map[string]any{"reached": true, "status": fctx.Response.StatusCode()}, "rejected: origin "+oval+" is not "+fmt.Sprint(own)+" nor trusted")
					}
				case https && rval != "":
					judged = true
					if isNull {
						oKind = "null"
					}
					rKind = fmt.Sprintf("allowed=%v", rAllowed)
					if reached && !rAllowed {
						col.add(ord, fmt.Sprintf("B origin-check-bypass via=Referer class=%s wildcard-entry-configured=%v", diagnose(rv.Class, rval, tr.Origins), strings.Contains(tr.Name, "wildcard")),
							"https unsafe request without a usable Origin reached the handler although its Referer's origin is neither the same origin nor a trusted origin",
							cs, map[string]any{"reached": true, "status": fctx.Response.StatusCode()}, "rejected: referer origin is not "+fmt.Sprint(own)+" nor trusted")
					}
				case isNull:
					oKind = "null"
					if reached {
						l.Add("unspecified_skipped", 1)
						l.Add("B.null_origin_reached", 1)
					}
				default:
					if https {
						rKind = "absent"
					}
				}
				if judged {
					l.Add("B.nontrivial", 1)
					if reached {
						l.Add("B.judged_reached", 1)
					} else {
						l.Add("B.judged_rejected", 1)
						if (oval != "" && !isNull && oAllowed) || ((oval == "" || isNull) && rAllowed) {
							l.Add("B.legitimate_rejected_not_judged", 1)
						}
					}
				}
				l.Outcome(fmt.Sprintf("B https=%v origin:%s referer:%s reached=%v err=%q", https, oKind, rKind, reached, lastErr))
				if ui%13 == 5 && oi == 24 && (ri == 0 || ri == 9) {
					l.Sample(map[string]any{"case": cs, "reached": reached, "csrf_error": lastErr})
				}
			}
		}
		// method sweep: every safe method passes and leaves a cookie whatever the Origin; every other
		// method is protected (no token => rejected; valid token from a foreign origin => rejected)
		for mi2, method := range []string{"GET", "HEAD", "OPTIONS", "TRACE", "POST", "PUT", "PATCH", "DELETE", "CONNECT"} {
			safe := mi2 < 4
			for vi, variant := range []string{"no-token", "valid-token+evil-origin", "valid-token+null-origin+evil-referer"} {
				req := fx.Req(method, "/")
				req.Header.SetHost(host)
				if mode.XFP != "" {
					req.Header.Set("X-Forwarded-Proto", mode.XFP)
				}
				switch variant {
				case "valid-token+evil-origin":
					req.Header.Set("X-Csrf-Token", tok)
					req.Header.Set("Cookie", "csrf_="+tok)
					req.Header.Set("Origin", "https://evil.com")
				case "valid-token+null-origin+evil-referer":
					req.Header.Set("X-Csrf-Token", tok)
					req.Header.Set("Cookie", "csrf_="+tok)
					req.Header.Set("Origin", "null")
					req.Header.Set("Referer", "https://evil.com/page")
				}
				reached, lastErr = false, ""
				fx.CallInto(&fctx, h, req, peer, mode.TLS)
				l.Add("B.method_sweep", 1)
				var sc fasthttp.Cookie
				sc.SetKey("csrf_")
				hasCk := fctx.Response.Header.Cookie(&sc) && len(sc.Value()) > 0
				cs := map[string]any{"harness": "B", "method": method, "variant": variant, "scheme_mode": mode.Name, "host": host, "trusted_origins": tr.Origins}
				ord := [4]int{0, ui, 1000 + mi2, vi}
				l.Outcome(fmt.Sprintf("B method-sweep safe=%v %s reached=%v cookie=%v", safe, variant, reached, hasCk))
				switch {
				case safe && !reached:
					col.add(ord, "B safe-method-rejected method="+method, "a safe-method request did not reach the handler", cs, map[string]any{"reached": false, "csrf_error": lastErr, "status": fctx.Response.StatusCode()}, "safe methods always pass")
				case safe && !hasCk:
					col.add(ord, "B safe-method-left-no-cookie method="+method, "a safe-method request left no CSRF cookie", cs, map[string]any{"reached": true}, "a valid token cookie")
				case !safe && reached && (variant != "valid-token+null-origin+evil-referer" || mode.Scheme == "https"):
					col.add(ord, "B unsafe-method-unprotected method="+method+" variant="+variant, "an unsafe-method request without a token / from a foreign origin reached the handler", cs, map[string]any{"reached": true}, "rejected")
				case !safe && reached:
					l.Add("unspecified_skipped", 1) // http + Origin: null: see assumptions
				}
			}
		}
		// control: the token must still be good, otherwise rejections above were not about the origin
		reached = false
		creq := fx.Req("POST", "/", "X-Csrf-Token", tok, "Cookie", "csrf_="+tok, "Origin", mode.Scheme+"://"+host)
		creq.Header.SetHost(host)
		if mode.XFP != "" {
			creq.Header.Set("X-Forwarded-Proto", mode.XFP)
		}
		fx.CallInto(&fctx, h, creq, peer, mode.TLS)
		if !reached && host == strings.ToLower(host) {
			core.Fatal("B: control request (same origin, valid token) was rejected: %s (mode %s host %s)", lastErr, mode.Name, host)
		}
	})
	*samples = append(*samples, map[string]any{"harness": "B", "origin_alphabet": len(origins), "referer_alphabet": len(referers)})
	return map[string]any{
		"rule": fmt.Sprintf("harness B: full product of %d TrustedOrigins configs x %d scheme modes (http, https by TLS, https by trusted X-Forwarded-Proto, http with untrusted X-Forwarded-Proto) x %d Host values x %d Origin values x %d Referer values, each POST carrying a valid token+cookie obtained by a prior GET; a case is non-trivial when the statement constrains it (usable Origin present, or https with Referer present and no usable Origin); a reached handler is compared with an RFC 6454 origin predicate",
			len(trustsB), len(modesB), len(hosts), len(origins), len(referers)),
		"bounds": map[string]any{"trusted_configs": len(trustsB), "scheme_modes": len(modesB), "hosts": len(hosts), "origins": len(origins), "referers": len(referers)},
	}
}
