package main

import (
	"fmt"
	"net/url"
	"regexp"
	"sort"
	"strings"
	"sync"

	"github.com/gofiber/fiber/v3"
	"github.com/gofiber/fiber/v3/middleware/csrf"
	"github.com/valyala/fasthttp"

	"verifmc/core"
	"verifmc/fx"
)

// ---------------------------------------------------------------------------
// reference: origins per RFC 6454

type rorigin struct {
	Scheme, Host, Port string
	OK                 bool
}

func defPort(scheme string) string {
	switch scheme {
	case "http":
		return "80"
	case "https":
		return "443"
	}
	return ""
}

// originOf extracts the origin (scheme, host, port) of a URL-ish header value. Only the authority
// contributes; path, query, fragment and userinfo are ignored.
func originOf(s string) rorigin {
	u, err := url.Parse(s)
	if err != nil || u.Scheme == "" || u.Host == "" || u.Opaque != "" {
		return rorigin{}
	}
	sc := strings.ToLower(u.Scheme)
	h := strings.ToLower(u.Hostname())
	p := u.Port()
	if p == "" {
		p = defPort(sc)
	}
	if h == "" {
		return rorigin{}
	}
	return rorigin{sc, h, p, true}
}

func ownOrigin(scheme, hostHdr string) rorigin {
	return originOf(scheme + "://" + hostHdr)
}

func validLabels(s string) bool {
	if s == "" {
		return false
	}
	for _, l := range strings.Split(s, ".") {
		if l == "" {
			return false
		}
	}
	return true
}

// refAllowed: same origin, or equal to an exact trusted entry, or (wildcard entry) same scheme and
// port and host = <non-empty labels> "." domain.
func refAllowed(o, own rorigin, trusted []string) bool {
	if !o.OK {
		return false
	}
	if o == own {
		return true
	}
	for _, t := range trusted {
		t = strings.TrimSpace(t) // the middleware documents nothing about blanks but trims them itself
		if i := strings.Index(t, "://*."); i != -1 {
			w := originOf(t[:i+3] + t[i+5:])
			if !w.OK || o.Scheme != w.Scheme || o.Port != w.Port {
				continue
			}
			suf := "." + w.Host
			if strings.HasSuffix(o.Host, suf) && validLabels(strings.TrimSuffix(o.Host, suf)) {
				return true
			}
			continue
		}
		if e := originOf(t); e.OK && e == o {
			return true
		}
	}
	return false
}

// diagnose names, for the signature, WHY a foreign value could have been accepted: it looks at the
// value itself (where a configured wildcard domain suffix sits) so that different alphabet entries
// exercising the same defect share one signature; otherwise the alphabet's class label is used.
func diagnose(class, val string, trusted []string) string {
	class = strings.TrimSuffix(class, "-upper")
	u, err := url.Parse(strings.ToLower(val))
	if err != nil {
		return class
	}
	for _, t := range trusted {
		t = strings.TrimSuffix(strings.TrimSpace(t), "/")
		i := strings.Index(t, "://*.")
		if i == -1 {
			continue
		}
		suf := "." + strings.ToLower(t[i+5:])
		host := u.Hostname()
		if strings.HasSuffix(host, suf) && !validLabels(strings.TrimSuffix(host, suf)) {
			return "empty-label"
		}
		if strings.HasSuffix(strings.ToLower(val), suf) && !strings.HasSuffix(u.Host, suf) {
			switch {
			case u.Fragment != "":
				return "trusted-suffix-in-fragment"
			case u.RawQuery != "":
				return "trusted-suffix-in-query"
			default:
				return "trusted-suffix-in-path"
			}
		}
	}
	return class
}

// ---------------------------------------------------------------------------
// alphabets

type hv struct {
	Class string
	Val   string // may contain {S} own scheme, {O} other scheme, {H} Host header, {N} host name without port, {DP} default port
}

func originAlphabet(thorough bool) []hv {
	a := []hv{
		{"absent", ""},
		{"null", "null"},
		{"same", "{S}://{H}"},
		{"same-upper", "{S^}://{H^}"},
		{"same-explicit-default-port", "{S}://{N}:{DP}"},
		{"same-host-other-port", "{S}://{N}:9999"},
		{"same-host-other-scheme", "{O}://{H}"},
		{"trusted-exact", "https://partner.example.net"},
		{"trusted-exact-upper", "HTTPS://PARTNER.EXAMPLE.NET"},
		{"trusted-exact-trailing-slash", "https://partner.example.net/"},
		{"exact-other-scheme", "http://partner.example.net"},
		{"exact-other-port", "https://partner.example.net:8443"},
		{"exact-lookalike-suffix", "https://partner.example.net.evil.com"},
		{"exact-lookalike-prefix", "https://evilpartner.example.net"},
		{"exact-in-path", "https://evil.com/https://partner.example.net"},
		{"wildcard-sub", "https://a.example.com"},
		{"wildcard-deep-sub", "https://a.b.example.com"},
		{"wildcard-sub-upper", "https://A.EXAMPLE.COM"},
		{"wildcard-sub-other-scheme", "http://a.example.com"},
		{"wildcard-sub-other-port", "https://a.example.com:8443"},
		{"apex-https", "https://example.com"},
		{"evil", "https://evil.com"},
		{"lookalike-prefix", "https://evilexample.com"},
		{"lookalike-suffix", "https://example.com.evil.com"},
		{"trusted-suffix-in-path", "https://evil.com/.example.com"},
		{"trusted-suffix-in-path", "https://evil.com/a.example.com"},
		{"trusted-suffix-in-path-upper", "HTTPS://EVIL.COM/.EXAMPLE.COM"},
		{"trusted-suffix-in-query", "https://evil.com?.example.com"},
		{"trusted-suffix-in-fragment", "https://evil.com#.example.com"},
		{"empty-label", "https://.example.com"},
		{"trusted-host-in-userinfo", "https://a.example.com@evil.com"},
		{"evil-userinfo-trusted-host", "https://evil.com@a.example.com"},
		{"unparsable-escape", "https://%zz"},
		{"unparsable-port", "https://evil.com:.example.com"},
		{"backslash", "https://evil.com\\.example.com"},
		{"schemeless", "a.example.com"},
		{"protocol-relative", "//a.example.com"},
	}
	if thorough {
		a = append(a,
			hv{"empty-label-deep", "https://a..example.com"},
			hv{"empty-label-upper", "HTTPS://.EXAMPLE.COM"},
			hv{"trusted-suffix-in-path", "https://evil.com/x/y.example.com"},
			hv{"trusted-suffix-in-query", "https://evil.com/?q=.example.com"},
			hv{"trusted-suffix-in-path-http-prefix", "http://evil.com/.example.com"},
			hv{"wildcard-sub-trailing-dot", "https://a.example.com."},
			hv{"wildcard-sub-trailing-slash", "https://a.example.com/"},
			hv{"evil-port", "https://evil.com:443"},
			hv{"same-trailing-slash", "{S}://{H}/"},
			hv{"same-in-path", "https://evil.com/{S}://{H}"},
			hv{"same-lookalike-suffix", "{S}://{H}.evil.com"},
			hv{"same-in-userinfo", "{S}://{N}@evil.com"},
			hv{"other-scheme-ftp", "ftp://{H}"},
			hv{"ipv6-evil", "https://[2001:db8::1]"},
			hv{"leading-space", " https://evil.com/.example.com"},
			hv{"wildcard-literal", "https://*.example.com"},
		)
	}
	return a
}

func refererAlphabet(thorough bool) []hv {
	a := []hv{
		{"absent", ""},
		{"same-with-path", "{S}://{H}/page?x=1"},
		{"same-bare", "{S}://{H}"},
		{"same-host-other-scheme", "{O}://{H}/page"},
		{"trusted-exact-bare", "https://partner.example.net"},
		{"trusted-exact-with-path", "https://partner.example.net/x"},
		{"wildcard-sub-bare", "https://a.example.com"},
		{"wildcard-sub-with-path", "https://a.example.com/page"},
		{"evil-with-path", "https://evil.com/page"},
		{"trusted-suffix-in-path", "https://evil.com/x.example.com"},
		{"trusted-suffix-in-query", "https://evil.com/?r=.example.com"},
		{"trusted-suffix-in-fragment", "https://evil.com/#.example.com"},
		{"trusted-suffix-in-path-upper", "HTTPS://EVIL.COM/X.EXAMPLE.COM"},
		{"exact-in-path", "https://evil.com/https://partner.example.net"},
		{"lookalike-prefix", "https://evilexample.com/"},
		{"lookalike-suffix", "https://example.com.evil.com/"},
		{"empty-label", "https://.example.com/"},
		{"unparsable-escape", "https://%zz/"},
	}
	if thorough {
		a = append(a,
			hv{"same-in-path", "https://evil.com/{S}://{H}"},
			hv{"same-lookalike-suffix", "{S}://{H}.evil.com/x"},
			hv{"trusted-host-in-userinfo", "https://a.example.com@evil.com/"},
			hv{"trusted-suffix-in-path", "https://evil.com/a/b/.example.com"},
			hv{"exact-lookalike-suffix", "https://partner.example.net.evil.com"},
			hv{"wildcard-sub-other-scheme", "http://a.example.com/page"},
			hv{"schemeless", "a.example.com/page"},
		)
	}
	return a
}

func expand(t, scheme, host string) string {
	other := "http"
	if scheme == "http" {
		other = "https"
	}
	name := host
	if i := strings.LastIndex(host, ":"); i != -1 {
		name = host[:i]
	}
	rep := strings.NewReplacer("{S^}", strings.ToUpper(scheme), "{H^}", strings.ToUpper(host), "{S}", scheme, "{O}", other, "{H}", host, "{N}", name, "{DP}", defPort(scheme))
	return rep.Replace(t)
}

type modeB struct {
	Name   string
	Scheme string // what the request's own scheme is (reference)
	TLS    bool
	Peer   string
	XFP    string
}

var modesB = []modeB{
	{"http", "http", false, "8.8.8.8", ""},
	{"https-tls", "https", true, "8.8.8.8", ""},
	{"https-trusted-xfp", "https", false, "10.0.0.1", "https"},
	{"http-untrusted-xfp", "http", false, "8.8.8.8", "https"},
}

type trustB struct {
	Name    string
	Origins []string
}

// trustsB: the first four are the canonical spellings; the others are the "spelling of a trusted entry"
// dimension: every form csrf.New accepts (upper case, trailing slash, surrounding blanks, explicit / default
// port, http, deeper wildcard, several entries). Their violations carry ` entry=<spelling>` unless the same
// violation also shows with a canonical configuration.
var trustsB = []trustB{
	{"none", nil},
	{"exact", []string{"https://partner.example.net"}},
	{"wildcard", []string{"https://*.example.com"}},
	{"exact+wildcard", []string{"https://partner.example.net", "https://*.example.com"}},
	{"none:no-config", nil},
	{"exact:upper", []string{"HTTPS://PARTNER.EXAMPLE.NET"}},
	{"exact:trailing-slash", []string{"https://partner.example.net/"}},
	{"exact:blanks", []string{" https://partner.example.net "}},
	{"exact:port", []string{"https://partner.example.net:8443"}},
	{"exact:default-port", []string{"https://partner.example.net:443"}},
	{"exact:http", []string{"http://partner.example.net"}},
	{"exact:several", []string{"https://one.example.org", "http://two.example.org:8080", "https://partner.example.net"}},
	{"wildcard:upper", []string{"HTTPS://*.EXAMPLE.COM"}},
	{"wildcard:trailing-slash", []string{"https://*.example.com/"}},
	{"wildcard:blanks", []string{" https://*.example.com "}},
	{"wildcard:port", []string{"https://*.example.com:8443"}},
	{"wildcard:http", []string{"http://*.example.com"}},
	{"wildcard:deeper", []string{"https://*.api.example.com"}},
	{"wildcard:several", []string{"https://*.example.org", "https://*.example.com"}},
}

const nCanonicalTrusts = 4

// spelling is the qualifier of a non-canonical trusted-origins configuration ("" for canonical ones).
func (t trustB) spelling() string {
	if i := strings.Index(t.Name, ":"); i != -1 {
		return t.Name[i+1:]
	}
	return ""
}

// nearOrigins derives, from the configured entries themselves, the origins that sit next to them: the entry
// (wildcards instantiated with one and two labels) and its one-component variations - case, scheme, port
// (absent / default / other), trailing slash, look-alike hosts, the host moved into userinfo, path, query or
// fragment of a foreign URL, and for wildcards the label prefixes {none, empty, doubled dot, glued text}.
func nearOrigins(entries []string) []hv {
	var out []hv
	seen := map[string]bool{}
	add := func(class, val string) {
		if !seen[val] {
			seen[val] = true
			out = append(out, hv{class, val})
		}
	}
	for _, raw := range entries {
		e := strings.ToLower(strings.TrimSuffix(strings.TrimSpace(raw), "/"))
		i := strings.Index(e, "://")
		if i == -1 {
			continue
		}
		scheme, rest := e[:i], e[i+3:]
		other := "http"
		if scheme == "http" {
			other = "https"
		}
		wild := strings.HasPrefix(rest, "*.")
		rest = strings.TrimPrefix(rest, "*.")
		host, port := rest, ""
		if j := strings.LastIndex(rest, ":"); j != -1 {
			host, port = rest[:j], rest[j:]
		}
		// class names follow the fixed alphabet (exact-other-port, wildcard-sub-other-scheme, ...), so that a
		// defect seen with a canonical and with a respelt configuration shares one signature stem
		bases := []struct{ pfx, h string }{{"exact", host}}
		if wild {
			bases = []struct{ pfx, h string }{{"wildcard-sub", "a." + host}, {"wildcard-deep-sub", "a.b." + host}}
			for _, lp := range []struct{ c, p string }{{"apex", ""}, {"empty-label", "."}, {"empty-label-deep", "a.."}, {"lookalike-prefix", "evil"},
				{"empty-label-lookalike", ".evil"}, {"lookalike-prefix-sub", "a.evil"}} {
				add(lp.c, scheme+"://"+lp.p+host+port)
			}
		}
		for _, b := range bases {
			o := scheme + "://" + b.h + port
			add(b.pfx, o)
			add(b.pfx+"-upper", strings.ToUpper(o))
			add(b.pfx+"-other-scheme", other+"://"+b.h+port)
			if port != "" {
				add(b.pfx+"-without-port", scheme+"://"+b.h)
				add(b.pfx+"-other-port", scheme+"://"+b.h+":9999")
			} else {
				add(b.pfx+"-explicit-default-port", scheme+"://"+b.h+":"+defPort(scheme))
				add(b.pfx+"-other-port", scheme+"://"+b.h+":8443")
			}
			add(b.pfx+"-trailing-slash", o+"/")
			add(b.pfx+"-lookalike-prefix", scheme+"://evil"+b.h+port)
			add(b.pfx+"-lookalike-suffix", scheme+"://"+b.h+".evil.com"+port)
			add(b.pfx+"-in-path", scheme+"://evil.com/"+b.h+port)
			add(b.pfx+"-in-query", scheme+"://evil.com?"+b.h+port)
			add(b.pfx+"-in-fragment", scheme+"://evil.com#"+b.h+port)
			add(b.pfx+"-in-userinfo", scheme+"://"+b.h+"@evil.com"+port)
			add(b.pfx+"-evil-userinfo", scheme+"://evil.com@"+b.h+port)
		}
	}
	return out
}

// appMethodsB: request methods an application defines on top of fiber's default ones (fiber.Config.RequestMethods):
// two WebDAV verbs and a custom one. None of them is GET, HEAD, OPTIONS or TRACE, so all of them are unsafe.
var appMethodsB = []string{"PROPPATCH", "MKCOL", "PURGE"}

// productMethodsB: the methods of the product's requests on the apps with application-defined methods.
func productMethodsB() []string { return append(append([]string(nil), appMethodsB...), "PUT") }

func safeMethodB(m string) bool { return m == "GET" || m == "HEAD" || m == "OPTIONS" || m == "TRACE" }

// methodClassB names a method in signatures: the application's own verbs share one name.
func methodClassB(m string) string {
	for _, a := range appMethodsB {
		if a == m {
			return "application-defined"
		}
	}
	return m
}

var coarsenB = regexp.MustCompile(` (class|wildcard-entry-configured|origin-decided-by)=\S+`)

// token states of the "token state x origin" dimension: every Origin/Referer combination that lets a request
// with a live token through is repeated with these; none of them may reach the handler.
var badTokensB = []string{"none", "never-issued", "cookie-mismatch", "header-only", "deleted"}

func runB(r *core.Run, col *collector, samples *[]any) map[string]any {
	thorough := !r.Quick()
	baseOrigins := originAlphabet(thorough)
	baseReferers := refererAlphabet(thorough)
	hosts := []string{"example.com", "example.com:8080", "a.example.com", "partner.example.net"}
	if thorough {
		hosts = append(hosts, "EXAMPLE.com")
	}
	// method: the unsafe method of the product's requests; extra: the application defines request methods of
	// its own (fiber.Config.RequestMethods = fiber.DefaultMethods + appMethodsB)
	type unit struct {
		ti, mi, hi int
		method     string
		extra      bool
	}
	var units []unit
	for ti := range trustsB {
		for mi := range modesB {
			for hi := range hosts {
				units = append(units, unit{ti, mi, hi, "POST", false})
			}
		}
	}
	nDefaultUnits := len(units)
	// application-defined request methods: the whole product again (canonical TrustedOrigins configurations, all
	// scheme modes, the first Host values) on an app whose RequestMethods are the default ones plus appMethodsB, with
	// each of the application's own verbs - and a standard unsafe method other than POST - as the requests' method
	{
		nh := 1
		if thorough {
			nh = 2
		}
		for _, m := range productMethodsB() {
			for ti := 0; ti < nCanonicalTrusts; ti++ {
				for mi := range modesB {
					for hi := 0; hi < nh; hi++ {
						units = append(units, unit{ti, mi, hi, m, true})
					}
				}
			}
		}
	}
	bcol := &collector{} // B's own collector: spelling-qualified signatures are folded before they reach col
	var maxO, maxR int64
	var mmu sync.Mutex
	r.Parallel(len(units), func(ui int, l *core.Local) {
		u := units[ui]
		tr, mode, host := trustsB[u.ti], modesB[u.mi], hosts[u.hi]
		entrySfx := ""
		if sp := tr.spelling(); sp != "" {
			entrySfx = " entry=" + sp
		}
		wildCfg := strings.Contains(tr.Name, "wildcard")
		// units of the application-defined-methods dimension qualify their signatures; the fold below drops the
		// qualifier when the default units (POST on a default app) show the same signature
		appDesc := "fiber.DefaultMethods"
		if u.extra {
			entrySfx = " method=" + methodClassB(u.method)
			appDesc = "fiber.DefaultMethods + " + strings.Join(appMethodsB, ", ")
		}
		reached := false
		lastErr := ""
		appCfg := fiber.Config{TrustProxy: true, TrustProxyConfig: fiber.TrustProxyConfig{Proxies: []string{"10.0.0.1"}}}
		if u.extra {
			appCfg.RequestMethods = append(append([]string(nil), fiber.DefaultMethods...), appMethodsB...)
		}
		app := fiber.New(appCfg)
		if tr.Name == "none:no-config" {
			app.Use(csrf.New()) // no Config at all: ConfigDefault as it stands (default error handler: lastErr stays empty)
		} else {
			app.Use(csrf.New(csrf.Config{TrustedOrigins: tr.Origins, ErrorHandler: func(_ fiber.Ctx, err error) error {
				lastErr = err.Error()
				return fiber.ErrForbidden
			}}))
		}
		app.All("/", func(c fiber.Ctx) error {
			reached = true
			if c.Get("X-Op") == "del" {
				if hd := csrf.HandlerFromContext(c); hd != nil {
					_ = hd.DeleteToken(c) //nolint:errcheck // the token state is checked by the control requests below
				}
			}
			return c.SendString("ok")
		})
		h := app.Handler()
		// B judges origins, not buffer reuse (that is the request-layout family of harness A): every request
		// gets a RequestCtx of its own, so that a token store keeping views of request buffers cannot
		// invalidate the prepared tokens halfway through the product
		peer := fx.TCP(mode.Peer, 5555)
		fctx := &fasthttp.RequestCtx{}
		call := func(req *fasthttp.Request) {
			fctx = &fasthttp.RequestCtx{}
			fx.CallInto(fctx, h, req, peer, mode.TLS)
		}
		// issue obtains a valid token + cookie through a safe request
		issue := func() string {
			greq := fx.Req("GET", "/")
			greq.Header.SetHost(host)
			call(greq)
			var ck fasthttp.Cookie
			ck.SetKey("csrf_")
			if !fctx.Response.Header.Cookie(&ck) || len(ck.Value()) == 0 {
				core.Fatal("B: GET did not issue a csrf cookie")
			}
			return string(ck.Value())
		}
		tok, tok2, tokDel := issue(), issue(), issue()
		{
			dreq := fx.Req("GET", "/", "Cookie", "csrf_="+tokDel, "X-Op", "del")
			dreq.Header.SetHost(host)
			call(dreq)
		}
		fake := []byte(tok) // never issued, same length and shape as an issued token
		for i := range fake {
			if fake[i] != '-' {
				fake[i] = "0f"[i%2]
			}
		}
		if string(fake) == tok || tok == tok2 || tok == tokDel {
			core.Fatal("B: token preparation failed")
		}
		own := ownOrigin(mode.Scheme, host)
		// alphabets of this unit: the fixed ones plus the neighbours of the configured entries; the neighbours
		// are used as Referer only where the Referer can decide (Origin absent or null)
		near := nearOrigins(tr.Origins)
		origins := append(append([]hv(nil), baseOrigins...), near...)
		nearRefs := make([]hv, 0, 2*len(near))
		for _, n := range near {
			nearRefs = append(nearRefs, hv{n.Class, n.Val}) // bare
			if !strings.ContainsAny(n.Val[8:], "/?#") {
				nearRefs = append(nearRefs, hv{n.Class, n.Val + "/page?x=1"}) // with a path
			}
		}
		allReferers := append(append([]hv(nil), baseReferers...), nearRefs...)
		mmu.Lock()
		if int64(len(origins)) > maxO {
			maxO = int64(len(origins))
		}
		if int64(len(allReferers)) > maxR {
			maxR = int64(len(allReferers))
		}
		mmu.Unlock()
		// send builds one unsafe request; state = "valid" or one of badTokensB
		send := func(method, oval, rval, state string) {
			req := fx.Req(method, "/")
			req.Header.SetHost(host)
			switch state {
			case "valid":
				req.Header.Set("X-Csrf-Token", tok)
				req.Header.Set("Cookie", "csrf_="+tok)
			case "none":
			case "never-issued":
				req.Header.Set("X-Csrf-Token", string(fake))
				req.Header.Set("Cookie", "csrf_="+string(fake))
			case "cookie-mismatch":
				req.Header.Set("X-Csrf-Token", tok)
				req.Header.Set("Cookie", "csrf_="+tok2)
			case "header-only":
				req.Header.Set("X-Csrf-Token", tok)
			case "deleted":
				req.Header.Set("X-Csrf-Token", tokDel)
				req.Header.Set("Cookie", "csrf_="+tokDel)
			default:
				core.Fatal("B: unknown token state %q", state)
			}
			if mode.XFP != "" {
				req.Header.Set("X-Forwarded-Proto", mode.XFP)
			}
			if oval != "" {
				req.Header.Set("Origin", oval)
			}
			if rval != "" {
				req.Header.Set("Referer", rval)
			}
			reached, lastErr = false, ""
			call(req)
		}
		seenO := map[string]bool{}
		for oi, ov := range origins {
			oval := expand(ov.Val, mode.Scheme, host)
			if oi >= len(baseOrigins) && seenO[oval] {
				continue // a neighbour that the fixed alphabet already has
			}
			seenO[oval] = true
			isNull := strings.EqualFold(oval, "null")
			refs := baseReferers
			if oval == "" || isNull {
				refs = allReferers
			}
			for ri, rv := range refs {
				rval := expand(rv.Val, mode.Scheme, host)
				send(u.method, oval, rval, "valid")
				l.Add("B.evaluations", 1)
				https := mode.Scheme == "https"
				oAllowed := refAllowed(originOf(oval), own, tr.Origins)
				rAllowed := refAllowed(originOf(rval), own, tr.Origins)
				cs := map[string]any{"harness": "B", "method": u.method, "app_request_methods": appDesc, "scheme_mode": mode.Name, "tls": mode.TLS, "peer": mode.Peer, "x_forwarded_proto": mode.XFP,
					"host": host, "origin": oval, "origin_class": ov.Class, "referer": rval, "referer_class": rv.Class,
					"trusted_origins": tr.Origins, "token": "valid (issued by a prior GET, sent as X-Csrf-Token and csrf_ cookie)"}
				ord := [4]int{0, ui, oi, ri * 8}
				oKind, rKind := "absent", "ignored"
				judged := false
				via := "none"
				switch {
				case oval != "" && !isNull:
					judged = true
					via = "Origin"
					oKind = fmt.Sprintf("allowed=%v", oAllowed)
					if reached && !oAllowed {
						bcol.add(ord, fmt.Sprintf("B origin-check-bypass via=Origin class=%s wildcard-entry-configured=%v", diagnose(ov.Class, oval, tr.Origins), wildCfg)+entrySfx,
							"unsafe request with a valid token reached the handler although its Origin is neither the same origin nor a trusted origin",
							cs, map[string]any{"reached": true, "status": fctx.Response.StatusCode()}, "rejected: origin "+oval+" is not "+fmt.Sprint(own)+" nor trusted")
					}
				case https && rval != "":
					judged = true
					via = "Referer"
					if isNull {
						oKind = "null"
					}
					rKind = fmt.Sprintf("allowed=%v", rAllowed)
					if reached && !rAllowed {
						bcol.add(ord, fmt.Sprintf("B origin-check-bypass via=Referer class=%s wildcard-entry-configured=%v", diagnose(rv.Class, rval, tr.Origins), wildCfg)+entrySfx,
							"https unsafe request without a usable Origin reached the handler although its Referer's origin is neither the same origin nor a trusted origin",
							cs, map[string]any{"reached": true, "status": fctx.Response.StatusCode()}, "rejected: referer origin is not "+fmt.Sprint(own)+" nor trusted")
					}
				case isNull:
					oKind = "null"
					if reached {
						l.Add("unspecified_skipped", 1)
						l.Add("B.null_origin_reached", 1)
					}
				default:
					if https {
						rKind = "absent"
					}
				}
				if judged {
					l.Add("B.nontrivial", 1)
					if reached {
						l.Add("B.judged_reached", 1)
					} else {
						l.Add("B.judged_rejected", 1)
						if (oval != "" && !isNull && oAllowed) || ((oval == "" || isNull) && rAllowed) {
							l.Add("B.legitimate_rejected_not_judged", 1)
						}
					}
				}
				validReached := reached
				l.Outcome(fmt.Sprintf("B https=%v origin:%s referer:%s reached=%v err=%q", https, oKind, rKind, reached, lastErr))
				if ui%13 == 5 && oi == 24 && (ri == 0 || ri == 9) {
					l.Sample(map[string]any{"case": cs, "reached": reached, "csrf_error": lastErr})
				}
				// token state x origin: whatever Origin / Referer let the live token through must not let a
				// request through that has no live token (the statement's conditions are a conjunction)
				if validReached {
					for k, state := range badTokensB {
						send(u.method, oval, rval, state)
						l.Add("B.evaluations", 1)
						l.Add("B.badtoken_evaluations", 1)
						if !reached {
							l.Add("B.badtoken_rejected", 1)
							continue
						}
						cs2 := map[string]any{"harness": "B", "method": u.method, "app_request_methods": appDesc, "scheme_mode": mode.Name, "tls": mode.TLS, "peer": mode.Peer, "x_forwarded_proto": mode.XFP,
							"host": host, "origin": oval, "origin_class": ov.Class, "referer": rval, "referer_class": rv.Class, "trusted_origins": tr.Origins,
							"token": map[string]string{"none": "no token, no cookie", "never-issued": "X-Csrf-Token and csrf_ cookie carry a never issued value of a token's length",
								"cookie-mismatch": "X-Csrf-Token = a live token, csrf_ cookie = another live token", "header-only": "X-Csrf-Token = a live token, no cookie",
								"deleted": "X-Csrf-Token and csrf_ cookie carry a token removed by DeleteToken"}[state],
							"same_request_with_a_live_token": "reaches the handler"}
						bcol.add([4]int{0, ui, oi, ri*8 + 1 + k}, fmt.Sprintf("B unsafe-passed-without-live-token token=%s origin-decided-by=%s", state, via)+entrySfx,
							"an unsafe request without a live token matching the cookie reached the handler (its Origin / Referer are acceptable)",
							cs2, map[string]any{"reached": true, "status": fctx.Response.StatusCode()}, "rejected: "+state)
					}
				}
			}
		}
		// method sweep: every safe method passes and leaves a cookie whatever the Origin; every other
		// method is protected (no token => rejected; valid token from a foreign origin => rejected)
		// (on a default app the application-defined verbs are unknown methods: fiber answers 501 itself)
		for mi2, method := range append([]string{"GET", "HEAD", "OPTIONS", "TRACE", "POST", "PUT", "PATCH", "DELETE", "CONNECT"}, appMethodsB...) {
			safe := safeMethodB(method)
			for vi, variant := range []string{"no-token", "valid-token+evil-origin", "valid-token+null-origin+evil-referer", "no-token+same-origin", "never-issued-token+same-origin"} {
				switch variant {
				case "no-token":
					send(method, "", "", "none")
				case "valid-token+evil-origin":
					send(method, "https://evil.com", "", "valid")
				case "valid-token+null-origin+evil-referer":
					send(method, "null", "https://evil.com/page", "valid")
				case "no-token+same-origin":
					send(method, mode.Scheme+"://"+host, mode.Scheme+"://"+host+"/page", "none")
				case "never-issued-token+same-origin":
					send(method, mode.Scheme+"://"+host, mode.Scheme+"://"+host+"/page", "never-issued")
				}
				l.Add("B.method_sweep", 1)
				var sc fasthttp.Cookie
				sc.SetKey("csrf_")
				hasCk := fctx.Response.Header.Cookie(&sc) && len(sc.Value()) > 0
				if !safe && reached {
					l.Add("B.method_sweep_unsafe_reached", 1)
				}
				cs := map[string]any{"harness": "B", "method": method, "app_request_methods": appDesc, "variant": variant, "scheme_mode": mode.Name, "host": host, "trusted_origins": tr.Origins}
				ord := [4]int{0, ui, 100000 + mi2, vi}
				l.Outcome(fmt.Sprintf("B method-sweep safe=%v %s reached=%v cookie=%v", safe, variant, reached, hasCk))
				switch {
				case safe && !reached:
					bcol.add(ord, "B safe-method-rejected method="+method, "a safe-method request did not reach the handler", cs, map[string]any{"reached": false, "csrf_error": lastErr, "status": fctx.Response.StatusCode()}, "safe methods always pass")
				case safe && !hasCk:
					bcol.add(ord, "B safe-method-left-no-cookie method="+method, "a safe-method request left no CSRF cookie", cs, map[string]any{"reached": true}, "a valid token cookie")
				case !safe && reached && (variant != "valid-token+null-origin+evil-referer" || mode.Scheme == "https"):
					bcol.add(ord, "B unsafe-method-unprotected method="+methodClassB(method)+" variant="+variant, "an unsafe-method request without a token / from a foreign origin reached the handler", cs, map[string]any{"reached": true}, "rejected")
				case !safe && reached:
					l.Add("unspecified_skipped", 1) // http + Origin: null: see assumptions
				}
			}
		}
		// control: the token must still be good, otherwise rejections above were not about the origin; the
		// deleted token must still be dead
		send(u.method, mode.Scheme+"://"+host, "", "valid")
		if !reached && host == strings.ToLower(host) {
			core.Fatal("B: control request (%s, same origin, valid token) was rejected: %s status %d (mode %s host %s)", u.method, lastErr, fctx.Response.StatusCode(), mode.Name, host)
		}
		if u.extra {
			l.Add("B.appmethods.units", 1)
			if methodClassB(u.method) == "application-defined" && reached {
				l.Add("B.appmethods.own_verb_with_live_token_reached", 1)
			}
		}
	})
	// fold: a violation seen only under a non-canonical spelling keeps ` entry=<spelling>`; one that a
	// canonical configuration shows too is counted under the unqualified signature
	{
		sigs := make([]string, 0, len(bcol.m))
		for sg := range bcol.m {
			sigs = append(sigs, sg)
		}
		sort.Strings(sigs)
		for _, sg := range sigs {
			if i := strings.Index(sg, " entry="); i != -1 {
				if stem, ok := bcol.m[sg[:i]]; ok {
					stem.count += bcol.m[sg].count
					delete(bcol.m, sg)
				}
			}
		}
		// application-defined methods: a violation that POST on a default app shows too is that violation; one seen
		// only with another method is about the method, not about the Origin class: one signature per rule and method
		for _, sg := range sigs {
			i := strings.Index(sg, " method=")
			if i == -1 || strings.HasPrefix(sg, "B unsafe-method-unprotected") || strings.HasPrefix(sg, "B safe-method") {
				continue
			}
			v := bcol.m[sg]
			delete(bcol.m, sg)
			target := sg[:i]
			if _, ok := bcol.m[target]; !ok {
				target = coarsenB.ReplaceAllString(sg[:i], "") + " only-with" + sg[i:]
			}
			if t, ok := bcol.m[target]; ok {
				t.count += v.count
				if less4(v.ord, t.ord) {
					t.ord, t.v = v.ord, v.v
					t.v.Signature = target
				}
			} else {
				v.v.Signature = target
				bcol.m[target] = v
			}
		}
		col.mu.Lock()
		if col.m == nil {
			col.m = map[string]*cviol{}
		}
		for sg, v := range bcol.m {
			col.m[sg] = v
		}
		col.mu.Unlock()
	}
	*samples = append(*samples, map[string]any{"harness": "B", "origin_alphabet_fixed": len(baseOrigins), "referer_alphabet_fixed": len(baseReferers), "origin_alphabet_max_with_entry_neighbours": maxO, "referer_alphabet_max_with_entry_neighbours": maxR})
	return map[string]any{
		"rule": fmt.Sprintf("harness B: %d TrustedOrigins configs (4 canonical + %d spellings of the entries) x %d scheme modes (http, https by TLS, https by trusted X-Forwarded-Proto, http with untrusted X-Forwarded-Proto) x %d Host values x Origin values (%d fixed + the neighbours derived from the configured entries, at most %d) x Referer values (%d fixed; with Origin absent or null also the entries' neighbours, at most %d), each POST carrying a valid token+cookie obtained by a prior GET; a case is non-trivial when the statement constrains it (usable Origin present, or https with Referer present and no usable Origin); a reached handler is compared with an RFC 6454 origin predicate; every combination that lets the live token through is repeated with %d token states without a live token (%v), none of which may reach the handler; application-defined request methods: the same product (canonical TrustedOrigins configurations, all scheme modes, %d Host value(s)) on an app whose fiber.Config.RequestMethods = fiber.DefaultMethods + %v with each of %v as the requests' method (%d further units next to the %d POST units on default apps), and the method sweep (safe methods pass and leave a cookie; every other method is rejected without a token, with a never issued token and with a live token from a foreign origin) includes the application's verbs on every app",
			(len(units)-nDefaultUnits)/(nCanonicalTrusts*len(modesB)*len(productMethodsB())), appMethodsB, productMethodsB(), len(units)-nDefaultUnits, nDefaultUnits,
			len(trustsB), len(trustsB)-nCanonicalTrusts, len(modesB), len(hosts), len(baseOrigins), maxO, len(baseReferers), maxR, len(badTokensB), badTokensB),
		"bounds": map[string]any{"trusted_configs": len(trustsB), "trusted_entry_spellings": len(trustsB) - nCanonicalTrusts, "scheme_modes": len(modesB), "hosts": len(hosts), "origins_fixed": len(baseOrigins), "referers_fixed": len(baseReferers),
			"origins_max": maxO, "referers_max": maxR, "token_states_without_live_token": badTokensB,
			"application_defined_methods": appMethodsB, "product_methods_on_apps_with_own_methods": productMethodsB(), "units_default_app_post": nDefaultUnits, "units_app_defined_methods": len(units) - nDefaultUnits},
	}
}
