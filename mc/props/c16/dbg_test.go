package main

import (
	"fmt"
	"testing"
)

func TestDbg(t *testing.T) {
	cfg := cfgA{"header", "storage", false, 0, 4, []int{0, 1}}
	rs := newRunState(cfg)
	show := func(o opA) {
		si := rs.step(o)
		fmt.Printf("%s\n   -> %+v setck=%v\n   key=%s\n", o, si.ob, deref(si.ob.SetCk), rs.key())
	}
	show(opA{Kind: 'S', Cl: 0, Fault: -1})
	show(opA{Kind: 'U', Cl: 1, Tok: "tok-0001", Ck: "tok-0001", Fault: -1})
	show(opA{Kind: 'D', Cl: 0, Ck: "tok-0001", Fault: -1})
	show(opA{Kind: 'U', Cl: 0, Tok: "tok-0001", Ck: "tok-0001", Fault: -1})
}

func deref(s *string) string {
	if s == nil {
		return "<nil>"
	}
	return *s
}
