package main

// Part 2: breadth-first search over the full alphabet with state de-duplication. The
// parent keeps the set of canonical keys seen; each level's frontier (one representative
// history per new state, the smallest in op-index order) is expanded by worker processes:
// successor = full replay of the representative + one operation.

import (
	"bufio"
	"crypto/sha1"
	"encoding/hex"
	"encoding/json"
	"fmt"
	"os"
	"path/filepath"
	"sort"
	"strconv"
	"strings"

	"github.com/gofiber/fiber/v3/middleware/session"

	"verifmc/core"
)

func (w *world) stateKey() string {
	pool := session.VerifPoolDigest()
	a := w.stateKeyOrder([2]int{0, 1}, pool)
	b := w.stateKeyOrder([2]int{1, 0}, pool)
	if b < a {
		return b
	}
	return a
}

type bfsItem struct {
	C int    `json:"c"`           // configuration index
	H []int  `json:"h"`           // representative history
	K string `json:"k,omitempty"` // key hash (worker output only)
}

type bfsReport struct {
	States          int64   `json:"distinct_canonical_states"`
	Histories       int64   `json:"histories_replayed"`
	MaxDepth        int     `json:"max_depth"`
	StatesPerLevel  []int64 `json:"new_states_per_level"`
	Successors      []int64 `json:"successors_per_level"`
	AlphabetSize    int     `json:"alphabet_size"`
	Configurations  int     `json:"configurations"`
	StoppedAtBudget bool    `json:"stopped_at_budget,omitempty"`
}

func bfsDir() string {
	d := filepath.Join(core.VerifDir, ".build", "parts", "C15", "bfs")
	if rd := os.Getenv("VERIF_REPLAY_DIR"); rd != "" { // mutant trial on a private copy
		d = filepath.Join(filepath.Dir(rd), "bfs_C15")
	}
	_ = os.MkdirAll(d, 0o755)
	return d
}

func less(a, b bfsItem) bool {
	if a.C != b.C {
		return a.C < b.C
	}
	if len(a.H) != len(b.H) {
		return len(a.H) < len(b.H)
	}
	for i := range a.H {
		if a.H[i] != b.H[i] {
			return a.H[i] < b.H[i]
		}
	}
	return false
}

func runBFS(r *core.Run, depth int, env []string, crashed *[]string) bfsReport {
	rep := bfsReport{AlphabetSize: len(baseAlphabet), Configurations: len(allCfgs())}
	dir := bfsDir()
	frontier := make([]bfsItem, 0, len(allCfgs()))
	for ci := range allCfgs() {
		frontier = append(frontier, bfsItem{C: ci, H: []int{}})
	}
	seen := map[string]struct{}{}
	rep.States = int64(len(frontier)) // the initial states
	rep.StatesPerLevel = append(rep.StatesPerLevel, int64(len(frontier)))
	for level := 1; level <= depth; level++ {
		// violations do not stop the search: other ones may sit deeper; a state reached by a
		// violating step is not expanded
		if r.Expired() {
			r.Cap(fmt.Sprintf("wall-clock budget reached before level %d of the de-duplicating search", level))
			rep.StoppedAtBudget = true
			break
		}
		in := filepath.Join(dir, fmt.Sprintf("frontier%d.jsonl", level))
		f, err := os.Create(in)
		if err != nil {
			core.Fatal("bfs: %v", err)
		}
		bw := bufio.NewWriter(f)
		enc := json.NewEncoder(bw)
		for _, it := range frontier {
			_ = enc.Encode(it)
		}
		_ = bw.Flush()
		_ = f.Close()
		before, beforeS := r.P.Counters["histories"], r.P.Counters["bfs_successors"]
		*crashed = append(*crashed, r.SpawnWorkers(nWorkers, env, "-mode", "bfs", "-level", strconv.Itoa(level), "-in", in)...)
		rep.Histories += r.P.Counters["histories"] - before
		// merge the workers' successor lists
		best := map[string]bfsItem{}
		for wi := 0; wi < nWorkers; wi++ {
			p := in + ".out" + strconv.Itoa(wi)
			of, err := os.Open(p)
			if err != nil {
				continue
			}
			sc := bufio.NewScanner(of)
			sc.Buffer(make([]byte, 1<<16), 1<<22)
			for sc.Scan() {
				var it bfsItem
				if json.Unmarshal(sc.Bytes(), &it) != nil {
					continue
				}
				k := strconv.Itoa(it.C) + ":" + it.K
				if _, dup := seen[k]; dup {
					continue
				}
				if o, ok := best[k]; !ok || less(it, o) {
					best[k] = it
				}
			}
			_ = of.Close()
			_ = os.Remove(p)
		}
		_ = os.Remove(in)
		frontier = frontier[:0]
		for k, it := range best {
			seen[k] = struct{}{}
			it.K = ""
			frontier = append(frontier, it)
		}
		sort.Slice(frontier, func(i, j int) bool { return less(frontier[i], frontier[j]) })
		rep.States += int64(len(frontier))
		rep.StatesPerLevel = append(rep.StatesPerLevel, int64(len(frontier)))
		rep.Successors = append(rep.Successors, r.P.Counters["bfs_successors"]-beforeS)
		rep.MaxDepth = level
		if len(frontier) == 0 {
			break
		}
	}
	return rep
}

func runBFSWorker(r *core.Run, level int, in string) {
	f, err := os.Open(in)
	if err != nil {
		core.Fatal("bfs worker: %v", err)
	}
	defer f.Close()
	out, err := os.Create(in + ".out" + strconv.Itoa(r.Worker))
	if err != nil {
		core.Fatal("bfs worker: %v", err)
	}
	bw := bufio.NewWriterSize(out, 1<<20)
	enc := json.NewEncoder(bw)
	cfgs := allCfgs()
	l := core.NewLocal()
	local := map[string]bfsItem{} // this worker's successors, de-duplicated
	sc := bufio.NewScanner(f)
	sc.Buffer(make([]byte, 1<<16), 1<<22)
	idx := 0
	for sc.Scan() {
		idx++
		if !r.Shard(idx) {
			continue
		}
		if r.Expired() {
			r.Cap(fmt.Sprintf("wall-clock budget reached inside level %d of the de-duplicating search", level))
			break
		}
		var it bfsItem
		if json.Unmarshal(sc.Bytes(), &it) != nil {
			core.Fatal("bfs worker: bad frontier line")
		}
		cfg := cfgs[it.C]
		h := make([]int, len(it.H)+1)
		copy(h, it.H)
		for op := range baseAlphabet { // the one-call-per-request letters
			h[len(it.H)] = op
			housekeeping()
			res := runHistory(cfg, h, l)
			l.Add("histories", 1)
			l.Add("bfs_histories", 1)
			if res.NA {
				l.Add("not_applicable", 1)
				continue
			}
			if res.Viol != nil {
				record(l, "bfs", cfg, h, res)
				continue
			}
			l.Add("bfs_successors", 1)
			sum := sha1.Sum([]byte(res.W.stateKey()))
			cand := bfsItem{C: it.C, H: append([]int(nil), h...), K: hex.EncodeToString(sum[:12])}
			k := strconv.Itoa(cand.C) + ":" + cand.K
			if o, ok := local[k]; !ok || less(cand, o) {
				local[k] = cand
			}
			if level >= 5 && op%16 == 0 {
				l.Sample(cfg.String() + ": " + strings.Join(opNames(h), ","))
			}
		}
	}
	for _, it := range local {
		_ = enc.Encode(it)
	}
	_ = bw.Flush()
	_ = out.Close()
	r.Merge(l.P)
}
