package main

// Reference model written from the statement of C15 and the oracle that compares one
// executed operation with it.
//
//	server state = id -> (data last saved, idle deadline, absolute deadline window)
//
// must / must-not / unspecified:
//   - presented id live            -> the handler gets that id and exactly the saved data
//   - presented id dead / unknown  -> an empty session, Fresh()==true, whose id the KeyGenerator
//     produced during this request (never the presented one)
//   - absolute deadline = creation + AbsoluteTimeout ("maximum duration of the session ...
//     regardless of activity"); no call moves it: not Save / Set / Get, and not Regenerate, which
//     rotates the id of the same session (data and deadline kept). Only Reset, which ends the
//     session and continues with an empty new one, may start a new lifetime
//   - exactly on a deadline, and between the old absolute deadline and Reset time +
//     AbsoluteTimeout after Reset (the statement does not say whether the empty session that
//     follows a Reset gets a full lifetime) -> either; the model follows the implementation
//     (unspecified_skipped)
//   - idle deadline = time of the last Save + IdleTimeout (documented: only Save refreshes it;
//     the middleware saves at the end of every request unless the session was destroyed)
//
// compound requests (several API calls in one request, Op.Act == "seq"): the model applies the
// calls in order. Set/Delete change the session's data, Regenerate/Reset end the current id and
// continue under a newly generated one (Reset with empty data), Save (store API) persists what
// the session holds at that moment under its current id; the middleware persists once, when
// the handler has returned, unless Destroy was called. Session.Save on a middleware-managed
// session is documented to have no effect.
//   - neither the statement nor docs/middleware/session.md say what a session object is after
//     Destroy. From the first Destroy of a request on, what THAT request reads back from its own
//     session object is unspecified, and so is what a store-API Save after Destroy persists under
//     the ids that object carried since (the model adopts whatever the storage then holds under
//     exactly those ids). Everything else stays exact: nothing written after Destroy may reach any
//     other id, a middleware-managed destroyed session is never persisted, and every later request
//     of anybody sees either exactly the data last saved under a live id it presents or an empty
//     fresh session.

import (
	"fmt"
	"sort"
	"strings"
)

type msess struct {
	Data map[string]string
	Idle int // dead after this harness second; unspecified exactly at it
	// Custom != 0: a request set this session's own idle timeout (Session.SetIdleTimeout, seconds).
	// The save of that request uses it (documented). Whether later saves by later requests keep it
	// or go back to Config.IdleTimeout is not said: IdleAlt != 0 is then the other candidate
	// deadline, the session is live before the earlier and dead after the later of the two.
	Custom       int
	IdleAlt      int
	HasAbs       bool
	AbsLo, AbsHi int    // must be live before AbsLo, must be dead after AbsHi
	Origin       string // create | reset, "+regenerate" appended: where the absolute lifetime comes from
}

type model struct {
	cfg        Cfg
	live       map[string]*msess
	dead       map[string]string // id -> cause
	issued     map[string]bool
	lastKilled string
}

func newModel(cfg Cfg) *model {
	return &model{cfg: cfg, live: map[string]*msess{}, dead: map[string]string{}, issued: map[string]bool{}}
}

const (
	stNone = iota // nothing presented
	stLive
	stDead
	stUnspec
)

// statusOf is pure: the status of a stored session at time t.
func (s *msess) idleWindow() (lo, hi int) {
	lo, hi = s.Idle, s.Idle
	if s.IdleAlt != 0 && s.IdleAlt < lo {
		lo = s.IdleAlt
	}
	if s.IdleAlt > hi {
		hi = s.IdleAlt
	}
	return lo, hi
}

// savedAt sets the idle deadline of a save at time t; pending = the value this request handed to
// SetIdleTimeout before the save (0: none).
func (s *msess) savedAt(t, pending int) {
	s.IdleAlt = 0
	switch {
	case pending != 0:
		s.Custom, s.Idle = pending, t+pending
	case s.Custom != 0 && s.Custom != IdleS:
		s.Idle, s.IdleAlt = t+IdleS, t+s.Custom
	default:
		s.Idle = t + IdleS
	}
}

func statusOf(s *msess, t int) (int, string) {
	lo, hi := s.idleWindow()
	if t > hi {
		return stDead, "idle-timeout"
	}
	if s.HasAbs && t > s.AbsHi {
		return stDead, "absolute-timeout(" + s.Origin + ")"
	}
	if t >= lo {
		return stUnspec, "idle-timeout"
	}
	if s.HasAbs && t >= s.AbsLo {
		return stUnspec, "absolute-timeout"
	}
	return stLive, ""
}

// status classifies a presented id and buries sessions whose deadline has passed.
func (m *model) status(p string, t int) (int, string) {
	if p == "" {
		return stNone, "none"
	}
	s, ok := m.live[p]
	if !ok {
		if c, ok := m.dead[p]; ok {
			return stDead, c
		}
		if m.issued[p] {
			return stDead, "never-saved"
		}
		return stDead, "unissued"
	}
	st, cause := statusOf(s, t)
	if st == stDead {
		delete(m.live, p)
		m.dead[p] = cause
	}
	return st, cause
}

func (m *model) kill(id, cause string) {
	if id == "" {
		return
	}
	delete(m.live, id)
	m.dead[id] = cause
	m.lastKilled = id
}

func copyData(d map[string]string) map[string]string {
	o := make(map[string]string, len(d))
	for k, v := range d {
		o[k] = v
	}
	return o
}

// diffKind names the first difference between observed and expected data.
func diffKind(obs, exp map[string]string) string {
	var ks []string
	for k := range obs {
		ks = append(ks, k)
	}
	for k := range exp {
		if _, ok := obs[k]; !ok {
			ks = append(ks, k)
		}
	}
	sort.Strings(ks)
	for _, k := range ks {
		o, ok1 := obs[k]
		e, ok2 := exp[k]
		switch {
		case ok1 && !ok2:
			return "extra-key"
		case !ok1 && ok2:
			return "missing-key"
		case o != e:
			return "wrong-value"
		}
	}
	return ""
}

func contains(l []string, s string) bool {
	for _, x := range l {
		if x == s {
			return true
		}
	}
	return false
}

type viol struct {
	Sig, What string
	Observed  any
	Expected  any
}

func vio(sig, what string, obs, exp any) *viol { return &viol{sig, what, obs, exp} }

// stepInfo is what the search and the counters learn about one judged step.
type stepInfo struct {
	Outcome string
	Unspec  int
}

func causeClass(c string) string { return strings.ReplaceAll(c, " ", "-") }

// judge compares one executed operation with the model and advances the model.
func (w *world) judge(op Op, o *obsT, info *stepInfo) *viol {
	if op.Kind == kTick {
		return nil
	}
	tag := "api=" + op.API
	if o.Panic != "" {
		return vio("panic "+tag+" act="+op.Act, "the request panicked", o.Panic, "no panic")
	}
	if !o.Ran {
		return vio("handler-not-reached "+tag, "the route handler did not run", o, "handler runs")
	}
	var v *viol
	if op.Kind == kAdmin {
		v = w.judgeAdmin(op, o, info)
		// the administrator's request has no session of its own: store.Delete / Reset and sessions
		// obtained by GetByID are not bound to the request ("does not ... update the client cookie")
		if v == nil && o.Emit.Present {
			v = vio("admin-response-carries-session-id src="+w.cfg.Source, "the response to a request that only used GetByID / store.Delete names or expires a session id", o.Emit, "no session cookie / header")
		}
	} else {
		v = w.judgeSession(op, o, info)
	}
	if v != nil {
		return v
	}
	return w.judgeStorage(info)
}

func (w *world) judgeSession(op Op, o *obsT, info *stepInfo) *viol {
	m, t, p := w.m, w.now, o.Present
	tag := "api=" + op.API
	if o.Pre == nil {
		return vio("no-session "+tag, "the handler did not obtain a session", o.Err, "a session")
	}
	pre := o.Pre
	st, cause := m.status(p, t)
	resumed := p != "" && pre.ID == p
	pres := map[int]string{stNone: "none", stLive: "live", stDead: "dead:" + cause, stUnspec: "deadline:" + cause}[st]
	if resumed {
		info.Outcome = pres + "->resumed"
	} else {
		info.Outcome = pres + "->fresh"
	}
	switch st {
	case stLive:
		if !resumed {
			return vio("live-session-lost "+tag, "a live session id was presented but the handler got another session",
				pre, map[string]any{"id": p, "data": m.live[p].Data})
		}
	case stDead, stNone:
		if resumed {
			switch {
			case cause == "unissued":
				return vio("adopted-unissued-id "+tag, "the handler's session carries an id the server never issued", pre, "a fresh session under a generated id")
			case strings.Contains(cause, "timeout"):
				return vio("timeout-not-enforced cause="+causeClass(cause)+" "+tag, "a session is resumed after its deadline passed", map[string]any{"session": pre, "now": t}, "an empty fresh session under a newly generated id")
			case len(pre.Data) > 0:
				return vio("dead-id-yields-data cause="+causeClass(cause)+" "+tag, "an id whose session ended still yields data", pre, "an empty fresh session under a newly generated id")
			default:
				return vio("dead-id-readopted cause="+causeClass(cause)+" "+tag, "an id whose session ended is used again for the new session", pre, "an empty fresh session under a newly generated id")
			}
		}
	case stUnspec:
		info.Unspec++
		if !resumed {
			delete(m.live, p)
			m.dead[p] = cause
		}
	}
	type curT struct {
		id           string
		data         map[string]string
		hasAbs       bool
		absLo, absHi int
		origin       string
		custom       int // the session's own idle timeout of an earlier request, 0: none
	}
	var cur curT
	if resumed {
		s := m.live[p]
		if k := diffKind(pre.Data, s.Data); k != "" {
			return vio("data-mismatch kind="+k+" "+tag, "the handler does not see exactly the data last saved under the presented id", pre.Data, s.Data)
		}
		if pre.Fresh {
			info.Unspec++ // Fresh() on a resumed session: the statement is silent
		}
		cur = curT{p, copyData(s.Data), s.HasAbs, s.AbsLo, s.AbsHi, s.Origin, s.Custom}
	} else {
		if !contains(o.Gen, pre.ID) {
			what := "the new session's id was not produced by the KeyGenerator during this request"
			sig := "new-session-id-not-generated "
			if _, isLive := m.live[pre.ID]; isLive {
				sig, what = "new-session-got-existing-id ", "the handler got another live session's id"
			}
			return vio(sig+tag, what, map[string]any{"session": pre, "generated": o.Gen}, "id generated now")
		}
		if len(pre.Data) > 0 {
			return vio("fresh-session-not-empty "+tag, "a new session already contains data", pre, "empty data")
		}
		if !pre.Fresh {
			return vio("new-session-not-fresh "+tag, "a new session reports Fresh()==false", pre, "Fresh()==true")
		}
		cur = curT{id: pre.ID, data: map[string]string{}, origin: "create"}
		if m.cfg.Abs {
			cur.hasAbs, cur.absLo, cur.absHi = true, t+AbsS, t+AbsS
		}
	}
	if o.Err != "" {
		return vio("op-error "+tag+" act="+op.Act, "a session operation returned an error", o.Err, "no error")
	}
	destroyed := false
	postID := ""
	if o.Post != nil {
		postID = o.Post.ID
	}
	newID := func(kind, id string) *viol {
		old := cur.id
		m.kill(old, kind)
		if id == old || id == p {
			return vio("kept-id-after-"+kind+" "+tag, "the session keeps its previous id", id, "a newly generated id")
		}
		if !contains(o.Gen, id) {
			return vio("id-not-generated-after-"+kind+" "+tag, "the session's new id was not produced by the KeyGenerator during this request", map[string]any{"id": id, "generated": o.Gen}, "id generated now")
		}
		cur.id = id
		// origin names how the session's absolute lifetime came about: Reset starts a new
		// one, Regenerate continues the one it found
		switch {
		case kind == "reset":
			cur.origin = "reset"
		case !strings.HasSuffix(cur.origin, "+"+kind):
			cur.origin += "+" + kind
		}
		// Absolute deadline. AbsoluteTimeout is "the maximum duration of the session before it
		// expires ... regardless of activity" (config.go, docs/middleware/session.md) and
		// Regenerate "generates a new session id" for the SAME session (data kept): rotating
		// the id is activity, the deadline fixed when the session was created stays. Reset
		// ends the session and continues with an empty new one: whether that one lives until
		// the old deadline or gets a full new lifetime is not said (either; never longer).
		if m.cfg.Abs && kind == "reset" {
			cur.hasAbs = true
			if !resumed || t+AbsS < cur.absLo {
				cur.absLo = t + AbsS
			}
			cur.absHi = t + AbsS
		}
		return nil
	}
	pendingIdle := 0 // seconds handed to SetIdleTimeout in this request
	switch op.Act {
	case "get", "touch":
	case "idle":
		pendingIdle = op.Idle
		if op.K != "" {
			cur.data[op.K] = op.V
		}
	case "set", "setns":
		cur.data[op.K] = op.V
	case "del":
		delete(cur.data, op.K)
	case "destroy":
		m.kill(cur.id, "destroy")
		destroyed = true
	case "regen":
		if v := newID("regenerate", postID); v != nil {
			return v
		}
	case "login":
		if v := newID("regenerate", postID); v != nil {
			return v
		}
		cur.data[op.K] = op.V
	case "saveregen":
		cur.data[op.K] = op.V
		if v := newID("regenerate", postID); v != nil {
			return v
		}
	case "regendestroy":
		if v := newID("regenerate", postID); v != nil {
			return v
		}
		m.kill(cur.id, "destroy")
		destroyed = true
	case "reset":
		if v := newID("reset", postID); v != nil {
			return v
		}
		cur.data = map[string]string{}
	}
	persist := func() {
		delete(m.dead, cur.id)
		ns := &msess{Data: copyData(cur.data), Custom: cur.custom, HasAbs: cur.hasAbs, AbsLo: cur.absLo, AbsHi: cur.absHi, Origin: cur.origin}
		ns.savedAt(t, pendingIdle)
		m.live[cur.id] = ns
	}
	saved := !destroyed && (op.API == "mw" || (op.Act != "get" && op.Act != "setns"))
	resaved := false // a store-API Save followed Destroy in the same request
	if op.Act == "seq" {
		// several API calls in one request
		if len(o.Mid) != len(op.Seq) {
			return vio("compound-request-incomplete "+tag, "the handler did not get through its calls", len(o.Mid), len(op.Seq))
		}
		info.Outcome += " seq=" + seqClass(op.Seq)
		var own []string  // ids the session object carried from the first Destroy on
		savedCur := false // store API: the session was saved under its current id and not ended since
		ended := false    // Destroy / Regenerate / Reset was called earlier in this request
		// Save after Destroy is unspecified: the model follows the implementation, for the ids of
		// that object only
		adopt := func() {
			actual, _ := w.contents()
			for _, id := range own {
				a := actual[id]
				if a == nil || a.Bad != "" {
					continue
				}
				info.Unspec++
				idle := t + IdleS
				if a.Exp != 0 {
					idle = a.Exp
				}
				delete(m.dead, id)
				m.live[id] = &msess{Data: copyData(a.Data), Idle: idle, HasAbs: a.HasAbs, AbsLo: a.Abs, AbsHi: a.Abs, Origin: "saved-after-destroy"}
			}
		}
		for i, a := range op.Seq {
			after := o.Mid[i]
			if a.Name == "reget" {
				// The handler released its session and called store.Get again in this request. It must
				// get the live session of the id the request presented, with exactly the data last
				// saved (this request's saves included), if nothing ended it in between. Otherwise -
				// new session, or Destroy / Regenerate / Reset earlier in the request - the statement
				// does not say which id the second call continues with: either a live session this
				// request is entitled to (the presented id or an id generated during this request) with
				// exactly its saved data, or an empty fresh session under an id generated now. Never
				// anything else.
				if destroyed && resaved {
					adopt()
					resaved = false
				}
				info.Outcome += " second-get"
				s2, isLive := m.live[after.ID]
				if isLive {
					if st, _ := statusOf(s2, t); st == stDead {
						isLive = false
					}
				}
				entitled := after.ID == p || contains(o.Gen, after.ID)
				switch {
				case !ended && resumed && after.ID != p:
					return vio("live-session-lost "+tag+" second-get", "a second store.Get in the same request did not return the live session the request presents", after, map[string]any{"id": p, "data": m.live[p].Data})
				case isLive && entitled:
					if k := diffKind(after.Data, s2.Data); k != "" {
						return vio("data-mismatch kind="+k+" "+tag+" second-get", "a second store.Get in the same request does not see exactly the data last saved under the id", after.Data, s2.Data)
					}
					cur = curT{after.ID, copyData(s2.Data), s2.HasAbs, s2.AbsLo, s2.AbsHi, s2.Origin, s2.Custom}
				case !isLive && contains(o.Gen, after.ID):
					if len(after.Data) > 0 {
						return vio("fresh-session-not-empty "+tag+" second-get", "the new session of a second store.Get already contains data", after, "empty data")
					}
					if !after.Fresh {
						return vio("new-session-not-fresh "+tag+" second-get", "the new session of a second store.Get reports Fresh()==false", after, "Fresh()==true")
					}
					cur = curT{id: after.ID, data: map[string]string{}, origin: "create"}
					if m.cfg.Abs {
						cur.hasAbs, cur.absLo, cur.absHi = true, t+AbsS, t+AbsS
					}
				default:
					return vio("second-get-foreign-id "+tag, "a second store.Get in the same request returned a session under an id that is neither the live session the request presented nor an id generated during this request", after, map[string]any{"presented": p, "generated": o.Gen})
				}
				if ended || !resumed {
					info.Unspec++
				}
				destroyed, savedCur = false, false
				continue
			}
			if destroyed && (a.Name == "get" || a.Name == "set" || a.Name == "del") {
				info.Unspec++ // reads and writes on a destroyed session object: unspecified, must stay private
				continue
			}
			switch a.Name {
			case "get":
			case "set":
				cur.data[a.K] = a.V
			case "del":
				delete(cur.data, a.K)
			case "save":
				switch {
				case op.API == "mw": // documented no-op
				case destroyed:
					resaved = true
				default:
					persist()
					savedCur = true
				}
			case "destroy":
				m.kill(cur.id, "destroy")
				destroyed, savedCur, ended = true, false, true
				own = append(own, cur.id)
			case "regen", "reset":
				ended = true
				kind := "regenerate"
				if a.Name == "reset" {
					kind = "reset"
				}
				if v := newID(kind, after.ID); v != nil {
					return v
				}
				if a.Name == "reset" {
					cur.data = map[string]string{}
				}
				savedCur = false
				if destroyed {
					own = append(own, cur.id)
				}
			}
		}
		switch {
		case destroyed:
			saved = false
			if resaved {
				adopt()
			}
		case op.API == "mw":
			saved = true
			persist()
		default:
			saved = false // persisted where the sequence said so
			if savedCur {
				// the emission rule below applies: the response must name the id the session was saved under
				saved = true
			}
		}
	} else if saved {
		persist()
	}
	// what the response tells the client
	em := o.Emit
	src := "src=" + w.cfg.Source
	switch {
	case saved:
		if !em.Present || em.Expired || em.Value != cur.id {
			return vio("emit-not-session-id "+src+" "+tag, "the response does not name the id under which the session was saved", em, cur.id)
		}
	case destroyed && resaved:
		info.Unspec++ // Save after Destroy: unspecified
	case destroyed:
		if em.Present && !em.Expired && em.Value != "" {
			return vio("emit-names-id-after-destroy "+src+" "+tag, "the response still names a session id after Destroy", em, "expired / absent")
		}
		if w.cfg.Source == "cookie" && p != "" && !(em.Present && (em.Expired || em.Value == "")) {
			return vio("emit-cookie-not-expired-after-destroy "+src+" "+tag, "Destroy did not expire the session cookie", em, "expired cookie")
		}
	default:
		info.Unspec++ // nothing saved: the statement does not say what the response carries
	}
	return nil
}

func (w *world) judgeAdmin(op Op, o *obsT, info *stepInfo) *viol {
	m, t, target := w.m, w.now, o.Present
	st, cause := m.status(target, t)
	switch op.Act {
	case "delete":
		info.Outcome = "store.Delete"
		if o.Err != "" {
			return vio("op-error api=adm act=delete", "store.Delete returned an error", o.Err, "no error")
		}
		m.kill(target, "store.Delete")
		return nil
	case "resetall":
		info.Outcome = "store.Reset"
		if o.Err != "" {
			return vio("op-error api=adm act=resetall", "store.Reset returned an error", o.Err, "no error")
		}
		var ids []string
		for id := range m.live {
			ids = append(ids, id)
		}
		sort.Strings(ids)
		for _, id := range ids {
			delete(m.live, id)
			m.dead[id] = "store.Reset"
		}
		return nil
	}
	got := o.Pre != nil
	pres := map[int]string{stLive: "live", stDead: "dead:" + cause, stUnspec: "deadline:" + cause}[st]
	if got {
		info.Outcome = "getbyid " + pres + "->session"
	} else {
		info.Outcome = "getbyid " + pres + "->error"
	}
	switch st {
	case stLive:
		if !got {
			return vio("live-session-lost api=getbyid", "GetByID fails for a live session", o.Err, m.live[target].Data)
		}
	case stDead:
		if got && strings.Contains(cause, "timeout") {
			return vio("timeout-not-enforced cause="+causeClass(cause)+" api=getbyid", "GetByID returns a session after its deadline passed", map[string]any{"session": o.Pre, "now": t}, "ErrSessionIDNotFoundInStore")
		}
		if got {
			return vio("dead-id-yields-data cause="+causeClass(cause)+" api=getbyid", "GetByID returns a session for an id whose session ended", o.Pre, "ErrSessionIDNotFoundInStore")
		}
		return nil
	case stUnspec:
		info.Unspec++
		if !got {
			delete(m.live, target)
			m.dead[target] = cause
			return nil
		}
	}
	s := m.live[target]
	if o.Pre.ID != target {
		return vio("getbyid-wrong-id api=getbyid", "GetByID returns a session with another id", o.Pre, target)
	}
	if k := diffKind(o.Pre.Data, s.Data); k != "" {
		return vio("data-mismatch kind="+k+" api=getbyid", "GetByID does not return exactly the data last saved under the id", o.Pre.Data, s.Data)
	}
	if op.Act == "getbyid" {
		return nil
	}
	// operations on the session GetByID returned (it has no request context; Save persists)
	if o.Err != "" {
		return vio("op-error api=adm act="+op.Act, "an operation on a session obtained by GetByID returned an error", o.Err, "no error")
	}
	if o.Post == nil {
		return vio("no-session api=getbyid", "the session was not readable after the operation", o, "a session")
	}
	exp := copyData(s.Data)
	rotated := func(kind string) *viol {
		id := o.Post.ID
		m.kill(target, kind)
		if id == target {
			return vio("kept-id-after-"+kind+" api=getbyid", "the session keeps its previous id", id, "a newly generated id")
		}
		if !contains(o.Gen, id) {
			return vio("id-not-generated-after-"+kind+" api=getbyid", "the session's new id was not produced by the KeyGenerator during this request", map[string]any{"id": id, "generated": o.Gen}, "id generated now")
		}
		ns := &msess{Data: exp, Custom: s.Custom, HasAbs: s.HasAbs, AbsLo: s.AbsLo, AbsHi: s.AbsHi, Origin: s.Origin}
		if kind == "reset" {
			ns.Origin = "reset"
			if m.cfg.Abs { // as after Reset in a request: until the old deadline or a full new lifetime
				ns.HasAbs = true
				if t+AbsS < ns.AbsLo {
					ns.AbsLo = t + AbsS
				}
				ns.AbsHi = t + AbsS
			}
		} else if !strings.HasSuffix(ns.Origin, "+"+kind) {
			ns.Origin += "+" + kind
		}
		ns.savedAt(t, 0)
		delete(m.dead, id)
		m.live[id] = ns
		return nil
	}
	switch op.Act {
	case "getbyidset":
		exp[op.K] = op.V
	case "getbyiddel":
		delete(exp, op.K)
	case "getbyiddestroy":
		m.kill(target, "destroy")
		info.Outcome += " destroy"
		return nil // what the destroyed object reads back is unspecified
	case "getbyidregen":
		info.Outcome += " regenerate"
		if v := rotated("regenerate"); v != nil {
			return v
		}
	case "getbyidreset":
		info.Outcome += " reset"
		exp = map[string]string{}
		if v := rotated("reset"); v != nil {
			return v
		}
	}
	if k := diffKind(o.Post.Data, exp); k != "" {
		return vio("data-mismatch kind="+k+" api=getbyid act="+op.Act, "the session obtained by GetByID does not hold the expected data after the operation", o.Post.Data, exp)
	}
	if op.Act == "getbyidset" || op.Act == "getbyiddel" {
		s.Data = exp
		s.savedAt(t, 0)
	}
	return nil
}

// judgeStorage compares the decoded storage contents with the model.
func (w *world) judgeStorage(info *stepInfo) *viol {
	m, t := w.m, w.now
	actual, ids := w.contents()
	var lids []string
	for id := range m.live {
		lids = append(lids, id)
	}
	sort.Strings(lids)
	for _, id := range lids {
		s := m.live[id]
		st, _ := statusOf(s, t)
		if st != stLive {
			continue
		}
		a := actual[id]
		if a == nil {
			return vio("storage-missing-live-session storage="+w.cfg.Storage, "a session the model holds live is not in the storage", ids, id)
		}
		if a.Bad != "" {
			return vio("storage-undecodable storage="+w.cfg.Storage, "stored session data cannot be decoded", a.Bad, nil)
		}
		if k := diffKind(a.Data, s.Data); k != "" {
			return vio("storage-data-mismatch kind="+k+" storage="+w.cfg.Storage, "the stored data differ from the data last saved", a.Data, s.Data)
		}
		// the absolute deadline is kept inside the stored data (anchored state): what is stored is
		// what every later request will be judged by
		if s.HasAbs && s.Origin != "saved-after-destroy" {
			if !a.HasAbs {
				return vio("storage-abs-deadline-missing storage="+w.cfg.Storage, "the stored session has no absolute deadline although AbsoluteTimeout is configured", a.Data, map[string]int{"not_before": s.AbsLo - t, "not_after": s.AbsHi - t})
			}
			if a.Abs < s.AbsLo || a.Abs > s.AbsHi {
				return vio("storage-abs-deadline-mismatch origin="+s.Origin+" storage="+w.cfg.Storage, "the absolute deadline stored with the session is not creation time + AbsoluteTimeout", a.Abs-t, map[string]int{"not_before": s.AbsLo - t, "not_after": s.AbsHi - t})
			}
		}
		if w.inj != nil && a.Exp != s.Idle {
			if s.IdleAlt == 0 || a.Exp != s.IdleAlt {
				return vio("storage-ttl-mismatch", "the storage entry does not expire at last save + idle timeout", a.Exp-t, s.Idle-t)
			}
			s.Idle = s.IdleAlt // unspecified which of the two: the model follows the implementation
		}
		if w.inj != nil && s.IdleAlt != 0 {
			s.IdleAlt = 0
			info.Unspec++
		}
	}
	for _, id := range ids {
		if _, ok := m.live[id]; ok {
			continue
		}
		cause, isDead := m.dead[id]
		switch {
		case !m.issued[id]:
			return vio("storage-holds-unissued-id storage="+w.cfg.Storage, "the storage holds a session under an id the server never issued", id, "absent")
		case isDead && (cause == "destroy" || cause == "regenerate" || cause == "reset" || cause == "store.Delete" || cause == "store.Reset"):
			return vio("storage-holds-ended-session cause="+causeClass(cause)+" storage="+w.cfg.Storage, "the storage still holds the session of an id that was ended explicitly", map[string]any{"id": id, "data": actual[id].Data}, "absent")
		default:
			info.Unspec++ // timeouts are enforced on access; never-saved ids: the statement is silent
		}
	}
	return nil
}

// ---------------------------------------------------------------------------
// canonical state key for the de-duplicating search: reference-model state + decoded
// storage contents + each client's held id + the pooled Session object, with ids renamed
// in order of appearance and all times relative to now; minimum over the A<->B swap.

func (w *world) stateKeyOrder(order [2]int, pool string) string {
	t := w.now
	names := map[string]string{}
	name := func(id string) string {
		if id == "" {
			return "-"
		}
		if n, ok := names[id]; ok {
			return n
		}
		n := fmt.Sprintf("i%d", len(names))
		names[id] = n
		return n
	}
	actual, aids := w.contents()
	desc := func(id string) string {
		if id == "" {
			return "-"
		}
		if s, ok := w.m.live[id]; ok {
			if st, _ := statusOf(s, t); st != stDead {
				return name(id)
			}
		}
		if _, ok := actual[id]; ok {
			return name(id) // dead for the model, physically present
		}
		return "D"
	}
	var b strings.Builder
	for _, ci := range order {
		held := w.presentedBy(ci)
		c := w.cl[ci]
		rel := 0
		if c.exp != 0 {
			rel = c.exp - t
		}
		fmt.Fprintf(&b, "C[%s %d %s]", desc(held), rel, desc(c.last))
	}
	fmt.Fprintf(&b, "K[%s]", desc(w.m.lastKilled))
	var lids []string
	for id, s := range w.m.live {
		if st, _ := statusOf(s, t); st != stDead {
			lids = append(lids, id)
		}
	}
	byCounter := func(l []string) {
		sort.Slice(l, func(i, j int) bool {
			if len(l[i]) != len(l[j]) {
				return len(l[i]) < len(l[j])
			}
			return l[i] < l[j]
		})
	}
	byCounter(lids)
	byCounter(aids)
	for _, id := range lids {
		name(id)
	}
	for _, id := range aids {
		name(id)
	}
	type row struct{ n, s string }
	var rows []row
	for _, id := range lids {
		s := w.m.live[id]
		r := fmt.Sprintf("%v idle=%d", sortedKV(s.Data), s.Idle-t)
		if s.IdleAlt != 0 {
			r += fmt.Sprintf("/%d", s.IdleAlt-t)
		}
		if s.Custom != 0 {
			r += fmt.Sprintf(" own-idle=%d", s.Custom)
		}
		if s.HasAbs {
			r += fmt.Sprintf(" abs=%d..%d", s.AbsLo-t, s.AbsHi-t)
		}
		rows = append(rows, row{names[id], "M " + r})
	}
	for _, id := range aids {
		a := actual[id]
		r := fmt.Sprintf("%v", sortedKV(a.Data))
		if a.HasAbs {
			r += fmt.Sprintf(" abs=%d", a.Abs-t)
		}
		if a.Exp != 0 {
			r += fmt.Sprintf(" exp=%d", a.Exp-t)
		}
		rows = append(rows, row{names[id], "S " + r})
	}
	sort.Slice(rows, func(i, j int) bool {
		if rows[i].n != rows[j].n {
			return rows[i].n < rows[j].n
		}
		return rows[i].s < rows[j].s
	})
	for _, r := range rows {
		b.WriteString("|" + r.n + " " + r.s)
	}
	b.WriteString("|P " + pool)
	return b.String()
}

func sortedKV(d map[string]string) []string {
	var out []string
	for k, v := range d {
		out = append(out, k+"="+v)
	}
	sort.Strings(out)
	return out
}
