package main

// The operation alphabet of C15 and the named families (sub-alphabets with a depth) that
// the tiers enumerate.

import (
	"fmt"
	"strings"
)

const (
	kClient = iota // request of user A or B replaying what the server last sent
	kMal           // request of M presenting a forged / stale / stolen id
	kAdmin         // request whose handler uses store.GetByID / store.Delete on a user's id
	kTick          // clock advance
)

// Op is one letter of the history alphabet.
type Op struct {
	Name   string
	Kind   int
	Client int    // kClient: who; kAdmin / kMal(stolen): whose id
	API    string // "mw" | "st" | "adm"
	Act    string // get touch set setns del destroy regen reset login | getbyid getbyidset delete resetall
	K, V   string
	Forge  string // kMal: evil | unissued | destroyed | stolen
	Tick   int
}

var clientNames = []string{"A", "B"}

// Timeouts (seconds) and clock steps. tShort keeps a session alive (tShort < Idle) and two
// of them exceed the absolute timeout (2*tShort > Abs) so that "absolute deadline passed
// while the idle deadline was kept alive" is reachable in five operations.
const (
	IdleS  = 10
	AbsS   = 12
	tShort = 7
	tIdle  = IdleS + 1
	tAbs   = AbsS + 1
	tHalf  = IdleS / 2 // thorough only: two of them hit the idle boundary exactly (unspecified instant)
)

func buildAlphabet() []Op {
	var ops []Op
	add := func(o Op) { ops = append(ops, o) }
	for ci, cn := range clientNames {
		for _, api := range []string{"mw", "st"} {
			p := cn + "." + api + "."
			base := Op{Kind: kClient, Client: ci, API: api}
			mk := func(name, act, k, v string) {
				o := base
				o.Name, o.Act, o.K, o.V = p+name, act, k, v
				add(o)
			}
			mk("get", "get", "", "")
			mk("set.k1.v1", "set", "k1", "v1")
			mk("set.k1.v2", "set", "k1", "v2")
			mk("set.k2.v1", "set", "k2", "v1")
			mk("set.k2.v2", "set", "k2", "v2")
			mk("del.k1", "del", "k1", "")
			mk("del.k2", "del", "k2", "")
			mk("destroy", "destroy", "", "")
			mk("regen", "regen", "", "")
			mk("reset", "reset", "", "")
			mk("login.k2.v2", "login", "k2", "v2") // Regenerate, then Set
			if api == "st" {
				mk("touch", "touch", "", "")                   // Get + Save + Release, no change
				mk("setns.k1.v2", "setns", "k1", "v2")         // Set without Save
				mk("saveregen.k1.v1", "saveregen", "k1", "v1") // Set, Save, Regenerate (then Save) in one request
				mk("regendestroy", "regendestroy", "", "")     // Regenerate, Save, Destroy in one request
			}
		}
	}
	for _, forge := range []string{"evil", "unissued", "destroyed", "stolenA", "stolenB"} {
		for _, api := range []string{"mw", "st"} {
			o := Op{Kind: kMal, API: api, Forge: forge, Name: "M." + api + "." + forge}
			o.Act = "get" // mw: the middleware saves at the end of the request
			if api == "st" {
				o.Act = "touch" // store API: Get + Save + Release
			}
			if forge == "stolenA" || forge == "stolenB" {
				o.Forge = "stolen"
				o.Client = int(forge[6] - 'A')
			}
			add(o)
		}
	}
	for ci, cn := range clientNames {
		add(Op{Name: "adm.getbyid." + cn, Kind: kAdmin, API: "adm", Act: "getbyid", Client: ci})
		add(Op{Name: "adm.getbyidset." + cn, Kind: kAdmin, API: "adm", Act: "getbyidset", K: "k2", V: "v1", Client: ci})
		add(Op{Name: "adm.delete." + cn, Kind: kAdmin, API: "adm", Act: "delete", Client: ci})
	}
	add(Op{Name: "adm.store.reset", Kind: kAdmin, API: "adm", Act: "resetall", Client: -1}) // store.Reset(): every session ends
	for _, t := range []int{tShort, tIdle, tAbs, tHalf} {
		add(Op{Name: fmt.Sprintf("tick.%d", t), Kind: kTick, Tick: t})
	}
	return ops
}

var alphabet = buildAlphabet()

// Family is one exhaustive enumeration: every history of at most Depth letters of Ops.
type Family struct {
	Name    string
	Ops     []int // indices into alphabet
	Depth   int
	AbsOnly bool // only the configurations with an absolute timeout
	// Ctx: "" = every configuration (fresh and shared RequestCtx); ctxFresh = only the fresh-ctx
	// ones; ctxSharedAbsOff = all fresh-ctx ones, shared-ctx ones only without AbsoluteTimeout
	// (buffer reuse and the absolute deadline do not interact; the idle timeout stays in)
	Ctx       string
	Symmetric bool // the alphabet is closed under A<->B: histories whose first user is B are skipped
}

func names(list ...string) []int {
	var out []int
	for _, n := range list {
		i := opIndex(n)
		if i < 0 {
			panic("unknown op " + n)
		}
		out = append(out, i)
	}
	return out
}

func fullAlphabet() []int {
	out := make([]int, len(alphabet))
	for i := range out {
		out[i] = i
	}
	return out
}

// coreOps: user A does everything once through each API, B exists to show isolation,
// M forges, an administrator deletes, time passes.
func coreOps() []int {
	return names(
		"A.mw.get", "A.mw.set.k1.v1", "A.mw.del.k1", "A.mw.destroy", "A.mw.regen", "A.mw.reset",
		"A.st.get", "A.st.set.k2.v1", "A.st.destroy", "A.st.regen", "A.st.reset", "A.st.saveregen.k1.v1", "A.st.regendestroy",
		"B.mw.get", "B.mw.set.k1.v2", "B.st.get", "B.st.set.k2.v1",
		"M.mw.evil", "M.mw.destroyed", "M.mw.stolenA",
		"adm.delete.A",
		"tick.7", "tick.11")
}

// smallOps: the core without the second spelling of what either API already does.
func smallOps() []int {
	return names(
		"A.mw.get", "A.mw.set.k1.v1", "A.mw.destroy", "A.mw.regen", "A.mw.reset",
		"A.st.get", "A.st.set.k2.v1", "A.st.destroy", "A.st.login.k2.v2",
		"B.mw.set.k1.v2", "B.st.get",
		"M.mw.destroyed", "M.st.stolenA",
		"tick.7")
}

// timingOps: one user, both clocks.
func timingOps() []int {
	return names(
		"A.mw.get", "A.mw.set.k1.v1", "A.mw.regen", "A.mw.reset",
		"A.st.get", "A.st.touch", "A.st.reset",
		"M.mw.stolenA", "adm.getbyid.A",
		"tick.7", "tick.11")
}

func opNames(idx []int) []string {
	out := make([]string, len(idx))
	for i, x := range idx {
		out[i] = alphabet[x].Name
	}
	return out
}

func opIndex(name string) int {
	for i, o := range alphabet {
		if o.Name == name {
			return i
		}
	}
	return -1
}

func parseHistory(s string) ([]int, error) {
	var h []int
	for _, n := range strings.Split(s, ",") {
		n = strings.TrimSpace(n)
		if n == "" {
			continue
		}
		i := opIndex(n)
		if i < 0 {
			return nil, fmt.Errorf("unknown op %q", n)
		}
		h = append(h, i)
	}
	return h, nil
}

// Cfg is one configuration of the session middleware and of the server around it.
type Cfg struct {
	Source  string // cookie | header | query
	Storage string // memory | injected
	Abs     bool
	// Ctx says on which fasthttp.RequestCtx the requests of a history are served:
	//   fresh  - a new RequestCtx per request
	//   shared - all requests of the history on ONE RequestCtx, reset between requests the way
	//            the fasthttp server does for the next request of a keep-alive connection and,
	//            through its ctx pool, for the next connection. The request buffers (query
	//            args, header and cookie values) of one client are then overwritten in place
	//            by the next client's request, so anything the session code kept that still
	//            points into them (ids used as storage keys, ...) changes under its feet.
	Ctx string
}

func (c Cfg) String() string {
	a := "off"
	if c.Abs {
		a = "on"
	}
	return fmt.Sprintf("src=%s storage=%s abs=%s ctx=%s", c.Source, c.Storage, a, c.Ctx)
}

// allCfgs: the first 12 are the fresh-ctx ones.
func allCfgs() []Cfg {
	var out []Cfg
	for _, cx := range []string{"fresh", "shared"} {
		for _, s := range []string{"cookie", "header", "query"} {
			for _, st := range []string{"memory", "injected"} {
				for _, a := range []bool{false, true} {
					out = append(out, Cfg{s, st, a, cx})
				}
			}
		}
	}
	return out
}

const (
	ctxFresh        = "fresh RequestCtx only"
	ctxSharedAbsOff = "shared RequestCtx only without AbsoluteTimeout"
)

// applies reports whether family f enumerates configuration c.
func (f Family) applies(c Cfg) bool {
	if f.AbsOnly && !c.Abs {
		return false
	}
	switch f.Ctx {
	case ctxFresh:
		return c.Ctx == "fresh"
	case ctxSharedAbsOff:
		return c.Ctx == "fresh" || !c.Abs
	}
	return true
}

func (f Family) nCfgs() int {
	n := 0
	for _, c := range allCfgs() {
		if f.applies(c) {
			n++
		}
	}
	return n
}
