package main

// The operation alphabet of C15 and the named families (sub-alphabets with a depth) that
// the tiers enumerate.

import (
	"fmt"
	"strings"
)

const (
	kClient = iota // request of user A or B replaying what the server last sent
	kMal           // request of M presenting a forged / stale / stolen id
	kAdmin         // request whose handler uses store.GetByID / store.Delete on a user's id
	kTick          // clock advance
)

// Op is one letter of the history alphabet.
type Op struct {
	Name   string
	Kind   int
	Client int    // kClient: who; kAdmin / kMal(stolen): whose id
	API    string // "mw" | "st" | "adm"
	Act    string // get touch set setns del destroy regen reset login seq | getbyid getbyidset delete resetall
	K, V   string
	Seq    []Act  // Act == "seq": the API calls the handler of this ONE request performs, in order
	Forge  string // kMal: evil | unissued | destroyed | stolen
	Tick   int
	Group  int // Act == "seq": 2 = letter of the pair family, 3 = of the triple family
	Idle   int // Act == "idle": seconds handed to Session.SetIdleTimeout before the request's save
}

// Act is one API call inside a compound request (Op.Act == "seq").
type Act struct {
	Name string // get set del destroy regen reset save
	K, V string
}

func (a Act) String() string {
	switch a.Name {
	case "set":
		return a.Name + "." + a.K + "." + a.V
	case "del":
		return a.Name + "." + a.K
	}
	return a.Name
}

// seqLetters are the API calls a compound request is made of. Between any two of them (and
// after the last) the handler reads ID(), Fresh(), Keys() and Get of every key, so the
// read-only calls are interleaved with every ordered combination. "save" is Session.Save():
// the store API's way to persist; on a middleware-managed session it is documented to have
// no effect (the middleware saves when the handler returns).
var seqLetters = []Act{
	{Name: "get", K: "k1"},
	{Name: "set", K: "k2", V: "v2"},
	{Name: "del", K: "k1"},
	{Name: "destroy"},
	{Name: "regen"},
	{Name: "reset"},
	{Name: "save"},
}

// regetLetter (store API only): the handler gives its session back (Release) and calls
// store.Get(c) AGAIN in the same request - what a second handler or another middleware of the
// chain does. The second Get finds what the first left behind: the id getSession keeps in the
// request's Locals when it generated one, the request header rewritten by a save (header
// source), the request cookie removed by Destroy/Reset, and the *Session object just released.
var regetLetter = Act{Name: "reget"}

// seqLettersFor: the calls a compound request through api is made of.
func seqLettersFor(api string) []Act {
	if api == "st" {
		return append(append([]Act(nil), seqLetters...), regetLetter)
	}
	return seqLetters
}

func seqName(seq []Act) string {
	parts := make([]string, len(seq))
	for i, a := range seq {
		parts[i] = a.String()
	}
	return strings.Join(parts, "+")
}

// seqClass names what a compound request does to its session, coarsely: the first call that
// ends the session's id (Destroy / Regenerate / Reset) and whether a write (Set, Delete, Save)
// follows it in the same request.
func seqClass(seq []Act) string {
	for _, a := range seq {
		if a.Name == "reget" {
			return "second-get"
		}
	}
	for i, a := range seq {
		var ender string
		switch a.Name {
		case "destroy":
			ender = "destroy"
		case "regen":
			ender = "regenerate"
		case "reset":
			ender = "reset"
		default:
			continue
		}
		for _, b := range seq[i+1:] {
			if b.Name == "set" || b.Name == "del" || b.Name == "save" {
				return "write-after-" + ender
			}
		}
		if i+1 < len(seq) {
			return "calls-after-" + ender
		}
		return ender + "-last"
	}
	return "no-id-change"
}

// allSeqs: every sequence of exactly n of the given letters, in letter order.
func allSeqs(n int, letters []Act) [][]Act {
	if n == 0 {
		return [][]Act{nil}
	}
	var out [][]Act
	for _, pre := range allSeqs(n-1, letters) {
		for _, a := range letters {
			out = append(out, append(append([]Act(nil), pre...), a))
		}
	}
	return out
}

// buildCompound: user A's compound requests, through each API: every ordered pair (Group 2) and
// every ordered triple (Group 3) of the API's letters; for the store API Group 2 also holds
// every ordered pair of seqLetters FOLLOWED by a second store.Get (so that what the pair saved,
// ended or left unsaved is read back by another Get of the same request). They are letters of
// the compound families only: the full-alphabet families and the de-duplicating search keep the
// one-call-per-request alphabet.
func buildCompound() []Op {
	var ops []Op
	mk := func(api string, seq []Act, group int) {
		ops = append(ops, Op{Name: "A." + api + ".seq." + seqName(seq), Kind: kClient, Client: 0, API: api, Act: "seq", Seq: seq, Group: group})
	}
	for _, api := range []string{"mw", "st"} {
		for _, seq := range allSeqs(2, seqLettersFor(api)) {
			mk(api, seq, 2)
		}
		if api == "st" {
			for _, seq := range allSeqs(2, seqLetters) {
				mk(api, append(append([]Act(nil), seq...), regetLetter), 2)
			}
		}
	}
	for _, api := range []string{"mw", "st"} {
		for _, seq := range allSeqs(3, seqLettersFor(api)) {
			if api == "st" && seq[2].Name == "reget" && seq[0].Name != "reget" && seq[1].Name != "reget" {
				continue // already in Group 2
			}
			mk(api, seq, 3)
		}
	}
	return ops
}

var clientNames = []string{"A", "B"}

// Timeouts (seconds) and clock steps. tShort keeps a session alive (tShort < Idle) and two
// of them exceed the absolute timeout (2*tShort > Abs) so that "absolute deadline passed
// while the idle deadline was kept alive" is reachable in five operations.
const (
	IdleS  = 10
	AbsS   = 12
	tShort = 7
	tIdle  = IdleS + 1
	tAbs   = AbsS + 1
	tHalf  = IdleS / 2 // thorough only: two of them hit the idle boundary exactly (unspecified instant)
)

func buildAlphabet() []Op {
	var ops []Op
	add := func(o Op) { ops = append(ops, o) }
	for ci, cn := range clientNames {
		for _, api := range []string{"mw", "st"} {
			p := cn + "." + api + "."
			base := Op{Kind: kClient, Client: ci, API: api}
			mk := func(name, act, k, v string) {
				o := base
				o.Name, o.Act, o.K, o.V = p+name, act, k, v
				add(o)
			}
			mk("get", "get", "", "")
			mk("set.k1.v1", "set", "k1", "v1")
			mk("set.k1.v2", "set", "k1", "v2")
			mk("set.k2.v1", "set", "k2", "v1")
			mk("set.k2.v2", "set", "k2", "v2")
			mk("del.k1", "del", "k1", "")
			mk("del.k2", "del", "k2", "")
			mk("destroy", "destroy", "", "")
			mk("regen", "regen", "", "")
			mk("reset", "reset", "", "")
			mk("login.k2.v2", "login", "k2", "v2") // Regenerate, then Set
			if api == "st" {
				mk("touch", "touch", "", "")                   // Get + Save + Release, no change
				mk("setns.k1.v2", "setns", "k1", "v2")         // Set without Save
				mk("saveregen.k1.v1", "saveregen", "k1", "v1") // Set, Save, Regenerate (then Save) in one request
				mk("regendestroy", "regendestroy", "", "")     // Regenerate, Save, Destroy in one request
			}
		}
	}
	for _, forge := range []string{"evil", "unissued", "destroyed", "stolenA", "stolenB"} {
		for _, api := range []string{"mw", "st"} {
			o := Op{Kind: kMal, API: api, Forge: forge, Name: "M." + api + "." + forge}
			o.Act = "get" // mw: the middleware saves at the end of the request
			if api == "st" {
				o.Act = "touch" // store API: Get + Save + Release
			}
			if forge == "stolenA" || forge == "stolenB" {
				o.Forge = "stolen"
				o.Client = int(forge[6] - 'A')
			}
			add(o)
		}
	}
	for ci, cn := range clientNames {
		add(Op{Name: "adm.getbyid." + cn, Kind: kAdmin, API: "adm", Act: "getbyid", Client: ci})
		add(Op{Name: "adm.getbyidset." + cn, Kind: kAdmin, API: "adm", Act: "getbyidset", K: "k2", V: "v1", Client: ci})
		add(Op{Name: "adm.delete." + cn, Kind: kAdmin, API: "adm", Act: "delete", Client: ci})
	}
	add(Op{Name: "adm.store.reset", Kind: kAdmin, API: "adm", Act: "resetall", Client: -1}) // store.Reset(): every session ends
	for _, t := range []int{tShort, tIdle, tAbs, tHalf} {
		add(Op{Name: fmt.Sprintf("tick.%d", t), Kind: kTick, Tick: t})
	}
	return ops
}

// buildExtra: letters of the small dedicated families (kept out of fullAlphabet()/BFS like the
// compound ones).
//
//   - per-session idle timeout: Session.SetIdleTimeout(n) before the request's save, n below (5 s)
//     and above (15 s) the configured IdleTimeout (10 s), through both APIs. The value lives in a
//     field of the pooled *Session; every other session must keep the configured timeout.
//   - operations on a session obtained by store.GetByID (no request context behind it): Destroy,
//     Regenerate+Save, Reset+Save, Delete(key)+Save - what an administrator or a background job
//     does to somebody's session.
func buildExtra() []Op {
	var ops []Op
	for _, n := range []int{5, 15} {
		ops = append(ops,
			Op{Name: fmt.Sprintf("A.st.idle%d.k1.v1", n), Kind: kClient, Client: 0, API: "st", Act: "idle", K: "k1", V: "v1", Idle: n},
			Op{Name: fmt.Sprintf("A.mw.idle%d", n), Kind: kClient, Client: 0, API: "mw", Act: "idle", Idle: n})
	}
	for _, act := range []string{"getbyiddestroy", "getbyidregen", "getbyidreset", "getbyiddel"} {
		o := Op{Name: "adm." + act + ".A", Kind: kAdmin, API: "adm", Act: act, Client: 0}
		if act == "getbyiddel" {
			o.K = "k1"
		}
		ops = append(ops, o)
	}
	return ops
}

var (
	baseAlphabet = buildAlphabet()
	alphabet     = append(append(append([]Op(nil), baseAlphabet...), buildCompound()...), buildExtra()...)
)

// Family is one exhaustive enumeration: every history of at most Depth letters of Ops.
type Family struct {
	Name    string
	Ops     []int // indices into alphabet
	Depth   int
	AbsOnly bool // only the configurations with an absolute timeout
	// Ctx: "" = every configuration (fresh and shared RequestCtx); ctxFresh = only the fresh-ctx
	// ones; ctxSharedAbsOff = all fresh-ctx ones, shared-ctx ones only without AbsoluteTimeout
	// (buffer reuse and the absolute deadline do not interact; the idle timeout stays in)
	Ctx       string
	Symmetric bool // the alphabet is closed under A<->B: histories whose first user is B are skipped
	// Compound != nil: the family enumerates the histories of at most Depth requests in which
	// EXACTLY ONE request is a letter of Compound (several API calls in one request) and the
	// others are letters of Ops; prefixes without a compound request are histories of the
	// full-alphabet family and are not replayed again.
	Compound []int
	Sources  []string // nil = every id source
	// NoLeadingTick: histories do not start with a clock tick (a tick before the first request
	// only shifts every later instant by the same amount)
	NoLeadingTick bool
}

// letters: every letter a history of the family can contain.
func (f Family) letters() []int {
	return append(append([]int(nil), f.Ops...), f.Compound...)
}

func names(list ...string) []int {
	var out []int
	for _, n := range list {
		i := opIndex(n)
		if i < 0 {
			panic("unknown op " + n)
		}
		out = append(out, i)
	}
	return out
}

// fullAlphabet: every one-call-per-request letter.
func fullAlphabet() []int {
	out := make([]int, len(baseAlphabet))
	for i := range out {
		out[i] = i
	}
	return out
}

// coreOps: user A does everything once through each API, B exists to show isolation,
// M forges, an administrator deletes, time passes.
func coreOps() []int {
	return names(
		"A.mw.get", "A.mw.set.k1.v1", "A.mw.del.k1", "A.mw.destroy", "A.mw.regen", "A.mw.reset",
		"A.st.get", "A.st.set.k2.v1", "A.st.destroy", "A.st.regen", "A.st.reset", "A.st.saveregen.k1.v1", "A.st.regendestroy",
		"B.mw.get", "B.mw.set.k1.v2", "B.st.get", "B.st.set.k2.v1",
		"M.mw.evil", "M.mw.destroyed", "M.mw.stolenA",
		"adm.delete.A",
		"tick.7", "tick.11")
}

// smallOps: the core without the second spelling of what either API already does.
func smallOps() []int {
	return names(
		"A.mw.get", "A.mw.set.k1.v1", "A.mw.destroy", "A.mw.regen", "A.mw.reset",
		"A.st.get", "A.st.set.k2.v1", "A.st.destroy", "A.st.login.k2.v2",
		"B.mw.set.k1.v2", "B.st.get",
		"M.mw.destroyed", "M.st.stolenA",
		"tick.7")
}

// timingOps: one user, both clocks.
func timingOps() []int {
	return names(
		"A.mw.get", "A.mw.set.k1.v1", "A.mw.regen", "A.mw.reset",
		"A.st.get", "A.st.touch", "A.st.reset",
		"M.mw.stolenA", "adm.getbyid.A",
		"tick.7", "tick.11")
}

// contextOps: the one-call requests around a compound request - A and B create and read
// sessions through either API, M arrives without a valid id (fresh session) or with A's /
// the ended one, an administrator reads A's session by id, 7 s pass (two of them end every
// session by either timeout).
func contextOps() []int {
	return names(
		"A.mw.set.k1.v1", "A.st.set.k1.v1", "A.mw.get", "A.st.get",
		"B.mw.set.k1.v2", "B.st.set.k2.v1", "B.mw.get", "B.st.get",
		"M.mw.evil", "M.st.evil", "M.mw.destroyed", "M.mw.stolenA",
		"adm.getbyid.A",
		"tick.7") // one short tick: the compound request (or its successor) runs at a later instant than the session's creation
}

// compoundOps: A's compound requests of group n (2: pairs, and pairs followed by a second
// store.Get; 3: the remaining triples), both APIs.
func compoundOps(n int) []int {
	var out []int
	for i, o := range alphabet {
		if o.Act == "seq" && o.Group == n {
			out = append(out, i)
		}
	}
	return out
}

// rotationOps: every id-rotating or lifetime-touching call of one user, through both APIs,
// to be placed between clock ticks: Regenerate, login (= Regenerate + Set), Reset, Set, a
// read that does not save (store Get), GetByID; two short ticks (5 s, 7 s; idle 10 s, absolute
// 12 s) whose sums 10 / 12 / 14 / 15 ... land on, between and beyond both deadlines while a
// saving request in between keeps the idle timeout from ending the session first.
func rotationOps(thorough bool) []int {
	l := []string{
		"A.mw.set.k1.v1", "A.mw.regen", "A.mw.login.k2.v2", "A.mw.reset",
		"A.st.get", "A.st.regen", "A.st.login.k2.v2",
		"adm.getbyid.A",
		"tick.5", "tick.7"}
	if thorough {
		l = append(l, "A.mw.get", "A.st.touch", "A.st.set.k1.v1", "A.st.reset")
	}
	return names(l...)
}

// idleOps: requests that override the idle timeout of their own session, surrounded by what
// shows a wrong lifetime of ANY session: the other user creating / saving a session right
// after (drawing the pooled object), reads after 7 s (between 5 and 10) and 11 s (between 10
// and 15), the stolen id (cookie clients drop expired cookies themselves), a GetByID save.
func idleOps() []int {
	return names(
		"A.st.idle5.k1.v1", "A.mw.idle5", "A.st.idle15.k1.v1", "A.mw.idle15",
		"A.mw.get", "A.st.get", "A.st.touch",
		"B.mw.set.k1.v2", "B.st.touch",
		"M.mw.stolenA", "adm.getbyidset.A",
		"tick.7", "tick.11")
}

// byIDOps: an administrator working on user A's session through store.GetByID (read, Set+Save,
// Delete(key)+Save, Destroy, Regenerate+Save, Reset+Save) and store.Delete, between requests of
// A through both APIs, of B, and of M presenting the ended / the stolen id.
func byIDOps() []int {
	return names(
		"A.mw.set.k1.v1", "A.st.set.k2.v1", "A.mw.get", "A.st.get",
		"B.mw.set.k1.v2",
		"adm.getbyid.A", "adm.getbyidset.A", "adm.getbyiddel.A", "adm.getbyiddestroy.A", "adm.getbyidregen.A", "adm.getbyidreset.A",
		"M.mw.destroyed", "M.mw.stolenA",
		"tick.7")
}

func opNames(idx []int) []string {
	out := make([]string, len(idx))
	for i, x := range idx {
		out[i] = alphabet[x].Name
	}
	return out
}

func opIndex(name string) int {
	for i, o := range alphabet {
		if o.Name == name {
			return i
		}
	}
	return -1
}

func parseHistory(s string) ([]int, error) {
	var h []int
	for _, n := range strings.Split(s, ",") {
		n = strings.TrimSpace(n)
		if n == "" {
			continue
		}
		i := opIndex(n)
		if i < 0 {
			return nil, fmt.Errorf("unknown op %q", n)
		}
		h = append(h, i)
	}
	return h, nil
}

// Cfg is one configuration of the session middleware and of the server around it.
type Cfg struct {
	Source  string // cookie | header | query
	Storage string // memory | injected
	Abs     bool
	// Ctx says on which fasthttp.RequestCtx the requests of a history are served:
	//   fresh  - a new RequestCtx per request
	//   shared - all requests of the history on ONE RequestCtx, reset between requests the way
	//            the fasthttp server does for the next request of a keep-alive connection and,
	//            through its ctx pool, for the next connection. The request buffers (query
	//            args, header and cookie values) of one client are then overwritten in place
	//            by the next client's request, so anything the session code kept that still
	//            points into them (ids used as storage keys, ...) changes under its feet.
	Ctx string
}

func (c Cfg) String() string {
	a := "off"
	if c.Abs {
		a = "on"
	}
	return fmt.Sprintf("src=%s storage=%s abs=%s ctx=%s", c.Source, c.Storage, a, c.Ctx)
}

// allCfgs: the first 12 are the fresh-ctx ones.
func allCfgs() []Cfg {
	var out []Cfg
	for _, cx := range []string{"fresh", "shared"} {
		for _, s := range []string{"cookie", "header", "query"} {
			for _, st := range []string{"memory", "injected"} {
				for _, a := range []bool{false, true} {
					out = append(out, Cfg{s, st, a, cx})
				}
			}
		}
	}
	return out
}

const (
	ctxFresh        = "fresh RequestCtx only"
	ctxSharedAbsOff = "shared RequestCtx only without AbsoluteTimeout"
	// ctxDiagonal: fresh RequestCtx with AbsoluteTimeout, shared RequestCtx without. Every request of a
	// shared-ctx history runs the code a fresh-ctx one runs (the only difference is what the request
	// buffers held before), so shared/abs-off exposes whatever fresh/abs-off exposes; the absolute
	// deadline never touches request buffers, so shared/abs-on adds nothing to fresh/abs-on plus
	// shared/abs-off. (The de-duplicating search keeps all 24 configurations.)
	ctxDiagonal = "fresh RequestCtx with AbsoluteTimeout + shared RequestCtx without"
	// ctxSharedNoAbs: only the shared-ctx configurations without AbsoluteTimeout (the request
	// buffers are the one piece of state the de-duplicating search does not key on)
	ctxSharedNoAbs = "shared RequestCtx without AbsoluteTimeout only"
)

// applies reports whether family f enumerates configuration c.
func (f Family) applies(c Cfg) bool {
	if f.AbsOnly && !c.Abs {
		return false
	}
	if f.Sources != nil {
		ok := false
		for _, s := range f.Sources {
			ok = ok || s == c.Source
		}
		if !ok {
			return false
		}
	}
	switch f.Ctx {
	case ctxFresh:
		return c.Ctx == "fresh"
	case ctxSharedAbsOff:
		return c.Ctx == "fresh" || !c.Abs
	case ctxDiagonal:
		return (c.Ctx == "fresh") == c.Abs
	case ctxSharedNoAbs:
		return c.Ctx == "shared" && !c.Abs
	}
	return true
}

func (f Family) nCfgs() int {
	n := 0
	for _, c := range allCfgs() {
		if f.applies(c) {
			n++
		}
	}
	return n
}
