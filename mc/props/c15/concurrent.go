package main

// Concurrent part (the "schedules" half of the quantifier): two requests of DIFFERENT clients in flight on one
// session middleware + store (package verifmc/ccpair). Sessions of different clients never mix, so under every
// interleaving (preemption-bounded) at the handler yields and at every pool / mutex operation of
// middleware/session and of the built-in memory storage (shimmed through the overlay) each request must receive
// exactly the response it receives when served alone on an identically prepared store. Two requests on the SAME
// session are not paired (their outcome legitimately depends on their order).

import (
	"errors"
	"fmt"
	"sort"
	"strconv"
	"strings"
	"time"

	"github.com/gofiber/fiber/v3"
	"github.com/gofiber/fiber/v3/middleware/session"
	"github.com/gofiber/fiber/v3/verifrt"
	"github.com/gofiber/utils/v2"
	"github.com/valyala/fasthttp"

	"verifmc/ccpair"
	"verifmc/core"
)

func ccSessView(s *session.Session, presented string) string {
	keys := s.Keys()
	var kv []string
	for _, k := range keys {
		ks, _ := k.(string)
		kv = append(kv, fmt.Sprintf("%s=%v", ks, s.Get(ks)))
	}
	sort.Strings(kv)
	class := "new-id"
	if s.ID() == presented && presented != "" {
		class = "presented-id"
	}
	return fmt.Sprintf("id=%s fresh=%v data=%v", class, s.Fresh(), kv)
}

// ccWarmups: histories that precede the two requests in flight, each containing ONE storage call that fails
// (the storage answers an error once) on a different path of the store / middleware — the error branches are where
// a session object is released, and a release too many or too few only shows when two later requests overlap.
// "" is the plain warm-up. All of them run on the injected storage with an absolute timeout configured.
// ccJanitorWarm: the built-in storage with its janitor thread (a daemon thread of the execution). A session object
// loaded before the idle timeout lapsed is held by the application (store.GetByID), the clock moves past the idle
// timeout and the janitor's interval, and a request saves the held session (a fresh idle timeout) while the janitor
// sweeps; the same handler then looks the id up again.
const ccJanitorWarm = "held-session-saved-after-lapse"

// ccT0: the coarse clock (read by the built-in storage) at the start of every scenario build
const ccT0 = 1_900_000_000

var ccWarmups = []string{"abs-getbyid-delete-fails", "getbyid-get-fails", "destroy-delete-fails", "save-set-fails",
	"load-get-fails", "byid-delete-fails", "abs-request-delete-fails"}

func ccBuildSession(api string, injected bool, warm ...string) func() fasthttp.RequestHandler {
	return func() fasthttp.RequestHandler {
		session.VerifResetPools()
		utils.VerifSetTimestamp(ccT0)
		counter := 0
		sc := session.Config{IdleTimeout: 30 * time.Minute, KeyLookup: "cookie:" + cookieName,
			KeyGenerator: func() string { counter++; return "s" + strconv.Itoa(counter) }}
		var st *ccStorage
		if injected {
			st = &ccStorage{data: map[string][]byte{}}
			sc.Storage = st
		}
		if len(warm) > 0 && warm[0] != ccJanitorWarm {
			// (the injected storage keeps no TTL, so only the absolute deadline ends a session here)
			sc.IdleTimeout, sc.AbsoluteTimeout = 10*time.Second, 12*time.Second
		}
		mw, store := session.NewWithStore(sc)
		app := fiber.New()
		app.Get("/mw", mw, func(c fiber.Ctx) error {
			m := session.FromContext(c)
			presented := strings.Clone(c.Cookies(cookieName))
			act, k, v := c.Get("X-Act"), strings.Clone(c.Get("X-K")), strings.Clone(c.Get("X-V"))
			pre := ccSessView(m.Session, presented)
			verifrt.Yield("handler.before-act")
			var err error
			switch act {
			case "set":
				m.Set(k, v)
			case "del":
				m.Delete(k)
			case "destroy":
				err = m.Destroy()
			case "regen":
				err = m.Session.Regenerate()
			case "reset":
				err = m.Reset()
			}
			verifrt.Yield("handler.after-act")
			return c.SendString(fmt.Sprintf("pre{%s} post{%s} err=%v", pre, ccSessView(m.Session, presented), err))
		})
		app.Get("/st", func(c fiber.Ctx) error {
			sess, err := store.Get(c)
			if err != nil {
				return c.SendString("store.Get: " + err.Error())
			}
			defer sess.Release()
			presented := strings.Clone(c.Cookies(cookieName))
			act, k, v := c.Get("X-Act"), strings.Clone(c.Get("X-K")), strings.Clone(c.Get("X-V"))
			pre := ccSessView(sess, presented)
			verifrt.Yield("handler.before-act")
			switch act {
			case "set":
				sess.Set(k, v)
				err = sess.Save()
			case "del":
				sess.Delete(k)
				err = sess.Save()
			case "destroy":
				err = sess.Destroy()
			case "regen":
				if err = sess.Regenerate(); err == nil {
					err = sess.Save()
				}
			case "reset":
				if err = sess.Reset(); err == nil {
					err = sess.Save()
				}
			}
			verifrt.Yield("handler.after-act")
			return c.SendString(fmt.Sprintf("pre{%s} post{%s} err=%v", pre, ccSessView(sess, presented), err))
		})
		var held *session.Session
		app.Get("/held", func(c fiber.Ctx) error {
			if held == nil {
				return c.SendString("no held session")
			}
			held.Set("k9", "H")
			err := held.Save()
			verifrt.Quiesce() // everything else that can run (the janitor's sweep among it) runs before the id is looked up again
			again, gerr := store.GetByID("s1")
			view := "gone"
			if gerr == nil {
				view = fmt.Sprint(again.Get("k1"), again.Get("k9"))
				again.Release()
			}
			return c.SendString(fmt.Sprintf("saved err=%v; looked up again: %s", err, view))
		})
		h := app.Handler()
		// warm-up: client A owns s1 {k1: A1}, client B owns s2 {k1: B1}
		for _, w := range []string{"A1", "B1"} {
			var fctx fasthttp.RequestCtx
			rq := fasthttp.AcquireRequest()
			rq.Header.SetMethod("GET")
			rq.SetRequestURI("http://app.test/" + api)
			rq.Header.Set("X-Act", "set")
			rq.Header.Set("X-K", "k1")
			rq.Header.Set("X-V", w)
			fctx.Init(rq, nil, nil)
			h(&fctx)
		}
		if len(warm) > 0 && warm[0] == ccJanitorWarm {
			held, _ = store.GetByID("s1") // loaded while the session is alive
			verifrt.Advance(31 * time.Minute)
			utils.VerifSetTimestamp(ccT0 + 31*60)
		} else if len(warm) > 0 {
			one := func(id, act string) {
				defer func() { _ = recover() }() // the middleware panics when the store cannot load (a server recovers)
				var fctx fasthttp.RequestCtx
				rq := fasthttp.AcquireRequest()
				rq.Header.SetMethod("GET")
				rq.SetRequestURI("http://app.test/" + api)
				rq.Header.SetCookie(cookieName, id)
				rq.Header.Set("X-Act", act)
				rq.Header.Set("X-K", "k3")
				rq.Header.Set("X-V", "W")
				fctx.Init(rq, nil, nil)
				h(&fctx)
			}
			switch warm[0] {
			case "abs-getbyid-delete-fails":
				verifrt.Advance(13 * time.Second)
				st.failNext = "delete"
				if sess, err := store.GetByID("s1"); err == nil {
					sess.Release()
				}
			case "getbyid-get-fails":
				st.failNext = "get"
				if sess, err := store.GetByID("s1"); err == nil {
					sess.Release()
				}
			case "destroy-delete-fails":
				st.failNext = "delete"
				one("s2", "destroy")
			case "save-set-fails":
				st.failNext = "set"
				one("s1", "set")
			case "load-get-fails":
				st.failNext = "get"
				one("s1", "get")
			case "byid-delete-fails":
				st.failNext = "delete"
				_ = store.Delete("s2")
			case "abs-request-delete-fails":
				verifrt.Advance(13 * time.Second)
				st.failNext = "delete"
				one("s1", "get")
			}
			st.failNext = ""
		}
		return h
	}
}

// map-based storage that yields at every call (its own scheduling points; keeps the key strings it is given)
type ccStorage struct {
	data     map[string][]byte
	failNext string // the next call of this kind answers an error (once)
}

var errCCStorage = errors.New("storage unavailable")

func (s *ccStorage) fails(kind string) bool {
	if s.failNext == kind {
		s.failNext = ""
		return true
	}
	return false
}

func (s *ccStorage) Get(key string) ([]byte, error) {
	verifrt.YieldOn("storage.get", s)
	if s.fails("get") {
		return nil, errCCStorage
	}
	v, ok := s.data[key]
	if !ok {
		return nil, nil
	}
	return append([]byte(nil), v...), nil
}
func (s *ccStorage) Set(key string, val []byte, _ time.Duration) error {
	verifrt.YieldOn("storage.set", s)
	if s.fails("set") {
		return errCCStorage
	}
	s.data[strings.Clone(key)] = append([]byte(nil), val...)
	return nil
}
func (s *ccStorage) Delete(key string) error {
	verifrt.YieldOn("storage.delete", s)
	if s.fails("delete") {
		return errCCStorage
	}
	delete(s.data, key)
	return nil
}
func (s *ccStorage) Reset() error { s.data = map[string][]byte{}; return nil }
func (s *ccStorage) Close() error { return nil }

func ccObserveSession(resp *fasthttp.Response) string {
	var cookies []string
	resp.Header.VisitAllCookie(func(k, v []byte) {
		var ck fasthttp.Cookie
		_ = ck.ParseBytes(v)
		id := string(ck.Value())
		class := "other-id"
		switch {
		case id == "s1" || id == "s2":
			class = id
		case id == "":
			class = "empty"
		}
		exp := ""
		if !ck.Expire().IsZero() && ck.Expire().Before(time.Unix(1000, 0)) || ck.MaxAge() < 0 {
			exp = " expired"
		}
		cookies = append(cookies, string(k)+"="+class+exp)
	})
	sort.Strings(cookies)
	return fmt.Sprintf("status=%d cookies=%v body=%q", resp.StatusCode(), cookies, resp.Body())
}

func runConcurrentSessions(r *core.Run) {
	mk := func(api, id, act, k, v string) func() *fasthttp.Request {
		return func() *fasthttp.Request {
			rq := fasthttp.AcquireRequest()
			rq.Header.SetMethod("GET")
			rq.SetRequestURI("http://app.test/" + api)
			if id != "" {
				rq.Header.SetCookie(cookieName, id)
			}
			rq.Header.Set("X-Act", act)
			rq.Header.Set("X-K", k)
			rq.Header.Set("X-V", v)
			return rq
		}
	}
	client := func(name string) string { return name[:1] }
	var scs []ccpair.Scenario
	for _, api := range []string{"mw", "st"} {
		for _, injected := range []bool{false, true} {
			if r.Quick() && api == "st" && !injected {
				continue
			}
			reqs := []ccpair.Req{
				{Name: "A-get", Make: mk(api, "s1", "get", "", "")},
				{Name: "A-set", Make: mk(api, "s1", "set", "k2", "A2")},
				{Name: "A-regen", Make: mk(api, "s1", "regen", "", "")},
				{Name: "B-get", Make: mk(api, "s2", "get", "", "")},
				{Name: "B-set", Make: mk(api, "s2", "set", "k2", "B2")},
				{Name: "B-destroy", Make: mk(api, "s2", "destroy", "", "")},
				{Name: "B-reset", Make: mk(api, "s2", "reset", "", "")},
				{Name: "M-forged-get", Make: mk(api, "s9", "get", "", "")},
				{Name: "N-nocookie-set", Make: mk(api, "", "set", "k1", "N1")},
			}
			name := api + "/memory"
			if injected {
				name = api + "/injected"
			}
			if r.Quick() {
				// quick: the kinds that write (and one reader), the full set in thorough
				reqs = []ccpair.Req{reqs[1], reqs[4], reqs[5], reqs[7]}
			}
			scs = append(scs, ccpair.Scenario{Name: name, Build: ccBuildSession(api, injected), Reqs: reqs, Observe: ccObserveSession, Unordered: r.Quick(),
				Skip: func(a, b string) bool { return client(a) == client(b) }})
		}
	}
	// after a history with one failing storage call (see ccWarmups): fresh, forged and returning clients overlap
	var faulty []ccpair.Scenario
	for _, api := range []string{"mw", "st"} {
		for wi, w := range ccWarmups {
			if r.Quick() && (api == "st") != (wi%2 == 1) {
				continue // quick alternates the API over the warm-ups; thorough runs both on each
			}
			reqs := []ccpair.Req{
				{Name: "A-get", Make: mk(api, "s1", "get", "", "")},
				{Name: "B-set", Make: mk(api, "s2", "set", "k2", "B2")},
				{Name: "M-forged-get", Make: mk(api, "s9", "get", "", "")},
				{Name: "N-nocookie-set", Make: mk(api, "", "set", "k1", "N1")},
			}
			faulty = append(faulty, ccpair.Scenario{Name: api + "/injected+" + w, Build: ccBuildSession(api, true, w), Reqs: reqs, Observe: ccObserveSession,
				Unordered: r.Quick(), Skip: func(a, b string) bool { return client(a) == client(b) }})
		}
	}
	var janitor []ccpair.Scenario
	for _, api := range []string{"mw", "st"} {
		reqs := []ccpair.Req{
			{Name: "A-save-held", Make: func() *fasthttp.Request {
				rq := fasthttp.AcquireRequest()
				rq.Header.SetMethod("GET")
				rq.SetRequestURI("http://app.test/held")
				return rq
			}},
			{Name: "B-get", Make: mk(api, "s2", "get", "", "")},
		}
		janitor = append(janitor, ccpair.Scenario{Name: api + "/memory+janitor+" + ccJanitorWarm, Build: ccBuildSession(api, false, ccJanitorWarm), Reqs: reqs, Observe: ccObserveSession,
			Unordered: true, Skip: func(a, b string) bool { return client(a) == client(b) }})
	}
	// preemption bound 2 (the janitor is a third thread with a scheduling point at every mutex operation; the
	// save-between-scan-and-delete interleaving needs two preemptions); quick: the middleware API only
	if r.Quick() {
		ccpair.Run(r, "concurrent", janitor[:1], 2)
	} else {
		ccpair.Run(r, "concurrent", janitor, 2)
	}
	if r.Quick() {
		ccpair.Run(r, "concurrent", faulty, 1)
	} else {
		ccpair.Run(r, "concurrent", faulty, 2)
	}
	if r.Quick() {
		// preemption bound 2 on the middleware API with the yielding storage, bound 1 on the other scenarios
		ccpair.Run(r, "concurrent", scs[1:2], 2)
		ccpair.Run(r, "concurrent", scs[2:], 1)
	} else {
		ccpair.Run(r, "concurrent", scs, 2)
	}
	if r.P.Counters["cc_executions"] < 500 {
		core.Fatal("vacuous concurrent part: only %d executions", r.P.Counters["cc_executions"])
	}
}
