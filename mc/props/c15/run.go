package main

// The system under test (a fresh fiber app + session middleware + store per history), the
// injected storage, the three clients and the execution of one operation.

import (
	"bytes"
	"encoding/gob"
	"fmt"
	"net/http"
	"sort"
	"strconv"
	"strings"
	"time"

	"github.com/gofiber/fiber/v3"
	"github.com/gofiber/fiber/v3/middleware/session"
	"github.com/gofiber/fiber/v3/verifrt/vtime"
	"github.com/gofiber/utils/v2"
	"github.com/valyala/fasthttp"

	"verifmc/fx"
)

const T0 = 1_900_000_000

const (
	cookieName = "sid"
	headerName = "X-Sid"
	queryName  = "sid"
)

// fmtID is the KeyGenerator's n-th id. Two id formats: a short counter (s1, s2, ...) with the
// injected storage, and with the built-in storage the shape of the package's DEFAULT generator
// (utils.UUIDv4: 36 characters, version 4, RFC 4122 variant) with the counter in the last group
// - deterministic, but indistinguishable in form from what a production server issues, so that
// anything in the session code that treats well-formed ids differently is on the explored path.
// fmtID(0) is what M presents as "an id in the server's format the server never issued": the
// generator starts at 1 and a forger knows what ids look like (same format, same length).
func (w *world) fmtID(n int) string {
	if w.cfg.Storage == "memory" {
		return fmt.Sprintf("00000000-0000-4000-8000-%012d", n)
	}
	return "s" + strconv.Itoa(n)
}

// ---------------------------------------------------------------------------
// injected storage: TTLs on the harness clock. It is an ordinary map-based third-party
// storage: it keeps the key string it is handed (Go strings are immutable, a storage has no
// reason to copy them) - handing it keys that stay valid is the session package's business.

type ttlEntry struct {
	val []byte
	exp int // absolute harness second at which the entry is gone; 0 = never
}

type ttlStorage struct {
	w    *world
	data map[string]ttlEntry
}

func (s *ttlStorage) Get(key string) ([]byte, error) {
	e, ok := s.data[key]
	if !ok || (e.exp != 0 && e.exp <= s.w.now) {
		return nil, nil
	}
	return append([]byte(nil), e.val...), nil
}

func (s *ttlStorage) Set(key string, val []byte, ttl time.Duration) error {
	exp := 0
	if ttl > 0 {
		exp = s.w.now + int(ttl/time.Second)
	}
	// deliberately no copy of key; assigning to an existing string key makes the map keep
	// the string it was given last (delete+insert says so independently of the runtime)
	delete(s.data, key)
	s.data[key] = ttlEntry{append([]byte(nil), val...), exp}
	return nil
}
func (s *ttlStorage) Delete(key string) error { delete(s.data, key); return nil }
func (s *ttlStorage) Reset() error            { s.data = map[string]ttlEntry{}; return nil }
func (s *ttlStorage) Close() error            { return nil }

// ---------------------------------------------------------------------------
// what a handler saw

type view struct {
	ID    string            `json:"id"`
	Fresh bool              `json:"fresh"`
	Data  map[string]string `json:"data"`
}

type obsT struct {
	Ran  bool    `json:"ran"`
	Pre  *view   `json:"pre,omitempty"`             // session as handed to the handler
	Post *view   `json:"post,omitempty"`            // after the handler's action
	Mid  []*view `json:"after_each_call,omitempty"` // compound request: the session as read after each of its API calls
	// SessObj says where the *Session object handed to this request comes from: "new" (never
	// seen in this history), "reused:same-client", "reused:other-client" (the pool handed out
	// an object another client's request used earlier in the history)
	SessObj     string   `json:"session_object,omitempty"`
	drewPrev    bool     // the object is the one the previous session-carrying request used
	drewOwnIdle bool     // the object was last used by ANOTHER client's request that called SetIdleTimeout on it
	Err         string   `json:"err,omitempty"` // error of store.Get / GetByID / an action
	Panic       string   `json:"panic,omitempty"`
	Gen         []string `json:"generated,omitempty"` // ids the KeyGenerator produced during this request
	Emit        emission `json:"emitted"`
	Present     string   `json:"presented"`
}

// emission is what the response tells the client about the session id.
type emission struct {
	Present bool   `json:"present"`
	Value   string `json:"value,omitempty"`
	Expired bool   `json:"expired,omitempty"` // cookie only: Max-Age<=0 or Expires in the past
	Exp     int    `json:"exp,omitempty"`     // cookie only: harness second of expiry; 0 = session cookie
	Raw     string `json:"raw,omitempty"`
}

type client struct {
	held string // id the client would present now ("" = none)
	exp  int    // cookie expiry (harness seconds), 0 = none
	last string // last id the server ever gave this client
}

type world struct {
	cfg     Cfg
	now     int
	handler fasthttp.RequestHandler
	store   *session.Store
	inj     *ttlStorage
	counter int
	gen     []string
	cl      [2]client
	m       *model
	obs     *obsT

	op       Op                          // the operation being executed
	who      string                      // the client of the request being executed: A | B | M | adm
	sessUser map[*session.Session]string // every *Session object a handler of this history was handed -> its last user
	prevSess *session.Session            // the object the previous session-carrying request was handed
	ownIdle  map[*session.Session]bool   // objects whose last user called SetIdleTimeout

	fctx        *fasthttp.RequestCtx // Ctx=shared: the one RequestCtx of this history
	lastID      string               // Ctx=shared: the id the previous id-carrying request on fctx presented
	overwritten bool                 // the last request overwrote another id of the same length in the shared request buffers
}

func (w *world) setClock() {
	t := time.Unix(int64(T0+w.now), 0)
	vtime.SetClock(t)
	utils.VerifSetTimestamp(uint32(T0 + w.now))
}

func sessView(s *session.Session) *view {
	v := &view{ID: utils.CopyString(s.ID()), Fresh: s.Fresh(), Data: map[string]string{}}
	for _, k := range s.Keys() {
		if ks, ok := k.(string); ok { // the absolute deadline lives under a non-string key
			v.Data[utils.CopyString(ks)] = fmt.Sprint(s.Get(ks))
		}
	}
	for _, k := range []string{"k1", "k2"} {
		if x := s.Get(k); x != nil {
			v.Data[k] = fmt.Sprint(x)
		}
	}
	return v
}

// noteSession records which *Session object the current request was handed. Only identity is
// used (pointers never reach signatures or the state key).
func (w *world) noteSession(s *session.Session) {
	o := w.obs
	prev, seen := w.sessUser[s]
	switch {
	case !seen:
		o.SessObj = "new"
	case prev == w.who:
		o.SessObj = "reused:same-client"
	default:
		o.SessObj = "reused:other-client"
	}
	o.drewPrev = seen && w.prevSess == s
	o.drewOwnIdle = w.ownIdle[s] && prev != w.who
	w.ownIdle[s] = w.op.Act == "idle"
	w.sessUser[s] = w.who
	w.prevSess = s
}

func errStr(err error) string {
	if err == nil {
		return ""
	}
	return err.Error()
}

func newWorld(cfg Cfg) *world {
	w := &world{cfg: cfg, sessUser: map[*session.Session]string{}, ownIdle: map[*session.Session]bool{}}
	w.m = newModel(cfg)
	w.setClock()
	session.VerifResetPools()
	sc := session.Config{
		IdleTimeout: IdleS * time.Second,
		KeyGenerator: func() string {
			w.counter++
			id := w.fmtID(w.counter)
			w.gen = append(w.gen, id)
			w.m.issued[id] = true
			return id
		},
	}
	switch cfg.Source {
	case "cookie":
		sc.KeyLookup = "cookie:" + cookieName
	case "header":
		sc.KeyLookup = "header:" + headerName
	case "query":
		sc.KeyLookup = "query:" + queryName
	}
	if cfg.Abs {
		sc.AbsoluteTimeout = AbsS * time.Second
	}
	if cfg.Storage == "injected" {
		w.inj = &ttlStorage{w: w, data: map[string]ttlEntry{}}
		sc.Storage = w.inj
	}
	// Config.Next: with the injected storage the session middleware also sits in front of the
	// store-API route and is told to skip it (an application that installs the middleware for a
	// whole group and handles sessions by hand on some routes); with the built-in storage that
	// route has no session middleware at all. Either way the store-API handler must find no
	// middleware-managed session.
	skipStoreRoute := cfg.Storage == "injected"
	if skipStoreRoute {
		sc.Next = func(c fiber.Ctx) bool { return c.Path() == "/st" }
	}
	mw, store := session.NewWithStore(sc)
	w.store = store
	app := fiber.New()

	// middleware API
	app.Get("/mw", mw, func(c fiber.Ctx) error {
		o := w.obs
		o.Ran = true
		m := session.FromContext(c)
		if m == nil {
			o.Err = "session.FromContext returned nil"
			return nil
		}
		w.noteSession(m.Session)
		o.Pre = sessView(m.Session)
		act, k, v := c.Get("X-Act"), utils.CopyString(c.Get("X-K")), utils.CopyString(c.Get("X-V"))
		var err error
		switch act {
		case "seq": // several API calls in this one request, the session read after each
			for _, a := range w.op.Seq {
				switch a.Name {
				case "get":
					_ = m.Get(a.K)
				case "set":
					m.Set(a.K, a.V)
				case "del":
					m.Delete(a.K)
				case "destroy":
					err = m.Destroy()
				case "regen":
					err = m.Session.Regenerate()
				case "reset":
					err = m.Reset()
				case "save":
					err = m.Session.Save() // documented: no effect on a middleware-managed session
				default:
					panic("harness: unknown call " + a.Name)
				}
				if err != nil {
					break
				}
				o.Mid = append(o.Mid, sessView(m.Session))
			}
		case "get":
			_ = m.Get("k1")
		case "set":
			m.Set(k, v)
		case "del":
			m.Delete(k)
		case "destroy":
			err = m.Destroy()
		case "regen":
			err = m.Session.Regenerate()
		case "reset":
			err = m.Reset()
		case "login":
			err = m.Session.Regenerate()
			m.Set(k, v)
		case "idle": // this session's own idle timeout, used by the save at the end of the request
			m.Session.SetIdleTimeout(time.Duration(w.op.Idle) * time.Second)
		default:
			panic("harness: unknown act " + act)
		}
		o.Err = errStr(err)
		o.Post = sessView(m.Session)
		return nil
	})

	// store API
	stHandler := func(c fiber.Ctx) error {
		o := w.obs
		o.Ran = true
		sess, err := store.Get(c)
		if err != nil {
			o.Err = "store.Get: " + err.Error()
			return nil
		}
		defer func() { sess.Release() }() // whichever object the handler holds at the end
		w.noteSession(sess)
		o.Pre = sessView(sess)
		act, k, v := c.Get("X-Act"), utils.CopyString(c.Get("X-K")), utils.CopyString(c.Get("X-V"))
		save := true
		switch act {
		case "seq": // several API calls in this one request; nothing is saved unless the sequence says so
			save = false
			for _, a := range w.op.Seq {
				switch a.Name {
				case "get":
					_ = sess.Get(a.K)
				case "set":
					sess.Set(a.K, a.V)
				case "del":
					sess.Delete(a.K)
				case "destroy":
					err = sess.Destroy()
				case "regen":
					err = sess.Regenerate()
				case "reset":
					err = sess.Reset()
				case "save":
					err = sess.Save()
				case "reget": // give the session back and ask the store again, still in this request
					sess.Release()
					var again *session.Session
					if again, err = store.Get(c); err == nil {
						sess = again
						w.noteSession(sess)
					} else {
						sess = nil // Release of a nil session is a no-op
						err = fmt.Errorf("second store.Get: %w", err)
					}
				default:
					panic("harness: unknown call " + a.Name)
				}
				if err != nil {
					break
				}
				o.Mid = append(o.Mid, sessView(sess))
			}
			if sess == nil {
				o.Err = errStr(err)
				return nil
			}
		case "get":
			save = false
		case "touch":
		case "set":
			sess.Set(k, v)
		case "setns":
			sess.Set(k, v)
			save = false
		case "del":
			sess.Delete(k)
		case "destroy":
			err = sess.Destroy()
			save = false
		case "regen":
			err = sess.Regenerate()
		case "reset":
			err = sess.Reset()
		case "login":
			err = sess.Regenerate()
			sess.Set(k, v)
		case "idle": // this session's own idle timeout, used by the Save below
			sess.SetIdleTimeout(time.Duration(w.op.Idle) * time.Second)
			sess.Set(k, v)
		case "saveregen":
			sess.Set(k, v)
			if err = sess.Save(); err == nil {
				err = sess.Regenerate()
			}
		case "regendestroy":
			if err = sess.Regenerate(); err == nil {
				if err = sess.Save(); err == nil {
					err = sess.Destroy()
				}
			}
			save = false
		default:
			panic("harness: unknown act " + act)
		}
		if err == nil && save {
			err = sess.Save()
		}
		o.Err = errStr(err)
		o.Post = sessView(sess)
		return nil
	}
	if skipStoreRoute {
		app.Get("/st", mw, stHandler)
	} else {
		app.Get("/st", stHandler)
	}

	// administrator: store.GetByID / store.Delete on some user's id, no session of its own
	app.Get("/adm", func(c fiber.Ctx) error {
		o := w.obs
		o.Ran = true
		act, target := c.Get("X-Act"), utils.CopyString(c.Get("X-Target"))
		k, v := utils.CopyString(c.Get("X-K")), utils.CopyString(c.Get("X-V"))
		switch act {
		case "delete":
			o.Err = errStr(store.Delete(target))
		case "resetall":
			o.Err = errStr(store.Reset())
		case "getbyid", "getbyidset", "getbyiddel", "getbyiddestroy", "getbyidregen", "getbyidreset":
			sess, err := store.GetByID(target)
			if err != nil {
				o.Err = err.Error()
				return nil
			}
			w.noteSession(sess)
			o.Pre = sessView(sess)
			// the session has no request context behind it: what is to persist needs Save
			switch act {
			case "getbyidset":
				sess.Set(k, v)
				err = sess.Save()
			case "getbyiddel":
				sess.Delete(k)
				err = sess.Save()
			case "getbyiddestroy":
				err = sess.Destroy()
			case "getbyidregen":
				if err = sess.Regenerate(); err == nil {
					err = sess.Save()
				}
			case "getbyidreset":
				if err = sess.Reset(); err == nil {
					err = sess.Save()
				}
			}
			if act != "getbyid" {
				o.Err = errStr(err)
				o.Post = sessView(sess)
			}
			sess.Release()
		default:
			panic("harness: unknown act " + act)
		}
		return nil
	})
	w.handler = app.Handler()
	return w
}

// ---------------------------------------------------------------------------
// clients

// presentedBy returns the id a user client presents now (cookies past their expiry are dropped).
func (w *world) presentedBy(ci int) string {
	c := &w.cl[ci]
	if c.held != "" && c.exp != 0 && c.exp <= w.now {
		c.held, c.exp = "", 0
	}
	return c.held
}

// request builds a request that presents id (if any). Whatever the source, the id sits at
// the same position of its container in every request (first query argument, first header,
// first cookie), as it does for clients of one application: on a shared RequestCtx the next
// request's id then lands in the buffer that held the previous one.
func (w *world) request(path, id string, hdr ...string) *fasthttp.Request {
	uri := "http://x.test" + path
	if w.cfg.Source == "query" && id != "" {
		uri += "?" + queryName + "=" + id
	}
	if id != "" && w.cfg.Source == "header" {
		hdr = append([]string{headerName, id}, hdr...)
	}
	req := fx.Req("GET", uri, hdr...)
	if id != "" && w.cfg.Source == "cookie" {
		req.Header.Set("Cookie", cookieName+"="+id)
	}
	return req
}

// requestCtx returns the RequestCtx the next request is served on.
func (w *world) requestCtx() *fasthttp.RequestCtx {
	if w.cfg.Ctx != "shared" {
		return &fasthttp.RequestCtx{} // fresh
	}
	if w.fctx == nil {
		w.fctx = &fasthttp.RequestCtx{}
		return w.fctx
	}
	// what fasthttp's serveConn does before the next request of a connection and
	// releaseCtx/acquireCtx do between connections: userValues.Reset, Request.Reset,
	// Response.Reset (fx.CallInto does the latter two; Init2 leaves the user values alone)
	w.fctx.ResetUserValues()
	w.fctx.Request.Reset()
	w.fctx.Response.Reset()
	return w.fctx
}

// parseSetCookie is the client's own reading of one Set-Cookie value (RFC 6265 section 5.2,
// the attributes that matter here): Max-Age wins over Expires, Max-Age <= 0 or an Expires
// that is not in the future deletes.
func parseSetCookie(raw string, now int) (name string, e emission) {
	parts := strings.Split(raw, ";")
	nv := strings.TrimSpace(parts[0])
	eq := strings.IndexByte(nv, '=')
	if eq < 0 {
		return "", emission{}
	}
	name = nv[:eq]
	e = emission{Present: true, Value: nv[eq+1:], Raw: raw}
	hasMaxAge := false
	expires := -1 << 40
	hasExpires := false
	for _, p := range parts[1:] {
		p = strings.TrimSpace(p)
		an, av := p, ""
		if i := strings.IndexByte(p, '='); i >= 0 {
			an, av = p[:i], p[i+1:]
		}
		switch strings.ToLower(an) {
		case "max-age":
			if n, err := strconv.Atoi(av); err == nil {
				hasMaxAge = true
				if n <= 0 {
					e.Expired = true
				} else {
					e.Exp = now + n
				}
			}
		case "expires":
			if t, err := http.ParseTime(av); err == nil {
				hasExpires = true
				expires = int(t.Unix() - T0)
			}
		}
	}
	if !hasMaxAge && hasExpires {
		if expires <= now {
			e.Expired = true
		} else {
			e.Exp = expires
		}
	}
	return name, e
}

func (w *world) readEmission(resp *fasthttp.Response) emission {
	if w.cfg.Source == "header" {
		v := resp.Header.Peek(headerName)
		if v == nil {
			return emission{}
		}
		return emission{Present: true, Value: string(v), Raw: string(v)}
	}
	var out emission
	n := 0
	resp.Header.VisitAllCookie(func(_, value []byte) {
		name, e := parseSetCookie(string(value), w.now)
		if name == cookieName {
			out = e
			n++
		}
	})
	if n > 1 {
		out.Raw = fmt.Sprintf("%d Set-Cookie headers for %s; last: %s", n, cookieName, out.Raw)
	}
	return out
}

// absorb updates a user client from the response.
func (w *world) absorb(ci int, e emission) {
	c := &w.cl[ci]
	if !e.Present {
		return // nothing said about the id: the client keeps what it has
	}
	if e.Expired || e.Value == "" {
		c.held, c.exp = "", 0
		return
	}
	c.held, c.exp, c.last = e.Value, e.Exp, e.Value
}

// ---------------------------------------------------------------------------
// one operation

// exec runs one operation; na = not applicable in the current state (e.g. M has nothing to steal yet).
func (w *world) exec(op Op) (o *obsT, na bool) {
	if op.Kind == kTick {
		w.now += op.Tick
		w.setClock()
		return nil, false
	}
	o = &obsT{}
	w.obs = o
	w.op = op
	w.gen = w.gen[:0]
	switch op.Kind {
	case kClient:
		w.who = clientNames[op.Client]
	case kMal:
		w.who = "M"
	default:
		w.who = "adm"
	}
	var req *fasthttp.Request
	switch op.Kind {
	case kClient:
		o.Present = w.presentedBy(op.Client)
		req = w.request("/"+op.API, o.Present, "X-Act", op.Act, "X-K", op.K, "X-V", op.V)
	case kMal:
		switch op.Forge {
		case "evil":
			o.Present = "evil"
		case "unissued":
			o.Present = w.fmtID(0) // the server's format and the length of real ids, never issued
		case "destroyed":
			o.Present = w.m.lastKilled
		case "stolen":
			o.Present = w.cl[op.Client].last
		}
		if o.Present == "" {
			return nil, true
		}
		req = w.request("/"+op.API, o.Present, "X-Act", op.Act)
	case kAdmin:
		if op.Client >= 0 {
			o.Present = w.cl[op.Client].last
			if o.Present == "" {
				return nil, true
			}
		}
		req = w.request("/adm", "", "X-Act", op.Act, "X-Target", o.Present, "X-K", op.K, "X-V", op.V)
	}
	fctx := w.requestCtx()
	w.overwritten = false
	if w.cfg.Ctx == "shared" && op.Kind != kAdmin && o.Present != "" {
		w.overwritten = w.lastID != "" && w.lastID != o.Present && len(w.lastID) == len(o.Present)
		w.lastID = o.Present
	}
	func() {
		defer func() {
			if r := recover(); r != nil {
				o.Panic = fmt.Sprint(r)
			}
		}()
		fx.CallInto(fctx, w.handler, req, nil, false)
	}()
	o.Gen = append([]string(nil), w.gen...)
	if o.Panic == "" {
		o.Emit = w.readEmission(&fctx.Response)
		if fctx.Response.StatusCode() != 200 && o.Err == "" {
			o.Err = "status " + strconv.Itoa(fctx.Response.StatusCode())
		}
	}
	if op.Kind == kClient && o.Panic == "" {
		w.absorb(op.Client, o.Emit)
	}
	return o, false
}

// ---------------------------------------------------------------------------
// storage contents (both storages), decoded

type stored struct {
	Data   map[string]string
	HasAbs bool
	Abs    int // harness seconds
	Exp    int // injected only: harness second of expiry, 0 = unknown/never
	Bad    string
}

var decodeCache = map[string]*stored{}

func decodeStored(raw []byte) *stored {
	if s, ok := decodeCache[string(raw)]; ok {
		return s
	}
	s := &stored{Data: map[string]string{}}
	var m map[any]any
	if err := gob.NewDecoder(bytes.NewReader(raw)).Decode(&m); err != nil {
		s.Bad = err.Error()
	}
	for k, v := range m {
		if ks, ok := k.(string); ok {
			s.Data[ks] = fmt.Sprint(v)
		} else if t, ok := v.(time.Time); ok {
			s.HasAbs = true
			s.Abs = int(t.Unix() - T0)
		}
	}
	if len(decodeCache) > 200000 {
		decodeCache = map[string]*stored{}
	}
	decodeCache[string(raw)] = s
	return s
}

type keyLister interface {
	Keys() ([][]byte, error)
}

// contents returns the unexpired entries of the storage, decoded, by id.
func (w *world) contents() (map[string]*stored, []string) {
	out := map[string]*stored{}
	var ids []string
	if w.inj != nil {
		for id, e := range w.inj.data {
			if e.exp != 0 && e.exp <= w.now {
				continue
			}
			s := *decodeStored(e.val)
			s.Exp = e.exp
			out[id] = &s
			ids = append(ids, id)
		}
	} else if kl, ok := w.store.Storage.(keyLister); ok {
		keys, _ := kl.Keys()
		for _, k := range keys {
			id := string(k)
			raw, _ := w.store.Storage.Get(id)
			if raw == nil {
				continue
			}
			out[id] = decodeStored(raw)
			ids = append(ids, id)
		}
	}
	sort.Strings(ids)
	return out, ids
}
