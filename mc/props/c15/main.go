// C15 — sessions: persistent, isolated, expiring, and never adopting a client-chosen id.
//
// Explicit-state search over operation HISTORIES of the real session middleware and store:
// clients A, B (users replaying what the server last sent them) and M (forged, unissued,
// destroyed and stolen ids) send requests whose handlers use the middleware API, the store
// API or store.GetByID/Delete; clock ticks move both clocks (time.Now in the session
// package through the vtime shim, utils.Timestamp of the built-in storage through the
// overlay clock). Every history is replayed from scratch on a fresh app + fresh storage +
// empty session pools in a GOMAXPROCS=1 worker process (pool reuse is deterministic) and
// judged step by step against the reference model in model.go.
//
// Configurations: id source x storage x AbsoluteTimeout x RequestCtx {fresh per request, one
// RequestCtx shared by all requests of the history and reset between them like the fasthttp
// server does on a keep-alive connection / through its ctx pool}. On the shared ctx every
// client's id lands in the request buffer that held the previous client's id, so whatever the
// session code keeps beyond a request without copying (storage keys, ...) gets rewritten.
//
// Compound requests: besides the one-API-call-per-request letters, user A has requests whose
// handler performs SEVERAL API calls - every ordered pair (thorough: also every ordered triple)
// of {Get, Set, Delete, Destroy, Regenerate, Reset, Save} through the middleware API and through
// the store API, with ID/Fresh/Keys/Get read back after each call - in particular writes after
// Destroy / Reset / Regenerate. The compound families enumerate every history of at most 3
// requests in which exactly one request is compound and the others (before and after, by A, B,
// M and the administrator) are one-call requests; the worker is single-threaded, so the
// *Session object one request gives back to the pool is the one the next request draws
// (counted: av_session_object_of_other_client_drawn).
//
// Dedicated small families (audit round 5, AUDIT.md): requests that give their session its own idle
// timeout (Session.SetIdleTimeout; a field of the pooled object), an administrator operating on a
// user's session obtained by store.GetByID (Destroy / Regenerate / Reset / Delete+Save on a session
// without request context), and - as one more call of the store-API compound requests - a second
// store.Get in the same request (`reget`). Ids have the default generator's UUID shape with the
// built-in storage and the short counter form with the injected one. The quick tier enumerates the
// exhaustive families on the configuration diagonal {fresh ctx + AbsoluteTimeout, shared ctx without}
// (see ctxDiagonal in ops.go for why); the de-duplicating search and the thorough tier keep all 24.
//
//	part 1 (both tiers)  exhaustive: every history over a family's alphabet up to its depth
//	part 2               breadth-first search with state de-duplication over the full alphabet
package main

import (
	"flag"
	"fmt"
	"os"
	"runtime"
	"runtime/debug"
	"runtime/pprof"
	"sort"
	"strings"

	"github.com/gofiber/fiber/v3/middleware/session"
	"github.com/gofiber/fiber/v3/verifrt"

	"verifmc/core"
)

var (
	flagMode  = flag.String("mode", "", "internal: dfs | bfs")
	flagLevel = flag.Int("level", 0, "internal: bfs level")
	flagIn    = flag.String("in", "", "internal: bfs frontier file")
)

const nWorkers = 16

// only: development knob C15_ONLY=<family>,...,bfs,cc runs only the named parts (evidence is then not meaningful).
func only(part string) bool {
	o := os.Getenv("C15_ONLY")
	if o == "" {
		return true
	}
	for _, x := range strings.Split(o, ",") {
		if x == part {
			return true
		}
	}
	return false
}

func families(quick bool) []Family {
	var out []Family
	for _, f := range allFamilies(quick) {
		if only(f.Name) {
			out = append(out, f)
		}
	}
	return out
}

func allFamilies(quick bool) []Family {
	if quick {
		return []Family{
			{Name: "full-d3", Ops: fullAlphabet(), Depth: 3, Symmetric: true, Ctx: ctxDiagonal},
			{Name: "core-d4", Ops: coreOps(), Depth: 4, Ctx: ctxSharedNoAbs},
			{Name: "timing-d5", Ops: timingOps(), Depth: 5, AbsOnly: true, Ctx: ctxFresh, Sources: []string{"cookie", "header"}},
			{Name: "compound2-d3", Ops: contextOps(), Compound: compoundOps(2), Depth: 3, Ctx: ctxDiagonal},
			{Name: "rotation-timing-d5", Ops: rotationOps(false), Depth: 5, Ctx: ctxFresh, Sources: []string{"cookie", "header"}, NoLeadingTick: true},
			{Name: "idle-override-d4", Ops: idleOps(), Depth: 4, Ctx: ctxFresh, Sources: []string{"cookie", "header"}, NoLeadingTick: true},
			{Name: "byid-ops-d4", Ops: byIDOps(), Depth: 4, Ctx: ctxDiagonal, NoLeadingTick: true},
		}
	}
	return []Family{
		{Name: "full-d3", Ops: fullAlphabet(), Depth: 3, Symmetric: true},
		{Name: "core-d4", Ops: coreOps(), Depth: 4},
		{Name: "small-d5", Ops: smallOps(), Depth: 5, Ctx: ctxSharedAbsOff},
		{Name: "timing-d6", Ops: timingOps(), Depth: 6, AbsOnly: true, Ctx: ctxFresh},
		{Name: "compound2-d3", Ops: contextOps(), Compound: compoundOps(2), Depth: 3},
		{Name: "compound3-d3", Ops: contextOps(), Compound: compoundOps(3), Depth: 3, Ctx: ctxSharedAbsOff},
		{Name: "rotation-timing-d5", Ops: rotationOps(true), Depth: 5, Ctx: ctxFresh, NoLeadingTick: true},
		{Name: "idle-override-d5", Ops: idleOps(), Depth: 5, Ctx: ctxFresh, NoLeadingTick: true},
		{Name: "byid-ops-d4", Ops: byIDOps(), Depth: 4, NoLeadingTick: true},
	}
}

func bfsDepth(quick bool) int {
	if quick {
		return 4
	}
	return 6
}

// ---------------------------------------------------------------------------
// one history

type stepRec struct {
	Op  string `json:"op"`
	T   int    `json:"t"`
	Obs *obsT  `json:"obs,omitempty"`
}

type result struct {
	NA    bool
	Viol  *viol
	At    int
	Trace []stepRec
	W     *world
}

// runHistory replays hist on a fresh world and judges every step.
func runHistory(cfg Cfg, hist []int, l *core.Local) result {
	w := newWorld(cfg)
	res := result{W: w, At: -1}
	for i, x := range hist {
		op := alphabet[x]
		o, na := w.exec(op)
		if na {
			res.NA = true
			return res
		}
		res.Trace = append(res.Trace, stepRec{Op: op.Name, T: w.now, Obs: o})
		if op.Kind == kTick {
			continue
		}
		var info stepInfo
		v := w.judge(op, o, &info)
		if i == len(hist)-1 {
			// prefixes were counted when they were the whole history
			l.Add("transitions", 1)
			if cfg.Ctx == "shared" && i > 0 {
				l.Add("av_request_on_reused_ctx", 1)
			}
			if w.overwritten {
				l.Add("av_reused_ctx_other_id_same_length", 1)
			}
			l.Add("unspecified_skipped", int64(info.Unspec))
			if info.Outcome != "" {
				l.Outcome(info.Outcome)
			}
			count(l, op, o, info)
		}
		if v != nil {
			res.Viol, res.At = v, i
			return res
		}
	}
	return res
}

// count feeds the anti-vacuity counters.
func count(l *core.Local, op Op, o *obsT, info stepInfo) {
	if o != nil {
		switch o.SessObj {
		case "reused:other-client":
			l.Add("av_session_object_of_other_client_drawn", 1)
			if o.Pre != nil && len(o.Pre.Data) > 0 {
				l.Add("av_session_object_of_other_client_drawn_by_resumed_session_with_data", 1)
			}
		case "reused:same-client":
			l.Add("av_session_object_of_same_client_drawn", 1)
		case "new":
			l.Add("av_session_object_new", 1)
		}
		if o.drewPrev {
			l.Add("av_session_object_of_previous_request_drawn", 1)
		}
		if o.drewOwnIdle {
			l.Add("av_session_object_with_own_idle_timeout_drawn_by_other_client", 1)
		}
	}
	if op.Act == "idle" {
		l.Add("av_own_idle_timeout_requests", 1)
	}
	if op.Kind == kAdmin && strings.HasPrefix(op.Act, "getbyid") && op.Act != "getbyid" && strings.HasPrefix(info.Outcome, "getbyid live->session") {
		l.Add("av_byid_"+strings.TrimPrefix(op.Act, "getbyid")+"_on_live_session", 1)
	}
	if strings.Contains(info.Outcome, " second-get") {
		l.Add("av_second_store_get_in_one_request", 1)
		if strings.HasPrefix(info.Outcome, "live->resumed") {
			l.Add("av_second_store_get_by_resumed_session", 1)
		}
	}
	// an id that went through Regenerate presented after the session's ORIGINAL absolute deadline
	if strings.Contains(info.Outcome, "absolute-timeout(") && strings.Contains(info.Outcome, "+regenerate)") {
		if strings.HasPrefix(info.Outcome, "getbyid ") {
			l.Add("av_regenerated_id_past_abs_deadline_getbyid", 1)
		} else {
			l.Add("av_regenerated_id_past_abs_deadline_presented_"+op.API, 1)
		}
	}
	if op.Act == "seq" {
		l.Add("av_compound_requests", 1)
		l.Add("av_compound_"+op.API+"_"+seqClass(op.Seq), 1)
	}
	switch {
	case strings.HasPrefix(info.Outcome, "live->resumed"):
		l.Add("av_live_session_resumed", 1)
		if o.Pre != nil && len(o.Pre.Data) > 0 {
			l.Add("av_resumed_with_data", 1)
		}
	case strings.HasPrefix(info.Outcome, "dead:unissued"):
		l.Add("av_forged_id_presented", 1)
	case strings.HasPrefix(info.Outcome, "dead:idle-timeout"):
		l.Add("av_idle_expired_id_presented", 1)
	case strings.HasPrefix(info.Outcome, "dead:absolute-timeout"):
		l.Add("av_abs_expired_id_presented", 1)
	case strings.HasPrefix(info.Outcome, "dead:destroy"), strings.HasPrefix(info.Outcome, "dead:regenerate"),
		strings.HasPrefix(info.Outcome, "dead:reset"), strings.HasPrefix(info.Outcome, "dead:store."):
		l.Add("av_ended_id_presented", 1)
	}
}

func record(l *core.Local, part string, cfg Cfg, hist []int, res result) {
	l.Add("violating_histories_"+part, 1)
	v := res.Viol
	sig, onFresh := v.Sig, ""
	if cfg.Ctx == "shared" {
		// classification only: does the same history violate on fresh RequestCtxs too?
		f := cfg
		f.Ctx = "fresh"
		if r2 := runHistory(f, hist[:res.At+1], core.NewLocal()); r2.Viol == nil && !r2.NA {
			onFresh = "passes"
			sig += " reused-ctx-only" // something kept across requests depends on the request buffers
		} else {
			onFresh = "violates too"
		}
	}
	// histories with a compound request: name what that request did (class, not the exact calls)
	// (coarse class, not the exact calls) - unless the history violates without that request too
	withoutCompound := ""
	for i, x := range hist[:res.At+1] {
		if op := alphabet[x]; op.Act == "seq" {
			rest := append(append([]int(nil), hist[:i]...), hist[i+1:res.At+1]...)
			if r2 := runHistory(cfg, rest, core.NewLocal()); len(rest) > 0 && r2.Viol != nil {
				withoutCompound = "violates too"
				break
			}
			withoutCompound = "passes"
			cl := seqClass(op.Seq)
			if !strings.HasPrefix(cl, "write-after-") && cl != "second-get" {
				cl = "multi-call"
			}
			sig += " after-compound=" + op.API + ":" + cl
			break
		}
	}
	cs := map[string]any{
		"config":  cfg.String(),
		"history": strings.Join(opNames(hist[:res.At+1]), ","),
		"timeouts": map[string]int{"idle_s": IdleS, "absolute_s": func() int {
			if cfg.Abs {
				return AbsS
			}
			return 0
		}()},
		"trace":                              res.Trace,
		"same_history_on_fresh_request_ctxs": onFresh,
		"same_history_without_the_compound_request": withoutCompound,
		"found_by": part,
		"replay":   fmt.Sprintf("C15_DEBUG='%s;%s' ./check C15 quick", cfgSpec(cfg), strings.Join(opNames(hist[:res.At+1]), ",")),
	}
	l.Violate(sig, v.What, cs, v.Observed, v.Expected)
}

func cfgSpec(c Cfg) string {
	a := "off"
	if c.Abs {
		a = "on"
	}
	return c.Source + "," + c.Storage + "," + a + "," + c.Ctx
}

// ---------------------------------------------------------------------------
// part 1: exhaustive enumeration (depth-first over the history tree, every node replayed)

type workItem struct {
	fam   int
	cfg   Cfg
	first int
}

func workItems(fams []Family) []workItem {
	var out []workItem
	for fi, f := range fams {
		for _, c := range allCfgs() {
			if !f.applies(c) {
				continue
			}
			for _, op := range f.letters() {
				if f.NoLeadingTick && alphabet[op].Kind == kTick {
					continue
				}
				out = append(out, workItem{fi, c, op})
			}
		}
	}
	return out
}

// mentions reports which user an operation involves (-1: none).
func mentions(op Op) int {
	switch op.Kind {
	case kClient, kAdmin:
		return op.Client
	case kMal:
		if op.Forge == "stolen" {
			return op.Client
		}
	}
	return -1
}

var gcCountdown = 0

func housekeeping() {
	gcCountdown--
	if gcCountdown <= 0 {
		gcCountdown = 4000
		runtime.GC()
	}
}

func dfs(r *core.Run, f Family, cfg Cfg, hist []int, seenUser bool, l *core.Local) {
	if f.Compound != nil {
		dfsCompound(f, cfg, hist, l)
		return
	}
	last := alphabet[hist[len(hist)-1]]
	if f.Symmetric && !seenUser {
		// A and B are interchangeable: the first user a history involves is A
		if u := mentions(last); u == 1 {
			l.Add("pruned_by_user_symmetry", 1)
			return
		} else if u == 0 {
			seenUser = true
		}
	}
	if last.Kind != kTick { // a history ending in a tick has nothing new to judge
		housekeeping()
		res := runHistory(cfg, hist, l)
		l.Add("histories", 1)
		l.Add("histories_"+f.Name, 1)
		if res.NA {
			l.Add("not_applicable", 1)
			return
		}
		if res.Viol != nil {
			record(l, f.Name, cfg, hist, res)
			return
		}
		if len(hist) == f.Depth {
			l.Add("full_depth_histories", 1)
			if l.P.Counters["full_depth_histories"]%49999 == 4999 {
				l.Sample(f.Name + " " + cfg.String() + ": " + strings.Join(opNames(hist), ","))
			}
		}
	} else if len(hist) == f.Depth {
		return
	}
	if len(hist) >= f.Depth {
		return
	}
	l.Add("nodes_expanded", 1)
	for _, op := range f.Ops {
		dfs(r, f, cfg, append(hist, op), seenUser, l)
	}
}

// dfsCompound: every history of at most f.Depth requests with exactly one compound request.
func dfsCompound(f Family, cfg Cfg, hist []int, l *core.Local) {
	has := false
	for _, x := range hist {
		if alphabet[x].Act == "seq" {
			has = true
		}
	}
	if has {
		housekeeping()
		res := runHistory(cfg, hist, l)
		l.Add("histories", 1)
		l.Add("compound_histories", 1)
		l.Add("histories_"+f.Name, 1)
		if res.NA {
			l.Add("not_applicable", 1)
			return
		}
		if res.Viol != nil {
			record(l, f.Name, cfg, hist, res)
			return
		}
		if len(hist) == f.Depth {
			l.Add("full_depth_histories", 1)
			if l.P.Counters["full_depth_histories"]%49999 == 4999 {
				l.Sample(f.Name + " " + cfg.String() + ": " + strings.Join(opNames(hist), ","))
			}
		}
	}
	if len(hist) >= f.Depth {
		return
	}
	l.Add("nodes_expanded", 1)
	if !has {
		for _, op := range f.Compound {
			dfsCompound(f, cfg, append(hist, op), l)
		}
		if len(hist) == f.Depth-1 {
			return // a one-call request here would leave no room for the compound one
		}
	}
	for _, op := range f.Ops {
		dfsCompound(f, cfg, append(hist, op), l)
	}
}

func runDFS(r *core.Run) {
	fams := families(r.Quick())
	l := core.NewLocal()
	for i, it := range workItems(fams) {
		if !r.Shard(i) {
			continue
		}
		if r.Expired() {
			r.Cap("wall-clock budget reached in the exhaustive part")
			break
		}
		h := make([]int, 1, fams[it.fam].Depth)
		h[0] = it.first
		dfs(r, fams[it.fam], it.cfg, h, false, l)
	}
	r.Merge(l.P)
}

// ---------------------------------------------------------------------------

func workerSetup() {
	debug.SetGCPercent(-1) // pooled objects are not collected in the middle of a history
	session.VerifResetPools()
}

func main() {
	verifrt.NoDaemonsOutsideRun = true // the storage's janitor only runs inside executions (concurrent part)
	r := core.Start("C15")
	if dbg := os.Getenv("C15_DEBUG"); dbg != "" {
		debugHistory(dbg)
		return
	}
	if r.IsWorker() {
		workerSetup()
		if pf := os.Getenv("C15_PROFILE"); pf != "" && r.Worker == 0 { // development: CPU profile of worker 0
			if f, err := os.Create(pf); err == nil {
				_ = pprof.StartCPUProfile(f)
				defer pprof.StopCPUProfile()
			}
		}
		switch *flagMode {
		case "dfs":
			runDFS(r)
		case "bfs":
			runBFSWorker(r, *flagLevel, *flagIn)
		default:
			core.Fatal("worker without mode")
		}
		pprof.StopCPUProfile()
		r.FinishWorker()
	}
	env := []string{"GOMAXPROCS=1"}
	crashed := r.SpawnWorkers(nWorkers, env, "-mode", "dfs")
	var bfs bfsReport
	if only("bfs") {
		bfs = runBFS(r, bfsDepth(r.Quick()), env, &crashed)
	}
	for _, c := range crashed {
		r.Violate("worker-crashed", "a worker process died (fatal runtime error or kill)", c, nil, nil)
	}
	if r.Replay == "" && only("cc") {
		runConcurrentSessions(r) // two requests of different clients in flight (small; runs in this process)
	}
	c := r.P.Counters
	for _, k := range []string{"av_live_session_resumed", "av_resumed_with_data", "av_forged_id_presented", "av_idle_expired_id_presented", "av_abs_expired_id_presented", "av_ended_id_presented", "av_request_on_reused_ctx", "av_reused_ctx_other_id_same_length",
		"av_compound_requests", "av_compound_mw_write-after-destroy", "av_compound_st_write-after-destroy", "av_compound_mw_write-after-reset", "av_compound_mw_write-after-regenerate",
		"av_regenerated_id_past_abs_deadline_presented_mw", "av_regenerated_id_past_abs_deadline_presented_st", "av_regenerated_id_past_abs_deadline_getbyid",
		"av_session_object_of_previous_request_drawn", "av_session_object_of_other_client_drawn", "av_session_object_of_other_client_drawn_by_resumed_session_with_data",
		"av_own_idle_timeout_requests", "av_session_object_with_own_idle_timeout_drawn_by_other_client",
		"av_byid_destroy_on_live_session", "av_byid_regen_on_live_session", "av_byid_reset_on_live_session", "av_byid_del_on_live_session",
		"av_second_store_get_in_one_request", "av_second_store_get_by_resumed_session"} {
		if c[k] == 0 && len(r.P.Violations) == 0 && os.Getenv("C15_ONLY") == "" {
			core.Fatal("vacuous: counter %s is zero", k)
		}
	}
	fams := families(r.Quick())
	var famDesc []map[string]any
	for _, f := range fams {
		cf := fmt.Sprintf("%d of %d", f.nCfgs(), len(allCfgs()))
		if f.AbsOnly {
			cf += ", those with AbsoluteTimeout"
		}
		if f.Ctx != "" {
			cf += ", " + f.Ctx
		}
		if f.Sources != nil {
			cf += ", sources " + strings.Join(f.Sources, "+")
		}
		if f.NoLeadingTick {
			cf += "; histories do not start with a tick"
		}
		d := map[string]any{"name": f.Name, "depth": f.Depth, "alphabet_size": len(f.Ops), "alphabet": opNames(f.Ops), "configurations": cf, "user_symmetry_reduction": f.Symmetric}
		if f.Compound != nil {
			d["compound_requests"] = len(f.Compound)
			d["compound_request_calls"] = alphabet[f.Compound[0]].Group
			d["compound_request_letters"] = seqName(seqLetters) + "; store API also " + regetLetter.Name + " (Release, then store.Get again in the same request)"
			d["shape"] = "exactly one compound request per history (any position), the other requests from `alphabet`"
		}
		famDesc = append(famDesc, d)
	}
	cov := map[string]any{
		"states":                        c["histories"] - c["bfs_histories"] + bfs.States,
		"transitions":                   c["transitions"],
		"traces_validated_against_impl": c["histories"],
		"max_depth":                     maxInt(bfs.MaxDepth, maxDepth(fams)),
		"exhaustive_part": map[string]any{
			"history_tree_nodes_executed": c["histories"] - c["bfs_histories"],
			"full_depth_histories":        c["full_depth_histories"],
			"families":                    famDesc,
		},
		"dedup_search": bfs,
		"bounds": map[string]any{
			"configurations":     "source {cookie, header, query} x storage {built-in memory, injected map-based TTL storage on the harness clock that keeps the key strings it is given} x AbsoluteTimeout {off, 12 s} x RequestCtx {fresh per request, one shared by all requests of the history and reset between them as the fasthttp server does on keep-alive connections / through its ctx pool}; IdleTimeout 10 s",
			"clients":            "A, B: replay the id the server last sent (cookie jar honouring Max-Age/Expires/deletion; response header for header source); M: presents `evil`, id number 0 of the KeyGenerator's format (server's format and length, never issued), the id most recently ended by Destroy/Regenerate/Reset/store.Delete, the last id A or B ever received; the id is always the first query argument / header / cookie of its request",
			"clock_steps_s":      []int{tShort, tIdle, tAbs, tHalf},
			"exhaustive_depths":  famDesc,
			"dedup_search_depth": bfs.MaxDepth,
			"key_generator":      "counter; injected storage: s1, s2, ...; built-in storage: the default generator's UUIDv4 shape 00000000-0000-4000-8000-<12-digit counter>; M's never-issued id is number 0 of the same format",
			"compound_requests":  "user A, middleware API and store API: every ordered pair (thorough: and triple) of {" + seqName(seqLetters) + "} performed by ONE request's handler, ID/Fresh/Keys/Get read back after each call; store-API sequences persist only where they say save and have one more letter, reget = Release + store.Get(c) again in the same request (also appended to every store-API pair); histories of <= 3 requests with exactly one compound request",
			"own_idle_timeout":   "requests calling Session.SetIdleTimeout(5 s | 15 s) before their save (both APIs), family idle-override: every other session keeps IdleTimeout 10 s; the session itself: that save exactly, later saves either value",
			"getbyid_operations": "administrator requests: store.GetByID(A's id) followed by nothing / Set+Save / Delete(key)+Save / Destroy / Regenerate+Save / Reset+Save, store.Delete, store.Reset; their responses must not carry a session cookie / header",
			"middleware_next":    "injected-storage configurations: the session middleware is also installed on the store-API route with Config.Next skipping it; built-in storage: no middleware on that route",
			"session_pool":       "single-threaded worker, pools emptied before each history: the *Session a request releases is the one the next request draws; counters av_session_object_* measure how often a request was handed an object another client used before",
		},
		"rule": "states = history-tree nodes replayed in the exhaustive part + distinct canonical states of the de-duplicating search; a transition = one executed and judged request; every history is a complete real execution on a fresh app compared step by step with the reference model",
	}
	r.Finish(core.Evidence{Level: "model_checking", Exhaustive: true, Coverage: cov, MinOutcomes: 8,
		Assumptions: []string{
			"time: time.Now of session.go/store.go through the vtime shim and utils.Timestamp through the overlay clock, both set by the harness; whole-second steps",
			"histories are sequential (one request at a time); concurrency inside the session package is not explored here",
			"each history starts from empty session pools (VerifResetPools) in a GOMAXPROCS=1 process with the collector off during the history, so pool reuse inside a history is deterministic",
			"shared RequestCtx: requests are handed to app.Handler() on one fasthttp.RequestCtx that is reset (user values, Request, Response) between requests exactly as fasthttp's serveConn / ctx pool do; the bytes left in its buffers are not part of the canonical state key",
			"a session object after Destroy: what the same request reads back from it, and what a store-API Save after Destroy persists under the ids that object carried, is unspecified (statement and docs are silent) and follows the implementation; no other id may be affected",
			"de-duplicating search: two histories that reach the same canonical key (model state, decoded storage contents, client ids, pooled Session/Middleware digest; ids renamed, times relative, A<->B swapped) are assumed to have the same futures",
			"exactly on a deadline, and between the old absolute deadline and Reset time + AbsoluteTimeout after Reset, either behaviour is accepted and the model follows the implementation; Regenerate (same session, new id) never moves the absolute deadline",
		}})
}

func maxInt(a, b int) int {
	if a > b {
		return a
	}
	return b
}

func maxDepth(f []Family) int {
	m := 0
	for _, x := range f {
		m = maxInt(m, x.Depth)
	}
	return m
}

// ---------------------------------------------------------------------------
// C15_DEBUG='cookie,memory,on;A.mw.set.k1.v1,tick.7,A.mw.get' prints the trace of one history.
func debugHistory(spec string) {
	workerSetup()
	parts := strings.SplitN(spec, ";", 2)
	f := strings.Split(parts[0], ",")
	if len(parts) != 2 || (len(f) != 3 && len(f) != 4) {
		core.Fatal("C15_DEBUG=source,storage,on|off[,fresh|shared];op,op,...  ops: %s\ncompound (user A): A.mw.seq.<call>+<call>[+<call>] / A.st.seq.... with calls %s", strings.Join(opNames(fullAlphabet()), " "), strings.ReplaceAll(seqName(seqLettersFor("st")), "+", " "))
	}
	cfg := Cfg{f[0], f[1], f[2] == "on", "fresh"}
	if len(f) == 4 {
		cfg.Ctx = f[3]
	}
	hist, err := parseHistory(parts[1])
	if err != nil {
		core.Fatal("%v", err)
	}
	l := core.NewLocal()
	res := runHistory(cfg, hist, l)
	for _, s := range res.Trace {
		fmt.Printf("t=%-3d %-18s %s\n", s.T, s.Op, core.Key(s.Obs))
	}
	_, ids := res.W.contents()
	fmt.Println("storage ids:", ids, " key:", res.W.stateKey())
	var lids []string
	for id, s := range res.W.m.live {
		lids = append(lids, fmt.Sprintf("%s=%v idle=%d abs=%v[%d,%d]", id, s.Data, s.Idle, s.HasAbs, s.AbsLo, s.AbsHi))
	}
	sort.Strings(lids)
	fmt.Println("model:", lids, "dead:", res.W.m.dead)
	switch {
	case res.NA:
		fmt.Println("NOT APPLICABLE")
	case res.Viol != nil:
		fmt.Printf("VIOLATION at step %d: %s\n  %s\n  observed %s\n  expected %s\n", res.At, res.Viol.Sig, res.Viol.What, core.Key(res.Viol.Observed), core.Key(res.Viol.Expected))
		os.Exit(1)
	default:
		fmt.Println("ok")
	}
}
