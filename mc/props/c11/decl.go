// Declaration family (audit round 5): the statement quantifies over "a struct built from the supported field
// types" — S1 and S2 are two such structs, both WITHOUT struct tags, handed to the client BY VALUE, with exported
// fields only and with seven of the thirteen integer / float kinds. How a struct is DECLARED and HANDED OVER is a
// dimension of its own: the client's encoder and the server's pooled schema decoders look the field names up
// through per-source struct tags (client: param / form / cookie / header, json / xml / cbor; binder: query /
// form / cookie / header, one decoder pool per tag because a decoder caches the aliases of a type), dereference a
// pointer argument, skip unexported fields and switch on the reflect.Kind of every field.
//
//	T1  every field carries a different name in every carrier; two string fields carry CROSSED names (the
//	    query name of one is the form name of the other, ...), so that a name looked up under the wrong tag, or
//	    an alias table cached for another carrier, moves a value instead of merely dropping it
//	K1  the integer kinds S2 does not have (int, int16, int32, uint, uint8, uint16; slices of int8 .. uint32),
//	    a string among them and an unexported field in the middle
//	arg the client is handed a POINTER to the struct (extra variants, all shapes)
package main

import (
	"math"
	"reflect"
)

type T1 struct {
	Str  string   `param:"alpha" query:"alpha" form:"beta" header:"X-Gamma" cookie:"delta" json:"eps" xml:"zeta" cbor:"eta"`
	Alt  string   `param:"beta" query:"beta" form:"alpha" header:"X-Delta" cookie:"gamma" json:"zeta" xml:"eps" cbor:"theta"`
	Strs []string `param:"list" query:"list" form:"items" header:"X-List" cookie:"entries" json:"values" xml:"item" cbor:"seq"`
	N    int      `param:"n" query:"n" form:"num" header:"X-N" cookie:"count" json:"number" xml:"int" cbor:"i"`
	Ns   []int    `param:"num" query:"num" form:"n" header:"X-Count" cookie:"n" json:"numbers" xml:"ints" cbor:"is"`
	B    bool     `param:"flag" query:"flag" form:"on" header:"X-Flag" cookie:"b" json:"bool" xml:"yes" cbor:"b"`
	F    float64  `param:"ratio" query:"ratio" form:"f" header:"X-Ratio" cookie:"float" json:"real" xml:"float" cbor:"f"`
	Bare string   // no tag among tagged fields: falls back to the field name on both sides
}

type K1 struct {
	Int    int
	I16    int16
	I32    int32
	hidden int // never travels: the client skips unexported fields, the binder cannot set them
	Ui     uint
	U8     uint8
	U16    uint16
	Mix    string
	I8s    []int8
	I16s   []int16
	I32s   []int32
	I64s   []int64
	Uis    []uint
	U16s   []uint16
	U32s   []uint32
}

// t1Values: full product of small per-field alphabets (thorough), all value pairs of every two fields (quick).
func t1Values(quick bool) []any {
	strs := []string{"", "a", "ü b&=c", "%41"}
	alts := []string{"", "b", "x+y"}
	lists := [][]string{nil, {""}, {"b", "a"}, {"", "ü", "%41"}}
	ns := []int{0, -1, math.MaxInt}
	nss := [][]int{nil, {0}, {math.MinInt, 1}}
	bs := []bool{false, true}
	fs := []float64{0, -0.1, 1e21}
	bares := []string{"", "z"}
	sizes := []int{len(strs), len(alts), len(lists), len(ns), len(nss), len(bs), len(fs), len(bares)}
	mk := func(ix []int) any {
		return T1{Str: strs[ix[0]], Alt: alts[ix[1]], Strs: lists[ix[2]], N: ns[ix[3]], Ns: nss[ix[4]], B: bs[ix[5]], F: fs[ix[6]], Bare: bares[ix[7]]}
	}
	return productOrPairs(sizes, mk, quick)
}

func k1Values(quick bool) []any {
	ints := []int{0, math.MinInt, math.MaxInt}
	i16 := []int16{0, math.MinInt16, math.MaxInt16}
	i32 := []int32{0, math.MinInt32, math.MaxInt32}
	ui := []uint{0, 1, math.MaxUint}
	u8 := []uint8{0, 65, math.MaxUint8}
	u16 := []uint16{0, math.MaxUint16}
	mix := []string{"", "7", "a b"}
	type sl struct {
		I8s  []int8
		I16s []int16
		I32s []int32
		I64s []int64
		Uis  []uint
		U16s []uint16
		U32s []uint32
	}
	sls := []sl{
		{},
		{I8s: []int8{-128}, I16s: []int16{math.MaxInt16}, I32s: []int32{math.MinInt32}, I64s: []int64{math.MinInt64}, Uis: []uint{math.MaxUint}, U16s: []uint16{0}, U32s: []uint32{math.MaxUint32}},
		{I8s: []int8{127, -128, 0}, I16s: []int16{math.MinInt16, 1}, I32s: []int32{math.MaxInt32, -1}, I64s: []int64{math.MaxInt64, 0, 1}, Uis: []uint{0, math.MaxUint}, U16s: []uint16{math.MaxUint16, 2}, U32s: []uint32{1, math.MaxUint32}},
	}
	hid := []int{0, 7}
	sizes := []int{len(ints), len(i16), len(i32), len(ui), len(u8), len(u16), len(mix), len(sls), len(hid)}
	mk := func(ix []int) any {
		s := sls[ix[7]]
		return K1{Int: ints[ix[0]], I16: i16[ix[1]], I32: i32[ix[2]], Ui: ui[ix[3]], U8: u8[ix[4]], U16: u16[ix[5]], Mix: mix[ix[6]], hidden: hid[ix[8]],
			I8s: s.I8s, I16s: s.I16s, I32s: s.I32s, I64s: s.I64s, Uis: s.Uis, U16s: s.U16s, U32s: s.U32s}
	}
	return productOrPairs(sizes, mk, quick)
}

// productOrPairs enumerates the full product of the index ranges, or (pairs) every value pair of every two
// positions with the other positions at index 0.
func productOrPairs(sizes []int, mk func([]int) any, pairs bool) []any {
	var out []any
	ix := make([]int, len(sizes))
	if !pairs {
		var rec func(p int)
		rec = func(p int) {
			if p == len(sizes) {
				out = append(out, mk(ix))
				return
			}
			for i := 0; i < sizes[p]; i++ {
				ix[p] = i
				rec(p + 1)
			}
			ix[p] = 0
		}
		rec(0)
		return dedupe(out)
	}
	for a := 0; a < len(sizes); a++ {
		for b := a + 1; b < len(sizes); b++ {
			for x := 0; x < sizes[a]; x++ {
				for y := 0; y < sizes[b]; y++ {
					for i := range ix {
						ix[i] = 0
					}
					ix[a], ix[b] = x, y
					out = append(out, mk(ix))
				}
			}
		}
	}
	// and the point with every position at its last index (everything non-zero at once)
	for i := range ix {
		ix[i] = sizes[i] - 1
	}
	out = append(out, mk(ix))
	return dedupe(out)
}

// pointerTo returns a pointer to a copy of the struct value v (what a caller writing client.R().SetJSON(&v) hands over).
func pointerTo(v any) any {
	p := reflect.New(reflect.TypeOf(v))
	p.Elem().Set(reflect.ValueOf(v))
	return p.Interface()
}

// compact value sets of the declaration shapes for the families that multiply values with other dimensions
// (combined requests, server configurations, request envelopes): values that every carrier can transport.
func t1Compact() []any {
	return []any{
		T1{},
		T1{Str: "a", Alt: "b", Strs: []string{"c"}, N: 1, Ns: []int{2}, B: true, F: 1.5, Bare: "z"},
		T1{Str: "%41", Strs: []string{""}, N: math.MinInt, Ns: []int{0}, F: -0.1},
		T1{Alt: "a", Strs: []string{}, N: -1, B: true, Bare: "a"},
		T1{Str: "b", Alt: "a", Ns: []int{math.MaxInt}, F: 1e21},
		T1{Str: "a", Alt: "a", Strs: []string{"a"}, N: 7, Ns: []int{7}, B: false, F: 7, Bare: "a"},
	}
}

func k1Compact() []any {
	return []any{
		K1{},
		K1{Int: 1, I16: 2, I32: 3, hidden: 7, Ui: 4, U8: 5, U16: 6, Mix: "m", I8s: []int8{1}, I16s: []int16{2}, I32s: []int32{3}, I64s: []int64{4}, Uis: []uint{5}, U16s: []uint16{6}, U32s: []uint32{7}},
		K1{Int: math.MinInt, I16: math.MinInt16, I32: math.MinInt32, Ui: math.MaxUint, U8: math.MaxUint8, U16: math.MaxUint16, I8s: []int8{-128}, I64s: []int64{math.MinInt64}, Uis: []uint{math.MaxUint}},
		K1{Mix: "7", hidden: 7, I16s: []int16{0}, I32s: []int32{0}, U16s: []uint16{0}, U32s: []uint32{0}},
	}
}
