// Part D (audit round 5) — three families that multiply a COMPACT value set of every shape with a dimension the
// round-trip product of part A holds constant. The oracle is the round-trip oracle throughout: what the server
// binds from a source equals the struct the client was given for that source.
//
//	configuration  (cfg.go)  server configuration fields that are redundant for binding: 7 station flavors
//	combined       one request carries a DIFFERENT value of the shape in each of query, header, cookie and one
//	               body carrier (form, multipart, json, xml, cbor or none); the handler binds several sources of
//	               the one request, in every order of an adjacency-covering set of bind programs (thorough: all
//	               permutations), binds one source twice, and binds the body through Bind().Body() and directly
//	envelope       the request the struct travels in also carries what real requests carry: a URL with its own
//	               query / fragment, a client base URL, unrelated parameters / headers / cookies / form fields
//	               set on the Request (before or after the struct setter) or client-wide, User-Agent / Referer,
//	               a cookie jar, other HTTP methods
//
// A failure that a plain fresh request with the same value shows too is filed under the part-A signature.
package main

import (
	"fmt"
	"os"
	"strings"

	"github.com/gofiber/fiber/v3"
	"github.com/gofiber/fiber/v3/client"
	"github.com/valyala/fasthttp"

	"verifmc/core"
)

const noBodySrc source = -1

// ---------------------------------------------------------------------------
// request specification shared by the combined and envelope families

type envOpt int

const (
	envNone envOpt = iota
	envURLQuery
	envURLFragment
	envURLQueryFragment
	envBaseURL
	envReqParamBefore
	envReqParamAfter
	envReqHeaderBefore
	envReqHeaderAfter
	envReqCookieBefore
	envReqCookieAfter
	envReqFormFieldBefore // form / multipart carriers only
	envReqFormFieldAfter
	envReqUserAgentReferer
	envClientParam
	envClientHeader
	envClientCookie
	envClientUserAgentReferer
	envClientCookieJar
	envMethodPut
	envMethodPatch
	envMethodDelete
	envMethodPost // key-value carriers in a POST without body
	envEverything // every applicable request-level and client-level companion at once
	nEnvOpts
)

var envNames = [...]string{"none", "url-own-query", "url-fragment", "url-own-query+fragment", "client-base-url", "request-param-before", "request-param-after",
	"request-header-before", "request-header-after", "request-cookie-before", "request-cookie-after", "request-form-field-before", "request-form-field-after",
	"request-user-agent+referer", "client-param", "client-header", "client-cookie", "client-user-agent+referer", "client-cookie-jar",
	"method-PUT", "method-PATCH", "method-DELETE", "method-POST", "everything"}

func (e envOpt) String() string { return envNames[e] }

// applicable: does the option make sense for a request whose struct travels in src?
func (e envOpt) applicable(src source) bool {
	switch e {
	case envReqFormFieldBefore, envReqFormFieldAfter:
		return src == srcForm || src == srcMultipart
	case envMethodPut, envMethodPatch, envMethodDelete:
		return true
	case envMethodPost:
		return !src.isBody()
	}
	return true
}

func (e envOpt) clientLevel() bool {
	switch e {
	case envBaseURL, envClientParam, envClientHeader, envClientCookie, envClientUserAgentReferer, envClientCookieJar, envEverything:
		return true
	}
	return false
}

type reqSpec struct {
	vals [nSources]any // nil: the carrier is absent; at most one body carrier
	env  envOpt
	main source // envelope family: the carrier the struct travels in (decides method and applicability)
}

func (s reqSpec) body() source {
	for src := source(0); src < nSources; src++ {
		if src.isBody() && s.vals[src] != nil {
			return src
		}
	}
	return noBodySrc
}

// clientFor returns the station's client for a client-level envelope option (built once per station and option).
func (st *station) clientFor(e envOpt) *client.Client {
	if !e.clientLevel() {
		return st.cl
	}
	if st.envCl == nil {
		st.envCl = map[envOpt]*client.Client{}
	}
	if c := st.envCl[e]; c != nil {
		return c
	}
	c := client.NewWithClient(&fasthttp.Client{Transport: st, NoDefaultUserAgentHeader: true})
	all := e == envEverything
	if all || e == envBaseURL {
		c.SetBaseURL("http://c11.test")
	}
	if all || e == envClientParam {
		c.AddParam("zz", "1").AddParam("zz", "2").SetParam("yy", "%26")
	}
	if all || e == envClientHeader {
		c.AddHeader("X-Zz", "1").AddHeader("X-Zz", "2").SetHeader("X-Yy", "y")
	}
	if all || e == envClientCookie {
		c.SetCookie("zz", "1").SetCookie("yy", "2")
	}
	if all || e == envClientUserAgentReferer {
		c.SetUserAgent("c11-client/1").SetReferer("http://ref.test/?Str=ref&alpha=ref")
	}
	if all || e == envClientCookieJar {
		jar := client.AcquireCookieJar()
		jar.SetKeyValue("c11.test", "jar", "1")
		jar.SetKeyValue("other.test", "Str", "jar")
		c.SetCookieJar(jar)
	}
	st.envCl[e] = c
	return c
}

// build configures a fresh Request of the right client after the specification and returns it with its URL and method.
func (st *station) build(s reqSpec) (r *client.Request, url, method string) {
	e := s.env
	all := e == envEverything
	cl := st.clientFor(e)
	r = cl.R()
	body := s.body()
	formLike := body == srcForm || body == srcMultipart
	before := func() {
		if all || e == envReqParamBefore {
			r.AddParam("zz", "1").AddParam("zz", "2").SetParam("yy", "%26")
		}
		if all || e == envReqHeaderBefore {
			r.AddHeader("X-Zz", "1").AddHeader("X-Zz", "2").SetHeader("X-Yy", "y")
		}
		if all || e == envReqCookieBefore {
			r.SetCookie("zz", "1")
		}
		if (all || e == envReqFormFieldBefore) && formLike {
			r.AddFormData("zz", "1").AddFormData("zz", "2")
		}
	}
	after := func() {
		if e == envReqParamAfter {
			r.AddParam("zz", "1").AddParam("zz", "2").SetParam("yy", "%26")
		}
		if e == envReqHeaderAfter {
			r.AddHeader("X-Zz", "1").AddHeader("X-Zz", "2").SetHeader("X-Yy", "y")
		}
		if e == envReqCookieAfter {
			r.SetCookie("zz", "1")
		}
		if e == envReqFormFieldAfter && formLike {
			r.AddFormData("zz", "1").AddFormData("zz", "2")
		}
		if all || e == envReqUserAgentReferer {
			r.SetUserAgent("c11-request/1").SetReferer("http://ref.test/?Str=ref&alpha=ref")
		}
	}
	before()
	for src := source(0); src < nSources; src++ {
		if s.vals[src] != nil {
			configure(r, src, s.vals[src])
		}
	}
	after()
	url = "http://c11.test/"
	if all || e == envBaseURL {
		url = "/"
	}
	switch {
	case e == envURLQuery:
		url += "?zz=1&yy=%26&zz=2"
	case e == envURLFragment:
		url += "#frag"
	case all || e == envURLQueryFragment:
		url += "?zz=1&yy=%26#frag?Str=frag&alpha=frag"
	}
	method = fiber.MethodGet
	if body != noBodySrc {
		method = fiber.MethodPost
	}
	switch e {
	case envMethodPut:
		method = fiber.MethodPut
	case envMethodPatch:
		method = fiber.MethodPatch
	case envMethodDelete:
		method = fiber.MethodDelete
	case envMethodPost:
		method = fiber.MethodPost
	}
	return r, url, method
}

// sendSpec sends the request of the specification and releases it.
func (st *station) sendSpec(s reqSpec) (status int, body string, err error) {
	r, url, method := st.build(s)
	st.obs = obs{}
	resp, err := r.SetMethod(method).SetURL(url).Send()
	if err != nil {
		client.ReleaseRequest(r)
		return 0, "", err
	}
	status = resp.StatusCode()
	body = string(resp.Body())
	resp.Close()
	return status, body, nil
}

// ---------------------------------------------------------------------------
// compact shapes

type cshape struct {
	Name   string
	New    func() any
	Values []any
}

func compactShapes() []cshape {
	out := []cshape{
		{"S1", func() any { return new(S1) }, h1Values(false)},
		{"S2", func() any { return new(S2) }, h2Values(false)},
	}
	if !noDecl {
		out = append(out,
			cshape{"T1", func() any { return new(T1) }, t1Compact()},
			cshape{"K1", func() any { return new(K1) }, k1Compact()})
	}
	return out
}

// development switches (mutant trials: which dimension catches what): C11_NO_DECL=1 leaves the declaration
// shapes and the pointer variants out, C11_FAMILIES=<list|none> selects the families of part D.
var noDecl = os.Getenv("C11_NO_DECL") != ""

func sameDiff(k1 string, d1 *diff, k2 string, d2 *diff) bool {
	return k1 == k2 && ((d1 == nil) == (d2 == nil)) && (d1 == nil || (d1.Field == d2.Field && d1.Kind == d2.Kind && d1.Class == d2.Class))
}

func diffParts(d *diff) (fname, fkind, fclass string) {
	if d != nil {
		return d.Field, d.Kind, d.Class
	}
	return "?", "combination", "?"
}

// ---------------------------------------------------------------------------
// bind programs of the combined family

func permutations(xs []source) [][]source {
	if len(xs) <= 1 {
		return [][]source{append([]source(nil), xs...)}
	}
	var out [][]source
	for i := range xs {
		rest := append(append([]source(nil), xs[:i]...), xs[i+1:]...)
		for _, p := range permutations(rest) {
			out = append(out, append([]source{xs[i]}, p...))
		}
	}
	return out
}

// adjacencyCover picks, greedily and in enumeration order, permutations until every ordered pair of different
// carriers occurs as two consecutive binds of some picked permutation.
func adjacencyCover(perms [][]source) [][]source {
	type pr [2]source
	need := map[pr]bool{}
	for _, p := range perms {
		for i := 1; i < len(p); i++ {
			need[pr{p[i-1], p[i]}] = true
		}
	}
	var out [][]source
	for len(need) > 0 {
		best, bestN := -1, 0
		for pi, p := range perms {
			n := 0
			for i := 1; i < len(p); i++ {
				if need[pr{p[i-1], p[i]}] {
					n++
				}
			}
			if n > bestN {
				best, bestN = pi, n
			}
		}
		if best < 0 {
			break
		}
		p := perms[best]
		for i := 1; i < len(p); i++ {
			delete(need, pr{p[i-1], p[i]})
		}
		out = append(out, p)
	}
	return out
}

// programs for a request whose carriers are present (kv carriers + optional body).
func programs(present []source, body source, quick bool) [][]bindStep {
	perms := permutations(present)
	if quick {
		perms = adjacencyCover(perms)
	}
	var out [][]bindStep
	for pi, p := range perms {
		vias := []bool{false}
		if body != noBodySrc {
			vias = []bool{false, true}
			if quick {
				vias = []bool{pi%2 == 1}
			}
		}
		for _, via := range vias {
			var prog []bindStep
			for _, s := range p {
				prog = append(prog, bindStep{s, via && s == body})
			}
			out = append(out, prog)
		}
	}
	for _, s := range present {
		out = append(out, []bindStep{{s, false}, {s, false}}) // one source bound twice
	}
	if body != noBodySrc {
		out = append(out, []bindStep{{body, true}, {body, false}}, []bindStep{{body, false}, {body, true}}, []bindStep{{body, true}, {body, true}})
	}
	return out
}

func progLit(p []bindStep) string {
	var out []string
	for _, s := range p {
		n := s.src.String()
		if s.viaBody {
			n += ":Body()"
		}
		out = append(out, n)
	}
	return strings.Join(out, ">")
}

// runProgram sends the request and judges every bind of the program; returns the failing step (-1: none).
func (st *station) runProgram(s reqSpec, prog []bindStep, k ctl) (step int, kind string, d *diff, detail string) {
	k.prog = prog
	st.ctl = k
	status, body, err := st.sendSpec(s)
	o := st.obs
	switch {
	case o.panicked != "":
		return len(o.multi), "panic", nil, o.panicked
	case err != nil:
		return 0, "client-error", nil, err.Error()
	case o.calls == 0:
		return 0, "refused-before-handler", nil, fmt.Sprintf("status=%d", status)
	case o.calls != 1:
		return 0, "harness", nil, fmt.Sprintf("handler ran %d times", o.calls)
	}
	for i, m := range o.multi {
		if m.err != nil {
			return i, "bind-error", nil, clip(m.err.Error(), 160)
		}
		if d := compare(s.vals[prog[i].src], m.got); d != nil {
			return i, d.How, d, ""
		}
	}
	if len(o.multi) != len(prog) {
		return len(o.multi), "harness", nil, fmt.Sprintf("%d of %d binds ran without an error", len(o.multi), len(prog))
	}
	if status != 200 {
		return 0, "harness", nil, fmt.Sprintf("status=%d body=%q without bind error", status, body)
	}
	return -1, "", nil, ""
}

func multiLit(ms []stepObs) []string {
	var out []string
	for _, m := range ms {
		if m.err != nil {
			out = append(out, "error: "+clip(m.err.Error(), 120))
		} else {
			out = append(out, goLit(m.got))
		}
	}
	return out
}

// ---------------------------------------------------------------------------

type famBounds struct {
	Flavors, CfgCases, ComboRequests, ComboPrograms, EnvOptions, EnvCases int
}

func partD(r *core.Run, col *collector, sp *sampler, ordBase int64) famBounds {
	quick := r.Quick()
	shapes := compactShapes()
	var fb famBounds
	type item struct {
		fam  string
		sh   *cshape
		src  source // cfg / envelope: the carrier; combined: the body carrier
		flv  flavor
		lo   int
		hi   int
		ord  int64
		mpar bool
	}
	var items []item
	ord := ordBase
	only := onlyFamilies()
	// configuration family: one item per shape x carrier x flavor
	flvs := flavors()
	fb.Flavors = len(flvs)
	if only["cfg"] {
		for si := range shapes {
			for src := source(0); src < nSources; src++ {
				for _, f := range flvs {
					items = append(items, item{fam: "cfg", sh: &shapes[si], src: src, flv: f, ord: ord, mpar: src == srcMultipart})
					ord += int64(len(shapes[si].Values)) * 16
				}
			}
		}
	}
	// combined family: one item per shape x body carrier x block of query values
	bodies := []source{noBodySrc, srcForm, srcMultipart, srcJSON, srcXML, srcCBOR}
	if only["combined"] {
		for si := range shapes {
			n := len(shapes[si].Values)
			for _, b := range bodies {
				for lo := 0; lo < n; lo += 3 {
					hi := lo + 3
					if hi > n {
						hi = n
					}
					items = append(items, item{fam: "combined", sh: &shapes[si], src: b, lo: lo, hi: hi, ord: ord, mpar: b == srcMultipart})
					ord += int64(hi-lo) * int64(n) * 256
				}
			}
		}
	}
	// envelope family: one item per shape x carrier
	if only["envelope"] {
		for si := range shapes {
			for src := source(0); src < nSources; src++ {
				items = append(items, item{fam: "envelope", sh: &shapes[si], src: src, ord: ord, mpar: src == srcMultipart})
				ord += int64(len(shapes[si].Values)) * int64(nEnvOpts) * 4
			}
		}
		fb.EnvOptions = int(nEnvOpts) - 1
	}
	mpSem := make(chan struct{}, 4)
	variants := []variant{{split: false, auto: false}, {split: true, auto: true}}
	r.Parallel(len(items), func(ii int, l *core.Local) {
		if r.Expired() {
			r.Cap("wall-clock cap reached during the families part: remaining cases not run")
			return
		}
		it := items[ii]
		if it.mpar {
			mpSem <- struct{}{}
			defer func() { <-mpSem }()
		}
		plain := getStations()
		defer putStations(plain)
		mine := newCollector()
		defer col.mergeFrom(mine)

		// freshSame: does the value fail the same way on a plain fresh request (plain station, single bind)?
		freshSame := func(split, auto, viaBody bool, src source, v any, kind string, d *diff) bool {
			st := plain[0]
			if split {
				st = plain[1]
			}
			st.ctl = ctl{src: src, viaBody: viaBody, auto: auto, newDst: it.sh.New}
			k2, d2, _ := roundTrip(st, src, v)
			return sameDiff(kind, d, k2, d2)
		}
		partASig := func(kind string, src source, d *diff, detail string) string {
			_, fkind, fclass := diffParts(d)
			extra := ""
			if kind == "panic" {
				extra = " " + detail
			}
			return fmt.Sprintf("roundtrip %s src=%s field-kind=%s sent=%s%s%s", kind, src, fkind, fclass, declQual(it.sh.Name), extra)
		}

		switch it.fam {
		case "cfg":
			sts := [2]*station{newStationFlavor(false, it.flv), newStationFlavor(true, it.flv)}
			var vrs []variant
			for _, split := range []bool{false, true} {
				for _, auto := range []bool{false, true} {
					vrs = append(vrs, variant{split: split, auto: auto})
					if it.src.isBody() {
						vrs = append(vrs, variant{split: split, auto: auto, viaBody: true})
					}
				}
			}
			for vi, v := range it.sh.Values {
				for vj, vr := range vrs {
					if legal, comma := carrierVerdict(it.src, vr.split, v); !legal || comma {
						l.Add("carrier_cannot_transport_skipped", 1)
						continue
					}
					st := sts[0]
					if vr.split {
						st = sts[1]
					}
					st.ctl = ctl{src: it.src, viaBody: vr.viaBody, auto: vr.auto, newDst: it.sh.New}
					caseOrd := it.ord + int64(vi)*16 + int64(vj)
					kind, d, detail := roundTrip(st, it.src, v)
					l.Add("evaluations", 1)
					l.Add("cfg_roundtrips", 1)
					if interesting(v) {
						l.Add("nontrivial", 1)
					}
					if it.flv&optValidator != 0 && kind == "" && st.obs.validated != 1 {
						l.Add("cfg_validator_not_called_once", 1)
					}
					if kind == "" {
						l.Outcome(fmt.Sprintf("D cfg %s %s equal", it.flv, it.src))
						if caseOrd%509 == 3 && interesting(v) {
							sp.add(caseOrd, map[string]any{"part": "configuration", "flavor": it.flv.String(), "source": it.src.String(), "splitting": vr.split, "auto": vr.auto, "via_body": vr.viaBody,
								"sent": goLit(v), "decoded": goLit(st.obs.got), "wire": wireHead(st.wire)})
						}
						continue
					}
					if kind == "harness" {
						core.Fatal("configuration family: %s (flavor=%s src=%s value=%s)", detail, it.flv, it.src, goLit(v))
					}
					l.Outcome(fmt.Sprintf("D cfg %s %s %s", it.flv, it.src, kind))
					fname, fkind, fclass := diffParts(d)
					cs := map[string]any{"shape": it.sh.Name, "flavor": it.flv.String(), "source": it.src.String(), "splitting": vr.split, "auto_handling": vr.auto, "via_body": vr.viaBody,
						"sent": goLit(v), "field": fname, "wire": wireHead(st.wire)}
					ob := map[string]any{"decoded": goLit(st.obs.got), "detail": detail}
					if freshSame(vr.split, vr.auto, vr.viaBody, it.src, v, kind, d) {
						l.Add("family_failures_same_as_plain_request", 1)
						mine.add(partASig(kind, it.src, d, detail), vr.split, caseOrd, "value decoded by the binder differs from the value the bundled client sent ("+kind+")", cs, ob,
							"decoded == sent (nil and empty slices identified)")
						continue
					}
					via := ""
					if vr.viaBody {
						via = " via=Body()"
					}
					extra := ""
					if kind == "panic" {
						extra = " " + detail
					}
					sig := fmt.Sprintf("configuration %s src=%s%s field-kind=%s sent=%s%s cfg=%s%s", kind, it.src, via, fkind, fclass, declQual(it.sh.Name), it.flv, extra)
					mine.add(sig, vr.split, caseOrd, "with a server configuration field that is redundant for binding, the binder decodes something else than the client sent ("+kind+"); the plain server round-trips the value",
						cs, ob, "decoded == sent, as on the plain server")
				}
			}

		case "combined":
			vals := it.sh.Values
			n := len(vals)
			present := []source{srcQuery, srcHeader, srcCookie}
			if it.src != noBodySrc {
				present = append(present, it.src)
			}
			progs := programs(present, it.src, quick)
			for qi := it.lo; qi < it.hi; qi++ {
				for bi := 0; bi < n; bi++ {
					var s reqSpec
					s.vals[srcQuery] = vals[qi]
					s.vals[srcHeader] = vals[(qi+bi+1)%n]
					s.vals[srcCookie] = vals[(2*qi+bi+2)%n]
					if it.src != noBodySrc {
						s.vals[it.src] = vals[bi]
					} else if bi%3 != 0 {
						continue // without a body the second index only rotates header and cookie values: every third
					}
					for pi, prog := range progs {
						for vj, vr := range variants {
							k := ctl{auto: vr.auto, newDst: it.sh.New}
							st := plain[0]
							if vr.split {
								st = plain[1]
							}
							caseOrd := it.ord + (int64(qi-it.lo)*int64(n)+int64(bi))*256 + int64(pi)*2 + int64(vj)
							step, kind, d, detail := st.runProgram(s, prog, k)
							l.Add("evaluations", int64(len(prog)))
							l.Add("combined_requests", 1)
							l.Add("combined_binds", int64(len(prog)))
							l.Add("nontrivial", int64(len(prog)))
							if kind == "" {
								l.Outcome(fmt.Sprintf("D combined %s body=%s equal", it.sh.Name, bodyName(it.src)))
								if caseOrd%2003 == 5 {
									sp.add(caseOrd, map[string]any{"part": "combined", "shape": it.sh.Name, "splitting": vr.split, "program": progLit(prog),
										"sent": specLit(s), "decoded_per_bind": multiLit(st.obs.multi), "wire": wireHead(st.wire)})
								}
								continue
							}
							if kind == "harness" {
								core.Fatal("combined family: %s (program=%s request=%v)", detail, progLit(prog), specLit(s))
							}
							bound := prog[min(step, len(prog)-1)]
							l.Outcome(fmt.Sprintf("D combined %s body=%s %s", it.sh.Name, bodyName(it.src), kind))
							fname, fkind, fclass := diffParts(d)
							cs := map[string]any{"shape": it.sh.Name, "splitting": vr.split, "auto_handling": vr.auto, "program": progLit(prog), "failing_bind": step + 1,
								"sent": specLit(s), "field": fname, "wire": wireHead(st.wire)}
							ob := map[string]any{"decoded_per_bind": multiLit(st.obs.multi), "detail": detail}
							if freshSame(vr.split, vr.auto, bound.viaBody, bound.src, s.vals[bound.src], kind, d) {
								l.Add("family_failures_same_as_plain_request", 1)
								mine.add(partASig(kind, bound.src, d, detail), vr.split, caseOrd, "value decoded by the binder differs from the value the bundled client sent ("+kind+")", cs, ob,
									"decoded == sent (nil and empty slices identified)")
								continue
							}
							// what matters: the other carriers of the request, or the binds before this one?
							culprit := ""
							if st1, k1, d1, _ := st.runProgram(s, []bindStep{bound}, k); st1 == 0 && sameDiff(kind, d, k1, d1) {
								var cul []string
								for _, o := range present {
									if o == bound.src {
										continue
									}
									s2 := s
									s2.vals[o] = nil
									if _, k2, d2, _ := st.runProgram(s2, []bindStep{bound}, k); !sameDiff(kind, d, k2, d2) {
										cul = append(cul, o.String())
									}
								}
								if len(cul) == 0 {
									cul = []string{"several"}
								}
								culprit = "also-carried=" + strings.Join(cul, "+")
							} else {
								pred := "none"
								if step > 0 && step <= len(prog) {
									pred = prog[step-1].src.String()
									if prog[step-1].viaBody {
										pred += ":Body()"
									}
								}
								culprit = "after-bind=" + pred
							}
							via := ""
							if bound.viaBody {
								via = " via=Body()"
							}
							extra := ""
							if kind == "panic" {
								extra = " " + detail
							}
							sig := fmt.Sprintf("combined %s bound=%s%s field-kind=%s sent=%s%s %s%s", kind, bound.src, via, fkind, fclass, declQual(it.sh.Name), culprit, extra)
							mine.add(sig, vr.split, caseOrd, "a request carries a different value in several sources and the handler binds several of them: one bind decodes something else than the value the client put into that source ("+kind+"); the same value alone on a fresh request round-trips",
								cs, ob, "every bind decodes the value the client put into its source")
						}
					}
				}
			}

		case "envelope":
			for vi, v := range it.sh.Values {
				for e := envOpt(1); e < nEnvOpts; e++ {
					if !e.applicable(it.src) {
						continue
					}
					envVariants := variants
					if it.src.isBody() {
						envVariants = append(append([]variant(nil), variants...), variant{split: false, auto: true, viaBody: true})
					}
					for vj, vr := range envVariants {
						if legal, comma := carrierVerdict(it.src, vr.split, v); !legal || comma {
							l.Add("carrier_cannot_transport_skipped", 1)
							continue
						}
						st := plain[0]
						if vr.split {
							st = plain[1]
						}
						var s reqSpec
						s.vals[it.src], s.env, s.main = v, e, it.src
						st.ctl = ctl{src: it.src, auto: vr.auto, viaBody: vr.viaBody, newDst: it.sh.New}
						caseOrd := it.ord + (int64(vi)*int64(nEnvOpts)+int64(e))*4 + int64(vj)
						status, body, err := st.sendSpec(s)
						kind, d, detail := st.judge(status, body, err, v)
						l.Add("evaluations", 1)
						l.Add("envelope_requests", 1)
						l.Add("nontrivial", 1)
						if kind == "" {
							l.Outcome(fmt.Sprintf("D envelope %s %s equal", e, it.src))
							if caseOrd%997 == 11 && interesting(v) {
								sp.add(caseOrd, map[string]any{"part": "envelope", "option": e.String(), "source": it.src.String(), "splitting": vr.split,
									"sent": goLit(v), "decoded": goLit(st.obs.got), "wire": wireHead(st.wire)})
							}
							continue
						}
						if kind == "harness" {
							core.Fatal("envelope family: %s (option=%s src=%s value=%s)", detail, e, it.src, goLit(v))
						}
						l.Outcome(fmt.Sprintf("D envelope %s %s %s", e, it.src, kind))
						fname, fkind, fclass := diffParts(d)
						cs := map[string]any{"shape": it.sh.Name, "option": e.String(), "source": it.src.String(), "splitting": vr.split, "auto_handling": vr.auto, "via_body": vr.viaBody,
							"sent": goLit(v), "field": fname, "wire": wireHead(st.wire)}
						ob := map[string]any{"decoded": goLit(st.obs.got), "detail": detail, "status": status}
						if freshSame(vr.split, vr.auto, vr.viaBody, it.src, v, kind, d) {
							l.Add("family_failures_same_as_plain_request", 1)
							mine.add(partASig(kind, it.src, d, detail), vr.split, caseOrd, "value decoded by the binder differs from the value the bundled client sent ("+kind+")", cs, ob,
								"decoded == sent (nil and empty slices identified)")
							continue
						}
						extra := ""
						if kind == "panic" {
							extra = " " + detail
						}
						if vr.viaBody {
							extra = " via=Body()" + extra
						}
						sig := fmt.Sprintf("envelope %s src=%s option=%s field-kind=%s sent=%s%s%s", kind, it.src, e, fkind, fclass, declQual(it.sh.Name), extra)
						mine.add(sig, vr.split, caseOrd, "the request also carries what real requests carry ("+e.String()+") and the binder decodes something else than the struct the client was given ("+kind+"); the bare request round-trips the value",
							cs, ob, "decoded == sent, as for the bare request")
					}
				}
			}
		}
	})
	fb.CfgCases = int(r.P.Counters["cfg_roundtrips"])
	fb.ComboRequests = int(r.P.Counters["combined_requests"])
	fb.EnvCases = int(r.P.Counters["envelope_requests"])
	fb.ComboPrograms = len(programs([]source{srcQuery, srcHeader, srcCookie, srcJSON}, srcJSON, quick))
	return fb
}

func bodyName(s source) string {
	if s == noBodySrc {
		return "none"
	}
	return s.String()
}

func specLit(s reqSpec) map[string]string {
	out := map[string]string{}
	for src := source(0); src < nSources; src++ {
		if s.vals[src] != nil {
			out[src.String()] = goLit(s.vals[src])
		}
	}
	return out
}

// onlyFamilies: development switch C11_FAMILIES=cfg,combined,envelope (default: all).
func onlyFamilies() map[string]bool {
	out := map[string]bool{}
	e := envFamilies
	if e == "" {
		e = "cfg,combined,envelope"
	}
	for _, f := range strings.Split(e, ",") {
		out[strings.TrimSpace(f)] = true
	}
	return out
}

var envFamilies = os.Getenv("C11_FAMILIES")
