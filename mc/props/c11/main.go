// C11 — binding returns what the client encoded, for every value and source.
//
// Part A (round trip): the bundled client (github.com/gofiber/fiber/v3/client) sends a struct with its own
// struct-encoding API; a fasthttp.RoundTripper serialises the request, serves it through
// app.Server().ServeConn on an in-memory connection and parses the answer back; the handler binds from the
// same source into the same struct type. Exhaustive product of field-value alphabets x 8 sources x
// EnableSplittingOnParsers x automatic error handling x {per-source method, Bind().Body()}.
//
// Part C (client-side histories, history.go): one client-side container (the same Request object, the client-wide
// defaults, the client's pool of Request objects) is configured two or three times with different values before /
// between sends; the server must bind the value configured last.
//
// Part B (totality): hostile keys / bodies, all combinations of <= 2, as raw requests: no panic, failure
// reported as an error (400 under automatic handling), allocation per request within a calibrated budget.
// Runs in single-threaded worker processes so that runtime.MemStats.TotalAlloc deltas belong to the request.
package main

import (
	"flag"
	"fmt"
	"math/bits"
	"os"
	"path/filepath"
	"reflect"
	"regexp"
	"runtime"
	"runtime/debug"
	"sort"
	"strings"
	"sync"
	"syscall"
	"time"

	"verifmc/core"
)

// ---------------------------------------------------------------------------
// violation collector: merges the two EnableSplittingOnParsers settings into one signature when both fail
// the same way, and keeps the lowest-ordered case so that the reported example is the same on every run.

type vrec struct {
	NoSplit  bool // the splitting option does not apply (body decoders)
	What     string
	Case     [2]any
	Obs, Exp [2]any
	Ord      [2]int64
	Count    [2]int64
}

type collector struct {
	mu sync.Mutex
	m  map[string]*vrec
}

func newCollector() *collector { return &collector{m: map[string]*vrec{}} }

func (c *collector) addNoSplit(sig string, ord int64, what string, cs, obs, exp any) {
	c.add(sig, false, ord, what, cs, obs, exp)
	c.mu.Lock()
	c.m[sig].NoSplit = true
	c.mu.Unlock()
}

func (c *collector) add(sig string, split bool, ord int64, what string, cs, obs, exp any) {
	c.mu.Lock()
	defer c.mu.Unlock()
	i := 0
	if split {
		i = 1
	}
	r := c.m[sig]
	if r == nil {
		r = &vrec{What: what}
		c.m[sig] = r
	}
	if r.Count[i] == 0 || ord < r.Ord[i] {
		r.Case[i], r.Obs[i], r.Exp[i], r.Ord[i] = cs, obs, exp, ord
	}
	r.Count[i]++
}

func (c *collector) mergeFrom(o *collector) {
	o.mu.Lock()
	defer o.mu.Unlock()
	c.mu.Lock()
	defer c.mu.Unlock()
	for sig, v := range o.m {
		r := c.m[sig]
		if r == nil {
			c.m[sig] = v
			continue
		}
		for i := 0; i < 2; i++ {
			if v.Count[i] == 0 {
				continue
			}
			if r.Count[i] == 0 || v.Ord[i] < r.Ord[i] {
				r.Case[i], r.Obs[i], r.Exp[i], r.Ord[i] = v.Case[i], v.Obs[i], v.Exp[i], v.Ord[i]
			}
			r.Count[i] += v.Count[i]
		}
	}
}

// emit files every collected violation with the run.
func (c *collector) emit(add func(sig, what string, cs, obs, exp any, n int64)) {
	c.fold()
	sigs := make([]string, 0, len(c.m))
	for s := range c.m {
		sigs = append(sigs, s)
	}
	sort.Strings(sigs)
	for _, s := range sigs {
		r := c.m[s]
		switch {
		case r.NoSplit:
			add(s, r.What, r.Case[0], r.Obs[0], r.Exp[0], r.Count[0])
		case r.Count[0] > 0 && r.Count[1] > 0:
			add(s+" splitting=any", r.What, r.Case[0], r.Obs[0], r.Exp[0], r.Count[0]+r.Count[1])
		case r.Count[0] > 0:
			add(s+" splitting=off-only", r.What, r.Case[0], r.Obs[0], r.Exp[0], r.Count[0])
		default:
			add(s+" splitting=on-only", r.What, r.Case[1], r.Obs[1], r.Exp[1], r.Count[1])
		}
	}
}

var declQualRe = regexp.MustCompile(` decl=[A-Za-z0-9]+`)
var cfgQualRe = regexp.MustCompile(` cfg=([a-z-]+(\+[a-z-]+)+)`)

// fold merges a qualified signature into the signature that names the root cause more generally when that one
// was reported too: " decl=<shape>" (a declaration shape fails the way a tagless shape does) and a composite
// " cfg=a+b+c" (the flavor with every option fails the way the flavor with one of its options does).
func (c *collector) fold() {
	sigs := make([]string, 0, len(c.m))
	for s := range c.m {
		sigs = append(sigs, s)
	}
	sort.Strings(sigs)
	into := func(from, to string) {
		r, v := c.m[to], c.m[from]
		for i := 0; i < 2; i++ {
			if v.Count[i] == 0 {
				continue
			}
			if r.Count[i] == 0 {
				r.Case[i], r.Obs[i], r.Exp[i], r.Ord[i] = v.Case[i], v.Obs[i], v.Exp[i], v.Ord[i]
			}
			r.Count[i] += v.Count[i]
		}
		delete(c.m, from)
	}
	for _, s := range sigs {
		if m := cfgQualRe.FindStringSubmatch(s); m != nil {
			for _, one := range strings.Split(m[1], "+") {
				stem := strings.Replace(s, m[0], " cfg="+one, 1)
				if _, ok := c.m[stem]; ok {
					into(s, stem)
					break
				}
			}
		}
	}
	for _, s := range sigs {
		// the envelope with every companion at once fails the way the envelope with one of them does
		if _, ok := c.m[s]; !ok || !strings.Contains(s, " option=everything ") {
			continue
		}
		pre, post, _ := strings.Cut(s, " option=everything ")
		for _, o := range sigs {
			if o != s && strings.HasPrefix(o, pre+" option=") && strings.HasSuffix(o, " "+post) {
				if _, ok := c.m[o]; ok {
					into(s, o)
					break
				}
			}
		}
	}
	for _, s := range sigs {
		if _, ok := c.m[s]; !ok || !declQualRe.MatchString(s) {
			continue
		}
		stem := declQualRe.ReplaceAllString(s, "")
		if _, ok := c.m[stem]; ok {
			into(s, stem)
		}
	}
}

func fileViolations(l *core.Local, c *collector) {
	c.emit(func(sig, what string, cs, obs, exp any, n int64) {
		l.Violate(sig, what, cs, obs, exp)
		if v := l.P.Violations[sig]; v != nil {
			v.Count = n
		}
	})
}

// ---------------------------------------------------------------------------
// part A

type shape struct {
	Name   string
	New    func() any
	Values []any
}

type variant struct {
	split, auto, viaBody bool
	ptr                  bool // the client is handed a pointer to the struct (declaration family, decl.go)
}

func dedupe(vs []any) []any {
	seen := map[string]bool{}
	var out []any
	for _, v := range vs {
		k := fmt.Sprintf("%#v", v)
		if !seen[k] {
			seen[k] = true
			out = append(out, v)
		}
	}
	return out
}

type pairOfStations [2]*station

// stations (server with splitting off, server with splitting on) are reused by the work items of the
// round-trip and history parts; a work item owns its pair while it runs.
var stationPool = make(chan pairOfStations, 64)

func getStations() pairOfStations {
	select {
	case p := <-stationPool:
		return p
	default:
		return pairOfStations{newStation(false), newStation(true)}
	}
}

func putStations(p pairOfStations) {
	select {
	case stationPool <- p:
	default:
	}
}

var randomBoundary = regexp.MustCompile(`FiberFormBoundary[A-Za-z0-9]{16}`)

// wireHead clips the serialised request; the client's random multipart boundary suffix is masked so that
// evidence and replay files are the same on every run.
func wireHead(b []byte) string {
	return clip(randomBoundary.ReplaceAllString(string(b), "FiberFormBoundary<16 random>"), 400)
}

// goLit renders a struct unambiguously (quoted strings, nil vs empty slices).
func goLit(v any) string {
	if v == nil {
		return ""
	}
	return strings.ReplaceAll(fmt.Sprintf("%#v", reflect.Indirect(reflect.ValueOf(v)).Interface()), "main.", "")
}

// sampler keeps candidate samples with their case ordinal; the lowest ordinals are reported (same on every run).
type sampler struct {
	mu sync.Mutex
	s  []map[string]any
}

func (sp *sampler) add(ord int64, m map[string]any) {
	m["ord"] = ord
	sp.mu.Lock()
	sp.s = append(sp.s, m)
	sp.mu.Unlock()
}

func sampleOrd(v any) float64 {
	if m, ok := v.(map[string]any); ok {
		switch o := m["ord"].(type) {
		case float64:
			return o
		case int64:
			return float64(o)
		}
	}
	return 0
}

func lowest(vs []any, n int) []any {
	sort.SliceStable(vs, func(i, j int) bool { return sampleOrd(vs[i]) < sampleOrd(vs[j]) })
	if len(vs) > n {
		vs = vs[:n]
	}
	return vs
}

// roundTrip sends v and returns "" when the decoded struct equals it, else a failure kind + diff.
func roundTrip(st *station, src source, v any) (kind string, d *diff, detail string) {
	status, body, err := st.send(src, v)
	return st.judge(status, body, err, v)
}

// roundTripPtr hands the client a pointer to a copy of v.
func roundTripPtr(st *station, src source, v any) (kind string, d *diff, detail string) {
	status, body, err := st.send(src, pointerTo(v))
	return st.judge(status, body, err, v)
}

// declQual: signature qualifier of the declaration shapes; emit folds it away when the unqualified signature
// (a shape without tags fails the same way) is reported too.
func declQual(shape string) string {
	if shape == "S1" || shape == "S2" {
		return ""
	}
	return " decl=" + shape
}

// judge classifies what the station's handler observed for the request just sent against the value v the
// client was configured with.
func (st *station) judge(status int, body string, err error, v any) (kind string, d *diff, detail string) {
	o := st.obs
	switch {
	case o.panicked != "":
		return "panic", nil, o.panicked
	case err != nil:
		return "client-error", nil, err.Error()
	case o.calls == 0:
		return "refused-before-handler", nil, fmt.Sprintf("status=%d", status)
	case o.calls != 1:
		return "harness", nil, fmt.Sprintf("handler ran %d times", o.calls)
	case o.err != nil:
		return "bind-error", nil, clip(o.err.Error(), 160)
	case status != 200:
		return "harness", nil, fmt.Sprintf("status=%d body=%q without bind error", status, body)
	}
	if d := compare(v, o.got); d != nil {
		return d.How, d, ""
	}
	return "", nil, ""
}

func partA(r *core.Run, col *collector, sp *sampler) (shapes []shape) {
	shapes = []shape{
		{"S1", func() any { return new(S1) }, dedupe(s1Values(r.Quick()))},
		{"S2", func() any { return new(S2) }, dedupe(s2Values(r.Quick()))},
		{"T1", func() any { return new(T1) }, t1Values(r.Quick())},
		{"K1", func() any { return new(K1) }, k1Values(r.Quick())},
	}
	if noDecl {
		for i := 2; i < 4; i++ {
			shapes[i].Values = nil
		}
	}
	type item struct {
		sh     *shape
		src    source
		lo, hi int
		ord    int64
	}
	const chunk = 256
	var items []item
	var ord int64
	for si := range shapes {
		sh := &shapes[si]
		for lo := 0; lo < len(sh.Values); lo += chunk {
			hi := lo + chunk
			if hi > len(sh.Values) {
				hi = len(sh.Values)
			}
			for src := source(0); src < nSources; src++ {
				items = append(items, item{sh, src, lo, hi, ord})
				ord += int64(hi-lo) * 16
			}
		}
	}
	nsem := 4
	if e := os.Getenv("C11_MPSEM"); e != "" {
		fmt.Sscan(e, &nsem)
	}
	mpSem := make(chan struct{}, nsem)
	get := getStations
	r.Parallel(len(items), func(ii int, l *core.Local) {
		if r.Expired() {
			r.Cap("wall-clock cap reached during the round-trip part: remaining value chunks not run")
			return
		}
		it := items[ii]
		if it.src == srcMultipart {
			// every multipart request makes the client allocate a 1 MiB buffer: bound how many are in flight
			mpSem <- struct{}{}
			defer func() { <-mpSem }()
		}
		sts := get()
		defer putStations(sts)
		mine := newCollector()
		var variants []variant
		for _, split := range []bool{false, true} {
			for _, auto := range []bool{false, true} {
				variants = append(variants, variant{split: split, auto: auto})
				if it.src.isBody() {
					variants = append(variants, variant{split: split, auto: auto, viaBody: true})
				}
			}
		}
		// the client is handed a pointer: one server configuration for the tagless shapes, two for the declaration shapes
		if !noDecl {
			variants = append(variants, variant{split: false, auto: false, ptr: true})
		}
		if declQual(it.sh.Name) != "" {
			variants = append(variants, variant{split: true, auto: true, ptr: true})
		}
		for vi := it.lo; vi < it.hi; vi++ {
			v := it.sh.Values[vi]
			directKind := ""
			byValueKind := map[[2]bool]string{}
			for vj, vr := range variants {
				legal, comma := carrierVerdict(it.src, vr.split, v)
				if !legal {
					l.Add("carrier_cannot_transport_skipped", 1)
					continue
				}
				if comma {
					l.Add("unspecified_skipped", 1) // splitting on and a value contains ',': outside the statement
					continue
				}
				st := sts[0]
				if vr.split {
					st = sts[1]
				}
				st.ctl = ctl{src: it.src, viaBody: vr.viaBody, auto: vr.auto, newDst: it.sh.New}
				caseOrd := it.ord + int64(vi-it.lo)*16 + int64(vj)
				var kind, detail string
				var d *diff
				if vr.ptr {
					kind, d, detail = roundTripPtr(st, it.src, v)
					l.Add("roundtrips_pointer_argument", 1)
				} else {
					kind, d, detail = roundTrip(st, it.src, v)
				}
				if !vr.viaBody && !vr.ptr {
					directKind = kind
					byValueKind[[2]bool{vr.split, vr.auto}] = kind
				}
				l.Add("evaluations", 1)
				l.Add("roundtrips", 1)
				if interesting(v) {
					l.Add("nontrivial", 1)
				}
				if kind == "" {
					l.Outcome(fmt.Sprintf("A %s %s equal", it.sh.Name, it.src))
					if caseOrd%4099 == 17 && interesting(v) {
						sp.add(caseOrd, map[string]any{"part": "roundtrip", "source": it.src.String(), "splitting": vr.split, "auto": vr.auto, "via_body": vr.viaBody, "pointer_argument": vr.ptr,
							"sent": goLit(v), "decoded": goLit(st.obs.got), "wire": wireHead(st.wire)})
					}
					continue
				}
				if kind == "harness" {
					core.Fatal("round trip: %s (src=%s value=%+v)", detail, it.src, v)
				}
				l.Outcome(fmt.Sprintf("A %s %s %s", it.sh.Name, it.src, kind))
				wire := wireHead(st.wire)
				got := goLit(st.obs.got)
				// name the culprit field
				var fname, fkind, fclass string
				if d != nil {
					fname, fkind, fclass = d.Field, d.Kind, d.Class
				} else {
					fname, fkind, fclass = "?", "combination", "?"
					nf := reflect.ValueOf(v).NumField()
					for fi := 0; fi < nf; fi++ {
						one := onlyField(v, fi)
						if isZeroStruct(one) {
							continue
						}
						if k2, _, _ := roundTrip(st, it.src, one); k2 == kind {
							fname, fkind, fclass = fieldClass(v, fi)
							break
						}
					}
				}
				_ = fname
				extra := ""
				if kind == "panic" {
					extra = " " + detail
				}
				via := ""
				if vr.viaBody && directKind != kind {
					// Bind().Body() is named only when the per-source method (run just before, same value and
					// configuration) does not fail the same way
					via = " via=Body()-only"
				}
				arg := ""
				if vr.ptr && byValueKind[[2]bool{vr.split, vr.auto}] != kind {
					// the pointer is named only when the same value handed over by value (run before, same configuration) does not fail the same way
					arg = " arg=pointer-only"
				}
				sig := fmt.Sprintf("roundtrip %s src=%s%s field-kind=%s sent=%s%s%s%s", kind, it.src, via, fkind, fclass, declQual(it.sh.Name), arg, extra)
				mine.add(sig, vr.split, caseOrd, "value decoded by the binder differs from the value the bundled client sent ("+kind+")",
					map[string]any{"shape": it.sh.Name, "source": it.src.String(), "splitting": vr.split, "auto_handling": vr.auto, "via_body": vr.viaBody, "pointer_argument": vr.ptr,
						"sent": goLit(v), "field": fname, "wire": wire},
					map[string]any{"decoded": got, "detail": detail}, "decoded == sent (nil and empty slices identified)")
			}
		}
		col.mergeFrom(mine)
	})
	return shapes
}

// ---------------------------------------------------------------------------
// calibration of the allocation budget

// calibrate sends the largest well-formed values of the alphabet through every carrier with the real client,
// replays the captured wire bytes and measures TotalAlloc per request.
func calibrate() (maxWellFormed uint64, budget uint64, detail map[string]uint64) {
	detail = map[string]uint64{}
	st := newStation(false)
	long := cycle(universalStrs(), 40)
	big1 := S1{Str: strings.Repeat("z", 300), Strs: long}
	s2 := s2Values(false)
	big2 := s2[len(s2)-1].(S2) // all long lists
	for src := source(0); src < nSources; src++ {
		for _, v := range []struct {
			name string
			val  any
			mk   func() any
		}{{"S1", big1, func() any { return new(S1) }}, {"S2", big2, func() any { return new(S2) }}} {
			st.ctl = ctl{src: src, newDst: v.mk}
			if _, _, err := st.send(src, v.val); err != nil || st.obs.calls != 1 || st.obs.err != nil {
				// not fatal: on a tree where this carrier is broken the round-trip part reports it as a violation;
				// the calibration simply has no sample for it
				detail[src.String()+"/"+v.name+"/not-served"] = 1
				continue
			}
			wire := append([]byte(nil), st.wire...)
			var worst uint64
			for i := 0; i < 4; i++ {
				b := totalAlloc()
				res := st.runRaw(st.ctl, wire)
				d := totalAlloc() - b
				if res.calls != 1 || res.hasErr {
					detail[src.String()+"/"+v.name+"/replay-failed"] = 1
					break
				}
				if i >= 2 && d > worst { // warm pools first
					worst = d
				}
			}
			detail[src.String()+"/"+v.name] = (worst + 1023) &^ 1023 // KiB granularity: the last bytes vary with pool state
			if worst > maxWellFormed {
				maxWellFormed = worst
			}
		}
	}
	budget = 64 * maxWellFormed
	if budget < 1<<20 {
		budget = 1 << 20
	}
	budget = 1 << bits.Len64(budget-1) // round up to a power of two: stable across runs
	return
}

// ---------------------------------------------------------------------------

func main() {
	core.SuperviseSelf("C11") // a runtime fatal error inside the code under test is a finding, not a harness error
	budgetFlag := flag.Uint64("allocbudget", 0, "allocation budget per request in bytes (internal)")
	r := core.Start("C11")
	groups := hostileGroups(r.Quick())
	if r.Deadline.IsZero() {
		// internal wall-clock caps (a capped run ends with exhaustive:false and exit 0)
		if r.Quick() {
			r.Deadline = r.Start.Add(75 * time.Second)
		} else {
			r.Deadline = r.Start.Add(14 * time.Minute)
		}
	}

	if r.IsWorker() {
		// address-space cap: an allocation bomb ends this worker (reported by the parent), not the machine
		_ = syscall.Setrlimit(syscall.RLIMIT_AS, &syscall.Rlimit{Cur: 12 << 30, Max: 12 << 30})
		l := core.NewLocal()
		col := newCollector()
		t := &tot{sample: r.Worker == 0, l: l, st: [2]*station{newStation(false), newStation(true)}, budget: *budgetFlag, marker: r.Out + ".harness-error"}
		_ = os.Remove(t.marker)
		// the position family runs first: it is small, and a wall-clock cap must never lose it
		fmt.Printf("position family\n")
		t.runPositions(r.Quick(), int64(len(groups)+1)<<32, col, r.Shard)
		for gi, g := range groups {
			g := g
			if r.Expired() {
				r.Cap("wall-clock cap reached during the totality part: remaining groups not run")
				break
			}
			t.ord = int64(gi) << 32
			// twin groups (splitting off / on) share Unit and case numbering, so the same worker sees both
			t.runGroup(g, col, func(idx int) bool { return r.Shard(g.Unit*7 + idx/64) }, func(n int) { fmt.Printf("group %d (%s splitting=%v) case %d\n", gi, g.Name, g.Split, n) })
		}
		fileViolations(l, col)
		r.Merge(l.P)
		r.FinishWorker()
	}

	maxWF, budget, calib := calibrate()
	// the bundled client allocates a 1 MiB copy buffer for every multipart request (client/hooks.go
	// parserRequestBodyFile); with the default GC pacing that is a collection every few round trips
	gcp := 200
	if e := os.Getenv("C11_GCPERCENT"); e != "" {
		fmt.Sscan(e, &gcp)
	}
	debug.SetGCPercent(gcp)
	debug.SetMemoryLimit(4 << 30) // safety net only
	tA := time.Now()
	col := newCollector()
	sp := &sampler{}
	shapes := partA(r, col, sp)
	dA := time.Since(tA)
	tC := time.Now()
	hb := partC(r, col, sp, 1<<40)
	dC := time.Since(tC)
	tD := time.Now()
	fb := partD(r, col, sp, 1<<41)
	dD := time.Since(tD)
	tE := time.Now()
	mb := partE(r, col, sp, 1<<42)
	dE := time.Since(tE)
	if n := r.P.Counters["option_histories_not_served_by_one_pooled_ctx"]; n > 0 {
		r.Note(fmt.Sprintf("option histories: %d of %d histories were not served by one pooled ctx even after 8 attempts (a tree that does not pool contexts, or a loaded machine); they are judged all the same", n, r.P.Counters["option_histories"]))
	}
	debug.SetGCPercent(100)
	debug.FreeOSMemory() // the worker processes need the memory now
	var samplesA []any
	for _, m := range sp.s {
		samplesA = append(samplesA, m)
	}
	{
		// the lowest-ordered samples of every part / family
		by := map[string][]any{}
		for _, m := range samplesA {
			p, _ := m.(map[string]any)["part"].(string)
			by[p] = append(by[p], m)
		}
		samplesA = nil
		for _, p := range []string{"roundtrip", "history", "configuration", "combined", "envelope", "option-history"} {
			n := 2
			if p == "roundtrip" || p == "history" {
				n = 3
			}
			samplesA = append(samplesA, lowest(by[p], n)...)
		}
	}
	r.P.Samples = nil
	{
		l := core.NewLocal()
		fileViolations(l, col)
		r.Merge(l.P)
	}

	nw := runtime.NumCPU()
	tB := time.Now()
	crashed := r.SpawnWorkers(nw, []string{"GOMAXPROCS=1"}, "-allocbudget", fmt.Sprint(budget))
	r.Note(fmt.Sprintf("wall: round-trip part %.1fs, history part %.1fs, families part %.1fs and option-history part %.1fs on %d goroutines, totality part %.1fs on %d worker processes", dA.Seconds(), dC.Seconds(), dD.Seconds(), dE.Seconds(), runtime.GOMAXPROCS(0), time.Since(tB).Seconds(), nw))
	sort.Strings(crashed)
	for _, c := range crashed {
		if strings.Contains(c, "exit status 2") {
			// exit status 2 is a harness error of the worker (it left a marker) or a fatal error of the Go runtime
			// (out of memory under the address-space cap, concurrent map access ...): the latter is a finding
			var wn int
			if _, err := fmt.Sscanf(c, "worker %d:", &wn); err == nil {
				if _, err := os.Stat(filepath.Join(r.PartsDir(), fmt.Sprintf("part%d.json.harness-error", wn))); err == nil {
					core.Fatal("totality worker reported a harness error: %s", c)
				}
			} else {
				core.Fatal("totality worker reported a harness error: %s", c)
			}
		}
		// the last progress line names the group; strip the case counter to keep the signature stable
		grp := c
		if i := strings.Index(c, "last="); i >= 0 {
			grp = c[i:]
			if j := strings.LastIndex(grp, " case "); j >= 0 {
				grp = grp[:j]
			}
		}
		r.Violate("totality worker-process-died "+grp, "a worker process binding hostile input died (fatal error / out of memory / unrecovered panic)", c, c, "every request is answered")
	}
	samples := append(samplesA, lowest(r.P.Samples, 4)...)
	totalCases := 0
	for _, g := range groups {
		totalCases += g.NCases
	}
	if got := r.P.Counters["totality_requests"]; len(crashed) == 0 && len(r.P.Caps) == 0 && got != int64(2*totalCases) {
		core.Fatal("totality part ran %d requests, expected %d", got, 2*totalCases)
	}
	pb := (&tot{}).runPositions(r.Quick(), 0, nil, func(int) bool { return false })
	if len(crashed) == 0 && !noPosition && r.P.Counters["position_offender_rejected_companions_alone_accepted"] == 0 {
		core.Fatal("position family: no case in which the offending pair is rejected while its companions alone are accepted")
	}
	if r.P.Counters["roundtrips"] == 0 {
		core.Fatal("round-trip part did not run")
	}

	var alpha []string
	for _, s := range strAlpha {
		alpha = append(alpha, s.Tag)
	}
	ev := core.Evidence{
		Level:      "exploration",
		Exhaustive: true,
		Coverage: map[string]any{
			"evaluations":         r.P.Counters["evaluations"],
			"distinct_nontrivial": r.P.Counters["nontrivial"],
			"unspecified_skipped": r.P.Counters["unspecified_skipped"],
			"samples":             samples,
			"rule": fmt.Sprintf("Part A: every value of S1{Str,Strs} (%d values: Str over %d strings x Strs over all lists of length <= 2 (quick: <= 1, plus length 2 over 8 symbols) + lists of length 3 over 6 symbols (thorough) + a 40-element list + the empty non-nil slice) and of S2{I,I8,U,U32,F64,F32,B,Is,Fs,Bs,Us,F32s} (%d values: scalar product x 3 slice configurations, plus scalar base points x product of the slice lists) "+
				"is sent with the bundled client's struct API of each of the 8 sources under splitting{off,on} x auto-handling{off,on} x {per-source bind method, Bind().Body() for body carriers} and compared with the struct decoded in the handler; pairs the carrier cannot legally transport, and comma-containing values under splitting, are skipped and counted; a case is non-trivial when the sent struct holds something an encoder/decoder pair can get wrong (a string that is empty or has a byte outside [A-Za-z0-9], a non-empty slice, a number at a type limit / non-integral / beyond 2^53). "+
				"Part C (client-side histories): every ordered pair over %d S1 and %d S2 history values (Str in {empty, a, %%41} x Strs in {nil, empty non-nil, [empty string], 1, 2, 3 elements}; scalars jointly {zero, small, extreme} x slices jointly {nil, empty non-nil, one zero element, one non-zero element, two elements}) and every ordered triple over %d / %d of them is configured into ONE client-side container of every carrier that has one - the same Request object (struct setter applied 2-3 times, one send), the client-wide defaults (updated 2-3 times, a bare request after every update), consecutive requests from one client's request pool, and a Request whose body was first set through another body carrier - and the struct decoded by the server is compared with the value configured LAST; a failure that the same value shows on a fresh request is filed under the part-A signature; non-trivial = two consecutive steps configure different values. "+
				"Declaration family (part A): two more shapes, T1 (%d values: every field with a different name per carrier through param/query/form/header/cookie/json/xml/cbor tags, two string fields and the int / []int fields with CROSSED names, one untagged field) and K1 (%d values: int, int16, int32, uint, uint8, uint16, slices of int8..uint32, a string, an unexported field) run through the same product, and for every shape extra variants in which the client is handed a POINTER to the struct. "+
				"Part D (families over compact value sets of all four shapes, %d+%d+%d+%d values): configuration - %d station flavors with a configuration field that is redundant for binding (accept-all StructValidator, Immutable, StreamRequestBody, explicit default codecs, custom binders registered for %d neighbour MIME types of the standard ones, a custom binder serving application/json; each alone and all together) x carriers x splitting x auto x {direct, Body()}; combined - one request carries a different value in query, header, cookie and one of {no body, form, multipart, json, xml, cbor} (every (query value, body value) pair, header and cookie values rotated) and the handler runs a bind program on it (%d programs for four carriers: an adjacency-covering set of bind orders - thorough: all permutations, body step direct and through Body() - every source bound twice, body bound through Body() and directly in both orders), every bind judged against the value put into ITS source; envelope - the struct travels in a request that also has one of %d envelope options (URL with own query / fragment, client base URL, unrelated param / header / cookie / form field on the Request before or after the struct setter or client-wide, User-Agent + Referer, cookie jar with a cookie for this and for another host, methods PUT / PATCH / DELETE / POST, everything at once). A family failure that the same value shows alone on a plain fresh request is filed under the part-A signature. "+
				"Part E (server-side option histories): every ordered pair over %d request kinds = {manual handling by default, manual handling spelled WithoutAutoHandling, WithAutoHandling} x %d bind calls (the 8 per-source methods, Body() for the 5 body carriers, Custom(name) of a registered custom binder) x {input that binds, input that cannot bind} and every ordered triple over %d of them is served, request after request, by ONE application (one pooled ctx; a history the pool moved to another ctx is run again) and every request is compared - error presence, error kind (*fiber.Error and its code / the binder's own error), response status at the moment Bind returns, answer status, error text, decoded value - with the same request as the FIRST request of a fresh application, which is itself judged against the statement (manual: own error and untouched status; automatic: *fiber.Error 400). "+
				"Part B: %d groups (5 key-value carriers x 9 bind targets x splitting - S1, S2, S3, two string maps over the 31 hostile keys; S4 (embedded struct, unexported fields, pointers, array, interface, nested slices, time, file headers, slices of structs, bytes, a tagged field), the tagged T1, map[string]any and map[string]int over 38 keys that resolve against those declarations; in the multipart carrier every key also as a FILE part; 5 body bind calls x 10 content types x 3 targets) each over all single hostile components and all ordered pairs of them, each request run with manual and automatic handling, judged for panic / error / status / paired consistency / allocation; non-trivial = the request got past the HTTP parser and reached the binder. "+
				"Position family (part B): %d cases = 9 targets x splitting x %d offending pairs (keys with unmatched square brackets, values that cannot be the type of a known scalar field, index / depth / dotted keys without a reference verdict) x every ordered list of 1..%d distinct accepted companion pairs (of %d) not touching the offender's field; each case sends, in each of %d carriers (query and url-encoded form with raw and with percent-encoded keys, multipart, headers, cookies), the companions alone and the offender inserted at every position (first / middle / last), under manual and automatic handling; judged: an offender with a reference verdict is an error at every position, the verdict does not depend on the position, query / form / multipart agree on the same pairs, plus the panic / status / paired-consistency rules.",
				len(shapes[0].Values), len(strAlpha), len(shapes[1].Values), hb.H1Values, hb.H2Values, hb.H1TripleValues, hb.H2TripleValues,
				len(shapes[2].Values), len(shapes[3].Values), hb.H1Values, hb.H2Values, len(t1Compact()), len(k1Compact()), fb.Flavors, len(neighbourMIMEs), fb.ComboPrograms, fb.EnvOptions, mb.Steps, mb.Calls, mb.TripleSteps, len(groups),
				pb.Cases, pb.Offenders, pb.MaxCompanions, pb.Companions, pb.Carriers),
			"bounds": map[string]any{
				"string_alphabet": alpha, "s1_values": len(shapes[0].Values), "s2_values": len(shapes[1].Values),
				"hostile_keys": len(hostileKeys), "hostile_keys_rich_targets": len(richKeys), "totality_targets": len(targets), "hostile_values": len(hostileVals), "hostile_body_fragments": len(bodyFrags), "content_types": len(ctypes),
				"history_values_s1": hb.H1Values, "history_values_s2": hb.H2Values, "history_pairs": hb.Pairs, "history_triples": hb.Triples, "history_max_steps": 3,
				"history_container_x_carrier_cells": hb.Cells, "histories_run": r.P.Counters["histories"], "history_requests_sent": r.P.Counters["history_sends"],
				"t1_values": len(shapes[2].Values), "k1_values": len(shapes[3].Values), "roundtrips_pointer_argument": r.P.Counters["roundtrips_pointer_argument"],
				"cfg_flavors": fb.Flavors, "cfg_neighbour_mime_types": len(neighbourMIMEs), "cfg_roundtrips": fb.CfgCases,
				"combined_requests": fb.ComboRequests, "combined_binds": r.P.Counters["combined_binds"], "combined_programs_four_carriers": fb.ComboPrograms,
				"envelope_options": fb.EnvOptions, "envelope_requests": fb.EnvCases,
				"option_history_request_kinds": mb.Steps, "option_history_bind_calls": mb.Calls, "option_history_pairs": mb.Pairs, "option_history_triple_request_kinds": mb.TripleSteps, "option_history_triples": mb.Triples,
				"option_histories_run": r.P.Counters["option_histories"],
				"position_cases":       pb.Cases, "position_requests": r.P.Counters["position_requests"], "position_offenders": pb.Offenders, "position_companions": pb.Companions, "position_max_companions_per_request": pb.MaxCompanions, "position_carriers": pb.Carriers,
				"position_offender_rejected_companions_alone_accepted": r.P.Counters["position_offender_rejected_companions_alone_accepted"],
				"max_components_per_hostile_request":                   2, "totality_groups": len(groups), "totality_cases": totalCases,
				"alloc_budget_bytes": budget, "alloc_max_wellformed_bytes": maxWF, "alloc_wellformed_calibration": calib,
				"alloc_rule": "budget = 64 x the largest TotalAlloc delta of a well-formed request (40-element slices, 300-byte strings) over all carriers, at least 1 MiB, rounded up to a power of two; measured per batch of 64 request pairs and per request when a batch exceeds it",
			},
		},
		Assumptions: []string{
			"the in-memory fasthttp.RoundTripper writes the request with Request.Write and reads the answer with Response.Read exactly as fasthttp's own transport does; connection management of the client is not exercised",
			"header structs are sent with client.SetValWithStruct (the exported encoder behind the *WithStruct request methods) feeding Request.AddHeader, because Request has no header struct method",
			"multipart is what the client produces for form data plus one attached file",
			"declaration family: a struct shared by client and server names a field identically under the client's tag and the binder's tag of a carrier (param + query, form, cookie, header, json, xml, cbor); tag options (omitempty, required, default) and the '-' name are not used",
			"combined / envelope / configuration families: keys the shape does not declare (companion parameters, headers, cookies, form fields; the other carriers' keys) are ignored by the binder (its documented default) and do not change the bound value",
			"histories: headers have no struct setter (Request or Client) and take part only in the consecutive-pooled-requests histories; a value set client-wide combined with a different value on the request, and a Request object sent twice, are outside the statement (the client merges / accumulates) and are not judged",
			"carrier legality: header values without CR/LF/NUL/edge whitespace; cookie values of RFC 6265 cookie-octets; JSON/CBOR valid UTF-8; XML 1.0 Char; JSON cannot carry infinities",
			"equality: numeric == on numbers (so -0 equals 0), byte equality on strings, nil and empty slices identified; NaN is not in the alphabet",
			"totality: which inputs MUST fail is judged only for values that cannot be the type of a known scalar field, for keys whose square brackets do not match in the carriers with bracket notation (query, form, multipart; binder/mapping.go reports 'unmatched brackets') and for bodies the documented codec (encoding/json, encoding/xml, fxamacker/cbor) rejects or a content type Body() does not list; elsewhere only panic / status / paired-consistency / allocation are judged",
			"allocation is runtime.MemStats.TotalAlloc in a GOMAXPROCS=1 worker process that runs nothing else",
		},
		MinOutcomes: 6,
	}
	if os.Getenv("C11_DEBUG") != "" {
		fmt.Fprintf(os.Stderr, "calibration: max=%d budget=%d %v\n", maxWF, budget, calib)
	}
	r.Finish(ev)
}
