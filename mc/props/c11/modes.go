// Part E (server-side option histories): the binding helper (c.Bind()) and the options a handler gives it for ONE
// request - automatic handling on (WithAutoHandling), manual handling by default (nothing said), manual handling
// spelled out (WithoutAutoHandling), the bind call (per-source method, Body(), Custom(name)) - live on the ctx, and
// the ctx is pooled. A history is two or three consecutive requests served by ONE application (so, served one after
// the other, by one pooled ctx) in which every request chooses its own options, bind call and input (one that binds,
// one that cannot bind); the statement's "reports failure as an error (a 400 when automatic handling is on)" is a
// statement about each request on its own, so every request of the history must be observed exactly as the same
// request is observed when it is the FIRST request of a fresh application:
//
//	manual handling     the handler gets the binder's own error, the response status is untouched when Bind returns
//	automatic handling  the handler gets a *fiber.Error with code 400 and the status is already 400
//	input that binds    no error, status untouched, the decoded value
//
// (the three rules are checked on the fresh application too, so the reference itself is judged.)
package main

import (
	"encoding/json"
	"errors"
	"fmt"

	"github.com/gofiber/fiber/v3"

	"verifmc/core"
)

type hmode int

const (
	hmLegacy hmode = iota // ctl.auto / ctl.manualExplicit decide (all other parts)
	hmManualDefault
	hmManualExplicit
	hmAuto
)

var hmNames = [...]string{"legacy", "manual(default)", "manual(WithoutAutoHandling)", "auto(WithAutoHandling)"}

func (m hmode) String() string { return hmNames[m] }

const customBinderName = "c11-by-name"

// byNameBinder is reachable through Bind().Custom(name) only: its MIME type is one no request carries.
type byNameBinder struct{}

func (byNameBinder) Name() string                     { return customBinderName }
func (byNameBinder) MIMETypes() []string              { return []string{"application/x-c11-by-name"} }
func (byNameBinder) Parse(c fiber.Ctx, out any) error { return json.Unmarshal(c.Body(), out) }

func newModeStation(split bool) *station {
	st := newStation(split)
	st.app.RegisterCustomBinder(byNameBinder{})
	return st
}

// ocall: how the handler binds.
type ocall struct {
	Kind    string // per-source | Body() | Custom()
	Tag     string
	src     source
	viaBody bool
	custom  string
}

type ostep struct {
	mode hmode
	call ocall
	bad  bool // the input cannot bind (a word where the int field I of S2 is expected)
	req  []byte
}

func (s ostep) inputClass() string {
	if s.bad {
		return "unbindable"
	}
	return "bindable"
}

func (s ostep) lit() string {
	return fmt.Sprintf("%s %s %s-input", s.mode, s.call.Tag, s.inputClass())
}

func ctypeByTag(tag string) ctypeSym {
	for _, c := range ctypes {
		if c.Tag == tag {
			return c
		}
	}
	core.Fatal("option histories: unknown content type tag %q", tag)
	return ctypeSym{}
}

// optionRequest renders the raw request that carries I=7 (bindable) or I=x (unbindable) for the call.
func optionRequest(c ocall, bad bool) []byte {
	val := sym{"one", "7"}
	if bad {
		val = sym{"x", "x"}
	}
	var jv any = 7
	if bad {
		jv = "x"
	}
	switch c.src {
	case srcQuery, srcHeader, srcCookie, srcMultipart:
		return buildKV(c.src, []kv{{sym{"known-int", "I"}, val}})
	case srcForm:
		return buildBody(ctypeByTag("form"), "I="+val.V)
	case srcJSON:
		b, _ := json.Marshal(map[string]any{"I": jv})
		return buildBody(ctypeByTag("json"), string(b))
	case srcXML:
		return buildBody(ctypeByTag("xml"), "<S2><I>"+val.V+"</I></S2>")
	case srcCBOR:
		return buildBody(ctypeByTag("cbor"), cborOf(map[string]any{"I": jv}))
	}
	core.Fatal("option histories: no request for %v", c)
	return nil
}

func optionCalls() (all, reduced, mid []ocall) {
	for src := source(0); src < nSources; src++ {
		all = append(all, ocall{Kind: "per-source", Tag: "Bind()." + methodName(src), src: src})
	}
	for _, src := range []source{srcForm, srcMultipart, srcJSON, srcXML, srcCBOR} {
		all = append(all, ocall{Kind: "Body()", Tag: "Bind().Body()/" + src.String(), src: src, viaBody: true})
	}
	all = append(all, ocall{Kind: "Custom()", Tag: "Bind().Custom(name)", src: srcJSON, custom: customBinderName})
	for _, c := range all {
		switch {
		case c.Kind == "Custom()", c.Kind == "Body()" && c.src == srcJSON, c.Kind == "per-source" && c.src == srcQuery:
			reduced = append(reduced, c)
			mid = append(mid, c)
		case c.Kind == "Body()" && c.src == srcForm, c.Kind == "per-source" && (c.src == srcHeader || c.src == srcJSON):
			mid = append(mid, c)
		}
	}
	return
}

func methodName(src source) string {
	switch src {
	case srcQuery:
		return "Query()"
	case srcForm:
		return "Form()/urlencoded"
	case srcMultipart:
		return "Form()/multipart"
	case srcHeader:
		return "Header()"
	case srcCookie:
		return "Cookie()"
	case srcJSON:
		return "JSON()"
	case srcXML:
		return "XML()"
	case srcCBOR:
		return "CBOR()"
	}
	return "?"
}

func optionSteps(calls []ocall) []ostep {
	var out []ostep
	for _, m := range []hmode{hmManualDefault, hmManualExplicit, hmAuto} {
		for _, c := range calls {
			for _, bad := range []bool{false, true} {
				out = append(out, ostep{mode: m, call: c, bad: bad, req: optionRequest(c, bad)})
			}
		}
	}
	return out
}

// oseen: everything the harness observes about one request of an option history.
type oseen struct {
	Calls     int
	Panicked  string
	HasErr    bool
	ErrKind   string // "" | binder's-own-error | *fiber.Error(<code>)
	ErrText   string
	AfterBind int // response status when Bind returned
	Final     int // status of the answer
	Decoded   string
}

func (o oseen) asMap() map[string]any {
	return map[string]any{"handler_calls": o.Calls, "panic": o.Panicked, "bind_error": o.HasErr, "error_kind": o.ErrKind, "error_text": clip(o.ErrText, 160),
		"status_when_bind_returned": o.AfterBind, "answer_status": o.Final, "decoded": o.Decoded}
}

func (st *station) runStep(s ostep) (oseen, uintptr) {
	st.ctl = ctl{src: s.call.src, viaBody: s.call.viaBody, custom: s.call.custom, mode: s.mode, newDst: func() any { return new(S2) }}
	status, _, pan := st.raw(s.req)
	o := oseen{Calls: st.obs.calls, Panicked: pan, Final: status, AfterBind: st.obs.afterBind, Decoded: goLit(st.obs.got)}
	if err := st.obs.err; err != nil {
		o.HasErr, o.ErrText, o.ErrKind = true, err.Error(), "binder's-own-error"
		var fe *fiber.Error
		if errors.As(err, &fe) {
			o.ErrKind = fmt.Sprintf("*fiber.Error(%d)", fe.Code)
		}
	}
	return o, st.obs.ctxID
}

// differs names the first aspect in which a request of a history is not observed as on the fresh application.
func (o oseen) differs(ref oseen) string {
	switch {
	case o.Panicked != ref.Panicked:
		return "panic"
	case o.Calls != ref.Calls:
		return "handler-calls"
	case o.HasErr != ref.HasErr:
		return "error-presence"
	case o.ErrKind != ref.ErrKind:
		return "error-kind"
	case o.AfterBind != ref.AfterBind:
		return "status-when-bind-returned"
	case o.Final != ref.Final:
		return "answer-status"
	case o.ErrText != ref.ErrText:
		return "error-text"
	case o.Decoded != ref.Decoded:
		return "decoded-value"
	}
	return ""
}

// lawBroken judges ONE request against the statement (used on the fresh application).
func (s ostep) lawBroken(o oseen) string {
	switch {
	case o.Panicked != "":
		return "panic"
	case o.Calls != 1:
		return "handler-calls"
	case !s.bad:
		if o.HasErr {
			return "error-for-bindable-input"
		}
		if o.AfterBind != 200 || o.Final != 200 {
			return "status-without-error"
		}
		if o.Decoded != goLit(S2{I: 7}) {
			return "decoded-value"
		}
	case !o.HasErr:
		return "no-error-for-unbindable-input"
	case s.mode == hmAuto:
		if o.ErrKind != "*fiber.Error(400)" {
			return "auto-error-kind"
		}
		if o.AfterBind != 400 || o.Final != 400 {
			return "auto-status"
		}
	default:
		if o.ErrKind != "binder's-own-error" {
			return "manual-error-kind"
		}
		if o.AfterBind != 200 {
			return "manual-status-touched"
		}
		if o.Final != manualStatus {
			return "harness"
		}
	}
	return ""
}

type modeBounds struct {
	Calls, Steps, TripleSteps, Pairs, Triples int
}

func partE(r *core.Run, col *collector, sp *sampler, ordBase int64) modeBounds {
	all, reduced, mid := optionCalls()
	steps := optionSteps(all)
	tcalls := mid
	if r.Quick() {
		tcalls = reduced
	}
	tsteps := optionSteps(tcalls)
	mb := modeBounds{Calls: len(all), Steps: len(steps), TripleSteps: len(tsteps), Pairs: len(steps) * len(steps), Triples: len(tsteps) * len(tsteps) * len(tsteps)}

	// reference: every step as the first request of a fresh application
	key := func(s ostep, split bool) string { return fmt.Sprintf("%s split=%v", s.lit(), split) }
	ref := map[string]oseen{}
	{
		l := core.NewLocal()
		ord := ordBase
		for _, split := range []bool{false, true} {
			for _, s := range steps {
				o, _ := newModeStation(split).runStep(s)
				ref[key(s, split)] = o
				l.Add("evaluations", 1)
				l.Add("nontrivial", 1)
				l.Add("option_history_fresh_application_references", 1)
				ord++
				law := s.lawBroken(o)
				if law == "harness" {
					core.Fatal("option histories: fresh application, %s: %+v", s.lit(), o)
				}
				if law == "" {
					l.Outcome(fmt.Sprintf("E fresh %s %s as-stated", s.mode, s.inputClass()))
					continue
				}
				l.Outcome(fmt.Sprintf("E fresh %s %s %s", s.mode, s.inputClass(), law))
				col.add(fmt.Sprintf("option-history fresh-application %s mode=%s call-kind=%s input=%s", law, s.mode, s.call.Kind, s.inputClass()), split, ord,
					"the first request of a fresh application is not answered as the statement says for its handling mode ("+law+")",
					map[string]any{"splitting": split, "request": s.lit(), "raw_request": clip(string(s.req), 300)}, o.asMap(),
					"bindable input: no error, status untouched, I=7; unbindable input: manual handling - the binder's own error and an untouched status when Bind returns; automatic handling - *fiber.Error 400 and status 400")
			}
		}
		r.Merge(l.P)
	}

	type item struct {
		steps []ostep
		n     int // history length
		first int
		ord   int64
	}
	var items []item
	ord := ordBase + 1<<20
	for i := range steps {
		items = append(items, item{steps, 2, i, ord})
		ord += int64(len(steps)) * 2
	}
	for i := range tsteps {
		items = append(items, item{tsteps, 3, i, ord})
		ord += int64(len(tsteps)*len(tsteps)) * 2
	}
	r.Parallel(len(items), func(ii int, l *core.Local) {
		if r.Expired() {
			r.Cap("wall-clock cap reached during the option-history part: remaining histories not run")
			return
		}
		it := items[ii]
		sts := [2]*station{newModeStation(false), newModeStation(true)}
		mine := newCollector()
		rest := sequencesIdx(len(it.steps), it.n-1)
		// everything each pooled ctx served so far, in order (the requests one ctx serves are one long history)
		served := map[uintptr][]ostep{}
		for hi, tail := range rest {
			hist := []ostep{it.steps[it.first]}
			for _, j := range tail {
				hist = append(hist, it.steps[j])
			}
			for si, st := range sts {
				split := si == 1
				caseOrd := it.ord + int64(hi)*2 + int64(si)
				var seen []oseen
				var before [][]ostep // per request of the history: what its ctx had served before it
				oneCtx := false
				// the pool hands the ctx of the previous request to the next one served on the same processor; a
				// history that was moved in between is run again
				for try := 0; try < 8 && !oneCtx; try++ {
					seen, before = seen[:0], before[:0]
					oneCtx = true
					var id uintptr
					for k, s := range hist {
						o, cid := st.runStep(s)
						seen = append(seen, o)
						before = append(before, served[cid])
						served[cid] = append(served[cid], s)
						if k > 0 && o.Calls > 0 && cid != id {
							oneCtx = false
						}
						id = cid
					}
				}
				l.Add("option_histories", 1)
				l.Add("evaluations", int64(len(hist)))
				l.Add("nontrivial", int64(len(hist)))
				if !oneCtx {
					l.Add("option_histories_not_served_by_one_pooled_ctx", 1)
				}
				bad := -1
				aspect := ""
				for k, s := range hist {
					if a := seen[k].differs(ref[key(s, split)]); a != "" {
						bad, aspect = k, a
						break
					}
				}
				if bad < 0 {
					l.Outcome(fmt.Sprintf("E history len=%d last=%s/%s as-on-fresh-application", len(hist), hist[len(hist)-1].mode, hist[len(hist)-1].inputClass()))
					if caseOrd%4099 == 11 {
						sp.add(caseOrd, map[string]any{"part": "option-history", "splitting": split, "requests": histLit(hist), "last_request_observed": seen[len(seen)-1].asMap(), "one_pooled_ctx": oneCtx})
					}
					continue
				}
				js := hist[bad]
				l.Outcome(fmt.Sprintf("E history len=%d judged=%s/%s %s", len(hist), js.mode, js.inputClass(), aspect))
				// the earlier request whose options differ from the judged one's (the candidate origin)
				earlier := "same-options"
				chain := before[bad]
				if len(chain) == 0 {
					earlier = "none"
				}
				for k := len(chain) - 1; k >= 0; k-- {
					if chain[k].mode != js.mode {
						earlier = "mode=" + chain[k].mode.String()
						break
					}
					if chain[k].call.Tag != js.call.Tag && earlier == "same-options" {
						earlier = "call-kind=" + chain[k].call.Kind
					}
				}
				sig := fmt.Sprintf("option-history %s judged: mode=%s call-kind=%s input=%s earlier-request: %s", aspect, js.mode, js.call.Kind, js.inputClass(), earlier)
				mine.add(sig, split, caseOrd, "a request served after other requests of the same application (one pooled ctx) that chose other Bind options is not observed as the same request on a fresh application ("+aspect+")",
					map[string]any{"splitting": split, "requests_in_order": histLit(hist), "judged_request": bad + 1, "served_by_one_pooled_ctx": oneCtx, "raw_request_judged": clip(string(js.req), 300)},
					map[string]any{"in_history": seen[bad].asMap(), "on_fresh_application": ref[key(js, split)].asMap()},
					"every request is observed as on a fresh application: manual handling - the binder's own error, status untouched when Bind returns; automatic handling - *fiber.Error 400")
			}
		}
		col.mergeFrom(mine)
	})
	return mb
}

func histLit(h []ostep) []string {
	out := make([]string, len(h))
	for i, s := range h {
		out[i] = s.lit()
	}
	return out
}

// sequencesIdx: all ordered n-tuples over 0..m-1.
func sequencesIdx(m, n int) [][]int {
	out := [][]int{nil}
	for i := 0; i < n; i++ {
		var next [][]int
		for _, p := range out {
			for v := 0; v < m; v++ {
				next = append(next, append(append([]int(nil), p...), v))
			}
		}
		out = next
	}
	return out
}
