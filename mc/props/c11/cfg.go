// Redundant-configuration family (audit round 5): the statement quantifies the server configuration over
// {EnableSplittingOnParsers, automatic handling}; every OTHER configuration field that the binding path reads
// must leave the bound value alone when it is set to something that cannot matter:
//
//	validator   Config.StructValidator set to a validator that accepts everything
//	immutable   Config.Immutable
//	stream      Config.StreamRequestBody
//	codecs      Config.JSONDecoder / XMLDecoder / CBORDecoder set explicitly to the documented defaults
//	neighbours  custom binders registered for MIME types that are NEIGHBOURS of the five standard ones (strict
//	            prefixes, extensions, wildcards, bare sub-types): Bind().Body() must never select one of them
//	            for a request of the bundled client (they answer with a marker error)
//	serves-json a custom binder registered for application/json itself (custom binders take precedence by the
//	            documentation) that decodes with encoding/json: Bind().Body() answers through it
//
// Every single option and all of them together form one "flavor" of station; the compact value sets of all
// four shapes are round-tripped through every carrier on every flavor.
package main

import (
	"encoding/json"
	"encoding/xml"
	"errors"
	"strings"

	"github.com/fxamacker/cbor/v2"
	"github.com/gofiber/fiber/v3"
)

type flavor uint

const (
	optValidator flavor = 1 << iota
	optImmutable
	optStream
	optCodecs
	optNeighbours
	optServesJSON
	optLazyMultipart
	optReduceMemory
	optNoHeaderNormalizing
	flvPlain flavor = 0
	flvAll   flavor = optValidator | optImmutable | optStream | optCodecs | optNeighbours | optServesJSON | optLazyMultipart | optReduceMemory | optNoHeaderNormalizing
)

var optNames = []struct {
	f flavor
	n string
}{{optValidator, "validator"}, {optImmutable, "immutable"}, {optStream, "stream-body"}, {optCodecs, "explicit-codecs"}, {optNeighbours, "neighbour-custom-binders"}, {optServesJSON, "custom-binder-serves-json"},
	{optLazyMultipart, "multipart-parsed-lazily"}, {optReduceMemory, "reduce-memory-usage"}, {optNoHeaderNormalizing, "no-header-normalizing"}}

func (f flavor) String() string {
	if f == flvPlain {
		return "plain"
	}
	var out []string
	for _, o := range optNames {
		if f&o.f != 0 {
			out = append(out, o.n)
		}
	}
	return strings.Join(out, "+")
}

// flavors: every single option, and all together.
func flavors() []flavor {
	var out []flavor
	for _, o := range optNames {
		out = append(out, o.f)
	}
	return append(out, flvAll)
}

type acceptAll struct{ st *station }

func (a acceptAll) Validate(any) error { a.st.obs.validated++; return nil }

var errNeighbourSelected = errors.New("harness: a custom binder registered for ANOTHER mime type was selected")

// neighbourMIMEs: registered MIME types that no request of the bundled client carries.
var neighbourMIMEs = []string{
	"application", "application/", "application/x", "application/js", "application/jsonp", "application/json5", "application/json-seq",
	"application/xm", "application/xml-dtd", "application/cbo", "application/cbor-seq", "application/x-www-form", "application/x-www-form-urlencoded2",
	"multipart", "multipart/form", "multipart/form-data-x", "multipart/mixed", "text", "text/xm", "text/xmlx", "text/plain",
	"application/*", "multipart/*", "*/*", "json", "xml", "cbor", "form-data",
}

type neighbourBinder struct{}

func (neighbourBinder) Name() string               { return "c11-neighbour" }
func (neighbourBinder) MIMETypes() []string        { return neighbourMIMEs }
func (neighbourBinder) Parse(fiber.Ctx, any) error { return errNeighbourSelected }

type jsonServingBinder struct{}

func (jsonServingBinder) Name() string                     { return "c11-json" }
func (jsonServingBinder) MIMETypes() []string              { return []string{"application/json"} }
func (jsonServingBinder) Parse(c fiber.Ctx, out any) error { return json.Unmarshal(c.Body(), out) }

func (f flavor) apply(st *station, cfg *fiber.Config) {
	if f&optValidator != 0 {
		cfg.StructValidator = acceptAll{st}
	}
	if f&optImmutable != 0 {
		cfg.Immutable = true
	}
	if f&optStream != 0 {
		cfg.StreamRequestBody = true
	}
	if f&optLazyMultipart != 0 {
		cfg.DisablePreParseMultipartForm = true // the form is parsed when the binder asks for it, not by the server
	}
	if f&optReduceMemory != 0 {
		cfg.ReduceMemoryUsage = true
	}
	if f&optNoHeaderNormalizing != 0 {
		cfg.DisableHeaderNormalizing = true
	}
	if f&optCodecs != 0 {
		cfg.JSONDecoder = json.Unmarshal
		cfg.XMLDecoder = xml.Unmarshal
		cfg.CBORDecoder = cbor.Unmarshal
	}
}

func (f flavor) register(_ *station, app *fiber.App) {
	if f&optNeighbours != 0 {
		app.RegisterCustomBinder(neighbourBinder{})
	}
	if f&optServesJSON != 0 {
		app.RegisterCustomBinder(jsonServingBinder{})
	}
}
