// Part C (client-side configuration histories): the value that reaches the server is not only a function of
// the last struct handed to the client but also of what the same client-side container held before. A
// history configures ONE container two or three times with different values of the history alphabet
// (empty <-> non-empty slices, nil <-> empty non-nil slices, empty <-> non-empty strings, zero <-> non-zero
// <-> extreme numbers, false <-> true) and sends; the oracle is unchanged: the server binds the value that
// was configured LAST (for containers that are sent after every step: the value of that step).
//
// Containers:
//
//	request  one Request object, the source's struct setter applied n times, then one send
//	         (query, form, multipart, cookie: Request.Set*WithStruct; json / xml / cbor: Request.SetJSON /
//	         SetXML / SetCBOR n times; headers have no struct setter on the Request)
//	client   client-wide defaults (Client.SetParamsWithStruct, Client.SetCookiesWithStruct) updated n times
//	         with a bare request sent after every update
//	pooled   one client, n consecutive requests from Client.R() (each released to the request pool by
//	         Response.Close before the next is acquired), each carrying its own value; in two more variants
//	         the last request sends a struct that has only the scalar / only the slice fields of the shape
//	         (same field names), so that keys the previous user of the pooled object set are NOT overwritten:
//	         the server must bind the zero value for them
//	resent   one Request object kept by the caller: configured, sent, configured again, sent again
//	switch   one Request object whose body was first configured with ANOTHER body carrier's setter
package main

import (
	"fmt"
	"math"
	"os"
	"reflect"
	"strings"

	"github.com/gofiber/fiber/v3/client"

	"verifmc/core"
)

type hcontainer int

const (
	hRequest hcontainer = iota
	hClient
	hPooled
	hPooledScalars // as pooled, but the LAST request sends only the scalar fields of its value
	hPooledSlices  // as pooled, but the LAST request sends only the slice fields of its value
	hResent
	hSwitch
	nContainers
)

var hcNames = [...]string{"request", "client", "pooled", "pooled-last-sends-scalar-fields-only", "pooled-last-sends-slice-fields-only", "resent", "switch"}

func (h hcontainer) String() string { return hcNames[h] }

// hasContainer: which (container, carrier) pairs exist in the client's API.
func hasContainer(h hcontainer, src source) bool {
	switch h {
	case hPooled:
		return true
	case hPooledScalars, hPooledSlices:
		// key/value carriers: what the previous user of the pooled Request object left under keys the next
		// request does not set would reach the server (a whole-body codec cannot leak single fields)
		return !src.isBody() || src == srcForm || src == srcMultipart
	case hRequest:
		// the Request has no struct setter for headers. (Filling one exported client.Header container twice with
		// client.SetValWithStruct was tried: fasthttp's RequestHeader.Del is not order-preserving - it swaps the
		// deleted entry with the last one - so the elements of OTHER multi-valued headers change places. That is a
		// property of a construction the client's API does not offer, not of struct sending; see the report.)
		return src != srcHeader
	case hClient:
		// the Client has struct setters for query parameters and cookies only (and path parameters, which
		// are not a bind source of the statement); client-wide headers have neither a struct setter nor a delete
		return src == srcQuery || src == srcCookie
	case hResent:
		return resentEnabled && src != srcHeader // a Request has no way to delete a header it holds
	case hSwitch:
		return src == srcForm || src == srcJSON || src == srcXML || src == srcCBOR
	}
	return false
}

// resentEnabled: a Request object kept by the caller and sent twice is a use neither the statement nor the client
// documentation speaks about; on the unchanged tree it does NOT deliver the last value (RawRequest is not reset
// between sends: multipart bodies are appended, removed cookies stay - repro_resent_request.go.txt). The container
// is explored on demand only (C11_RESENT=1) until that is classified.
var resentEnabled = os.Getenv("C11_RESENT") != ""

// ---------------------------------------------------------------------------
// history alphabet

func h1Values(quickTriples bool) []any {
	strs := []string{"", "a", "%41"}
	lists := [][]string{nil, {}, {""}, {"a"}, {"b", "a"}, {"", "a", "%41"}}
	if quickTriples {
		strs = []string{"", "a"}
		lists = [][]string{nil, {""}, {"b", "a"}}
	}
	var out []any
	for _, s := range strs {
		for _, l := range lists {
			out = append(out, S1{Str: s, Strs: l})
		}
	}
	return out
}

func h2Values(quickTriples bool) []any {
	scalars := []S2{
		{},
		{I: 1, I8: 1, U: 1, U32: 1, F64: 1.5, F32: -0.1, B: true},
		{I: math.MinInt64, I8: -128, U: math.MaxUint64, U32: math.MaxUint32, F64: math.MaxFloat64, F32: math.MaxFloat32, B: true},
	}
	slices := []S2{
		{},
		{Is: []int{}, Fs: []float64{}, Bs: []bool{}, Us: []uint64{}, F32s: []float32{}},
		{Is: []int{0}, Fs: []float64{0}, Bs: []bool{false}, Us: []uint64{0}, F32s: []float32{0}},
		{Is: []int{-1}, Fs: []float64{-0.1}, Bs: []bool{true}, Us: []uint64{math.MaxUint64}, F32s: []float32{-0.1}},
		{Is: []int{math.MinInt, 1}, Fs: []float64{1.5, math.SmallestNonzeroFloat64}, Bs: []bool{true, false}, Us: []uint64{0, 7}, F32s: []float32{math.MaxFloat32, 2}},
	}
	if quickTriples {
		scalars = scalars[:2]
		slices = []S2{slices[0], slices[2], slices[4]}
	}
	var out []any
	for _, sc := range scalars {
		for _, c := range slices {
			v := sc
			v.Is, v.Fs, v.Bs, v.Us, v.F32s = c.Is, c.Fs, c.Bs, c.Us, c.F32s
			out = append(out, v)
		}
	}
	return out
}

// sequences returns all ordered n-tuples over vals (repetitions included: re-applying the same value is a history too).
func sequences(vals []any, n int) [][]any {
	out := [][]any{nil}
	for i := 0; i < n; i++ {
		var next [][]any
		for _, p := range out {
			for _, v := range vals {
				next = append(next, append(append([]any(nil), p...), v))
			}
		}
		out = next
	}
	return out
}

func fieldNames(v any) []string {
	t := reflect.Indirect(reflect.ValueOf(v)).Type()
	var out []string
	for i := 0; i < t.NumField(); i++ {
		out = append(out, t.Field(i).Name)
	}
	return out
}

// projections of the shapes: structs with a subset of the fields (same names and types)

type S1Scalars struct{ Str string }
type S1Slices struct{ Strs []string }
type S2Scalars struct {
	I   int64
	I8  int8
	U   uint64
	U32 uint32
	F64 float64
	F32 float32
	B   bool
}
type S2Slices struct {
	Is   []int
	Fs   []float64
	Bs   []bool
	Us   []uint64
	F32s []float32
}

// project returns the struct to hand to the client (only the scalar / only the slice fields of v) and the value
// the server is expected to bind into the full shape (the other fields zero).
func project(v any, slices bool) (send, expect any) {
	a := reflect.ValueOf(v)
	var n reflect.Value
	switch v.(type) {
	case S1:
		if slices {
			n = reflect.New(reflect.TypeOf(S1Slices{})).Elem()
		} else {
			n = reflect.New(reflect.TypeOf(S1Scalars{})).Elem()
		}
	case S2:
		if slices {
			n = reflect.New(reflect.TypeOf(S2Slices{})).Elem()
		} else {
			n = reflect.New(reflect.TypeOf(S2Scalars{})).Elem()
		}
	default:
		core.Fatal("project: unknown shape %T", v)
	}
	e := reflect.New(a.Type()).Elem()
	for i := 0; i < n.NumField(); i++ {
		name := n.Type().Field(i).Name
		n.Field(i).Set(a.FieldByName(name))
		e.FieldByName(name).Set(a.FieldByName(name))
	}
	return n.Interface(), e.Interface()
}

// ---------------------------------------------------------------------------
// running one history

type hfail struct {
	step   int // 0-based step whose send was judged
	kind   string
	d      *diff
	detail string
	wire   string
	got    string
	sent   any // what was handed to the client at the judged step
	expect any // what the server has to bind (differs from sent for the projections)
}

// attachFile makes the request a multipart one (the client switches to multipart/form-data when a file is attached).
func attachFile(r *client.Request) {
	r.AddFileWithReader("blob.bin", nopCloser{strings.NewReader("x")})
}

// applyStep performs one configuration step of a request-level history.
func applyStep(r *client.Request, src source, step int, v any) {
	if src == srcMultipart {
		r.SetFormDataWithStruct(v)
		if step == 0 {
			attachFile(r) // later steps reconfigure the form fields of a request that already is multipart
		}
		return
	}
	configure(r, src, v)
}

// otherBody: the body carrier used for the earlier steps of a "switch" history.
func otherBody(src source, step int) source {
	ring := []source{srcForm, srcJSON, srcXML, srcCBOR}
	for i, s := range ring {
		if s == src {
			return ring[(i+1+step%3)%4]
		}
	}
	return src
}

// runHistory executes one history on the station and returns the first failing judged send (nil = all equal),
// and the number of requests sent.
func (st *station) runHistory(h hcontainer, src source, vals []any) (f *hfail, sends int) {
	judgeAs := func(step int, status int, body string, err error, sent, expect any) *hfail {
		sends++
		kind, d, detail := st.judge(status, body, err, expect)
		if kind == "" {
			return nil
		}
		return &hfail{step, kind, d, detail, wireHead(st.wire), goLit(st.obs.got), sent, expect}
	}
	judge := func(step int, status int, body string, err error) *hfail {
		return judgeAs(step, status, body, err, vals[step], vals[step])
	}
	last := len(vals) - 1
	switch h {
	case hRequest, hSwitch:
		r := st.cl.R()
		for i, v := range vals {
			s := src
			if h == hSwitch && i != last {
				s = otherBody(src, i)
			}
			applyStep(r, s, i, v)
		}
		status, body, err := st.fire(r, src)
		return judge(last, status, body, err), sends
	case hClient:
		names := fieldNames(vals[0])
		defer func() {
			st.cl.DelParams(names...)
			st.cl.DelCookies(names...)
		}()
		for i, v := range vals {
			if src == srcQuery {
				st.cl.SetParamsWithStruct(v)
			} else {
				st.cl.SetCookiesWithStruct(v)
			}
			status, body, err := st.fire(st.cl.R(), src)
			if f := judge(i, status, body, err); f != nil {
				return f, sends
			}
		}
	case hPooled, hPooledScalars, hPooledSlices:
		for i, v := range vals {
			sent, expect := v, v
			if h != hPooled && i == last {
				sent, expect = project(v, h == hPooledSlices)
			}
			status, body, err := st.send(src, sent)
			if f := judgeAs(i, status, body, err, sent, expect); f != nil {
				return f, sends
			}
		}
	case hResent:
		r := client.AcquireRequest().SetClient(st.cl)
		defer client.ReleaseRequest(r)
		for i, v := range vals {
			applyStep(r, src, i, v)
			st.obs = obs{}
			resp, err := r.SetMethod(methodOf(src)).SetURL("http://c11.test/").Send()
			status, body := 0, ""
			if err == nil {
				status, body = resp.StatusCode(), string(resp.Body())
				client.ReleaseResponse(resp) // the Request stays with the caller
			}
			if f := judge(i, status, body, err); f != nil {
				return f, sends
			}
		}
	}
	return nil, sends
}

// changed: does the history configure at least two different values in a row?
func changed(vals []any) bool {
	for i := 1; i < len(vals); i++ {
		if goLit(vals[i]) != goLit(vals[i-1]) {
			return true
		}
	}
	return false
}

// earlierClass: class of the named field in the most recent earlier step whose field value differs from the
// judged step's (the candidate origin of a stale value).
func earlierClass(vals []any, step int, field string) string {
	cur := reflect.ValueOf(vals[step]).FieldByName(field)
	if !cur.IsValid() {
		return "?"
	}
	for i := step - 1; i >= 0; i-- {
		e := reflect.ValueOf(vals[i]).FieldByName(field)
		if fmt.Sprintf("%#v", e.Interface()) != fmt.Sprintf("%#v", cur.Interface()) {
			return valueClass(e)
		}
	}
	return "same"
}

func valueClass(f reflect.Value) string {
	if f.Kind() == reflect.Slice {
		if f.Len() == 0 {
			if f.IsNil() {
				return "nil"
			}
			return "len0"
		}
		return lenClass(f.Len())
	}
	if f.IsZero() {
		return "zero"
	}
	return "non-zero"
}

func historyLit(vals []any) []string {
	out := make([]string, len(vals))
	for i, v := range vals {
		out[i] = goLit(v)
	}
	return out
}

// ---------------------------------------------------------------------------

type hshape struct {
	Name    string
	New     func() any
	Pairs   [][]any
	Triples [][]any
}

type histBounds struct {
	H1Values, H2Values, H1TripleValues, H2TripleValues int
	Pairs, Triples                                     int
	Cells                                              int
}

func partC(r *core.Run, col *collector, sp *sampler, ordBase int64) histBounds {
	quick := r.Quick()
	h1, h2 := h1Values(false), h2Values(false)
	h1t, h2t := h1Values(quick), h2Values(quick)
	shapes := []hshape{
		{"S1", func() any { return new(S1) }, sequences(h1, 2), sequences(h1t, 3)},
		{"S2", func() any { return new(S2) }, sequences(h2, 2), sequences(h2t, 3)},
	}
	hb := histBounds{H1Values: len(h1), H2Values: len(h2), H1TripleValues: len(h1t), H2TripleValues: len(h2t)}
	type item struct {
		sh   *hshape
		h    hcontainer
		src  source
		seqs [][]any
		ord  int64
	}
	const chunk = 128
	var items []item
	ord := ordBase
	for si := range shapes {
		sh := &shapes[si]
		hb.Pairs += len(sh.Pairs)
		hb.Triples += len(sh.Triples)
		for h := hcontainer(0); h < nContainers; h++ {
			for src := source(0); src < nSources; src++ {
				if !hasContainer(h, src) {
					continue
				}
				if si == 0 {
					hb.Cells++
				}
				for _, all := range [][][]any{sh.Pairs, sh.Triples} {
					if quick && (h == hPooled || h == hPooledScalars || h == hPooledSlices) && len(all) > 0 && len(all[0]) == 3 {
						continue // quick: consecutive pooled requests in pairs only
					}
					for lo := 0; lo < len(all); lo += chunk {
						hi := lo + chunk
						if hi > len(all) {
							hi = len(all)
						}
						items = append(items, item{sh, h, src, all[lo:hi], ord})
						ord += int64(hi-lo) * 2
					}
				}
			}
		}
	}
	mpSem := make(chan struct{}, 4)
	r.Parallel(len(items), func(ii int, l *core.Local) {
		if r.Expired() {
			r.Cap("wall-clock cap reached during the history part: remaining histories not run")
			return
		}
		it := items[ii]
		if it.src == srcMultipart {
			mpSem <- struct{}{}
			defer func() { <-mpSem }()
		}
		sts := getStations()
		defer putStations(sts)
		mine := newCollector()
		// server configuration does not take part in the client-side history: the two splitting settings are
		// both run (they are separate servers), automatic handling follows the splitting setting
		variants := []variant{{split: false, auto: false}, {split: true, auto: true}}
		for hi, vals := range it.seqs {
			for vj, vr := range variants {
				ok := true
				for _, v := range vals {
					legal, comma := carrierVerdict(it.src, vr.split, v)
					if !legal || comma {
						ok = false
					}
				}
				if !ok {
					l.Add("carrier_cannot_transport_skipped", 1)
					continue
				}
				st := sts[0]
				if vr.split {
					st = sts[1]
				}
				st.ctl = ctl{src: it.src, auto: vr.auto, newDst: it.sh.New}
				caseOrd := it.ord + int64(hi)*2 + int64(vj)
				f, sends := st.runHistory(it.h, it.src, vals)
				l.Add("histories", 1)
				l.Add("history_sends", int64(sends))
				l.Add("evaluations", int64(sends))
				if changed(vals) {
					l.Add("nontrivial", int64(sends))
					l.Add("histories_with_a_change", 1)
				}
				if f == nil {
					l.Outcome(fmt.Sprintf("C %s %s %s equal", it.sh.Name, it.h, it.src))
					if caseOrd%1013 == 7 && changed(vals) {
						sp.add(caseOrd, map[string]any{"part": "history", "container": it.h.String(), "source": it.src.String(), "splitting": vr.split,
							"configured": historyLit(vals), "decoded_after_last": goLit(st.obs.got), "wire": wireHead(st.wire)})
					}
					continue
				}
				if f.kind == "harness" {
					core.Fatal("history: %s (container=%s src=%s values=%v)", f.detail, it.h, it.src, historyLit(vals))
				}
				l.Outcome(fmt.Sprintf("C %s %s %s %s", it.sh.Name, it.h, it.src, f.kind))
				// does the same value fail the same way on a fresh client request? then the history adds nothing:
				// file it under the round-trip signature of part A (same root cause)
				fst, fbody, ferr := st.send(it.src, f.sent)
				fk, fd, _ := st.judge(fst, fbody, ferr, f.expect)
				sameAsFresh := fk == f.kind && ((fd == nil) == (f.d == nil)) && (fd == nil || (fd.Field == f.d.Field && fd.Kind == f.d.Kind && fd.Class == f.d.Class))
				fname, fkind, fclass := "?", "combination", "?"
				if f.d != nil {
					fname, fkind, fclass = f.d.Field, f.d.Kind, f.d.Class
				}
				extra := ""
				if f.kind == "panic" {
					extra = " " + f.detail
				}
				cs := map[string]any{"shape": it.sh.Name, "container": it.h.String(), "source": it.src.String(), "splitting": vr.split, "auto_handling": vr.auto,
					"configured": historyLit(vals), "judged_step": f.step + 1, "handed_to_client_at_judged_step": goLit(f.sent), "field": fname, "wire": f.wire}
				obsv := map[string]any{"decoded": f.got, "detail": f.detail}
				if sameAsFresh {
					l.Add("history_failures_same_as_fresh_request", 1)
					sig := fmt.Sprintf("roundtrip %s src=%s field-kind=%s sent=%s%s", f.kind, it.src, fkind, fclass, extra)
					mine.add(sig, vr.split, caseOrd, "value decoded by the binder differs from the value the bundled client sent ("+f.kind+")", cs, obsv,
						"decoded == sent (nil and empty slices identified)")
					continue
				}
				earlier := "?"
				if f.d != nil {
					seq := append([]any(nil), vals...)
					seq[f.step] = f.expect
					earlier = earlierClass(seq, f.step, f.d.Field)
				}
				sig := fmt.Sprintf("history %s container=%s src=%s field-kind=%s sent=%s earlier=%s%s", f.kind, it.h, it.src, fkind, fclass, earlier, extra)
				mine.add(sig, vr.split, caseOrd, "after the same client-side container was configured several times, the binder decodes something else than the value configured last ("+f.kind+"); the same value on a fresh request round-trips",
					cs, obsv, "decoded == the value configured last (nil and empty slices identified)")
			}
		}
		col.mergeFrom(mine)
	})
	return hb
}
