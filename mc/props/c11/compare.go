package main

import (
	"fmt"
	"math"
	"reflect"
	"strings"
)

// diff describes the first difference between the struct sent and the struct decoded.
type diff struct {
	Field string // struct field name
	Kind  string // element kind: string, int64, ...; "slice" for element-count differences
	Class string // class of the sent value (symbol tag / numeric tag / length class)
	How   string // value-changed | fewer-elements | more-elements
}

func lenClass(n int) string {
	switch {
	case n == 0:
		return "len0"
	case n == 1:
		return "len1"
	}
	return "len>=2"
}

func scalarTag(v reflect.Value) string {
	switch v.Kind() {
	case reflect.String:
		if t, ok := tagOfStr[v.String()]; ok {
			return t
		}
		return "other"
	case reflect.Int, reflect.Int8, reflect.Int16, reflect.Int32, reflect.Int64:
		return intTag(v.Int())
	case reflect.Uint, reflect.Uint8, reflect.Uint16, reflect.Uint32, reflect.Uint64:
		return uintTag(v.Uint())
	case reflect.Float32, reflect.Float64:
		return floatTag(v.Float())
	case reflect.Bool:
		return fmt.Sprint(v.Bool())
	}
	return "?"
}

func scalarEq(a, b reflect.Value) bool {
	switch a.Kind() {
	case reflect.String:
		return a.String() == b.String()
	case reflect.Int, reflect.Int8, reflect.Int16, reflect.Int32, reflect.Int64:
		return a.Int() == b.Int()
	case reflect.Uint, reflect.Uint8, reflect.Uint16, reflect.Uint32, reflect.Uint64:
		return a.Uint() == b.Uint()
	case reflect.Float32, reflect.Float64:
		return a.Float() == b.Float() // numeric equality: -0 equals 0; NaN is not in the alphabet
	case reflect.Bool:
		return a.Bool() == b.Bool()
	}
	return false
}

// compare reports the first differing field; nil and empty slices are identified.
func compare(sent, got any) *diff {
	a := reflect.Indirect(reflect.ValueOf(sent))
	b := reflect.Indirect(reflect.ValueOf(got))
	for i := 0; i < a.NumField(); i++ {
		if !a.Type().Field(i).IsExported() {
			continue // never travels (declaration family, decl.go)
		}
		fa, fb := a.Field(i), b.Field(i)
		name := a.Type().Field(i).Name
		if fa.Kind() == reflect.Slice {
			if fa.Len() != fb.Len() {
				how := "fewer-elements"
				if fb.Len() > fa.Len() {
					how = "more-elements"
				}
				cls := lenClass(fa.Len())
				if fa.Len() == 1 {
					// for a lost / multiplied single element only three classes matter
					e := "other"
					if fa.Index(0).Kind() == reflect.String {
						switch s := fa.Index(0).String(); {
						case s == "":
							e = "empty"
						case strings.Contains(s, ","):
							e = "has-comma"
						}
					}
					cls += "[" + e + "]"
				}
				return &diff{name, "slice", cls, how}
			}
			for j := 0; j < fa.Len(); j++ {
				if !scalarEq(fa.Index(j), fb.Index(j)) {
					return &diff{name, "[]" + fa.Type().Elem().Kind().String(), scalarTag(fa.Index(j)), "value-changed"}
				}
			}
			continue
		}
		if !scalarEq(fa, fb) {
			return &diff{name, fa.Kind().String(), scalarTag(fa), "value-changed"}
		}
	}
	return nil
}

// carrierVerdict: can the carrier transport every field value of v? (legal), does v fall outside the statement
// because splitting is on and a value contains a comma? (commaUnderSplit)
func carrierVerdict(src source, split bool, v any) (legal, commaUnderSplit bool) {
	legal = true
	a := reflect.ValueOf(v)
	check := func(e reflect.Value) {
		switch e.Kind() {
		case reflect.String:
			s := e.String()
			if !strLegal(src, s) {
				legal = false
			}
			if split && strings.Contains(s, ",") {
				commaUnderSplit = true
			}
		case reflect.Float32, reflect.Float64:
			if src == srcJSON && (math.IsInf(e.Float(), 0) || math.IsNaN(e.Float())) {
				legal = false // JSON has no literal for infinities
			}
		}
	}
	for i := 0; i < a.NumField(); i++ {
		if !a.Type().Field(i).IsExported() {
			continue
		}
		f := a.Field(i)
		if f.Kind() == reflect.Slice {
			for j := 0; j < f.Len(); j++ {
				check(f.Index(j))
			}
		} else {
			check(f)
		}
	}
	return
}

func isZeroStruct(v any) bool {
	a := reflect.ValueOf(v)
	for i := 0; i < a.NumField(); i++ {
		if !a.Type().Field(i).IsExported() {
			continue
		}
		f := a.Field(i)
		if f.Kind() == reflect.Slice {
			if f.Len() != 0 {
				return false
			}
		} else if !f.IsZero() {
			return false
		}
	}
	return true
}

// onlyField returns a copy of v in which every field except i is zero.
func onlyField(v any, i int) any {
	a := reflect.ValueOf(v)
	n := reflect.New(a.Type()).Elem()
	if a.Type().Field(i).IsExported() {
		n.Field(i).Set(a.Field(i))
	}
	return n.Interface()
}

func fieldClass(v any, i int) (name, kind, class string) {
	a := reflect.ValueOf(v)
	f := a.Field(i)
	name = a.Type().Field(i).Name
	if f.Kind() == reflect.Slice {
		kind = "[]" + f.Type().Elem().Kind().String()
		class = lenClass(f.Len())
		if f.Len() == 1 {
			class += "[" + scalarTag(f.Index(0)) + "]"
		}
		return
	}
	return name, f.Kind().String(), scalarTag(f)
}

// interesting: does v hold anything an encoder/decoder pair can get wrong?
func interesting(v any) bool {
	a := reflect.ValueOf(v)
	scalar := func(e reflect.Value) bool {
		switch e.Kind() {
		case reflect.String:
			s := e.String()
			if s == "" {
				return false // as a scalar: the zero value
			}
			for i := 0; i < len(s); i++ {
				c := s[i]
				if !(c >= '0' && c <= '9' || c >= 'a' && c <= 'z' || c >= 'A' && c <= 'Z') {
					return true
				}
			}
			return len(s) > 100
		case reflect.Bool:
			return false
		default:
			t := scalarTag(e)
			return t != "small" && t != "plain" && t != "zero"
		}
	}
	for i := 0; i < a.NumField(); i++ {
		if !a.Type().Field(i).IsExported() {
			continue
		}
		f := a.Field(i)
		if f.Kind() == reflect.Slice {
			if f.Len() > 0 {
				return true
			}
		} else if scalar(f) {
			return true
		}
	}
	return false
}
