package main

import (
	"math"
	"strings"
	"unicode/utf8"
)

// ---------------------------------------------------------------------------
// sources (carriers)

type source int

const (
	srcQuery source = iota
	srcForm
	srcMultipart
	srcHeader
	srcCookie
	srcJSON
	srcXML
	srcCBOR
	nSources
)

var srcNames = [...]string{"query", "form", "multipart", "header", "cookie", "json", "xml", "cbor"}

func (s source) String() string { return srcNames[s] }

// isBody reports whether the carrier travels in the request body (and so can also be reached through Bind().Body()).
func (s source) isBody() bool {
	return s == srcForm || s == srcMultipart || s == srcJSON || s == srcXML || s == srcCBOR
}

// ---------------------------------------------------------------------------
// string alphabet

type strSym struct {
	Tag string
	V   string
}

var strAlpha = []strSym{
	{"empty", ""},
	{"a", "a"},
	{"space", "a b"},
	{"amp-eq", "a&b=c"},
	{"plus", "a+b"},
	{"pct41", "%41"},
	{"umlaut", "ü"},
	{"cjk", "日本"},
	{"semicolon", "a;b"},
	{"brackets", "[x]"},
	{"a[b]", "a[b]"},
	{"dquoted", `"q"`},
	{"angle", "<x>"},
	{"eq", "="},
	{"qmark", "?"},
	{"hash", "#"},
	{"comma", "a,b"},
	{"long300", strings.Repeat("z", 300)},
	// beyond the design list
	{"edge-ws", " a "},
	{"crlf", "a\r\nb"},
	{"nul", "a\x00b"},
	{"bad-utf8", "a\xffb"},
	{"backslash", `a\b`},
	{"lone-comma", ","},
	{"pct", "%"},
	{"bad-escape", "%zz"},
	{"entity", "&amp;"},
	{"cdata-end", "]]>"},
	{"squote", "'"},
	{"inner-tab", "a\tb"},
}

var tagOfStr = map[string]string{}

func init() {
	for _, s := range strAlpha {
		tagOfStr[s.V] = s.Tag
	}
}

func isCookieOctet(c byte) bool {
	return c == 0x21 || (c >= 0x23 && c <= 0x2B) || (c >= 0x2D && c <= 0x3A) || (c >= 0x3C && c <= 0x5B) || (c >= 0x5D && c <= 0x7E)
}

func isXMLChar(r rune) bool {
	return r == 0x9 || r == 0xA || r == 0xD || (r >= 0x20 && r <= 0xD7FF) || (r >= 0xE000 && r <= 0xFFFD) || (r >= 0x10000 && r <= 0x10FFFF)
}

// strLegal: can the carrier legally transport this string value (per the carrier's own grammar)?
func strLegal(src source, v string) bool {
	switch src {
	case srcQuery, srcForm, srcMultipart:
		return true // percent-encoding / raw part bodies carry every byte
	case srcHeader:
		// RFC 9110 field-value: no CR / LF / NUL, no leading or trailing SP / HTAB
		if strings.ContainsAny(v, "\r\n\x00") {
			return false
		}
		if v != "" && (v[0] == ' ' || v[0] == '\t' || v[len(v)-1] == ' ' || v[len(v)-1] == '\t') {
			return false
		}
		return true
	case srcCookie:
		// RFC 6265 cookie-value = *cookie-octet
		for i := 0; i < len(v); i++ {
			if !isCookieOctet(v[i]) {
				return false
			}
		}
		return true
	case srcJSON, srcCBOR:
		return utf8.ValidString(v) // JSON strings / CBOR text strings are Unicode
	case srcXML:
		if !utf8.ValidString(v) {
			return false
		}
		for _, r := range v {
			if !isXMLChar(r) {
				return false
			}
		}
		return true
	}
	return false
}

// universal strings are legal in every carrier, also under splitting; the long list is built from them.
func universalStrs() []string {
	var out []string
	for _, s := range strAlpha {
		ok := !strings.Contains(s.V, ",") && len(s.V) < 100
		for src := source(0); src < nSources && ok; src++ {
			ok = strLegal(src, s.V)
		}
		if ok {
			out = append(out, s.V)
		}
	}
	return out
}

// ---------------------------------------------------------------------------
// shapes

// S1: strings and slices of strings. No struct tags: client and binder both fall back to the field name.
type S1 struct {
	Str  string
	Strs []string
}

// S2: integers, floats, booleans and slices of them.
type S2 struct {
	I   int64
	I8  int8
	U   uint64
	U32 uint32
	F64 float64
	F32 float32
	B   bool
	Is  []int
	Fs  []float64
	Bs  []bool
	// varied only through the three slice configurations (not part of the list product)
	Us   []uint64
	F32s []float32
}

var (
	i64Alpha = []int64{0, 1, -1, math.MaxInt64, math.MinInt64}
	i8Alpha  = []int8{0, -128, 127}
	u64Alpha = []uint64{0, 1, math.MaxUint64}
	u32Alpha = []uint32{0, math.MaxUint32}
	f64Alpha = []float64{0, 1.5, -0.1, 1e21, math.MaxFloat64, math.SmallestNonzeroFloat64, 1e-7, math.Inf(1)}
	f32Alpha = []float32{0, -0.1, math.MaxFloat32, math.SmallestNonzeroFloat32, 16777216}
	bAlpha   = []bool{false, true}
	intAlpha = []int{0, 1, -1, math.MaxInt, math.MinInt}
)

func floatTag(f float64) string {
	switch {
	case f == 0:
		return "zero"
	case math.IsInf(f, 0):
		return "inf"
	case f == math.MaxFloat64:
		return "max64"
	case f == math.SmallestNonzeroFloat64:
		return "smallest64"
	case f == float64(float32(math.MaxFloat32)):
		return "max32"
	case f == float64(float32(math.SmallestNonzeroFloat32)):
		return "smallest32"
	case f == 1e21:
		return "1e21"
	case f == 1e-7:
		return "1e-7"
	case f == float64(float32(-0.1)) || f == -0.1:
		return "-0.1"
	}
	return "plain"
}

func intTag(i int64) string {
	switch i {
	case math.MaxInt64:
		return "max64"
	case math.MinInt64:
		return "min64"
	case 127, -128:
		return "int8-limit"
	case math.MaxInt16, math.MinInt16:
		return "int16-limit"
	case math.MaxInt32, math.MinInt32:
		return "int32-limit"
	}
	return "small"
}

func uintTag(u uint64) string {
	switch u {
	case math.MaxUint64:
		return "max64"
	case math.MaxUint32:
		return "max32"
	case math.MaxUint16:
		return "max16"
	case math.MaxUint8:
		return "max8"
	}
	return "small"
}

// strLists returns all lists of length <= maxLen over alpha plus the given long list.
func strLists(alpha []string, maxLen int, long []string) [][]string {
	out := [][]string{nil}
	var rec func(cur []string)
	rec = func(cur []string) {
		if len(cur) == maxLen {
			return
		}
		for _, a := range alpha {
			n := append(append([]string(nil), cur...), a)
			out = append(out, n)
			rec(n)
		}
	}
	rec(nil)
	if long != nil {
		out = append(out, long)
	}
	return out
}

func lists[T any](alpha []T, maxLen int, long []T) [][]T {
	out := [][]T{nil}
	var rec func(cur []T)
	rec = func(cur []T) {
		if len(cur) == maxLen {
			return
		}
		for _, a := range alpha {
			n := append(append([]T(nil), cur...), a)
			out = append(out, n)
			rec(n)
		}
	}
	rec(nil)
	if long != nil {
		out = append(out, long)
	}
	return out
}

func cycle[T any](alpha []T, n int) []T {
	out := make([]T, n)
	for i := range out {
		out[i] = alpha[i%len(alpha)]
	}
	return out
}

// s1Values: full product Str x Strs.
func s1Values(quick bool) []any {
	var alpha []string
	for _, s := range strAlpha {
		alpha = append(alpha, s.V)
	}
	long := cycle(universalStrs(), 40)
	var ls [][]string
	if quick {
		// lists of <= 1 over the whole alphabet, lists of exactly 2 over the first eight symbols, and the long list
		ls = strLists(alpha, 1, nil)
		for _, a := range alpha[:8] {
			for _, b := range alpha[:8] {
				ls = append(ls, []string{a, b})
			}
		}
		ls = append(ls, []string{}, long)
	} else {
		ls = strLists(alpha, 2, long)
		ls = append(ls, []string{}) // the empty non-nil slice
		// and every list of exactly three over the first six symbols (order / drop / merge effects)
		for _, a := range alpha[:6] {
			for _, b := range alpha[:6] {
				for _, c := range alpha[:6] {
					ls = append(ls, []string{a, b, c})
				}
			}
		}
	}
	var out []any
	for _, s := range alpha {
		for _, l := range ls {
			out = append(out, S1{Str: s, Strs: l})
		}
	}
	return out
}

// s2Values: (A) scalar product x three slice configurations, (B) scalar base points x product of slice lists.
func s2Values(quick bool) []any {
	var out []any
	sliceCfg := []S2{
		{},
		{Is: []int{-1}, Fs: []float64{-0.1}, Bs: []bool{true}, Us: []uint64{math.MaxUint64}, F32s: []float32{-0.1}},
		{Is: []int{math.MinInt, math.MaxInt}, Fs: []float64{math.MaxFloat64, math.SmallestNonzeroFloat64}, Bs: []bool{true, false},
			Us: []uint64{0, math.MaxUint64}, F32s: []float32{math.MaxFloat32, math.SmallestNonzeroFloat32}},
	}
	add := func(sc S2) {
		for _, c := range sliceCfg {
			v := sc
			v.Is, v.Fs, v.Bs, v.Us, v.F32s = c.Is, c.Fs, c.Bs, c.Us, c.F32s
			out = append(out, v)
		}
	}
	if !quick {
		for _, i := range i64Alpha {
			for _, i8 := range i8Alpha {
				for _, u := range u64Alpha {
					for _, u32 := range u32Alpha {
						for _, f := range f64Alpha {
							for _, f32 := range f32Alpha {
								for _, b := range bAlpha {
									add(S2{I: i, I8: i8, U: u, U32: u32, F64: f, F32: f32, B: b})
								}
							}
						}
					}
				}
			}
		}
	} else {
		// all value pairs of every two scalar fields, the other fields at their first value
		type setter func(*S2, int)
		sizes := []int{len(i64Alpha), len(i8Alpha), len(u64Alpha), len(u32Alpha), len(f64Alpha), len(f32Alpha), len(bAlpha)}
		set := []setter{
			func(s *S2, k int) { s.I = i64Alpha[k] }, func(s *S2, k int) { s.I8 = i8Alpha[k] },
			func(s *S2, k int) { s.U = u64Alpha[k] }, func(s *S2, k int) { s.U32 = u32Alpha[k] },
			func(s *S2, k int) { s.F64 = f64Alpha[k] }, func(s *S2, k int) { s.F32 = f32Alpha[k] },
			func(s *S2, k int) { s.B = bAlpha[k] },
		}
		for a := 0; a < len(set); a++ {
			for b := a + 1; b < len(set); b++ {
				for x := 0; x < sizes[a]; x++ {
					for y := 0; y < sizes[b]; y++ {
						var s S2
						set[a](&s, x)
						set[b](&s, y)
						add(s)
					}
				}
			}
		}
	}
	maxLen := 2
	if quick {
		maxLen = 1
	}
	fAlpha := f64Alpha[:7] // Inf travels as a scalar only
	isL := lists(intAlpha, maxLen, cycle(intAlpha, 40))
	fsL := lists(fAlpha, maxLen, cycle(fAlpha, 40))
	bsL := lists(bAlpha, maxLen, cycle(bAlpha, 40))
	isL = append(isL, []int{})
	base := []S2{
		{},
		{I: math.MinInt64, I8: -128, U: math.MaxUint64, U32: math.MaxUint32, F64: math.MaxFloat64, F32: math.MaxFloat32, B: true},
		{I: -1, I8: 127, U: 1, U32: 0, F64: -0.1, F32: math.SmallestNonzeroFloat32, B: false},
	}
	if quick {
		base = base[1:2]
	}
	for _, b := range base {
		for _, is := range isL {
			for _, fs := range fsL {
				for _, bs := range bsL {
					v := b
					v.Is, v.Fs, v.Bs = is, fs, bs
					out = append(out, v)
				}
			}
		}
	}
	return out
}
