package main

import (
	"bytes"
	"fmt"
	"net/url"
	"os"
	"sort"
	"strings"
)

// ---------------------------------------------------------------------------
// Position family of the totality part (strengthening round 7).
//
// The two-component requests of part B never say where, inside a request with SEVERAL pairs, the pair that makes
// binding fail stands, and the reference had no verdict for the one failure the key normalisation itself documents
// (square brackets that do not match). This family sends ONE offending pair together with one or two (thorough:
// three) pairs that bind fine, with the offender at every position (first / middle / last), in every key-value
// carrier (query and url-encoded form with the key spelt raw and percent-encoded, multipart, headers, cookies),
// for every bind target and both splitting settings, each request under manual and automatic handling.
//
// Judged:
//   - reference verdict: a key with unmatched square brackets in a carrier with bracket notation (query, form,
//     multipart), or a value that cannot be the type of a known scalar field (mustErrKV), makes the request a
//     failure wherever that pair stands -> error, 400 under automatic handling (judge);
//   - the same pairs with the offender at another position bind with the same verdict (the keys of the pairs are
//     distinct, so the order carries no meaning in any of the carriers);
//   - query, form and multipart agree with each other on the same pairs at the same position (targets whose
//     declaration is the same for every carrier);
//   - no panic, status consistent with the error, manual and automatic handling agree (judge).

type posCarrier struct {
	Tag      string
	Src      source
	Escaped  bool // query / form: keys travel percent-encoded (%5B for '[') instead of raw
	Brackets bool // the binder of this carrier documents bracket notation
}

var posCarriers = []posCarrier{
	{"query key-spelling=raw", srcQuery, false, true},
	{"query key-spelling=percent-encoded", srcQuery, true, true},
	{"form key-spelling=raw", srcForm, false, true},
	{"form key-spelling=percent-encoded", srcForm, true, true},
	{"multipart", srcMultipart, false, true},
	{"header", srcHeader, false, false},
	{"cookie", srcCookie, false, false},
}

type posOffender struct {
	Class string // "unbalanced-brackets", "type-mismatch" or "" (no reference verdict: only the consistency rules)
	P     kv
}

var symX = sym{"x", "x"}

// every key is made of [A-Za-z0-9._-] and square brackets: raw and percent-encoded spelling carry the same key
var posOffenders = []posOffender{
	{"unbalanced-brackets", kv{sym{"open", "a["}, symX}},
	{"unbalanced-brackets", kv{sym{"open-known", "Strs["}, symX}},
	{"", kv{sym{"close", "a]"}, symX}},         // no '[': bracket notation is not engaged, no reference verdict
	{"", kv{sym{"close-known", "Str]"}, symX}}, // no '[': bracket notation is not engaged, no reference verdict
	{"unbalanced-brackets", kv{sym{"lone-open", "["}, symX}},
	{"", kv{sym{"lone-close", "]"}, symX}}, // no '[': bracket notation is not engaged, no reference verdict
	{"unbalanced-brackets", kv{sym{"deep-open", "a[b][c"}, symX}},
	{"unbalanced-brackets", kv{sym{"reversed", "a][b"}, symX}},
	{"unbalanced-brackets", kv{sym{"double-open", "a[[b]"}, symX}},
	{"unbalanced-brackets", kv{sym{"items-open", "Items[0][X"}, symX}},
	{"type-mismatch", kv{sym{"known-int", "I"}, symX}},
	{"type-mismatch", kv{sym{"known-bool", "B"}, symX}},
	{"type-mismatch", kv{sym{"known-float", "F64"}, symX}},
	{"type-mismatch", kv{sym{"known-ints", "Is"}, symX}},
	{"", kv{sym{"huge-index", "Strs[99999999]"}, symX}},
	{"", kv{sym{"items-over", "Items[16001][X]"}, symX}},
	{"", kv{sym{"items-neg", "Items[-1][X]"}, symX}},
	{"", kv{sym{"deep", "a[b][c][d]"}, symX}},
	{"", kv{sym{"nested-known", "A[B][C][D]"}, symX}},
	{"", kv{sym{"dot", "."}, symX}},
	{"", kv{sym{"trailing-dot", "Str."}, symX}},
	{"", kv{sym{"map-field", "M[k]"}, symX}},
	{"", kv{sym{"pointer", "P"}, symX}},
	{"", kv{sym{"index0", "Strs[0]"}, symX}},
}

// companions: pairs that bind (or are ignored) in every target
var posCompanions = []kv{
	{sym{"known-str", "Str"}, symX},
	{sym{"known-strs", "Strs"}, sym{"a", "a"}},
	{sym{"known-strs", "Strs"}, sym{"b", "b"}},
	{sym{"known-int", "I"}, sym{"one", "1"}},
	{sym{"unknown", "zz"}, sym{"one", "1"}},
	{sym{"tag-alias", "tg"}, sym{"t", "t"}},
}

// development switch (mutant trials): C11_NO_POSITION=1 leaves the family out.
var noPosition = os.Getenv("C11_NO_POSITION") != ""

func keyRoot(k string) string {
	if i := strings.IndexAny(k, "[]."); i >= 0 {
		return k[:i]
	}
	return k
}

// unbalancedBrackets: the reference for "a key in bracket notation (it has a '[') whose square brackets do not match".
func unbalancedBrackets(k string) bool {
	if !strings.Contains(k, "[") {
		return false // a plain key that merely contains ']' is not bracket notation: no verdict
	}
	depth := 0
	for i := 0; i < len(k); i++ {
		switch k[i] {
		case '[':
			depth++
		case ']':
			depth--
			if depth < 0 {
				return true
			}
		}
	}
	return depth != 0
}

// posLists: ordered selections of distinct companions (length 1..max) that do not touch the offender's field.
func posLists(off kv, max int) [][]kv {
	var out [][]kv
	root := keyRoot(off.K.V)
	var ok []kv
	for _, c := range posCompanions {
		if c.K.V != root {
			ok = append(ok, c)
		}
	}
	var rec func(cur []int)
	rec = func(cur []int) {
		if len(cur) > 0 {
			l := make([]kv, len(cur))
			for i, j := range cur {
				l[i] = ok[j]
			}
			out = append(out, l)
		}
		if len(cur) == max {
			return
		}
	next:
		for j := range ok {
			for _, u := range cur {
				if u == j {
					continue next
				}
			}
			rec(append(append([]int(nil), cur...), j))
		}
	}
	rec(nil)
	return out
}

func buildPos(car posCarrier, pairs []kv) []byte {
	if !car.Escaped {
		return buildKV(car.Src, pairs)
	}
	var q strings.Builder
	for i, p := range pairs {
		if i > 0 {
			q.WriteByte('&')
		}
		q.WriteString(url.QueryEscape(p.K.V))
		q.WriteByte('=')
		q.WriteString(url.QueryEscape(p.V.V))
	}
	var b bytes.Buffer
	if car.Src == srcQuery {
		fmt.Fprintf(&b, "GET /?%s HTTP/1.1\r\nHost: c11.test\r\n\r\n", q.String())
	} else {
		fmt.Fprintf(&b, "POST / HTTP/1.1\r\nHost: c11.test\r\nContent-Type: application/x-www-form-urlencoded\r\nContent-Length: %d\r\n\r\n%s", q.Len(), q.String())
	}
	return b.Bytes()
}

func mustErrPos(tg target, car posCarrier, seq []kv) (bool, string) {
	if car.Brackets {
		for _, p := range seq {
			if unbalancedBrackets(p.K.V) {
				return true, "key:unbalanced-brackets"
			}
		}
	}
	return mustErrKV(tg, seq)
}

func posLabel(i, n int) string {
	switch i {
	case 0:
		return "first"
	case n:
		return "last"
	}
	return "middle"
}

func joinSet(m map[string]bool) string {
	if len(m) == 0 {
		return "none"
	}
	var s []string
	for _, l := range []string{"first", "middle", "last"} {
		if m[l] {
			s = append(s, l)
		}
	}
	return strings.Join(s, "+")
}

func seqText(seq []kv) string {
	s := make([]string, len(seq))
	for i, p := range seq {
		s[i] = p.K.V + "=" + p.V.V
	}
	return strings.Join(s, " & ")
}

// sameDeclEveryCarrier: targets whose fields are named and constrained identically for every carrier.
func sameDeclEveryCarrier(tg target) bool { return tg.Name != "S4" && tg.Name != "T1" }

type posBounds struct {
	Cases, Offenders, Companions, MaxCompanions, Carriers int
}

// positionCases enumerates (target, splitting, offender, companion list); mine selects this worker's share.
func (t *tot) runPositions(quick bool, ordBase int64, col *collector, mine func(idx int) bool) posBounds {
	max := 2
	if !quick {
		max = 3
	}
	pb := posBounds{Offenders: len(posOffenders), Companions: len(posCompanions), MaxCompanions: max, Carriers: len(posCarriers)}
	if noPosition {
		return pb
	}
	idx := -1
	for _, tg := range targets {
		if tg.Rich && noRich {
			continue
		}
		for _, off := range posOffenders {
			lists := posLists(off.P, max)
			for _, list := range lists {
				for _, split := range []bool{false, true} {
					idx++
					pb.Cases++
					if !mine(idx / 2) { // the two splitting settings of a case go to the same worker (one merged signature)
						continue
					}
					t.runPositionCase(tg, off, list, split, ordBase+int64(idx), col)
				}
			}
		}
	}
	return pb
}

type posRun struct {
	label    string
	seq      []kv
	req      []byte
	man, aut rawResult
	must     bool
	why      string
}

func (t *tot) runPositionCase(tg target, off posOffender, list []kv, split bool, ord int64, col *collector) {
	st := t.st[0]
	if split {
		st = t.st[1]
	}
	n := len(list)
	// per position: which bracket carriers reported an error (cross-source rule)
	errIn := make([]map[string]bool, n+1)
	okIn := make([]map[string]bool, n+1)
	anyMust := false
	for _, car := range posCarriers {
		km := ctl{src: car.Src, newDst: tg.New}
		ka := km
		ka.auto = true
		g := hostileGroup{KV: true, Family: "src=" + car.Src.String(), Name: fmt.Sprintf("src=%s target=%s", car.Src, tg.Name), Src: car.Src.String(), Split: split, Ctl: km}
		exec := func(seq []kv) posRun {
			r := posRun{seq: seq, req: buildPos(car, seq)}
			r.man = st.runRaw(km, r.req)
			r.aut = st.runRaw(ka, r.req)
			r.must, r.why = mustErrPos(tg, car, seq)
			t.l.Add("evaluations", 2)
			t.l.Add("position_requests", 2)
			t.l.Add("nontrivial", int64(r.man.calls+r.aut.calls))
			return r
		}
		control := exec(list)
		runs := make([]posRun, 0, n+1)
		for i := 0; i <= n; i++ {
			seq := make([]kv, 0, n+1)
			seq = append(seq, list[:i]...)
			seq = append(seq, off.P)
			seq = append(seq, list[i:]...)
			r := exec(seq)
			r.label = posLabel(i, n)
			runs = append(runs, r)
		}
		reached := control.man.calls > 0
		for _, r := range runs {
			reached = reached && r.man.calls > 0
		}
		all := append([]posRun{control}, runs...)
		// panic / status / manual-vs-automatic rules (the reference verdict is judged below, over all positions at once)
		for _, r := range all {
			if kind, detail := judge(r.man, r.aut, false); kind != "" {
				c := hostileCase{Ord: ord, Req: r.req, Tags: []string{off.P.tag() + "-among-accepted-pairs"}}
				t.report(g, st, c, kind, detail, r.man.errText, col)
			}
		}
		if !reached {
			t.l.Outcome(fmt.Sprintf("P %s refused-by-http-parser", car.Src))
			continue
		}
		missing, reported := map[string]bool{}, map[string]bool{}
		var firstMissing, firstReported *posRun
		must, why := false, ""
		for i := range runs {
			r := &runs[i]
			if r.must {
				must, why = true, r.why
				t.l.Add("totality_must_error_cases", 1)
			} else {
				t.l.Add("unspecified_skipped", 1)
			}
			if r.man.hasErr {
				reported[r.label] = true
				if firstReported == nil {
					firstReported = r
				}
			} else {
				missing[r.label] = true
				if firstMissing == nil {
					firstMissing = r
				}
			}
		}
		anyMust = anyMust || must
		switch {
		case len(missing) == 0 && !control.man.hasErr:
			t.l.Add("position_offender_rejected_companions_alone_accepted", 1)
			t.l.Outcome(fmt.Sprintf("P %s offender-rejected-at-every-position companions-alone-accepted", car.Src))
		case len(missing) == 0:
			t.l.Outcome(fmt.Sprintf("P %s rejected-with-and-without-offender", car.Src))
		case len(reported) == 0:
			t.l.Outcome(fmt.Sprintf("P %s accepted-at-every-position", car.Src))
		default:
			t.l.Outcome(fmt.Sprintf("P %s verdict-depends-on-position", car.Src))
		}
		cs := func(r *posRun) map[string]any {
			return map[string]any{"group": g.Name, "carrier": car.Tag, "splitting": split, "offending_pair": off.P.K.V + "=" + off.P.V.V, "pairs_in_order": seqText(r.seq), "position_of_offender": r.label, "raw_request": string(r.req)}
		}
		exp := "a pair the binder rejects makes binding fail wherever it stands among the pairs of the request: error, 400 under automatic handling"
		switch {
		case must && len(missing) > 0:
			class := off.Class
			if class == "" {
				class = off.P.K.Tag
			}
			sig := fmt.Sprintf("totality no-error src=%s input=%s-pair-among-accepted-pairs error-missing-when-offender=%s error-reported-when-offender=%s expected=%s", car.Src, class, joinSet(missing), joinSet(reported), why)
			col.add(sig, split, ord, "binding hostile input: no-error — a rejected pair followed or preceded by accepted pairs bound without an error", cs(firstMissing), "binding reported success ("+fmt.Sprintf("manual=%d auto=%d", firstMissing.man.status, firstMissing.aut.status)+")", exp)
		case !must && len(missing) > 0 && len(reported) > 0:
			sig := fmt.Sprintf("totality position-dependent src=%s offender=%s error-when-offender=%s no-error-when-offender=%s", car.Src, off.P.K.Tag, joinSet(reported), joinSet(missing))
			col.add(sig, split, ord, "binding hostile input: the same pairs (distinct keys) fail or bind depending on where one of them stands", cs(firstMissing), fmt.Sprintf("bound without error with the offender %s; error %q with the offender %s", firstMissing.label, clip(firstReported.man.errText, 120), firstReported.label), "the same verdict for every order of pairs with distinct keys")
		}
		if car.Brackets && sameDeclEveryCarrier(tg) {
			for i := range runs {
				if errIn[i] == nil {
					errIn[i], okIn[i] = map[string]bool{}, map[string]bool{}
				}
				if runs[i].man.hasErr {
					errIn[i][car.Src.String()] = true
				} else {
					okIn[i][car.Src.String()] = true
				}
			}
		}
	}
	if anyMust {
		return // judged by the reference in every bracket carrier
	}
	for i := range errIn {
		if len(errIn[i]) == 0 || len(okIn[i]) == 0 {
			continue
		}
		names := func(m map[string]bool) string {
			var s []string
			for k := range m {
				s = append(s, k)
			}
			sort.Strings(s)
			return strings.Join(s, "+")
		}
		seq := make([]kv, 0, n+1)
		seq = append(seq, list[:i]...)
		seq = append(seq, off.P)
		seq = append(seq, list[i:]...)
		sig := fmt.Sprintf("totality sources-disagree offender=%s error-in=%s no-error-in=%s", off.P.K.Tag, names(errIn[i]), names(okIn[i]))
		col.add(sig, split, ord, "binding hostile input: the same pairs are a failure in one carrier and bind in another",
			map[string]any{"target": tg.Name, "splitting": split, "pairs_in_order": seqText(seq), "position_of_offender": posLabel(i, n)},
			"error in "+names(errIn[i])+", none in "+names(okIn[i]), "query, url-encoded form and multipart agree on the same pairs")
	}
}
