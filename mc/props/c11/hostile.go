package main

import (
	"bytes"
	"encoding/json"
	"encoding/xml"
	"fmt"
	"mime/multipart"
	"net/url"
	"os"
	"runtime"
	"strconv"
	"strings"
	"time"

	"github.com/fxamacker/cbor/v2"

	"verifmc/core"
)

// ---------------------------------------------------------------------------
// targets of the totality part

// S3 gives the hostile bracket / dotted keys something to resolve against.
type S3 struct {
	A struct {
		B struct {
			C struct{ D string }
		}
	}
	Items []struct {
		X string
		Y int
	}
	Str  string
	Strs []string
	I    int
	Is   []int
	B    bool
	F64  float64
	P    *int
	M    map[string]string
}

// S4 (audit round 5): field declarations the key normalisation / splitting code has branches for and S3 does not
// have - an embedded struct, unexported fields, pointers to structs and to scalars, arrays, interfaces, nested
// slices, time values, multipart file headers, slices of (pointers to) structs, byte slices, a tagged field.
type S4Inner struct {
	X string
	Y int
}

type S4Emb struct {
	E      string
	hidden int
}

// S4Tail is embedded LAST: the splitting code asks it only when no field before it answered for the key.
type S4Tail struct {
	T  string
	Ts []string
}

type S4 struct {
	S4Emb
	hidden string
	Ptr    *S4Inner
	PInts  []*int
	Arr    [2]int
	Any    any
	Nest   [][]string
	When   time.Time
	Dur    time.Duration
	File   *multipart.FileHeader
	Files  []*multipart.FileHeader
	Inners []S4Inner
	PInn   []*S4Inner
	U8s    []byte
	Tagged []string `query:"tg,required" form:"tg" header:"X-Tg" cookie:"tg"`
	Str    string
	I      int
	Is     []int
	B      bool
	F64    float64
	S4Tail
}

type target struct {
	Name string
	Rich bool // explored over richKeys instead of hostileKeys
	New  func() any
	// scalar / slice fields whose textual values have an unambiguous "cannot be this type" verdict
	IntKeys, BoolKeys, FloatKeys, IntSliceKeys []string
}

var targets = []target{
	{Name: "S1", New: func() any { return new(S1) }},
	{Name: "S2", New: func() any { return new(S2) }, IntKeys: []string{"I"}, BoolKeys: []string{"B"}, FloatKeys: []string{"F64"}, IntSliceKeys: []string{"Is"}},
	{Name: "S3", New: func() any { return new(S3) }, IntKeys: []string{"I"}, BoolKeys: []string{"B"}, FloatKeys: []string{"F64"}, IntSliceKeys: []string{"Is"}},
	{Name: "map[string]string", New: func() any { m := map[string]string{}; return &m }},
	{Name: "map[string][]string", New: func() any { m := map[string][]string{}; return &m }},
	// audit round 5
	{Name: "S4", Rich: true, New: func() any { return new(S4) }, IntKeys: []string{"I"}, BoolKeys: []string{"B"}, FloatKeys: []string{"F64"}, IntSliceKeys: []string{"Is"}},
	{Name: "T1", Rich: true, New: func() any { return new(T1) }},
	{Name: "map[string]any", Rich: true, New: func() any { m := map[string]any{}; return &m }},
	{Name: "map[string]int", Rich: true, New: func() any { m := map[string]int{}; return &m }},
}

// richKeys: keys that resolve against the declarations of S4 / the aliases of T1, plus the generic hostile ones.
var richKeys = []sym{
	{"embedded", "E"}, {"embedded-last-slice", "Ts"}, {"embedded-qualified", "S4Emb.E"}, {"unexported", "hidden"}, {"ptr-struct", "Ptr.X"}, {"ptr-struct-bracket", "Ptr[Y]"},
	{"ptr-elems", "PInts"}, {"ptr-elems-index", "PInts.1"}, {"array", "Arr"}, {"array-over", "Arr.5"}, {"interface", "Any"}, {"nested", "Nest"}, {"nested-index", "Nest.0.0"},
	{"time", "When"}, {"duration", "Dur"}, {"file-field", "File"}, {"files-field", "Files"}, {"file-attr", "File.Filename"}, {"structs", "Inners.0.X"}, {"structs-neg", "Inners.-1.X"},
	{"ptr-structs", "PInn[2][Y]"}, {"bytes", "U8s"}, {"tag-alias", "tg"}, {"tag-field-name", "Tagged"}, {"t1-alias", "alpha"}, {"t1-list", "list"}, {"t1-crossed", "beta"},
	{"known-str", "Str"}, {"known-int", "I"}, {"known-ints", "Is"}, {"known-bool", "B"}, {"known-float", "F64"},
	{"open", "a["}, {"lone-close", "]"}, {"empty-key", ""}, {"dot", "."}, {"huge-index", "Inners.1999999.X"}, {"empty-index", "Ts[]"},
}

// development switch (mutant trials): C11_NO_RICH=1 leaves the rich targets and the file parts out.
var noRich = os.Getenv("C11_NO_RICH") != ""

// asFile: in the multipart carrier the component is sent as a FILE part with that field name (content "x").
var asFile = sym{"as-file", "x"}

// ---------------------------------------------------------------------------
// hostile key/value alphabet (key-value carriers)

type sym struct{ Tag, V string }

var hostileKeys = []sym{
	{"open", "a["}, {"close", "a]"}, {"lone-open", "["}, {"lone-close", "]"},
	{"deep", "a[b][c][d]"}, {"deep-known", "A[B][C][D]"},
	{"huge-index", "Strs[99999999]"}, {"empty-index", "Strs[]"}, {"index0", "Strs[0]"},
	{"items-max", "Items[16000][X]"}, {"items-over", "Items[16001][X]"}, {"items-huge", "Items[1999999][X]"}, {"items-neg", "Items[-1][X]"},
	{"items-overflow", "Items[9223372036854775808][X]"}, {"items-dotted", "Items.3.Y"}, {"items-neg-dotted", "Items.-1.X"},
	{"double-open", "a[[b]]"}, {"reversed", "a][b"}, {"empty-key", ""}, {"dot", "."}, {"trailing-dot", "Str."},
	{"known-str", "Str"}, {"known-strs", "Strs"}, {"known-int", "I"}, {"known-ints", "Is"}, {"known-bool", "B"},
	{"known-float", "F64"}, {"lower-case", "str"}, {"pointer", "P"}, {"map-field", "M[k]"}, {"pct-bracket", "a%5Bb"},
}

var hostileVals = []sym{
	{"x", "x"}, {"num-then-x", "1,x"}, {"empty", ""}, {"one", "1"}, {"comma", "a,b"}, {"overflow", "99999999999999999999"}, {"true", "true"},
}

type kv struct{ K, V sym }

func (p kv) tag() string { return p.K.Tag + "=" + p.V.Tag }

var kvSources = []source{srcQuery, srcForm, srcMultipart, srcHeader, srcCookie}

const mpBoundary = "XbXbXbX"

// buildKV renders a raw request carrying the pairs in the given carrier.
func buildKV(src source, pairs []kv) []byte {
	var b bytes.Buffer
	switch src {
	case srcQuery, srcForm:
		var q strings.Builder
		for i, p := range pairs {
			if i > 0 {
				q.WriteByte('&')
			}
			q.WriteString(p.K.V) // keys go out raw: brackets and dots are what the binder documents
			q.WriteByte('=')
			q.WriteString(url.QueryEscape(p.V.V))
		}
		if src == srcQuery {
			fmt.Fprintf(&b, "GET /?%s HTTP/1.1\r\nHost: c11.test\r\n\r\n", q.String())
		} else {
			fmt.Fprintf(&b, "POST / HTTP/1.1\r\nHost: c11.test\r\nContent-Type: application/x-www-form-urlencoded\r\nContent-Length: %d\r\n\r\n%s", q.Len(), q.String())
		}
	case srcMultipart:
		var body bytes.Buffer
		mw := multipart.NewWriter(&body)
		_ = mw.SetBoundary(mpBoundary)
		for _, p := range pairs {
			if p.V.Tag == asFile.Tag {
				if w, err := mw.CreateFormFile(p.K.V, "f.bin"); err == nil {
					_, _ = w.Write([]byte(p.V.V))
				}
				continue
			}
			_ = mw.WriteField(p.K.V, p.V.V)
		}
		_ = mw.Close()
		fmt.Fprintf(&b, "POST / HTTP/1.1\r\nHost: c11.test\r\nContent-Type: multipart/form-data; boundary=%s\r\nContent-Length: %d\r\n\r\n", mpBoundary, body.Len())
		b.Write(body.Bytes())
	case srcHeader:
		b.WriteString("GET / HTTP/1.1\r\nHost: c11.test\r\n")
		for _, p := range pairs {
			fmt.Fprintf(&b, "%s: %s\r\n", p.K.V, p.V.V)
		}
		b.WriteString("\r\n")
	case srcCookie:
		b.WriteString("GET / HTTP/1.1\r\nHost: c11.test\r\nCookie: ")
		for i, p := range pairs {
			if i > 0 {
				b.WriteString("; ")
			}
			fmt.Fprintf(&b, "%s=%s", p.K.V, p.V.V)
		}
		b.WriteString("\r\n\r\n")
	}
	return b.Bytes()
}

func pieces(v string) []string { return strings.Split(v, ",") }

// mustErrKV: the statement makes binding report failure; the only failures with an unambiguous verdict are
// textual values that cannot be the type of a known scalar field (judged only when EVERY value supplied for
// that key is unusable, so that neither first-wins nor last-wins is presumed).
func mustErrKV(t target, pairs []kv) (bool, string) {
	all := func(key string, bad func(string) bool) bool {
		n := 0
		for _, p := range pairs {
			if p.K.V == key && p.V.Tag == asFile.Tag {
				// a FILE part with the field's name: the schema decoder then replaces the field's textual values by one
				// empty value (gofiber/schema Decode: src[path] = []string{""}); like an empty value, no verdict
				return false
			}
			if p.K.V == key {
				if p.V.V == "" || !bad(p.V.V) {
					return false
				}
				n++
			}
		}
		return n > 0
	}
	for _, k := range t.IntKeys {
		if all(k, func(v string) bool { _, e := strconv.ParseInt(v, 10, 64); return e != nil }) {
			return true, k + ":not-an-int"
		}
	}
	for _, k := range t.BoolKeys {
		if all(k, func(v string) bool { _, e := strconv.ParseBool(v); return e != nil && v != "on" && v != "off" }) {
			return true, k + ":not-a-bool"
		}
	}
	for _, k := range t.FloatKeys {
		if all(k, func(v string) bool { _, e := strconv.ParseFloat(v, 64); return e != nil }) {
			return true, k + ":not-a-float"
		}
	}
	for _, k := range t.IntSliceKeys {
		if all(k, func(v string) bool {
			for _, pc := range pieces(v) {
				if pc == "" {
					continue
				}
				if _, e := strconv.ParseInt(pc, 10, 64); e != nil {
					return true
				}
			}
			return false
		}) {
			return true, k + ":not-ints"
		}
	}
	return false, ""
}

// ---------------------------------------------------------------------------
// hostile bodies

func cborOf(v any) string { b, _ := cbor.Marshal(v); return string(b) }

var bodyFrags = []sym{
	// JSON
	{"j-open", `{`}, {"j-close", `}`}, {"j-key-only", `{"Str":`}, {"j-string", `"x"`},
	{"j-ok", `{"Str":"x","Strs":["y"]}`}, {"j-num-for-str", `{"Str":1}`}, {"j-str-for-slice", `{"Strs":"x"}`},
	{"j-str-for-int", `{"I":"x"}`}, {"j-huge-exp", `{"I":1e400}`}, {"j-int-overflow", `{"I":99999999999999999999}`},
	{"j-array", `[1,2]`}, {"j-null", `null`}, {"j-dup-keys", `{"Str":"x","Str":1}`},
	{"j-nested-known", `{"A":{"B":{"C":{"D":1}}}}`}, {"j-items", `{"Items":[{"X":1}]}`},
	{"j-deep", strings.Repeat("[", 1000)}, {"j-bad-utf8", "{\"Str\":\"\xff\"}"},
	// XML
	{"x-open", `<S1>`}, {"x-close", `</S1>`}, {"x-elem", `<Str>x</Str>`}, {"x-ok", `<S1><Str>x</Str><Strs>y</Strs></S1>`},
	{"x-str-for-int", `<S2><I>x</I></S2>`}, {"x-mismatch", `<S1><Str>x</S1>`}, {"x-decl", `<?xml version="1.0"?>`},
	{"x-doctype", `<!DOCTYPE x [<!ENTITY a "b">]>`}, {"x-undef-entity", `<S1><Str>&nope;</Str></S1>`},
	{"x-nul", "<S1><Str>\x00</Str></S1>"}, {"x-deep", strings.Repeat("<a>", 1000)},
	// CBOR
	{"c-ok", cborOf(map[string]any{"Str": "x"})}, {"c-trunc", cborOf(map[string]any{"Str": "x"})[:5]},
	{"c-text", "\x61x"}, {"c-indef-map", "\xbf"}, {"c-huge-array", "\x9b\xff\xff\xff\xff\xff\xff\xff\xff"},
	{"c-huge-bytes", "\x5b\x7f\xff\xff\xff\xff\xff\xff\xff"}, {"c-int-for-str", cborOf(map[string]any{"Str": 1})},
	{"c-break", "\xff"}, {"c-tag", "\xc0\x61x"}, {"c-deep", strings.Repeat("\x81", 1000)},
	{"c-big-for-int", cborOf(map[string]any{"I": uint64(1 << 63)})},
	// form / multipart
	{"f-pair", `Str=x&I=x`}, {"f-bracket", `a[=1`},
	{"m-part-trunc", "--" + mpBoundary + "\r\nContent-Disposition: form-data; name=\"Str\"\r\n\r\nx"},
	{"m-end", "\r\n--" + mpBoundary + "--\r\n"}, {"m-no-disposition", "--" + mpBoundary + "\r\n\r\nx\r\n--" + mpBoundary + "--\r\n"},
	// nothing
	{"empty", ""},
}

type ctypeSym struct {
	Tag, V string
	Family string // decoder Bind().Body() must select: json|xml|cbor|form|multipart|none
}

var ctypes = []ctypeSym{
	{"json", "application/json", "json"},
	{"json-charset", "application/json; charset=utf-8", "json"},
	{"xml", "application/xml", "xml"},
	{"text-xml", "text/xml", "xml"},
	{"cbor", "application/cbor", "cbor"},
	{"form", "application/x-www-form-urlencoded", "form"},
	{"multipart", "multipart/form-data; boundary=" + mpBoundary, "multipart"},
	{"text", "text/plain", "none"},
	{"absent", "", "none"},
	{"vendor-json", "application/vnd.api+json", "?"},
}

// how the handler binds a body
type bodyVia struct {
	Tag     string
	Src     source
	ViaBody bool
}

var bodyVias = []bodyVia{
	{"Body()", srcJSON, true}, {"JSON()", srcJSON, false}, {"XML()", srcXML, false}, {"CBOR()", srcCBOR, false}, {"Form()", srcForm, false},
}

func buildBody(ct ctypeSym, body string) []byte {
	var b bytes.Buffer
	b.WriteString("POST / HTTP/1.1\r\nHost: c11.test\r\n")
	if ct.V != "" {
		fmt.Fprintf(&b, "Content-Type: %s\r\n", ct.V)
	}
	fmt.Fprintf(&b, "Content-Length: %d\r\n\r\n%s", len(body), body)
	return b.Bytes()
}

// mustErrBody: reference verdict by the codec the documentation names for the decoder in use.
func mustErrBody(t target, via bodyVia, ct ctypeSym, body string) (bool, string) {
	fam := ct.Family
	if !via.ViaBody {
		switch via.Src {
		case srcJSON:
			fam = "json"
		case srcXML:
			fam = "xml"
		case srcCBOR:
			fam = "cbor"
		default:
			return false, "" // Form(): urlencoded parsing has no failure verdict of its own
		}
	}
	switch fam {
	case "none":
		return true, "unsupported-content-type"
	case "json":
		if json.Unmarshal([]byte(body), t.New()) != nil {
			return true, "reference-json-rejects"
		}
	case "xml":
		if xml.Unmarshal([]byte(body), t.New()) != nil {
			return true, "reference-xml-rejects"
		}
	case "cbor":
		if cbor.Unmarshal([]byte(body), t.New()) != nil {
			return true, "reference-cbor-rejects"
		}
	}
	return false, ""
}

// ---------------------------------------------------------------------------
// execution

type rawResult struct {
	status   int
	calls    int
	errText  string
	hasErr   bool
	panicked string
}

func (st *station) runRaw(k ctl, req []byte) rawResult {
	st.ctl = k
	status, _, pan := st.raw(req)
	r := rawResult{status: status, calls: st.obs.calls, panicked: pan}
	if st.obs.err != nil {
		r.hasErr = true
		r.errText = st.obs.err.Error()
	}
	return r
}

func totalAlloc() uint64 {
	var ms runtime.MemStats
	runtime.ReadMemStats(&ms)
	return ms.TotalAlloc
}

// hostileCase is one raw request plus what the reference says about it.
type hostileCase struct {
	Ord      int64
	Req      []byte
	Tags     []string // component tags (1 or 2)
	MustErr  bool
	Why      string
	Rebuild  func(keep []int) []byte // request with only the listed components (for minimisation)
	RefAgain func(keep []int) (bool, string)
}

type hostileGroup struct {
	KV     bool   // key-value carrier (component tags are key=value)
	Family string // for signatures that do not depend on the target: "via=Body() content-type=text" / "src=query"
	Unit   int    // twin groups (splitting off / on) share a unit
	Name   string // e.g. "src=query target=S2"
	Src    string
	Split  bool
	Ctl    ctl
	Cases  func(yield func(func() hostileCase))
	NCases int
}

type tot struct {
	batches int
	sample  bool // only worker 0 contributes samples (its shard is fixed, so the samples are the same on every run)
	l       *core.Local
	st      [2]*station
	budget  uint64
	ord     int64
	marker  string // file written before the worker leaves on a harness error
}

// judge applies the totality oracle to one (manual, auto) pair of executions; returns a failure kind or "".
func judge(man, aut rawResult, mustErr bool) (kind, detail string) {
	switch {
	case man.panicked != "":
		return "panic", man.panicked
	case aut.panicked != "":
		return "panic", aut.panicked
	}
	if man.calls == 0 && aut.calls == 0 {
		return "", "" // refused by the HTTP parser before any binding
	}
	if man.calls != aut.calls {
		return "harness", "handler reached in one mode only"
	}
	if man.hasErr != aut.hasErr {
		return "auto-manual-disagree", fmt.Sprintf("manual err=%v auto err=%v", man.hasErr, aut.hasErr)
	}
	if mustErr && !man.hasErr {
		return "no-error", "binding reported success"
	}
	if man.hasErr {
		if man.status != manualStatus {
			return "harness", fmt.Sprintf("manual status %d", man.status)
		}
		if aut.status != 400 {
			return "auto-status", fmt.Sprintf("status=%d", aut.status)
		}
	} else if man.status != 200 || aut.status != 200 {
		return "status-without-error", fmt.Sprintf("manual=%d auto=%d", man.status, aut.status)
	}
	return "", ""
}

func (t *tot) runGroup(g hostileGroup, col *collector, mine func(idx int) bool, progress func(int)) {
	st := t.st[0]
	if g.Split {
		st = t.st[1]
	}
	const batch = 64
	cases := make([]hostileCase, 0, batch)
	resM := make([]rawResult, batch)
	resA := make([]rawResult, batch)
	km, ka := g.Ctl, g.Ctl
	km.auto, ka.auto = false, true
	n := 0
	flush := func() {
		if len(cases) == 0 {
			return
		}
		progress(n)
		before := totalAlloc()
		for i := range cases {
			resM[i] = st.runRaw(km, cases[i].Req)
			resA[i] = st.runRaw(ka, cases[i].Req)
		}
		delta := totalAlloc() - before
		t.l.Add("alloc_batches", 1)
		t.batches++
		if delta > t.budget {
			// some request of the batch may be over budget: measure them one by one
			t.l.Add("alloc_batches_remeasured", 1)
			for i := range cases {
				for _, k := range []ctl{km, ka} {
					b := totalAlloc()
					st.runRaw(k, cases[i].Req)
					if d := totalAlloc() - b; d > t.budget {
						t.report(g, st, cases[i], "alloc-over-budget", fmt.Sprintf("%d bytes allocated for a %d-byte request (budget %d)", d, len(cases[i].Req), t.budget), "", col)
						break
					}
				}
			}
		}
		for i, c := range cases {
			t.l.Add("evaluations", 2)
			t.l.Add("totality_requests", 2)
			m, a := resM[i], resA[i]
			t.l.Add("nontrivial", int64(m.calls+a.calls))
			switch {
			case m.calls == 0:
				t.l.Outcome(fmt.Sprintf("T %s refused-by-http-parser status=%d", g.Src, m.status))
			case m.hasErr:
				t.l.Outcome(fmt.Sprintf("T %s bind-error manual=%d auto=%d", g.Src, m.status, a.status))
			default:
				t.l.Outcome(fmt.Sprintf("T %s bound-without-error status=%d", g.Src, m.status))
			}
			if c.MustErr {
				t.l.Add("totality_must_error_cases", 1)
			} else if m.calls > 0 {
				t.l.Add("unspecified_skipped", 1) // whether this input has to fail is not specified; only panic/status/consistency/allocation are judged
			}
			if kind, detail := judge(m, a, c.MustErr); kind != "" {
				t.report(g, st, c, kind, detail, m.errText, col)
			}
			if t.sample && i == 0 && (t.batches == 1 || t.batches == 40 || t.batches == 160) {
				t.l.Sample(map[string]any{"ord": c.Ord, "part": "totality", "group": g.Name, "request": clip(string(c.Req), 300), "manual_status": m.status, "auto_status": a.status, "bind_error": m.hasErr, "must_error": c.MustErr})
			}
		}
		cases = cases[:0]
	}
	idx := -1
	g.Cases(func(mk func() hostileCase) {
		idx++
		if !mine(idx) {
			return
		}
		c := mk()
		c.Ord = t.ord + int64(idx)
		cases = append(cases, c)
		n = idx
		if len(cases) == batch {
			flush()
		}
	})
	flush()
}

// report minimises the failing case to the smallest component subset that still fails the same way and
// files the violation under a signature naming that subset.
func wordsOnly(s string) string {
	var b strings.Builder
	for _, r := range s {
		switch {
		case r >= 'a' && r <= 'z', r >= 'A' && r <= 'Z':
			b.WriteRune(r)
		case b.Len() > 0 && b.String()[b.Len()-1] != '-':
			b.WriteByte('-')
		}
		if strings.Count(b.String(), "-") >= 5 {
			break
		}
	}
	return strings.Trim(b.String(), "-")
}

func (t *tot) report(g hostileGroup, st *station, c hostileCase, kind, detail, errText string, col *collector) {
	tags := c.Tags
	req := c.Req
	if len(c.Tags) == 2 && c.Rebuild != nil {
		km, ka := g.Ctl, g.Ctl
		km.auto, ka.auto = false, true
		for _, keep := range [][]int{{0}, {1}} {
			r := c.Rebuild(keep)
			must, _ := c.RefAgain(keep)
			var k2 string
			if kind == "alloc-over-budget" {
				b := totalAlloc()
				st.runRaw(km, r)
				if totalAlloc()-b > t.budget {
					k2 = kind
				}
			} else {
				k2, _ = judge(st.runRaw(km, r), st.runRaw(ka, r), must)
			}
			if k2 == kind {
				tags, req = []string{c.Tags[keep[0]]}, r
				break
			}
		}
	}
	if kind == "harness" {
		// the marker tells the coordinator that this worker ended on a harness error, not on a fatal error of the
		// Go runtime (out of memory, ...), which leaves with the same exit status 2
		if t.marker != "" {
			_ = os.WriteFile(t.marker, []byte(detail), 0o644)
		}
		core.Fatal("totality: %s (%s) on %q", detail, g.Name, clip(string(req), 200))
	}
	// signatures name the root-cause class: the component(s) of the minimised request that matter for the kind
	keyOnly := make([]string, len(tags))
	for i, tg := range tags {
		keyOnly[i] = tg
		if g.KV {
			keyOnly[i] = tg[:strings.LastIndex(tg, "=")] // key tag without the value tag
			if strings.HasSuffix(tg, "="+asFile.Tag) {
				keyOnly[i] += "(file-part)"
			}
		}
	}
	var sig string
	switch kind {
	case "panic":
		// the panic site and message identify the defect; the key class says how it is reached
		sig = fmt.Sprintf("totality panic %s input=%s", detail, strings.Join(keyOnly, "+"))
	case "auto-status":
		// wrong status under automatic handling: a property of the bind call and the error, not of the input
		sig = fmt.Sprintf("totality auto-status %s %s error=%s", detail, g.Family, wordsOnly(errText))
	case "alloc-over-budget":
		sig = fmt.Sprintf("totality alloc-over-budget %s input=%s", g.Name, strings.Join(keyOnly, "+"))
	case "no-error":
		sig = fmt.Sprintf("totality no-error %s input=%s expected=%s", g.Name, strings.Join(tags, "+"), c.Why)
	default:
		sig = fmt.Sprintf("totality %s %s input=%s", kind, g.Name, strings.Join(tags, "+"))
	}
	what := "binding hostile input: " + kind + " — " + detail
	cs := map[string]any{"group": g.Name, "splitting": g.Split, "components": tags, "raw_request": string(req)}
	exp := "no panic; failure reported as an error; 400 under automatic handling; allocation within budget"
	if g.KV {
		col.add(sig, g.Split, c.Ord, what, cs, detail, exp)
	} else {
		col.addNoSplit(sig, c.Ord, what, cs, detail, exp)
	}
}

func clip(s string, n int) string {
	if len(s) > n {
		return s[:n] + "…"
	}
	return s
}

// hostileGroups enumerates every group of the totality part for the tier.
func hostileGroups(quick bool) []hostileGroup {
	var out []hostileGroup
	unit := 0
	vals := hostileVals
	if quick {
		vals = hostileVals[:3]
	}
	pairsOf := func(keys []sym, src source) []kv {
		var pairs []kv
		vs := vals
		if src == srcMultipart && !noRich {
			vs = append(append([]sym(nil), vals...), asFile)
		}
		for _, k := range keys {
			for _, v := range vs {
				pairs = append(pairs, kv{k, v})
			}
		}
		return pairs
	}
	for _, src := range kvSources {
		for _, tg := range targets {
			if tg.Rich && noRich {
				continue
			}
			unit++
			keys := hostileKeys
			if tg.Rich {
				keys = richKeys
			}
			pairs := pairsOf(keys, src)
			for _, split := range []bool{false, true} {
				src, tg, split := src, tg, split
				mk := func(ps []kv) hostileCase {
					must, why := mustErrKV(tg, ps)
					tags := make([]string, len(ps))
					for i, p := range ps {
						tags[i] = p.tag()
					}
					c := hostileCase{Req: buildKV(src, ps), Tags: tags, MustErr: must, Why: why}
					if len(ps) == 2 {
						c.Rebuild = func(keep []int) []byte { return buildKV(src, []kv{ps[keep[0]]}) }
						c.RefAgain = func(keep []int) (bool, string) { return mustErrKV(tg, []kv{ps[keep[0]]}) }
					}
					return c
				}
				out = append(out, hostileGroup{
					Unit: unit, KV: true, Family: "src=" + src.String(),
					Name: fmt.Sprintf("src=%s target=%s", src, tg.Name), Src: src.String(), Split: split,
					Ctl:    ctl{src: src, newDst: tg.New},
					NCases: len(pairs) + len(pairs)*len(pairs),
					Cases: func(yield func(func() hostileCase)) {
						for _, p := range pairs {
							yield(func() hostileCase { return mk([]kv{p}) })
						}
						for _, p := range pairs {
							for _, q := range pairs {
								yield(func() hostileCase { return mk([]kv{p, q}) })
							}
						}
					},
				})
			}
		}
	}
	// bodies: single fragments and ordered concatenations of two
	frags := bodyFrags
	pairFrags := bodyFrags
	if quick {
		pairFrags = nil
		for i, f := range bodyFrags {
			if i%3 == 0 {
				pairFrags = append(pairFrags, f)
			}
		}
	}
	for _, via := range bodyVias {
		for _, ct := range ctypes {
			if quick && !via.ViaBody && ct.Tag != "json" && ct.Tag != "multipart" && ct.Tag != "text" {
				continue // quick: the per-codec methods ignore the content type, three of them are enough
			}
			for _, tg := range targets[:3] {
				via, ct, tg := via, ct, tg
				unit++
				mk := func(fs []sym) hostileCase {
					body := ""
					tags := make([]string, len(fs))
					for i, f := range fs {
						body += f.V
						tags[i] = f.Tag
					}
					must, why := mustErrBody(tg, via, ct, body)
					c := hostileCase{Req: buildBody(ct, body), Tags: tags, MustErr: must, Why: why}
					if len(fs) == 2 {
						c.Rebuild = func(keep []int) []byte { return buildBody(ct, fs[keep[0]].V) }
						c.RefAgain = func(keep []int) (bool, string) { return mustErrBody(tg, via, ct, fs[keep[0]].V) }
					}
					return c
				}
				out = append(out, hostileGroup{
					Unit: unit, Family: fmt.Sprintf("via=%s content-type=%s", via.Tag, ct.Tag),
					Name: fmt.Sprintf("src=body via=%s content-type=%s target=%s", via.Tag, ct.Tag, tg.Name), Src: "body:" + via.Tag, Split: false,
					Ctl:    ctl{src: via.Src, viaBody: via.ViaBody, newDst: tg.New},
					NCases: len(frags) + len(pairFrags)*len(pairFrags),
					Cases: func(yield func(func() hostileCase)) {
						for _, f := range frags {
							yield(func() hostileCase { return mk([]sym{f}) })
						}
						for _, f := range pairFrags {
							for _, h := range pairFrags {
								yield(func() hostileCase { return mk([]sym{f, h}) })
							}
						}
					},
				})
			}
		}
	}
	return out
}
