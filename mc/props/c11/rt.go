package main

import (
	"bufio"
	"bytes"
	"errors"
	"fmt"
	"io"
	"reflect"
	"runtime/debug"
	"strings"

	"github.com/gofiber/fiber/v3"
	"github.com/gofiber/fiber/v3/client"
	"github.com/valyala/fasthttp"

	"verifmc/fx"
)

// manualStatus is what the handler answers itself when it handles the bind error manually.
const manualStatus = 418

// ctl tells the handler what to do with the next request; obs is what it saw.
type ctl struct {
	src     source
	viaBody bool // use Bind().Body() (source selected by Content-Type) instead of the per-source method
	auto    bool // Bind().WithAutoHandling()
	newDst  func() any
	// manualExplicit: without automatic handling the handler says so (Bind().WithoutAutoHandling()) instead of relying
	// on the documented default; set for the servers with splitting on, so that both spellings are explored
	manualExplicit bool
	// prog: the handler performs several binds in this order on the one request (combined family, combo.go);
	// every step binds into a fresh value of the shape and is recorded in obs.multi
	prog []bindStep
	// mode (option histories, modes.go): the handling mode this ONE request asks for, spelled exactly as given
	// (hmLegacy: the station-wide convention above); custom: bind through Bind().Custom(name)
	mode   hmode
	custom string
}

// bindStep is one bind call of a handler that binds several sources of one request.
type bindStep struct {
	src     source
	viaBody bool
}

type stepObs struct {
	got any
	err error
}

type obs struct {
	calls    int
	got      any
	err      error
	panicked string
	multi    []stepObs
	// redundant-configuration stations: what the configured StructValidator was handed
	validated int
	// what the handler saw right after its bind call returned, before it touched the response itself
	afterBind int
	ctxID     uintptr // identity of the (pooled) ctx that served the request
}

// station is one independent server (+ bundled client wired to it through an in-memory round tripper).
type station struct {
	app   *fiber.App
	srv   *fasthttp.Server
	cl    *client.Client
	flv   flavor
	split bool
	envCl map[envOpt]*client.Client // clients carrying one client-level envelope option each (family.go)
	ctl   ctl
	obs   obs
	wire  []byte // last request as the client serialised it
	buf   bytes.Buffer
	bw    *bufio.Writer
	br    *bufio.Reader
}

func bindInto(c fiber.Ctx, k ctl, dst any) error {
	b := c.Bind()
	switch k.mode {
	case hmManualDefault: // the documented default: nothing is said
	case hmManualExplicit:
		b = b.WithoutAutoHandling()
	case hmAuto:
		b = b.WithAutoHandling()
	default:
		if k.auto {
			b = b.WithAutoHandling()
		} else if k.manualExplicit {
			b = b.WithoutAutoHandling()
		}
	}
	if k.custom != "" {
		return b.Custom(k.custom, dst)
	}
	if k.viaBody {
		return b.Body(dst)
	}
	switch k.src {
	case srcQuery:
		return b.Query(dst)
	case srcForm, srcMultipart:
		return b.Form(dst)
	case srcHeader:
		return b.Header(dst)
	case srcCookie:
		return b.Cookie(dst)
	case srcJSON:
		return b.JSON(dst)
	case srcXML:
		return b.XML(dst)
	case srcCBOR:
		return b.CBOR(dst)
	}
	return errors.New("harness: unknown source")
}

func panicSite(stack string) string {
	// first frame below the runtime panic machinery, without addresses
	lines := strings.Split(stack, "\n")
	for i := 0; i < len(lines); i++ {
		l := strings.TrimSpace(lines[i])
		if strings.HasPrefix(l, "panic(") {
			for j := i + 2; j < len(lines); j += 2 {
				f := strings.TrimSpace(lines[j])
				if strings.HasPrefix(f, "runtime.") || strings.HasPrefix(f, "reflect.") {
					continue
				}
				if k := strings.LastIndex(f, "("); k > 0 {
					f = f[:k]
				}
				return f
			}
		}
	}
	return "?"
}

func newStation(split bool) *station { return newStationFlavor(split, flvPlain) }

// newStationFlavor builds a server whose configuration carries fields that are redundant for binding (cfg.go).
func newStationFlavor(split bool, flv flavor) *station {
	st := &station{flv: flv, split: split}
	cfg := fiber.Config{
		EnableSplittingOnParsers: split,
		ReadBufferSize:           1 << 17, // long slices in headers / query strings must fit the request head
	}
	flv.apply(st, &cfg)
	app := fiber.New(cfg)
	flv.register(st, app)
	app.Use(func(c fiber.Ctx) (err error) {
		defer func() {
			if p := recover(); p != nil {
				st.obs.panicked = fmt.Sprintf("%v @ %s", p, panicSite(string(debug.Stack())))
				err = c.Status(599).SendString("panic")
			}
		}()
		return c.Next()
	})
	app.All("/", func(c fiber.Ctx) error {
		st.obs.calls++
		if len(st.ctl.prog) > 0 {
			// several binds on the one request, each into a fresh value
			for _, step := range st.ctl.prog {
				k := st.ctl
				k.manualExplicit = st.split
				k.src, k.viaBody = step.src, step.viaBody
				dst := st.ctl.newDst()
				err := bindInto(c, k, dst)
				st.obs.multi = append(st.obs.multi, stepObs{dst, err})
				if err != nil {
					st.obs.err = err
					if st.ctl.auto {
						return err
					}
					return c.Status(manualStatus).SendString(err.Error())
				}
			}
			return c.SendString("ok")
		}
		dst := st.ctl.newDst()
		k := st.ctl
		k.manualExplicit = st.split
		err := bindInto(c, k, dst)
		st.obs.got, st.obs.err = dst, err
		st.obs.afterBind, st.obs.ctxID = c.Response().StatusCode(), reflect.ValueOf(c).Pointer()
		if err != nil {
			if st.ctl.auto || st.ctl.mode == hmAuto {
				return err // documented use of automatic handling: just return the error
			}
			return c.Status(manualStatus).SendString(err.Error())
		}
		return c.SendString("ok")
	})
	app.Handler() // startup processing
	st.app, st.srv = app, app.Server()
	st.bw = bufio.NewWriterSize(&st.buf, 1<<16)
	st.br = bufio.NewReaderSize(bytes.NewReader(nil), 1<<12)
	st.cl = client.NewWithClient(&fasthttp.Client{Transport: st, NoDefaultUserAgentHeader: true})
	return st
}

// RoundTrip implements fasthttp.RoundTripper: serialise the request exactly as the real transport does
// (req.Write), serve it on an in-memory connection, parse the answer back (resp.Read).
func (st *station) RoundTrip(_ *fasthttp.HostClient, req *fasthttp.Request, resp *fasthttp.Response) (retry bool, err error) {
	defer func() {
		if p := recover(); p != nil {
			st.obs.panicked = fmt.Sprintf("%v @ %s", p, panicSite(string(debug.Stack())))
			err = errors.New("panic in server")
		}
	}()
	st.buf.Reset()
	st.bw.Reset(&st.buf)
	if err := req.Write(st.bw); err != nil {
		return false, err
	}
	if err := st.bw.Flush(); err != nil {
		return false, err
	}
	st.wire = st.buf.Bytes()
	c := fx.NewWireConn(st.wire, nil)
	serr := st.srv.ServeConn(c)
	st.br.Reset(bytes.NewReader(c.Output()))
	if err := resp.Read(st.br); err != nil {
		return false, fmt.Errorf("harness: cannot parse server answer: %w (ServeConn: %v)", err, serr)
	}
	return false, nil
}

// headerSink lets the client's exported struct encoder (client.SetValWithStruct, the same routine behind
// SetParamsWithStruct / SetFormDataWithStruct / SetCookiesWithStruct) fill request headers: the Request has
// no SetHeadersWithStruct of its own.
type headerSink struct{ r *client.Request }

func (h headerSink) Add(k, v string) { h.r.AddHeader(k, v) }
func (h headerSink) Del(string)      {}

type nopCloser struct{ io.Reader }

func (nopCloser) Close() error { return nil }

// methodOf: the HTTP method the harness uses for a carrier.
func methodOf(src source) string {
	switch src {
	case srcQuery, srcHeader, srcCookie:
		return fiber.MethodGet
	}
	return fiber.MethodPost
}

// configure applies v to the request with the bundled client's struct-encoding API of the given source.
func configure(r *client.Request, src source, v any) {
	switch src {
	case srcQuery:
		r.SetParamsWithStruct(v)
	case srcForm:
		r.SetFormDataWithStruct(v)
	case srcMultipart:
		r.SetFormDataWithStruct(v)
		// the client switches to multipart/form-data when a file is attached
		r.AddFileWithReader("blob.bin", nopCloser{strings.NewReader("x")})
	case srcHeader:
		client.SetValWithStruct(headerSink{r}, "header", v)
	case srcCookie:
		r.SetCookiesWithStruct(v)
	case srcJSON:
		r.SetJSON(v)
	case srcXML:
		r.SetXML(v)
	case srcCBOR:
		r.SetCBOR(v)
	}
}

// fire sends a configured request to the station's server and releases request and response.
func (st *station) fire(r *client.Request, src source) (status int, body string, err error) {
	st.obs = obs{}
	resp, err := r.SetMethod(methodOf(src)).SetURL("http://c11.test/").Send()
	if err != nil {
		client.ReleaseRequest(r)
		return 0, "", err
	}
	status = resp.StatusCode()
	body = string(resp.Body())
	resp.Close()
	return status, body, nil
}

// send transports v with the bundled client's struct-encoding API of the given source (fresh request).
func (st *station) send(src source, v any) (status int, body string, err error) {
	r := st.cl.R()
	configure(r, src, v)
	return st.fire(r, src)
}

// raw serves raw request bytes on the station's server (no client involved).
func (st *station) raw(req []byte) (status int, out []byte, panicked string) {
	st.obs = obs{}
	func() {
		defer func() {
			if p := recover(); p != nil {
				panicked = fmt.Sprintf("%v @ %s", p, panicSite(string(debug.Stack())))
			}
		}()
		out, _ = fx.Serve(st.srv, req)
	}()
	if panicked == "" {
		panicked = st.obs.panicked
	}
	// "HTTP/1.1 400 Bad Request"
	if len(out) >= 12 && bytes.HasPrefix(out, []byte("HTTP/1.")) {
		status = int(out[9]-'0')*100 + int(out[10]-'0')*10 + int(out[11]-'0')
	}
	return status, out, panicked
}
