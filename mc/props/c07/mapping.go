// Family 9: THE ERROR CLASS DECIDES THE STATUS, NOT THE WORDS IN THE REQUEST.
//
// "malformed requests get the mapped 4xx status": the status of a request the server refuses is a function of
// WHY it is refused (header block larger than the read buffer -> 431, body larger than BodyLimit -> 413, a request
// that does not parse -> 400 ...). fasthttp's error values quote the first and last bytes of what the client sent,
// and the application maps errors to statuses partly by looking at the error TEXT, so the families that only ask for
// "some 4xx" cannot see a mapping that is steered by the client. This family is metamorphic and needs no table of
// expected statuses:
//
//	refusal templates (oversized header block, oversized body, several kinds of unparsable request; plus a
//	served request as control) x configurations {default, small ReadBufferSize/BodyLimit}
//	x places a word can be put (path, query, an early header value, a late header value, a header name, the body)
//	x words an error mapper or fasthttp itself may key on (timeout, too large, small buffer, EOF, ...)
//
// and the oracle is: the status line of the answer equals the status line of the SAME request with the word replaced
// by a neutral filler of the same length ('x' for every letter). One evaluation = one (template, config, place,
// word) tuple = two served requests.
package main

import (
	"bytes"
	"fmt"
	"strings"

	"github.com/gofiber/fiber/v3"

	"verifmc/core"
	"verifmc/fx"
)

var mappingWords = []string{"timeout", "Timeout", "TIMEOUT", "i/o timeout", "deadline exceeded", "too large", "body size exceeds the given limit", "small read buffer",
	"EOF", "unexpected EOF", "connection reset by peer", "broken pipe", "GET", "cannot find", "unsupported"}

// neutral replaces every letter of w by 'x' (length, spaces and punctuation kept)
func neutral(w string) string {
	b := []byte(w)
	for i, c := range b {
		if c >= 'a' && c <= 'z' || c >= 'A' && c <= 'Z' {
			b[i] = 'x'
		}
	}
	return string(b)
}

type mapTemplate struct {
	name  string
	small bool // meaningful under the small configuration only
	// build returns the request bytes with word w put at place; ok=false when the place does not exist in this template
	build func(place, w string) (req []byte, ok bool)
}

func tokenOnly(w string) bool { return !strings.ContainsAny(w, " /") }

// generic request builder: the word goes to exactly one place, every other place holds a fixed filler
func mapReq(method, versionLine string, place, w string, extraHeaders []string, pad int, body string, padLate bool) ([]byte, bool) {
	path, query, early, late, hname := "/p", "", "v", "v", "X-Name"
	switch place {
	case "path":
		if !tokenOnly(w) {
			return nil, false
		}
		path = "/" + w
	case "query":
		query = "?q=" + strings.ReplaceAll(w, " ", "+")
	case "early-header-value":
		early = w
	case "late-header-value":
		late = w
	case "header-name":
		if !tokenOnly(w) {
			return nil, false
		}
		hname = "X-" + w
	case "body":
		if body == "" {
			return nil, false
		}
		body = w + body[len(w):]
	default:
		return nil, false
	}
	var b bytes.Buffer
	fmt.Fprintf(&b, "%s %s%s %s\r\nHost: a.test\r\nX-Early: %s\r\n%s: 1\r\n", method, path, query, versionLine, early, hname)
	for _, h := range extraHeaders {
		b.WriteString(h + "\r\n")
	}
	if pad > 0 {
		fmt.Fprintf(&b, "X-Pad: %s\r\n", strings.Repeat("p", pad))
	}
	fmt.Fprintf(&b, "X-Late: %s\r\n", late)
	if body != "" {
		fmt.Fprintf(&b, "Content-Length: %d\r\n", len(body))
	}
	b.WriteString("\r\n")
	b.WriteString(body)
	return b.Bytes(), true
}

func mapTemplates() []mapTemplate {
	longBody := strings.Repeat("b", 200)
	return []mapTemplate{
		{"served", false, func(p, w string) ([]byte, bool) { return mapReq("GET", "HTTP/1.1", p, w, nil, 0, "", false) }},
		{"served-with-body", false, func(p, w string) ([]byte, bool) {
			return mapReq("POST", "HTTP/1.1", p, w, nil, 0, strings.Repeat("b", 48), false)
		}},
		{"header-block-larger-than-read-buffer", true, func(p, w string) ([]byte, bool) { return mapReq("GET", "HTTP/1.1", p, w, nil, 600, "", false) }},
		{"header-block-larger-than-default-read-buffer", false, func(p, w string) ([]byte, bool) { return mapReq("GET", "HTTP/1.1", p, w, nil, 6000, "", false) }},
		{"body-larger-than-body-limit", true, func(p, w string) ([]byte, bool) { return mapReq("POST", "HTTP/1.1", p, w, nil, 0, longBody, false) }},
		{"unparsable-version", false, func(p, w string) ([]byte, bool) { return mapReq("GET", "HTTQ/9", p, w, nil, 0, "", false) }},
		{"header-line-without-colon", false, func(p, w string) ([]byte, bool) {
			return mapReq("GET", "HTTP/1.1", p, w, []string{"this line has no colon"}, 0, "", false)
		}},
		{"space-in-header-name", false, func(p, w string) ([]byte, bool) {
			return mapReq("GET", "HTTP/1.1", p, w, []string{"X Bad Name: 1"}, 0, "", false)
		}},
		{"unparsable-content-length", false, func(p, w string) ([]byte, bool) {
			return mapReq("POST", "HTTP/1.1", p, w, []string{"Content-Length: 12abc"}, 0, "", false)
		}},
		{"two-content-lengths", false, func(p, w string) ([]byte, bool) {
			return mapReq("POST", "HTTP/1.1", p, w, []string{"Content-Length: 3", "Content-Length: 5"}, 0, "", false)
		}},
		{"nul-in-request-line", false, func(p, w string) ([]byte, bool) { return mapReq("GET\x00", "HTTP/1.1", p, w, nil, 0, "", false) }},
		{"no-method", false, func(p, w string) ([]byte, bool) { return mapReq("", "HTTP/1.1", p, w, nil, 0, "", false) }},
		{"truncated-header-block", false, func(p, w string) ([]byte, bool) {
			b, ok := mapReq("GET", "HTTP/1.1", p, w, nil, 0, "", false)
			if !ok {
				return nil, false
			}
			return b[:len(b)-2], true // the final CRLF never arrives: EOF inside the header block
		}},
	}
}

var mapPlaces = []string{"path", "query", "early-header-value", "late-header-value", "header-name", "body"}

func statusLineOf(out []byte) string {
	i := bytes.Index(out, []byte("\r\n"))
	if i < 0 {
		if len(out) == 0 {
			return "(no response)"
		}
		return "(unterminated) " + clipStr(string(out), 40)
	}
	f := strings.Fields(string(out[:i]))
	if len(f) >= 2 {
		return f[1]
	}
	return string(out[:i])
}

func runStatusMapping(r *core.Run) {
	l := core.NewLocal()
	type mcfg struct {
		name  string
		small bool
		fc    fiber.Config
	}
	cfgs := []mcfg{{"default", false, fiber.Config{}}, {"small-buffers", true, fiber.Config{ReadBufferSize: 256, BodyLimit: 64}}}
	for _, c := range cfgs {
		app := fiber.New(c.fc)
		app.All("/*", func(ctx fiber.Ctx) error { return ctx.SendString("ok") })
		serve := func(req []byte) (string, bool) {
			conn := fx.NewWireConn(req, nil)
			if pan := serveRecover(app, conn); pan != nil {
				return "PANIC " + pan.Msg, true
			}
			return statusLineOf(conn.Output()), false
		}
		for _, t := range mapTemplates() {
			if t.small && !c.small {
				continue
			}
			for _, place := range mapPlaces {
				for _, w := range mappingWords {
					req, ok := t.build(place, w)
					if !ok {
						continue
					}
					base, _ := t.build(place, neutral(w))
					got, pan := serve(req)
					want, _ := serve(base)
					l.Add("mapping_evaluations", 1)
					refused := !strings.HasPrefix(want, "2")
					if refused {
						l.Add("mapping_evaluations_refused_request", 1)
					}
					l.Outcome(fmt.Sprintf("f9 template=%s cfg=%s baseline=%s same=%v", t.name, c.name, want, got == want))
					cs := map[string]any{"template": t.name, "config": c.name, "place": place, "word": w, "request": clipReq(req), "same_request_with_neutral_filler": clipReq(base)}
					switch {
					case pan:
						l.Violate("f9 panic template="+t.name, "the server panicked", cs, got, want)
					case got != want:
						l.Violate(fmt.Sprintf("f9 status-steered-by-request-text baseline=%s got=%s word=%s", want, got, strings.ToLower(w)),
							"the status of a refused request changed when ordinary text of the request (not the reason of the refusal) was replaced by a word of the same length", cs, got, want)
					}
				}
			}
		}
	}
	r.Merge(l.P)
}

func f9Rule() string {
	var names []string
	for _, t := range mapTemplates() {
		names = append(names, t.name)
	}
	return fmt.Sprintf("F9 = the error class decides the status: %d refusal templates (%s) x configs {default, ReadBufferSize=256+BodyLimit=64} x places %v x %d words %q; "+
		"oracle: the status equals the status of the same request with the word replaced by a neutral filler of the same length. ", len(names), strings.Join(names, ", "), mapPlaces, len(mappingWords), mappingWords)
}
